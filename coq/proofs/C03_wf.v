(* C03_wf.v — status line, header list, chunk types and Content-Length, from the
   invariant of proofs/C03_proofs.v *)
From Coq Require Import String Ascii Lia ZifyBool.
From Verif Require Import lib.Base lib.Str lib.Utf8 lib.Html lib.PyIntParse model.Wsgi proofs.C03_proofs.
From Verif Require gen.Gen.

(* ------------------------------------------------------------------ *)
(* where the start_response event comes from                           *)
(* ------------------------------------------------------------------ *)

Lemma in_no_start e l : In e l -> count is_start l = 0 -> is_start e = false.
Proof.
  unfold count. induction l as [|x l IH]; intros Hin H; [contradiction|].
  simpl in H. destruct (is_start x) eqn:Hx; [discriminate|].
  destruct Hin as [<-|Hin]; [exact Hx|auto].
Qed.

Lemma start_in_mid A B C s line hl x :
  count is_start A = 0 -> count is_start B = 0 -> count is_start C = 0 ->
  In (EvStart line hl x) (A ++ B ++ [s] ++ C) -> s = EvStart line hl x.
Proof.
  intros HA HB HC Hin.
  apply in_app_or in Hin. destruct Hin as [Hin|Hin]; [pose proof (in_no_start _ _ Hin HA); discriminate|].
  apply in_app_or in Hin. destruct Hin as [Hin|Hin]; [pose proof (in_no_start _ _ Hin HB); discriminate|].
  apply in_app_or in Hin. destruct Hin as [[<-|[]]|Hin]; [reflexivity|].
  pose proof (in_no_start _ _ Hin HC); discriminate.
Qed.

Section Start.
Variable env : cenv.
Variable eh : Z -> option (resp -> ehres).

Lemma evC_no_start (b : bool) w : count is_start (if b then close_events w else []) = 0.
Proof. destruct b; [apply close_events_no_start|reflexivity]. Qed.

Lemma catchall_start A st line hl x :
  count is_start A = 0 ->
  In (EvStart line hl x) (all_events (catchall env A st)) ->
  x = true /\ line = l_catchall /\ hl = catchall_headers.
Proof.
  intros HA Hin.
  assert (H : ev_catchall = EvStart line hl x).
  { destruct (catchall_cases env A st) as [[_ E]|[[_ [b [_ E]]]|[_ [_ E]]]]; rewrite E in Hin; cbn [all_events] in Hin.
    - rewrite <- app_assoc in Hin. apply (start_in_mid A [] _ _ line hl x HA eq_refl) in Hin; [exact Hin|reflexivity].
    - rewrite <- app_assoc in Hin. apply (start_in_mid A [] _ _ line hl x HA eq_refl) in Hin; [exact Hin|reflexivity].
    - replace (A ++ [ev_catchall]) with (A ++ [] ++ [ev_catchall] ++ []) in Hin by now rewrite app_nil_r.
      apply (start_in_mid A [] [] _ line hl x HA eq_refl eq_refl) in Hin. exact Hin. }
  unfold ev_catchall in H. inversion H; subst. auto.
Qed.

(* every start_response event is either the catch-all's or carries the state of the response object *)
Lemma start_origin p line hl x :
  In (EvStart line hl x) (all_events (wsgi env eh p)) ->
  (x = true /\ line = l_catchall /\ hl = catchall_headers)
  \/ (x = false /\ exists evH st0 o w0 st wrote,
        handle p = (evH, st0, o) /\ cast env eh cast_fuel 1 o st0 = CDone w0 st wrote
        /\ headerlist st = Some hl /\ line = s_line st
        /\ wsgi env eh p = WsOk (evH ++ (if suppress env st then close_events w0 else []) ++ [EvStart line hl false])
                                (if suppress env st then WList [] else w0) st wrote).
Proof.
  intros Hin.
  destruct (wsgi_cases env eh p) as [evH st0 o w0 st wrote hl1 Hh Hc Hl | evH st0 o Hh Hc | evH st0 o w0 st wrote Hh Hc Hl
                                    | evH st0 o w0 st wrote Hh Hc Hesc].
  - right. cbn [all_events] in Hin. rewrite <- !app_assoc in Hin.
    apply start_in_mid in Hin.
    + inversion Hin; subst. split; [reflexivity|]. exists evH, st0, o, w0, st, wrote.
      split; [exact Hh|split; [exact Hc|split; [exact Hl|split; [reflexivity|]]]].
      (* destructing wsgi_cases already replaced [wsgi env eh p] by its value *)
      reflexivity.
    + exact (pre_not is_start evH pre_no_start (handle_pre _ _ _ _ Hh)).
    + apply evC_no_start.
    + apply consume_no_start.
  - left. apply (catchall_start evH st0); [|exact Hin].
    exact (pre_not is_start evH pre_no_start (handle_pre _ _ _ _ Hh)).
  - left. apply (catchall_start (evH ++ (if suppress env st then close_events w0 else [])) st); [|exact Hin].
    rewrite count_app.
    rewrite (pre_not is_start evH pre_no_start (handle_pre _ _ _ _ Hh)), evC_no_start. reflexivity.
  - exfalso. cbn [all_events] in Hin.
    exact (pre_not_in evH (EvStart line hl x) (handle_pre _ _ _ _ Hh) eq_refl Hin).
Qed.
End Start.

(* ------------------------------------------------------------------ *)
(* status line                                                         *)
(* ------------------------------------------------------------------ *)

(* what the status setter leaves for a code c: "<c in decimal> <reason>" with 100 <= c <= 999 *)
Definition status_ok (c : Z) (l : str) : Prop :=
  (100 <= c <= 999)%Z /\ exists rest, l = dec_str_of_nat (Z.to_nat c) ++ 32%N :: rest.

Definition digit_val (d : N) : nat := N.to_nat (d - 48).
(* three ASCII digits, the first not 0, then one space, then the reason phrase *)
Definition status_line_wf (l : str) : Prop :=
  exists a b c rest, l = a :: b :: c :: 32%N :: rest
    /\ is_digit a = true /\ is_digit b = true /\ is_digit c = true /\ a <> 48%N.
Definition status_line_code (l : str) : nat :=
  match l with a :: b :: c :: _ => 100 * digit_val a + 10 * digit_val b + digit_val c | _ => 0 end.

Definition three_digits_of (n : nat) (l : str) : bool :=
  match l with
  | [a; b; c] => is_digit a && is_digit b && is_digit c && negb (N.eqb a 48)
                 && Nat.eqb (100 * digit_val a + 10 * digit_val b + digit_val c) n
  | _ => false
  end.

Lemma dec3_all : forallb (fun n => three_digits_of n (dec_str_of_nat n)) (seq 100 900) = true.
Proof. vm_compute. reflexivity. Qed.

Lemma dec3 n : 100 <= n <= 999 -> three_digits_of n (dec_str_of_nat n) = true.
Proof.
  intros H. pose proof dec3_all as A. rewrite forallb_forall in A. apply A. apply in_seq. lia.
Qed.

Lemma status_ok_wf c l : status_ok c l -> status_line_wf l /\ Z.of_nat (status_line_code l) = c.
Proof.
  intros [Hc [rest ->]].
  assert (Hn : 100 <= Z.to_nat c <= 999) by lia.
  pose proof (dec3 _ Hn) as H. unfold three_digits_of in H.
  destruct (dec_str_of_nat (Z.to_nat c)) as [|a [|b [|d [|? ?]]]]; try discriminate.
  apply andb_prop in H. destruct H as [H Hv]. apply andb_prop in H. destruct H as [H Ha].
  apply andb_prop in H. destruct H as [H Hd]. apply andb_prop in H. destruct H as [Hda Hdb].
  split.
  - exists a, b, d, rest. simpl. repeat split; try assumption.
    intros ->. discriminate.
  - simpl. apply Nat.eqb_eq in Hv. lia.
Qed.

Lemma status_ok_200 : status_ok 200 (lit "200 OK").
Proof. split; [lia|]. exists (lit "OK"). reflexivity. Qed.
Lemma status_ok_500 : status_ok 500 l500.
Proof. split; [lia|]. exists (lit "Internal Server Error"). reflexivity. Qed.
Lemma status_ok_404 : status_ok 404 (lit "404 Not Found").
Proof. split; [lia|]. exists (lit "Not Found"). reflexivity. Qed.
Lemma status_ok_405 : status_ok 405 (lit "405 Method Not Allowed").
Proof. split; [lia|]. exists (lit "Method Not Allowed"). reflexivity. Qed.
Lemma status_ok_catchall : status_ok 500 l_catchall.
Proof. split; [lia|]. exists (lit "INTERNAL SERVER ERROR"). reflexivity. Qed.

Definition Tr : str -> Prop := fun _ => True.
Definition TrI : list item -> Prop := fun _ => True.

Lemma status_wf env eh p :
  wf_program status_ok Tr Tr TrI True p ->
  (forall c h r o, eh c = Some h -> wf_resp status_ok Tr Tr TrI True r -> h r = ERet o -> wf_out status_ok Tr Tr TrI True o) ->
  forall line hl x, In (EvStart line hl x) (all_events (wsgi env eh p)) ->
    status_line_wf line
    /\ (x = false -> forall ev w st b, wsgi env eh p = WsOk ev w st b ->
          line = s_line st /\ Z.of_nat (status_line_code line) = s_code st).
Proof.
  intros Hp Heh line hl x Hin.
  destruct (start_origin env eh p line hl x Hin) as [[-> [-> _]]|[-> [evH [st0 [o [w0 [st [wrote [Hh [Hc [Hl [-> Hw]]]]]]]]]]]].
  - split; [apply (status_ok_wf 500), status_ok_catchall|discriminate].
  - destruct (wsgi_invariant status_ok Tr Tr TrI True status_ok_200 status_ok_500 status_ok_404 status_ok_405
                I I I (fun _ => I) I env eh Heh (fun _ _ _ _ _ _ => I) I p evH st0 o w0 st wrote Hp Hh Hc) as [[S _] _].
    destruct (status_ok_wf _ _ S) as [W V]. split; [exact W|].
    intros _ ev w st' b Hw'. rewrite Hw in Hw'. inversion Hw'; subst. auto.
Qed.

(* ------------------------------------------------------------------ *)
(* header list                                                         *)
(* ------------------------------------------------------------------ *)

(* a header name: non-empty, printable ASCII without space and colon *)
Definition name_okb (n : str) : bool :=
  negb (match n with [] => true | _ => false end)
  && forallb (fun c => N.leb 33 c && N.ltb c 127 && negb (N.eqb c 58)) n.
(* what _hval lets through: no LF, CR, NUL (Gen.hval_forbidden) *)
Definition hval_okb (v : str) : bool := forallb (fun c => negb (existsb (N.eqb c) Gen.hval_forbidden)) v.
(* a value as PEP 3333 wants it on the wire: Latin-1, no LF, CR, NUL *)
Definition wire_okb (v : str) : bool :=
  forallb (fun c => N.ltb c 256 && negb (existsb (N.eqb c) Gen.hval_forbidden)) v.
Definition name_ok (n : str) : Prop := name_okb n = true.
Definition hval_ok (v : str) : Prop := hval_okb v = true.
Definition wire_ok (v : str) : Prop := wire_okb v = true.
Definition Tst : Z -> str -> Prop := fun _ _ => True.

Lemma forallb_flat_map {A B} (f : B -> bool) (g : A -> list B) l :
  forallb f (flat_map g l) = forallb (fun a => forallb f (g a)) l.
Proof. induction l as [|a l IH]; simpl; [reflexivity|]. now rewrite forallb_app, IH. Qed.

Lemma utf8_enc_wire c :
  negb (existsb (N.eqb c) Gen.hval_forbidden) = true ->
  forallb (fun b => N.ltb b 256 && negb (existsb (N.eqb b) Gen.hval_forbidden)) (utf8_enc c) = true.
Proof.
  intros Hc. destruct (N.ltb_spec c 128) as [Hlt|Hge].
  - rewrite utf8_enc_ascii by exact Hlt. cbn [forallb]. rewrite Hc.
    replace (N.ltb c 256) with true by (symmetry; apply N.ltb_lt; lia). reflexivity.
  - pose proof (utf8_enc_high c Hge) as H. apply forallb_forall. intros b Hb.
    rewrite Forall_forall in H. specialize (H b Hb).
    unfold Gen.hval_forbidden. cbn [existsb]. lia.
Qed.

Lemma transcode_wire v v' : transcode v = Some v' -> hval_ok v -> wire_ok v'.
Proof.
  unfold transcode, utf8_encode, hval_ok, wire_ok, hval_okb, wire_okb.
  destruct (forallb scalarb v); [|discriminate]. intros H; inversion H; subst. intros Hv.
  unfold utf8_enc_str. rewrite forallb_flat_map. apply forallb_forall. intros c Hc.
  rewrite forallb_forall in Hv. apply utf8_enc_wire. now apply Hv.
Qed.

Definition kv_ok (kv : str * str) : Prop := name_ok (fst kv) /\ wire_ok (snd kv).

Lemma flatten_vals_ok k vs l :
  flatten_vals k vs = Some l -> name_ok k -> Forall hval_ok vs -> Forall kv_ok l.
Proof.
  revert l. induction vs as [|v t IH]; intros l H Hk Hv; simpl in H.
  - inversion H; subst. constructor.
  - destruct (transcode v) as [v'|] eqn:Ht; [|discriminate].
    destruct (flatten_vals k t) as [r|]; [|discriminate]. inversion H; subst.
    inversion Hv; subst. constructor; [split; [exact Hk|eapply transcode_wire; eassumption]|].
    now apply IH.
Qed.

Lemma flatten_headers_ok h l :
  flatten_headers h = Some l -> hs_ok name_ok hval_ok h -> Forall kv_ok l.
Proof.
  revert l. induction h as [|[k vs] t IH]; intros l H Hh; simpl in H.
  - inversion H; subst. constructor.
  - destruct (flatten_vals k vs) as [a|] eqn:Ha; [|discriminate].
    destruct (flatten_headers t) as [b|]; [|discriminate]. inversion H; subst.
    inversion Hh as [|? ? [Hk Hvs] Ht]; subst. apply Forall_app. split.
    + eapply flatten_vals_ok; eassumption.
    + now apply IH.
Qed.

Lemma cookie_headers_ok j l : cookie_headers j = Some l -> cs_ok hval_ok j -> Forall kv_ok l.
Proof.
  revert l. induction j as [|[k v] t IH]; intros l H Hj; simpl in H.
  - inversion H; subst. constructor.
  - destruct (transcode v) as [v'|] eqn:Ht; [|discriminate].
    destruct (cookie_headers t) as [r|]; [|discriminate]. inversion H; subst.
    inversion Hj; subst. constructor; [split; [reflexivity|eapply transcode_wire; eassumption]|].
    now apply IH.
Qed.

Lemma hs_ok_filter (Pn Pv : str -> Prop) f h : hs_ok Pn Pv h -> hs_ok Pn Pv (filter f h).
Proof.
  unfold hs_ok. intros H. apply Forall_forall. intros x Hx. apply filter_In in Hx.
  rewrite Forall_forall in H. apply H. tauto.
Qed.

Lemma default_content_type_wire : wire_ok Gen.default_content_type.
Proof. vm_compute. reflexivity. Qed.

Lemma headerlist_ok st hl :
  headerlist st = Some hl -> hs_ok name_ok hval_ok (s_hs st) -> cs_ok hval_ok (s_cs st) -> Forall kv_ok hl.
Proof.
  unfold headerlist. intros H Hh Hc.
  destruct (match bad_headers_for (s_code st) with
            | Some bad => (filter (fun kv => negb (is_bad bad (fst kv))) (s_hs st), false)
            | None => (s_hs st, negb (h_mem n_content_type (s_hs st)))
            end) as [hs need] eqn:E.
  assert (Hhs : hs_ok name_ok hval_ok hs).
  { destruct (bad_headers_for (s_code st)); inversion E; subst; [apply hs_ok_filter|]; exact Hh. }
  destruct (flatten_headers hs) as [a|] eqn:Ha; [|discriminate].
  destruct (cookie_headers (s_cs st)) as [c|] eqn:Hck; [|discriminate].
  inversion H; subst. apply Forall_app. split; [eapply flatten_headers_ok; eassumption|].
  apply Forall_app. split; [|eapply cookie_headers_ok; eassumption].
  destruct need; [|constructor]. constructor; [|constructor].
  split; [reflexivity|exact default_content_type_wire].
Qed.

Lemma uint_str_digits u : forallb is_digit (uint_str u) = true.
Proof. induction u; simpl; try reflexivity; exact IHu. Qed.

Lemma dec_str_hval n : hval_ok (dec_str_of_nat n).
Proof.
  unfold hval_ok, hval_okb, dec_str_of_nat. pose proof (uint_str_digits (Nat.to_uint n)) as H.
  apply forallb_forall. intros c Hc. rewrite forallb_forall in H. specialize (H c Hc).
  unfold is_digit in H. unfold Gen.hval_forbidden. cbn [existsb]. lia.
Qed.

Lemma headers_wf env eh p :
  wf_program Tst name_ok hval_ok TrI True p ->
  (forall c h r o, eh c = Some h -> wf_resp Tst name_ok hval_ok TrI True r -> h r = ERet o ->
                   wf_out Tst name_ok hval_ok TrI True o) ->
  forall line hl x, In (EvStart line hl x) (all_events (wsgi env eh p)) -> Forall kv_ok hl.
Proof.
  intros Hp Heh line hl x Hin.
  destruct (start_origin env eh p line hl x Hin) as [[_ [_ ->]]|[_ [evH [st0 [o [w0 [st [wrote [Hh [Hc [Hl _]]]]]]]]]]].
  - constructor; [|constructor]. split; reflexivity.
  - destruct (wsgi_invariant Tst name_ok hval_ok TrI True I I I I eq_refl eq_refl eq_refl dec_str_hval eq_refl
                env eh Heh (fun _ _ _ _ _ _ => I) I p evH st0 o w0 st wrote Hp Hh Hc) as [[_ [S2 S3]] _].
    eapply headerlist_ok; eassumption.
Qed.

(* ------------------------------------------------------------------ *)
(* chunk types                                                         *)
(* ------------------------------------------------------------------ *)

(* the items after the first chunk of a bytes iterable are bytes (until one raises) *)
Fixpoint bytes_tail_ok (l : list item) : Prop :=
  match l with
  | [] => True
  | IYield (OBytes _) :: t => bytes_tail_ok t
  | IYield _ :: _ => False
  | _ :: _ => True
  end.

Definition is_cbytes (c : chunk) : bool := match c with CBytes _ => true | CBad => false end.

Lemma iter_rest_str st l : forallb is_cbytes (fst (iter_rest MStr st l)) = true.
Proof.
  induction l as [|i t IH]; simpl; [reflexivity|].
  destruct i as [o|e r|j|b0]; try reflexivity.
  destruct o; try reflexivity.
  destruct (encode st s); [|reflexivity].
  destruct (iter_rest MStr st t) as [c r]. simpl in *. exact IH.
Qed.

Lemma iter_rest_bytes st l : bytes_tail_ok l -> forallb is_cbytes (fst (iter_rest MBytes st l)) = true.
Proof.
  induction l as [|i t IH]; simpl; intros H; [reflexivity|].
  destruct i as [o|e r|j|b0]; try reflexivity.
  destruct o; try contradiction.
  destruct (iter_rest MBytes st t) as [c r]. simpl in *. now apply IH.
Qed.

Definition body_chunks_ok (e : event) : Prop :=
  match e with EvBody cs => forallb is_cbytes cs = true | _ => True end.

Lemma consume_chunks_ok w st : w_ok bytes_tail_ok True w -> Forall body_chunks_ok (consume w st).
Proof.
  intros Hw. destruct w as [cs | id hc content | m f r cl |]; simpl; [| | |constructor].
  - constructor; [|constructor]. simpl. induction cs; simpl; auto.
  - constructor; [destruct content; reflexivity|]. destruct hc; repeat constructor.
  - destruct (iter_rest m st r) as [c raised] eqn:E.
    assert (Hc : forallb is_cbytes c = true).
    { destruct m; simpl in Hw.
      - pose proof (iter_rest_bytes st r Hw) as H. now rewrite E in H.
      - pose proof (iter_rest_str st r) as H. now rewrite E in H. }
    constructor; [simpl; exact Hc|]. destruct raised, cl; repeat constructor.
Qed.

Lemma Forall_pre_body ev : forallb pre_event ev = true -> Forall body_chunks_ok ev.
Proof.
  intros H. apply Forall_forall. intros e He. rewrite forallb_forall in H. specialize (H e He).
  destruct e; simpl in *; try exact I; discriminate.
Qed.

Lemma body_bytes env eh p :
  wf_program Tst Tr Tr bytes_tail_ok True p ->
  (forall c h r o, eh c = Some h -> wf_resp Tst Tr Tr bytes_tail_ok True r -> h r = ERet o ->
                   wf_out Tst Tr Tr bytes_tail_ok True o) ->
  forall cs, In (EvBody cs) (all_events (wsgi env eh p)) -> forallb is_cbytes cs = true.
Proof.
  intros Hp Heh cs Hin.
  assert (H : Forall body_chunks_ok (all_events (wsgi env eh p))).
  { destruct (wsgi_cases env eh p) as [evH st0 o w0 st wrote hl Hh Hc Hl | evH st0 o Hh Hc | evH st0 o w0 st wrote Hh Hc Hl
                                      | evH st0 o w0 st wrote Hh Hc Hesc]; [| | |exact (Forall_pre_body _ (handle_pre _ _ _ _ Hh))].
    - cbn [all_events].
      destruct (wsgi_invariant Tst Tr Tr bytes_tail_ok True I I I I I I I (fun _ => I) I
                  env eh Heh (fun _ _ _ _ _ _ => I) I p evH st0 o w0 st wrote Hp Hh Hc) as [_ W].
      apply Forall_app. split.
      + apply Forall_app. split; [exact (Forall_pre_body _ (handle_pre _ _ _ _ Hh))|].
        apply Forall_app. split; [|repeat constructor].
        destruct (suppress env st); [|constructor].
        apply Forall_forall. intros e He. apply close_events_only_close in He. destruct e; try discriminate; exact I.
      + apply consume_chunks_ok. destruct (suppress env st); [exact I|exact W].
    - pose proof (Forall_pre_body _ (handle_pre _ _ _ _ Hh)) as HP.
      destruct (catchall_cases env evH st0) as [[_ ->]|[[_ [b [_ ->]]]|[_ [_ ->]]]]; cbn [all_events];
        repeat (apply Forall_app; split); try exact HP; repeat constructor.
    - pose proof (Forall_pre_body _ (handle_pre _ _ _ _ Hh)) as HP.
      assert (HC : Forall body_chunks_ok (if suppress env st then close_events w0 else [])).
      { destruct (suppress env st); [|constructor].
        apply Forall_forall. intros e He. apply close_events_only_close in He. destruct e; try discriminate; exact I. }
      destruct (catchall_cases env (evH ++ (if suppress env st then close_events w0 else [])) st)
        as [[_ ->]|[[_ [b [_ ->]]]|[_ [_ ->]]]]; cbn [all_events];
        repeat (apply Forall_app; split); try exact HP; try exact HC; repeat constructor. }
  rewrite Forall_forall in H. exact (H _ Hin).
Qed.

(* ------------------------------------------------------------------ *)
(* Content-Length written by the framework                             *)
(* ------------------------------------------------------------------ *)

(* every entry named Content-Length holds exactly the value v *)
Definition cl_all (h : hdrs) (v : str) : Prop :=
  forall k vs, In (k, vs) h -> str_eqb n_content_length k = true -> vs = [v].

Lemma h_get_none k h : h_get k h = None -> forall k' vs, In (k', vs) h -> str_eqb k k' = false.
Proof.
  induction h as [|[k0 v0] t IH]; intros H k' vs Hin; [contradiction|].
  simpl in H. destruct (str_eqb k k0) eqn:E; [discriminate|].
  destruct Hin as [Heq|Hin]; [inversion Heq; subst; exact E|eauto].
Qed.

Lemma setdefault_fresh h v :
  h_mem n_content_length h = false ->
  cl_all (h_setdefault n_content_length v h) v.
Proof.
  intros Hm. unfold h_setdefault. rewrite Hm. unfold h_mem in Hm.
  destruct (h_get n_content_length h) eqn:Hg; [discriminate|].
  intros k vs Hin Hk. apply in_app_or in Hin. destruct Hin as [Hin|[Heq|[]]].
  - rewrite (h_get_none _ _ Hg _ _ Hin) in Hk. discriminate.
  - inversion Heq; reflexivity.
Qed.

Definition done_cl (sr : step_res) : Prop :=
  match sr with
  | SDone w st' true => exists cs, w = WList cs /\ cl_all (s_hs st') (dec_str_of_nat (length (concat cs)))
  | _ => True
  end.

Lemma peek_not_wrote items close st : done_cl (peek items close st).
Proof.
  induction items as [|i t IH]; cbn [peek]; [exact I|].
  destruct i as [o|e r|j|b0]; try exact I.
  destruct (falsy o); [exact IH|].
  destruct o; try exact I. destruct (encode st s); exact I.
Qed.

Lemma done_bytes_cl b st : done_cl (done_bytes b st).
Proof.
  unfold done_bytes, done_cl. destruct (h_mem n_content_length (s_hs st)) eqn:Hm; simpl; [exact I|].
  exists [b]. split; [reflexivity|]. simpl. rewrite app_nil_r. now apply setdefault_fresh.
Qed.

Section CL.
Variable env : cenv.
Variable eh : Z -> option (resp -> ehres).

Lemma step_body_cl o st : done_cl (step_body env eh o st).
Proof.
  unfold step_body. destruct (falsy o).
  - unfold done_cl. destruct (h_mem n_content_length (s_hs st)) eqn:Hm; simpl; [exact I|].
    exists []. split; [reflexivity|]. simpl. change (dec_str_of_nat 0) with (lit "0").
    now apply setdefault_fresh.
  - destruct o as [|s|b|e r|id hc hi c ty|id hc its ty|ty ej|b0]; try exact I.
    + destruct (encode st s); [apply done_bytes_cl|exact I].
    + apply done_bytes_cl.
    + destruct e.
      * destruct (eh (r_code r)) as [h|]; [destruct (h r) as [?|[|]]; exact I|].
        destruct (default_eh env r (apply r st)) as [[pg st2]|]; exact I.
      * exact I.
    + destruct (e_fw env); [exact I|]. destruct (hc || negb hi); [exact I|]. apply peek_not_wrote.
    + apply peek_not_wrote.
    + destruct b0; exact I.
Qed.

Lemma step_cl cnt o st : done_cl (step env eh cnt o st).
Proof.
  unfold step. destruct (Nat.ltb 1000 cnt); [|apply step_body_cl].
  destruct (default_eh env err_too_many (apply err_too_many st)) as [[pg st2]|]; [apply step_body_cl|exact I].
Qed.

Lemma cast_cl fuel : forall cnt o st w st',
  cast env eh fuel cnt o st = CDone w st' true ->
  exists cs, w = WList cs /\ cl_all (s_hs st') (dec_str_of_nat (length (concat cs))).
Proof.
  induction fuel as [|f IH]; intros cnt o st w st' H; cbn [cast] in H; [discriminate|].
  pose proof (step_cl cnt o st) as Hs.
  destruct (step env eh cnt o st) as [o' st1|w1 st1 b|]; [eauto| |discriminate].
  inversion H; subst. exact Hs.
Qed.
End CL.

Lemma flatten_vals_in k vs l k' v :
  flatten_vals k vs = Some l -> In (k', v) l -> k' = k /\ exists v0, In v0 vs /\ transcode v0 = Some v.
Proof.
  revert l. induction vs as [|x t IH]; intros l H Hin; simpl in H.
  - inversion H; subst. contradiction.
  - destruct (transcode x) as [x'|] eqn:Hx; [|discriminate].
    destruct (flatten_vals k t) as [r|]; [|discriminate]. inversion H; subst.
    destruct Hin as [Heq|Hin].
    + inversion Heq; subst. split; [reflexivity|]. exists x. split; [now left|exact Hx].
    + destruct (IH r eq_refl Hin) as [-> [v0 [A B]]]. split; [reflexivity|]. exists v0. split; [now right|exact B].
Qed.

Lemma flatten_headers_in h l k v :
  flatten_headers h = Some l -> In (k, v) l ->
  exists vs v0, In (k, vs) h /\ In v0 vs /\ transcode v0 = Some v.
Proof.
  revert l. induction h as [|[k0 vs0] t IH]; intros l H Hin; simpl in H.
  - inversion H; subst. contradiction.
  - destruct (flatten_vals k0 vs0) as [a|] eqn:Ha; [|discriminate].
    destruct (flatten_headers t) as [b|]; [|discriminate]. inversion H; subst.
    apply in_app_or in Hin. destruct Hin as [Hin|Hin].
    + destruct (flatten_vals_in _ _ _ _ _ Ha Hin) as [-> [v0 [A B]]].
      exists vs0, v0. split; [now left|auto].
    + destruct (IH b eq_refl Hin) as [vs [v0 [A [B C]]]]. exists vs, v0. split; [now right|auto].
Qed.

Lemma cookie_headers_in j l k v : cookie_headers j = Some l -> In (k, v) l -> k = n_set_cookie.
Proof.
  revert l. induction j as [|[k0 v0] t IH]; intros l H Hin; simpl in H.
  - inversion H; subst. contradiction.
  - destruct (transcode v0); [|discriminate]. destruct (cookie_headers t) as [r|]; [|discriminate].
    inversion H; subst. destruct Hin as [Heq|Hin]; [inversion Heq; reflexivity|eauto].
Qed.

Lemma transcode_digits s : forallb is_digit s = true -> transcode s = Some s.
Proof.
  intros H. unfold transcode.
  assert (Ha : Forall (fun c => (c < 128)%N) s).
  { apply Forall_forall. intros c Hc. rewrite forallb_forall in H. specialize (H c Hc). unfold is_digit in H. lia. }
  rewrite utf8_encode_some.
  - now rewrite utf8_enc_str_ascii.
  - apply Forall_forall. intros c Hc. rewrite Forall_forall in Ha. specialize (Ha c Hc). left. lia.
Qed.

Lemma headerlist_cl st hl v n :
  headerlist st = Some hl -> cl_all (s_hs st) (dec_str_of_nat n) ->
  In (n_content_length, v) hl -> v = dec_str_of_nat n.
Proof.
  unfold headerlist. intros H Hcl Hin.
  destruct (match bad_headers_for (s_code st) with
            | Some bad => (filter (fun kv => negb (is_bad bad (fst kv))) (s_hs st), false)
            | None => (s_hs st, negb (h_mem n_content_type (s_hs st)))
            end) as [hs need] eqn:E.
  assert (Hsub : forall x, In x hs -> In x (s_hs st)).
  { destruct (bad_headers_for (s_code st)); inversion E; subst; [|auto].
    intros x Hx. apply filter_In in Hx. tauto. }
  destruct (flatten_headers hs) as [a|] eqn:Ha; [|discriminate].
  destruct (cookie_headers (s_cs st)) as [c|] eqn:Hck; [|discriminate].
  inversion H; subst. apply in_app_or in Hin. destruct Hin as [Hin|Hin].
  - destruct (flatten_headers_in _ _ _ _ Ha Hin) as [vs [v0 [A [B C]]]].
    specialize (Hcl _ _ (Hsub _ A) (str_eqb_refl _)). subst vs. destruct B as [<-|[]].
    unfold dec_str_of_nat in *. rewrite transcode_digits in C by apply uint_str_digits. now inversion C.
  - apply in_app_or in Hin. destruct Hin as [Hin|Hin].
    + destruct need; [|contradiction]. destruct Hin as [Heq|[]]. inversion Heq.
    + pose proof (cookie_headers_in _ _ _ _ Hck Hin) as Hk. discriminate Hk.
Qed.

Lemma content_length_exact env eh p ev w st line hl v :
  wsgi env eh p = WsOk ev w st true -> In (EvStart line hl false) ev ->
  e_head env = false -> nobody (s_code st) = false ->
  In (n_content_length, v) hl ->
  exists cs, w = WList cs /\ consume w st = [EvBody (map CBytes cs)]
             /\ v = dec_str_of_nat (length (concat cs)).
Proof.
  intros Hw Hin Hhead Hnb Hv.
  assert (Hin' : In (EvStart line hl false) (all_events (wsgi env eh p))).
  { rewrite Hw. cbn [all_events]. apply in_or_app. now left. }
  destruct (start_origin env eh p line hl false Hin') as [[Hx _]|[_ [evH [st0 [o [w0 [st1 [wrote [Hh [Hc [Hl [-> Hw1]]]]]]]]]]]];
    [discriminate|].
  rewrite Hw in Hw1. inversion Hw1; subst st1 wrote.
  assert (Hs : suppress env st = false) by (unfold suppress; now rewrite Hnb, Hhead).
  rewrite Hs in *. subst w0.
  destruct (cast_cl env eh _ _ _ _ _ _ Hc) as [cs [-> Hcl]].
  exists cs. split; [reflexivity|]. split; [reflexivity|].
  eapply headerlist_cl; eassumption.
Qed.

(* ------------------------------------------------------------------ *)
(* nothing escapes; crashes become a 500                               *)
(* ------------------------------------------------------------------ *)

(* the html_escape chain read from common_helpers.py, one character at a time
   (re-checked against Gen.html_escape_chain on every build) *)
Lemma wsgi_ombott_chain_one c : apply_chain Gen.html_escape_chain [c] = esc1_ombott c.
Proof. unfold esc1_ombott, Gen.html_escape_chain. chain_one c. Qed.
Lemma wsgi_html_escape_pointwise s : html_escape_ombott s = flat_map esc1_ombott s.
Proof.
  unfold html_escape_ombott. rewrite apply_chain_pointwise.
  apply flat_map_ext. exact wsgi_ombott_chain_one.
Qed.

Lemma esc1_ombott_scalar c : scalarb c = true -> forallb scalarb (esc1_ombott c) = true.
Proof.
  intros H. unfold esc1_ombott.
  destruct (N.eqb c 38); [reflexivity|]. destruct (N.eqb c 60); [reflexivity|].
  destruct (N.eqb c 62); [reflexivity|]. destruct (N.eqb c 34); [reflexivity|].
  destruct (N.eqb c 39); [reflexivity|]. simpl. now rewrite H.
Qed.

Lemma critical_page_encodable path :
  Forall scalar path -> exists b, utf8_encode (critical_page path) = Some b.
Proof.
  intros H. unfold utf8_encode.
  assert (E : forallb scalarb (critical_page path) = true).
  { unfold critical_page. rewrite !forallb_app. rewrite wsgi_html_escape_pointwise, forallb_flat_map.
    replace (forallb (fun a => forallb scalarb (esc1_ombott a)) path) with true; [reflexivity|].
    symmetry. apply forallb_forall. intros c Hc. apply esc1_ombott_scalar. apply scalarb_spec.
    rewrite Forall_forall in H. now apply H. }
  rewrite E. eauto.
Qed.

Lemma never_escapes env eh p :
  Forall scalar (e_path env) \/ e_head env = true -> forall ev, wsgi env eh p <> WsEscaped ev.
Proof.
  intros Hs ev He.
  assert (Hc : forall A st, catchall env A st <> WsEscaped ev).
  { intros A st E. destruct (catchall_cases env A st) as [[_ E']|[[_ [b [_ E']]]|[Hh [Hn E']]]]; try congruence.
    destruct Hs as [Hs|Hs]; [|congruence].
    destruct (critical_page_encodable _ Hs) as [b Hb]. congruence. }
  destruct (wsgi_cases env eh p) as [evH st0 o w0 st wrote hl Hh Hc' Hl | evH st0 o Hh Hc' | evH st0 o w0 st wrote Hh Hc' Hl
                                    | evH st0 o w0 st wrote Hh Hc' Hesc].
  - discriminate.
  - exact (Hc _ _ He).
  - exact (Hc _ _ He).
  - discriminate.
Qed.

Definition is500 (st : rstate) : Prop := s_code st = 500%Z /\ s_line st = l500.

Section Crash.
Variable env : cenv.
Variable eh : Z -> option (resp -> ehres).
Hypothesis eh500 : eh 500%Z = None.

Lemma default_eh_status r st pg st' :
  default_eh env r st = Some (pg, st') -> s_code st' = s_code st /\ s_line st' = s_line st.
Proof.
  unfold default_eh. destruct (e_json env).
  - destruct (r_bjson r); [|discriminate]. intros H; inversion H; subst. split; reflexivity.
  - destruct (html_page r (e_url env)); [|discriminate]. intros H; inversion H; subst. split; reflexivity.
Qed.

Lemma step_body_str_500 s st : is500 st ->
  match step_body env eh (OStr s) st with
  | SDone _ st' _ => is500 st'
  | SCont _ _ => False
  | SRaise => True
  end.
Proof.
  intros H. unfold step_body. destruct (falsy (OStr s)); [exact H|].
  destruct (encode st s); [exact H|exact I].
Qed.

Lemma step_guard_500 cnt o st : 1000 < cnt ->
  match step env eh cnt o st with
  | SDone _ st' _ => is500 st'
  | SCont _ _ => False
  | SRaise => True
  end.
Proof.
  intros Hc. unfold step. destruct (Nat.ltb_spec 1000 cnt) as [_|?]; [|lia].
  destruct (default_eh env err_too_many (apply err_too_many st)) as [[pg st2]|] eqn:Hd; [|exact I].
  apply step_body_str_500. destruct (default_eh_status _ _ _ _ Hd) as [A B].
  split; [rewrite A|rewrite B]; reflexivity.
Qed.

Definition done500 (c : cast_res) : Prop :=
  match c with CDone _ st' _ => is500 st' | _ => True end.

Lemma cast_str_500 fuel cnt s st : is500 st -> done500 (cast env eh fuel cnt (OStr s) st).
Proof.
  intros H. destruct fuel as [|f]; cbn [cast]; [exact I|].
  destruct (Nat.ltb_spec 1000 cnt) as [Hc|Hc].
  - pose proof (step_guard_500 cnt (OStr s) st Hc) as G.
    destruct (step env eh cnt (OStr s) st); [contradiction|exact G|exact I].
  - unfold step. destruct (Nat.ltb_spec 1000 cnt) as [?|_]; [lia|].
    pose proof (step_body_str_500 s st H) as G.
    destruct (step_body env eh (OStr s) st); [contradiction|exact G|exact I].
Qed.

(* an HTTPError with status 500 and no custom 500 handler ends as a 500 response (or in the catch-all) *)
Lemma cast_err_500 fuel cnt r st :
  r_code r = 500%Z -> r_line r = l500 -> done500 (cast env eh fuel cnt (OHttp true r) st).
Proof.
  intros Hc Hl. destruct fuel as [|f]; cbn [cast]; [exact I|].
  destruct (Nat.ltb_spec 1000 cnt) as [Hg|Hg].
  - pose proof (step_guard_500 cnt (OHttp true r) st Hg) as G.
    destruct (step env eh cnt (OHttp true r) st); [contradiction|exact G|exact I].
  - unfold step. destruct (Nat.ltb_spec 1000 cnt) as [?|_]; [lia|].
    unfold step_body. cbn [falsy]. rewrite Hc, eh500.
    destruct (default_eh env r (apply r st)) as [[pg st2]|] eqn:Hd; [|exact I].
    apply cast_str_500. destruct (default_eh_status _ _ _ _ Hd) as [A B].
    split; [rewrite A|rewrite B]; destruct r; simpl in *; assumption.
Qed.

(* falsy items, then next() raises *)
Fixpoint first_next_raises (l : list item) : Prop :=
  match l with
  | IYield o :: t => falsy o = true /\ first_next_raises t
  | IRaiseExc _ :: _ => True
  | _ => False
  end.

(* iter(out) or the first next() with a non-empty result raises an ordinary exception *)
Definition crashes_at_first_next (o : out) : Prop :=
  match o with
  | OOther _ _ => True
  | OIter _ _ items _ => first_next_raises items
  | _ => False
  end.

Lemma peek_raises items close st :
  first_next_raises items -> exists j, peek items close st = SCont (OHttp true (err_unhandled j)) st.
Proof.
  induction items as [|i t IH]; simpl; [contradiction|].
  destruct i as [o|e r|j|b0]; try contradiction.
  - intros [Hf Ht]. rewrite Hf. now apply IH.
  - intros _. eauto.
Qed.

Lemma cast_crash_500 fuel o st : crashes_at_first_next o -> done500 (cast env eh fuel 1 o st).
Proof.
  intros H. destruct fuel as [|f]; cbn [cast]; [exact I|].
  unfold step. cbn [Nat.ltb Nat.leb]. unfold step_body.
  destruct o as [|s|b|e r|id hc hi c ty|id hc its ty|ty ej|b0]; try contradiction.
  - cbn [falsy]. destruct (peek_raises its (if hc then Some id else None) st H) as [j ->].
    now apply cast_err_500.
  - cbn [falsy]. now apply cast_err_500.
Qed.

Lemma done500_lines p evH st0 o :
  handle p = (evH, st0, o) -> done500 (cast env eh cast_fuel 1 o st0) ->
  forall line hl x, In (EvStart line hl x) (all_events (wsgi env eh p)) -> line = l500 \/ line = l_catchall.
Proof.
  intros Hh Hd line hl x Hin.
  destruct (start_origin env eh p line hl x Hin) as [[_ [-> _]]|[_ [evH' [st0' [o' [w0 [st [wrote [Hh' [Hc [_ [-> _]]]]]]]]]]]].
  - now right.
  - rewrite Hh in Hh'. inversion Hh'; subst. rewrite Hc in Hd. left. apply Hd.
Qed.

Lemma crash_in_handle_500 p evH st0 j :
  handle p = (evH, st0, OHttp true (err_handle500 j)) ->
  forall line hl x, In (EvStart line hl x) (all_events (wsgi env eh p)) -> line = l500 \/ line = l_catchall.
Proof. intros Hh. eapply done500_lines; [exact Hh|]. now apply cast_err_500. Qed.

Lemma crash_at_first_next_500 p evH st0 o :
  handle p = (evH, st0, o) -> crashes_at_first_next o ->
  forall line hl x, In (EvStart line hl x) (all_events (wsgi env eh p)) -> line = l500 \/ line = l_catchall.
Proof. intros Hh Hc. eapply done500_lines; [exact Hh|]. now apply cast_crash_500. Qed.

End Crash.

(* ------------------------------------------------------------------ *)
(* hooks                                                               *)
(* ------------------------------------------------------------------ *)

Notation fails := fails_h (only parsing).     (* model/Wsgi.v *)
(* how many hooks of a list (in call order) get called: up to and including the first failing one *)
Fixpoint ran (hs : list hprog) : nat :=
  match hs with [] => 0 | h :: t => if fails h then 1 else S (ran t) end.
Notation all_ok := all_ret (only parsing).

Lemma run_hooks_trace tag : forall idx hs st ev st' x,
  length idx = length hs ->
  run_hooks tag (combine idx hs) st = (ev, st', x) ->
  ev = map tag (firstn (ran hs) idx) /\ (x = None <-> all_ok hs = true).
Proof.
  induction idx as [|i idx IH]; intros [|h hs] st ev st' x Hlen H; simpl in Hlen; try discriminate.
  - simpl in H. inversion H; subst. split; [reflexivity|]. split; reflexivity.
  - cbn [combine run_hooks] in H. unfold run_prog in H. unfold all_ret, fails_h. cbn [ran forallb]. unfold fails_h.
    destruct (h_res h) as [o|e r|j|b0].
    + destruct (run_hooks tag (combine idx hs) (apply_muts (h_muts h) st)) as [[ev2 st2] x2] eqn:Hr.
      inversion H; subst. destruct (IH hs _ _ _ _ (eq_add_S _ _ Hlen) Hr) as [-> Hx].
      split; [reflexivity|exact Hx].
    + inversion H; subst. split; [reflexivity|]. split; discriminate.
    + inversion H; subst. split; [reflexivity|]. split; discriminate.
    + inversion H; subst. split; [reflexivity|]. split; discriminate.
Qed.

Lemma combine_app' {A B} (a : list A) (c : list B) b d :
  length a = length c -> combine (a ++ b) (c ++ d) = combine a c ++ combine b d.
Proof.
  revert c. induction a as [|x a IH]; intros [|y c] H; simpl in H; try discriminate; [reflexivity|].
  simpl. f_equal. apply IH. now inversion H.
Qed.

Lemma rev_indexed {A} (l : list A) : rev (indexed l) = combine (rev (seq 0 (length l))) (rev l).
Proof.
  unfold indexed. generalize 0 as k. induction l as [|a t IH]; intros k; [reflexivity|].
  cbn [length seq combine rev]. rewrite IH.
  rewrite combine_app' by (rewrite !rev_length, seq_length; reflexivity). reflexivity.
Qed.

Lemma map_fst_combine' {A B} (a : list A) (b : list B) : length a = length b -> map fst (combine a b) = a.
Proof. revert b. induction a as [|x a IH]; intros [|y b] H; simpl in *; try discriminate; [reflexivity|]. f_equal. apply IH. now inversion H. Qed.
Lemma map_snd_combine' {A B} (a : list A) (b : list B) : length a = length b -> map snd (combine a b) = b.
Proof. revert b. induction a as [|x a IH]; intros [|y b] H; simpl in *; try discriminate; [reflexivity|]. f_equal. apply IH. now inversion H. Qed.

Definition mid_event (e : event) : bool :=
  match e with EvRouteHook _ | EvHandler => true | _ => false end.
Definition is_handler (e : event) : bool := match e with EvHandler => true | _ => false end.

Lemma route_and_call_shape rt st ev st' r :
  route_and_call rt st = (ev, st', r) ->
  exists evR, ev = EvRouted :: evR /\ forallb mid_event evR = true /\ count is_handler evR <= 1.
Proof.
  unfold route_and_call. destruct rt as [[h|]|allow|rh h|j];
    [| | | |intros H; inversion H; subst; exists []; repeat split; unfold count; simpl; lia].
  - destruct (run_prog h st) as [st1 r1]. intros H; inversion H; subst.
    exists [EvHandler]. repeat split. unfold count; simpl; lia.
  - intros H; inversion H; subst. exists []. repeat split. unfold count; simpl; lia.
  - intros H; inversion H; subst. exists []. repeat split. unfold count; simpl; lia.
  - destruct (run_hooks EvRouteHook (indexed rh) st) as [[ev1 st1] x] eqn:Hr.
    destruct (run_hooks_events _ _ _ _ _ _ Hr) as [idx ->].
    assert (Hm : forallb mid_event (map EvRouteHook idx) = true) by now apply forallb_map_tag.
    assert (Hn : count is_handler (map EvRouteHook idx) = 0).
    { apply count_zero. intros e He. apply in_map_iff in He. destruct He as [i [<- _]]. reflexivity. }
    destruct x as [x|].
    + intros H; inversion H; subst. exists (map EvRouteHook idx). repeat split; [exact Hm|lia].
    + destruct (run_prog h st1) as [st2 r2]. intros H; inversion H; subst.
      exists (map EvRouteHook idx ++ [EvHandler]). split; [reflexivity|]. split.
      * rewrite forallb_app, Hm. reflexivity.
      * rewrite count_app, Hn. unfold count; simpl; lia.
Qed.

Lemma run_hooks_trace_gen tag : forall l st ev st' x,
  run_hooks tag l st = (ev, st', x) ->
  ev = map tag (map fst (firstn (ran (map snd l)) l)) /\ (x = None <-> all_ret (map snd l) = true).
Proof.
  induction l as [|[i h] t IH]; intros st ev st' x H.
  - simpl in H. inversion H; subst. split; [reflexivity|]. split; reflexivity.
  - cbn [run_hooks] in H. unfold run_prog in H. unfold all_ret. cbn [map snd ran forallb]. unfold fails_h.
    destruct (h_res h) as [o|e r|j|b0].
    + destruct (run_hooks tag t (apply_muts (h_muts h) st)) as [[ev2 st2] x2] eqn:Hr.
      inversion H; subst. destruct (IH _ _ _ _ Hr) as [-> Hx].
      split; [reflexivity|exact Hx].
    + inversion H; subst. split; [reflexivity|]. split; discriminate.
    + inversion H; subst. split; [reflexivity|]. split; discriminate.
    + inversion H; subst. split; [reflexivity|]. split; discriminate.
Qed.

(* Before hooks: in registration order, once each, up to and including the first
   failing one, all before routing; routing and the handler only if none failed.
   After hooks: the after_request list as it is when its emit starts
   ([after_call_list]: reverse registration order, minus / plus what hooks and the
   handler removed / added before that moment), once each, up to and including the
   first failing one, after everything else — whatever happened before (404, 405,
   a failing before hook, a crash). *)
Lemma hooks_lifecycle p :
  exists evM,
    fst (fst (handle p))
    = map EvHookB (firstn (ran (p_before p)) (seq 0 (length (p_before p))))
      ++ evM
      ++ map EvHookA (map fst (firstn (ran (map snd (after_call_list p))) (after_call_list p)))
    /\ (all_ok (p_before p) = false -> evM = [])
    /\ (all_ok (p_before p) = true ->
         exists evR, evM = EvRouted :: evR /\ forallb mid_event evR = true /\ count is_handler evR <= 1).
Proof.
  unfold handle, handle_from.
  destruct (run_hooks EvHookB (indexed (p_before p)) st_init) as [[evB st1] xB] eqn:HB.
  destruct (match xB with Some x => ([], st1, inr x) | None => route_and_call (p_routing p) st1 end)
    as [[evM st2] resM] eqn:HM.
  destruct (run_hooks EvHookA (after_call_list p) st2) as [[evA st3] xA] eqn:HA.
  cbn [fst].
  unfold indexed in HB.
  destruct (run_hooks_trace EvHookB _ _ _ _ _ _ (seq_length _ _) HB) as [-> HxB].
  destruct (run_hooks_trace_gen EvHookA _ _ _ _ _ HA) as [-> _].
  exists evM. split; [reflexivity|]. split.
  - intros Hf. destruct xB as [x|]; [now inversion HM|].
    destruct HxB as [HxB _]. rewrite (HxB eq_refl) in Hf. discriminate.
  - intros Ht. destruct xB as [x|].
    + destruct HxB as [_ HxB]. specialize (HxB Ht). discriminate.
    + eapply route_and_call_shape; eassumption.
Qed.

(* when no hook or handler that runs edits the hook lists, that list is the reverse registration order *)
Definition no_hook_edits (p : program) : Prop :=
  edits_of (ran_prefix (p_before p) ++ (if all_ret (p_before p) then routing_progs (p_routing p) else [])) = [].

Lemma after_call_list_plain p :
  no_hook_edits p ->
  map fst (after_call_list p) = rev (seq 0 (length (p_after p)))
  /\ map snd (after_call_list p) = rev (p_after p).
Proof.
  intros H. unfold after_call_list. unfold no_hook_edits in H. rewrite H. cbn [fold_left].
  rewrite rev_indexed. split.
  - rewrite map_fst_combine'; [reflexivity|]. now rewrite !rev_length, seq_length.
  - rewrite map_snd_combine'; [reflexivity|]. now rewrite !rev_length, seq_length.
Qed.

Lemma ran_all_ok hs : all_ok hs = true -> ran hs = length hs.
Proof.
  unfold all_ret. induction hs as [|h t IH]; simpl; [reflexivity|].
  destruct (fails h); simpl; [discriminate|]. intros H. now rewrite IH.
Qed.

(* ------------------------------------------------------------------ *)
(* the status setter                                                   *)
(* ------------------------------------------------------------------ *)

Lemma lstrip_keep {A} (m : A -> bool) c t : m c = false -> lstrip_set m (c :: t) = c :: t.
Proof. intros H. simpl. now rewrite H. Qed.
Lemma rstrip_keep {A} (m : A -> bool) pre z : m z = false -> rstrip_set m (pre ++ [z]) = pre ++ [z].
Proof.
  intros H. unfold rstrip_set. rewrite rev_app_distr. simpl. rewrite H. simpl.
  now rewrite rev_involutive.
Qed.

Section Setter.
Variable reason : Z -> option str.

Lemma set_status_code c c' l : set_status reason (SCode c) = SOk c' l -> status_ok c' l.
Proof.
  unfold set_status. destruct (Z.leb 100 c && Z.leb c 999) eqn:E; [|discriminate].
  intros H. assert (Hc : (100 <= c <= 999)%Z) by lia.
  destruct (reason c) as [m|]; inversion H; subst; (split; [exact Hc|]).
  - exists m. reflexivity.
  - exists (lit "Unknown"). reflexivity.
Qed.

(* custom reason lines "NNN reason" (no surrounding blanks) *)
Definition sline_guard (s : str) : Prop :=
  exists n mid z, 100 <= n <= 999 /\ s = dec_str_of_nat n ++ 32%N :: mid ++ [z] /\ is_py_space z = false.

Definition dec3_parse (n : nat) : bool :=
  let d := dec_str_of_nat n in
  forallb (fun c => negb (is_py_space c) && N.ltb c 128) d
  && match py_int_dec d with Some z => Z.eqb z (Z.of_nat n) | None => false end.

Lemma dec3_parse_all : forallb dec3_parse (seq 100 900) = true.
Proof. vm_compute. reflexivity. Qed.

Lemma take_while_app f a c t : forallb f a = true -> f c = false -> take_while f (a ++ c :: t) = a.
Proof.
  induction a as [|x a IH]; simpl; intros H Hc; [now rewrite Hc|].
  apply andb_prop in H. destruct H as [Hx Ha]. rewrite Hx. f_equal. now apply IH.
Qed.

Lemma set_status_line s c l : sline_guard s -> set_status reason (SLine s) = SOk c l -> status_ok c l /\ l = s.
Proof.
  intros [n [mid [z [Hn [-> Hz]]]]].
  pose proof dec3_parse_all as A. rewrite forallb_forall in A.
  assert (Hin : In n (seq 100 900)) by (apply in_seq; lia). specialize (A n Hin).
  unfold dec3_parse in A. apply andb_prop in A. destruct A as [Hd Hp].
  pose proof (dec3 n Hn) as H3. unfold three_digits_of in H3.
  set (d := dec_str_of_nat n) in *.
  destruct d as [|a [|b [|e [|? ?]]]] eqn:Ed; try discriminate. clear H3.
  unfold set_status.
  assert (Hsp : contains_char N.eqb 32%N ((a :: b :: e :: nil) ++ 32%N :: mid ++ [z]) = true).
  { unfold contains_char. rewrite existsb_app. simpl. now rewrite orb_true_r. }
  rewrite Hsp. cbn [negb].
  assert (Hstrip : strip_set is_py_space ((a :: b :: e :: nil) ++ 32%N :: mid ++ [z])
                   = (a :: b :: e :: nil) ++ 32%N :: mid ++ [z]).
  { unfold strip_set. cbn [forallb] in Hd.
    apply andb_prop in Hd. destruct Hd as [Ha _]. apply andb_prop in Ha. destruct Ha as [Ha _].
    apply negb_true_iff in Ha.
    cbn [app]. rewrite (lstrip_keep _ _ _ Ha).
    change (a :: b :: e :: 32%N :: mid ++ [z]) with ((a :: b :: e :: 32%N :: mid) ++ [z]).
    now apply rstrip_keep. }
  rewrite Hstrip.
  assert (Htok : take_while (fun c => negb (is_py_space c)) ((a :: b :: e :: nil) ++ 32%N :: mid ++ [z]) = [a; b; e]).
  { apply take_while_app; [|reflexivity].
    apply forallb_forall. intros x Hx. rewrite forallb_forall in Hd. specialize (Hd x Hx).
    apply andb_prop in Hd. tauto. }
  rewrite Htok.
  assert (Hascii : forallb (fun c => N.ltb c 128) [a; b; e] = true).
  { apply forallb_forall. intros x Hx. rewrite forallb_forall in Hd. specialize (Hd x Hx).
    apply andb_prop in Hd. tauto. }
  rewrite Hascii. cbn [negb].
  destruct (py_int_dec [a; b; e]) as [zv|]; [|discriminate].
  apply Z.eqb_eq in Hp. subst zv.
  replace (Z.leb 100 (Z.of_nat n) && Z.leb (Z.of_nat n) 999) with true by lia.
  intros H. inversion H; subst. split; [|reflexivity].
  split; [lia|]. exists (mid ++ [z]). rewrite Nat2Z.id. fold d. rewrite Ed. reflexivity.
Qed.
End Setter.

(* the finding C03-status-line-shape: the setter stores '+404 plus' verbatim *)
Lemma status_setter_shape_refuted :
  exists reason a c l, set_status reason a = SOk c l /\ ~ status_line_wf l.
Proof.
  exists (fun _ => None), (SLine (lit "+404 plus")), 404%Z, (lit "+404 plus").
  split; [vm_compute; reflexivity|].
  intros [a [b [c [rest [H [Ha _]]]]]]. vm_compute in H. injection H as <- _ _ _ _. vm_compute in Ha. discriminate Ha.
Qed.

(* the stronger reading of "closed exactly once" (DESIGN C03: every iterable from which an
   item was taken) does not hold: an iterable whose first item is a response object is
   abandoned by _cast and never closed *)
Lemma abandoned_iterable_not_closed :
  exists env eh p, trace env eh p <> None /\
    match trace env eh p with
    | Some ev => count is_close ev = 0
    | None => False
    end
    /\ exists id items ty, p_routing p = ROk [] (mkH [] (HRet (OIter id true items ty))) /\ items <> [].
Proof.
  exists (mkEnv false false false [] []), (fun _ => None),
    (mkProg [] [] (ROk [] (mkH [] (HRet (OIter 1 true
       [IYield (OHttp false (mkResp 200 (lit "200 OK") [] [] (OStr (lit "x")) [] None [] false))] []))))).
  split; [vm_compute; discriminate|]. split; [vm_compute; reflexivity|].
  eexists _, _, _. split; [reflexivity|discriminate].
Qed.

(* ------------------------------------------------------------------ *)
(* exceptions the except clauses let through on purpose                *)
(* ------------------------------------------------------------------ *)

(* when one went to the server, the server saw what _handle did (hooks, routing, handler)
   and nothing else: no close(), no start_response, no body *)
Lemma passed_events env eh p ev :
  wsgi env eh p = WsPassed ev -> ev = fst (fst (handle p)) /\ count is_start ev = 0.
Proof.
  intros H.
  destruct (wsgi_cases env eh p) as [evH st0 o w0 st wrote hl Hh Hc Hl | evH st0 o Hh Hc | evH st0 o w0 st wrote Hh Hc Hl
                                    | evH st0 o w0 st wrote Hh Hc Hesc].
  - discriminate.
  - pose proof (catchall_not_passed env evH st0) as N. rewrite H in N. discriminate.
  - pose proof (catchall_not_passed env (evH ++ (if suppress env st then close_events w0 else [])) st) as N.
    rewrite H in N. discriminate.
  - inversion H; subst. rewrite Hh. split; [reflexivity|].
    exact (pre_not is_start ev pre_no_start (handle_pre _ _ _ _ Hh)).
Qed.

(* a program in which nobody raises such an exception (hooks, handler, iterables, nested
   response bodies, error handlers) is always answered *)
Lemma no_escape_not_passed env eh p :
  wf_program Tst Tr Tr TrI False p ->
  (forall c h r o, eh c = Some h -> wf_resp Tst Tr Tr TrI False r -> h r = ERet o -> wf_out Tst Tr Tr TrI False o) ->
  (forall c h r, eh c = Some h -> wf_resp Tst Tr Tr TrI False r -> h r <> ERaise false) ->
  passed (wsgi env eh p) = false.
Proof.
  intros Hp Heh Hne.
  destruct (wsgi_cases env eh p) as [evH st0 o w0 st wrote hl Hh Hc Hl | evH st0 o Hh Hc | evH st0 o w0 st wrote Hh Hc Hl
                                    | evH st0 o w0 st wrote Hh Hc Hesc].
  - reflexivity.
  - apply catchall_not_passed.
  - apply catchall_not_passed.
  - exfalso.
    destruct (wsgi_invariant Tst Tr Tr TrI False I I I I I I I (fun _ => I) I env eh Heh
                (fun c h r E W R => Hne c h r E W R) I p evH st0 o w0 st wrote Hp Hh Hc) as [_ W].
    destruct w0; try discriminate Hesc. exact W.
Qed.

(* which classes: an Exception subclass outside the tuples read from the source is an ordinary
   crash (a 500 error object, right where it was raised); everything else is let through *)
Lemma fate_handle_ordinary mro :
  is_exception mro = true -> mro_in Gen.passthrough_handle mro = false -> fate_handle mro = FOrdinary.
Proof. intros A B. unfold fate_handle. now rewrite B, A. Qed.
Lemma fate_cast_ordinary mro :
  is_exception mro = true -> mro_in Gen.passthrough_cast mro = false -> fate_cast mro = FOrdinary.
Proof. intros A B. unfold fate_cast. now rewrite B, A. Qed.
Lemma fate_handle_escape mro :
  is_exception mro = false \/ mro_in Gen.passthrough_handle mro = true ->
  fate_handle mro = FEscape (to_catchall mro).
Proof.
  unfold fate_handle. intros [A|B].
  - rewrite A. now destruct (mro_in Gen.passthrough_handle mro).
  - now rewrite B.
Qed.
Lemma fate_cast_escape mro :
  is_exception mro = false \/ mro_in Gen.passthrough_cast mro = true ->
  fate_cast mro = FEscape (to_catchall mro).
Proof.
  unfold fate_cast. intros [A|B].
  - rewrite A. now destruct (mro_in Gen.passthrough_cast mro).
  - now rewrite B.
Qed.
Lemma to_catchall_spec mro :
  to_catchall mro = true <-> is_exception mro = true /\ mro_in Gen.passthrough_wsgi mro = false.
Proof.
  unfold to_catchall. split.
  - intros H. apply andb_prop in H. destruct H as [A B]. split; [exact A|].
    now destruct (mro_in Gen.passthrough_wsgi mro).
  - intros [A B]. now rewrite A, B.
Qed.
