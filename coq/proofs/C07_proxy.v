(* C07_proxy.v — BytesIOProxy: whatever sequence of seek / tell / read is applied,
   the position stays inside the window [st, end] and every read returns exactly
   the bytes of the buffered body between the old and the new position: a read is
   a function of the window position only (it positions the shared source itself),
   so reads through different windows, or Request.body, cannot disturb each other. *)
From Verif Require Import lib.Base lib.Str model.MultipartRef model.Fields.
Local Open Scope Z_scope.

Definition pinv (p : proxy) : Prop := p_st p <= p_pos p <= p_end p.

Lemma proxy_open_inv w : fst w <= snd w -> pinv (proxy_open w).
Proof. unfold pinv, proxy_open. cbn [p_st p_pos p_end]. lia. Qed.

Lemma proxy_seek_set_inv p pos : pinv p -> pinv (proxy_seek_set p pos).
Proof.
  unfold pinv, proxy_seek_set. cbn [p_st p_pos p_end]. intros H.
  destruct (pos <? 0) eqn:E; [|apply Z.ltb_ge in E]; lia.
Qed.

Lemma proxy_seek_inv p pos wh p' : pinv p -> proxy_seek p pos wh = Some p' -> pinv p' /\ p_st p' = p_st p /\ p_end p' = p_end p.
Proof.
  intros H. unfold proxy_seek.
  destruct wh as [|q|q]; [| |discriminate].
  - intros [= <-]. split; [now apply proxy_seek_set_inv | split; reflexivity].
  - destruct q as [q|q|]; [discriminate| |].
    + destruct q; try discriminate. intros [= <-]. split; [now apply proxy_seek_set_inv | split; reflexivity].
    + intros [= <-]. split; [now apply proxy_seek_set_inv | split; reflexivity].
Qed.

Lemma proxy_read_window body p sz b p' :
  pinv p -> proxy_read body p sz = (b, p') ->
  pinv p' /\ p_st p' = p_st p /\ p_end p' = p_end p /\ p_pos p <= p_pos p' /\
  b = (if p_pos p' =? p_pos p then [] else read_at body (p_pos p) (p_pos p' - p_pos p)).
Proof.
  unfold pinv, proxy_read. intros H.
  destruct (Z.leb_spec (p_end p - p_pos p) 0) as [Hle|Hgt].
  - intros [= <- <-]. rewrite Z.eqb_refl. repeat split; lia.
  - set (n := match sz with Some k => if 0 <? k then Z.min k (p_end p - p_pos p) else p_end p - p_pos p
                      | None => p_end p - p_pos p end).
    assert (Hn : 0 < n <= p_end p - p_pos p).
    { unfold n. destruct sz as [k|]; [|lia]. destruct (Z.ltb_spec 0 k); lia. }
    intros [= <- <-]. cbn [p_st p_pos p_end].
    destruct (Z.eqb_spec (p_pos p + n) (p_pos p)); [lia|].
    replace (p_pos p + n - p_pos p) with n by lia. repeat split; lia.
Qed.
