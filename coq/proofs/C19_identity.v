(* C19_identity.v — rules whose wildcards are plain or have an identity
   formatter (re, path): building the URL from the values a match produced
   gives back the matched path itself, for EVERY regex engine rx. *)
From Verif Require Import lib.Base lib.Str lib.PyIntDec model.RouteSpec model.RouteUrl
     proofs.C19_spec proofs.C19_shape.
Local Open Scope N_scope.

(* ---- values that are plain strs ---- *)

Lemma pyval_of_valid_str v : valid_str v -> pyval_of_value v = PStr v.
Proof.
  unfold valid_str. destruct v as [|c t]; [reflexivity|]. intros H. inversion H as [|? ? Hc _]; subst.
  unfold pyval_of_value.
  assert (c =? TAG_INT = false) as -> by (apply N.eqb_neq; lia).
  assert (c =? TAG_FLOAT = false) as -> by (apply N.eqb_neq; unfold TAG_FLOAT, TAG_INT in *; lia).
  reflexivity.
Qed.

Lemma valid_str_firstn n s : valid_str s -> valid_str (firstn n s).
Proof.
  unfold valid_str. rewrite !Forall_forall. intros H x Hx. apply H.
  rewrite <- (firstn_skipn n s). apply in_or_app. now left.
Qed.

Lemma valid_str_skipn n s : valid_str s -> valid_str (skipn n s).
Proof.
  unfold valid_str. rewrite !Forall_forall. intros H x Hx. apply H.
  rewrite <- (firstn_skipn n s). apply in_or_app. now right.
Qed.

(* ---- make_params_dict ---- *)

Lemma str_eqb_sym a b : str_eqb a b = str_eqb b a.
Proof.
  destruct (str_eqb_spec a b) as [->|Hn]; [now rewrite str_eqb_refl|].
  destruct (str_eqb_spec b a) as [->|_]; congruence.
Qed.

Lemma kw_get_set kw n v n' :
  kw_get (kw_set kw n v) n' = if str_eqb n n' then Some v else kw_get kw n'.
Proof.
  induction kw as [|[m x] kw IH]; simpl.
  - reflexivity.
  - destruct (str_eqb_spec m n) as [->|Hmn]; simpl.
    + destruct (str_eqb n n'); reflexivity.
    + rewrite IH. destruct (str_eqb_spec m n') as [->|Hmn'].
      * destruct (str_eqb_spec n n'); congruence.
      * reflexivity.
Qed.

Lemma mpd_acc_other acc names vs n :
  ~ In n (named names) ->
  kw_get (make_params_dict_acc acc names vs) n = kw_get acc n.
Proof.
  revert acc vs; induction names as [|m names IH]; intros acc vs Hn; [reflexivity|].
  destruct vs as [|v vs]; [reflexivity|]. simpl.
  unfold named in Hn. simpl in Hn.
  destruct (is_anon m) eqn:Ea; simpl in Hn.
  - now apply IH.
  - rewrite IH by tauto. rewrite kw_get_set.
    destruct (str_eqb_spec m n) as [->|_]; [tauto | reflexivity].
Qed.

Lemma mpd_acc_get acc names vs n v :
  NoDup (named names) ->
  In (n, v) (combine names vs) ->
  is_anon n = false ->
  kw_get (make_params_dict_acc acc names vs) n = Some v.
Proof.
  revert acc vs; induction names as [|m names IH]; intros acc vs Hnd Hin Ha; [destruct Hin|].
  destruct vs as [|x vs]; [destruct Hin|]. simpl in *.
  unfold named in Hnd. simpl in Hnd.
  destruct Hin as [[= -> ->]|Hin].
  - rewrite Ha in *. simpl in Hnd. inversion Hnd as [|? ? Hni Hnd']; subst.
    rewrite mpd_acc_other by exact Hni.
    rewrite kw_get_set, str_eqb_refl. reflexivity.
  - destruct (is_anon m); simpl in Hnd.
    + now apply IH.
    + inversion Hnd; subst. now apply IH.
Qed.

Section Identity.
Variable kind : fid -> fkind.
Variable rx : fid -> str -> option nat.
Variable fconv : str -> str.

Let filt := handler kind rx fconv.

Lemma handler_identity k s v n :
  f_out_of (kind k) = None ->
  filt k s = Some (v, n) -> v = firstn n s.
Proof.
  unfold filt, handler. destruct (kind k); simpl; try discriminate; intros _;
    destruct (rx k s); intros [= <- <-]; reflexivity.
Qed.

Variable kw : list (str * pyval).

(* the spec builder run on the values of a match *)
Lemma spec_go_identity p :
  forall names path vs t,
    identity_fmt kind p = true ->
    length names = nwild p ->
    valid_str path ->
    match1 filt p path = Some vs ->
    (forall n v, In (n, v) (combine names vs) -> is_anon n = false ->
                 kw_get kw n = Some (pyval_of_value v)) ->
    spec_go kind rx fconv kw p names (anon_args names (map pyval_of_value vs)) (Some t)
    = if validates kind rx fconv p vs then UOk (t ++ path) else UAssertionError.
Proof.
  induction p as [|[s|f] p IH]; intros names path vs t Hid Hlen Hval Hm Hkw.
  - simpl in *. destruct path; [|discriminate]. injection Hm as <-. now rewrite app_nil_r.
  - (* literal *)
    simpl in Hid, Hlen, Hm. destruct (prefixb s path) eqn:Ep; [|discriminate].
    apply prefixb_spec in Ep. destruct Ep as [rest ->].
    rewrite skipn_app_exact in Hm.
    cbn [spec_go push validates]. rewrite app_assoc.
    apply IH; auto.
    unfold valid_str in *. apply Forall_app in Hval. tauto.
  - (* wildcard *)
    simpl in Hid. apply andb_true_iff in Hid. destruct Hid as [Hf Hid].
    simpl in Hlen. destruct names as [|n names]; [discriminate|]. injection Hlen as Hlen.
    cbn [match1] in Hm.
    destruct (wild_step filt f path) as [[v rest]|] eqn:Ew; [|discriminate].
    destruct (match1 filt p rest) as [vs'|] eqn:Em; [|discriminate].
    injection Hm as <-.
    (* the value is the text consumed *)
    assert (Hv : exists k, v = firstn k path /\ rest = skipn k path).
    { unfold wild_step in Ew. destruct path as [|c path']; [discriminate|].
      destruct f as [k|].
      - destruct (filt k (c :: path')) as [[v' m]|] eqn:Ef; [|discriminate].
        injection Ew as <- <-. exists m. split; [|reflexivity].
        eapply handler_identity; eauto.
        destruct (f_out_of (kind k)); [discriminate | reflexivity].
      - injection Ew as <- <-. eauto. }
    destruct Hv as [k [-> ->]].
    assert (Hpv : pyval_of_value (firstn k path) = PStr (firstn k path))
      by (apply pyval_of_valid_str, valid_str_firstn, Hval).
    assert (Hfmt : format kind f (PStr (firstn k path)) = inr (PStr (firstn k path))).
    { unfold format. destruct f as [k0|]; [|reflexivity].
      destruct (f_out_of (kind k0)); [discriminate | reflexivity]. }
    assert (Hrest :
               spec_go kind rx fconv kw p names (anon_args names (map pyval_of_value vs'))
                       (push (Some t) (PStr (firstn k path)))
               = if validates kind rx fconv p vs' then UOk (t ++ path) else UAssertionError).
    { cbn [push].
      replace (t ++ path) with ((t ++ firstn k path) ++ skipn k path)
        by (now rewrite <- app_assoc, firstn_skipn).
      apply IH; auto.
      - now apply valid_str_skipn.
      - intros n' v' Hin. apply Hkw. now right. }
    assert (Hgo :
              match format kind f (PStr (firstn k path)) with
              | inl e => e
              | inr prt =>
                match check kind rx fconv f prt (next_lit p) with
                | Some e => e
                | None => spec_go kind rx fconv kw p names
                                  (anon_args names (map pyval_of_value vs')) (push (Some t) prt)
                end
              end
              = if validates kind rx fconv (Wild f :: p) (firstn k path :: vs')
                then UOk (t ++ path) else UAssertionError).
    { rewrite Hfmt. cbn [validates]. destruct f as [k0|]; cbn [check].
      - unfold validate.
        destruct (handler kind rx fconv k0 (firstn k path ++ next_lit p)) as [[v' [|m]]|]; try reflexivity.
        exact Hrest.
      - exact Hrest. }
    cbn [spec_go map anon_args]. unfold fetch.
    destruct (is_anon n) eqn:Ea.
    + rewrite Hpv. exact Hgo.
    + rewrite (Hkw n (firstn k path)); [| now left | exact Ea]. rewrite Hpv. exact Hgo.
Qed.

End Identity.

Lemma match1_length filt p path vs : match1 filt p path = Some vs -> length vs = nwild p.
Proof.
  revert path vs; induction p as [|[s|f] p IH]; intros path vs H; simpl in *.
  - destruct path; [|discriminate]. now injection H as <-.
  - destruct (prefixb s path); [|discriminate]. eauto.
  - destruct (wild_step filt f path) as [[v rest]|]; [|discriminate].
    destruct (match1 filt p rest) as [vs'|] eqn:E; [|discriminate].
    injection H as <-. simpl. f_equal. eauto.
Qed.

Lemma match1_no_wild filt p path :
  nwild p = 0%nat -> match1 filt p path = Some [] -> path = pattern_of p.
Proof.
  revert path; induction p as [|[s|f] p IH]; intros path Hn H; simpl in *.
  - destruct path; [reflexivity | discriminate].
  - destruct (prefixb s path) eqn:Ep; [|discriminate].
    apply prefixb_spec in Ep. destruct Ep as [rest ->]. rewrite skipn_app_exact in H.
    f_equal. auto.
  - discriminate.
Qed.

Lemma validates_nil kind rx fconv p : validates kind rx fconv p [] = true.
Proof. induction p as [|[s|f] p IH]; simpl; auto. Qed.

Lemma identity_formatters_lemma kind rx fconv p names path vs :
  lits_ok p = true ->
  identity_fmt kind p = true ->
  names_ok p names ->
  valid_str path ->
  match1 (handler kind rx fconv) p path = Some vs ->
  url_of_match kind rx fconv p names vs
  = if validates kind rx fconv p vs then UOk path else UAssertionError.
Proof.
  intros Hok Hid [Hlen Hnd] Hval Hm. unfold url_of_match.
  rewrite url_shape_lemma by exact Hok. unfold url_spec.
  destruct names as [|n0 names0] eqn:En.
  - (* no wildcard at all *)
    simpl in Hlen. pose proof (match1_length _ _ _ _ Hm) as Hl. rewrite <- Hlen in Hl.
    destruct vs; [|discriminate]. rewrite validates_nil.
    f_equal. symmetry. eapply match1_no_wild; eauto.
  - rewrite <- En in *. clear En.
    rewrite (spec_go_identity kind rx fconv _ p names path vs []); auto.
    intros n v Hin Ha. unfold make_params_dict.
    apply mpd_acc_get; auto.
    clear -Hin. revert vs Hin; induction names as [|m names IH]; intros [|x vs] Hin; simpl in *; try tauto.
    destruct Hin as [[= <- <-]|Hin]; [now left | right; now apply IH].
Qed.

(* consequences, in the words of the property *)
Lemma identity_roundtrip_lemma kind rx fconv p names path vs u :
  lits_ok p = true ->
  identity_fmt kind p = true ->
  names_ok p names ->
  valid_str path ->
  match1 (handler kind rx fconv) p path = Some vs ->
  url_of_match kind rx fconv p names vs = UOk u ->
  u = path /\ match1 (handler kind rx fconv) p u = Some vs.
Proof.
  intros Hok Hid Hn Hval Hm Hu.
  rewrite (identity_formatters_lemma kind rx fconv p names path vs) in Hu by assumption.
  destruct (validates kind rx fconv p vs); [|discriminate]. injection Hu as <-. auto.
Qed.

(* plain wildcards only: the builder never fails *)
Definition plain_only (p : pat) : bool :=
  forallb (fun sg => match sg with Wild (Some _) => false | _ => true end) p.

Lemma plain_validates kind rx fconv p vs : plain_only p = true -> validates kind rx fconv p vs = true.
Proof.
  revert vs; induction p as [|[s|[k|]] p IH]; intros vs H; simpl in *; try discriminate; auto.
  destruct vs; auto.
Qed.

Lemma plain_identity kind p : plain_only p = true -> identity_fmt kind p = true.
Proof. induction p as [|[s|[k|]] p IH]; simpl; intros H; try discriminate; auto. Qed.

Lemma plain_total_lemma kind rx fconv p names path vs :
  lits_ok p = true ->
  plain_only p = true ->
  names_ok p names ->
  valid_str path ->
  match1 (handler kind rx fconv) p path = Some vs ->
  url_of_match kind rx fconv p names vs = UOk path.
Proof.
  intros Hok Hp Hn Hval Hm.
  rewrite (identity_formatters_lemma kind rx fconv p names path vs); auto using plain_identity.
  now rewrite plain_validates.
Qed.

(* ---- RadiRouter.resolve strips '/' from both ends: stripping is idempotent,
   so a built url that equals an already stripped path is looked up as it is ---- *)

Section Strip.
Context {A : Type} (m : A -> bool).

Definition headok (l : list A) : Prop := match l with [] => True | x :: _ => m x = false end.

Lemma lstrip_headok l : headok (lstrip_set m l).
Proof. induction l as [|x l IH]; simpl; [exact I|]. destruct (m x) eqn:E; [exact IH | exact E]. Qed.

Lemma headok_lstrip l : headok l -> lstrip_set m l = l.
Proof. destruct l as [|x l]; simpl; [reflexivity|]. now intros ->. Qed.

Lemma lstrip_suffix l : exists w, l = w ++ lstrip_set m l.
Proof.
  induction l as [|x l [w IH]]; simpl; [now exists []|].
  destruct (m x); [exists (x :: w); simpl; now f_equal | now exists []].
Qed.

Lemma rstrip_prefix l : exists w, l = rstrip_set m l ++ w.
Proof.
  unfold rstrip_set. destruct (lstrip_suffix (rev l)) as [w Hw].
  exists (rev w). rewrite <- rev_app_distr, <- Hw. now rewrite rev_involutive.
Qed.

Lemma rstrip_headok l : headok l -> headok (rstrip_set m l).
Proof.
  intros H. destruct (rstrip_prefix l) as [w Hw].
  destruct (rstrip_set m l) as [|x r]; [exact I|]. rewrite Hw in H. exact H.
Qed.

Lemma strip_set_idem l : strip_set m (strip_set m l) = strip_set m l.
Proof.
  unfold strip_set.
  rewrite (headok_lstrip (rstrip_set m (lstrip_set m l))) by apply rstrip_headok, lstrip_headok.
  unfold rstrip_set. rewrite rev_involutive. f_equal.
  apply headok_lstrip, lstrip_headok.
Qed.
End Strip.

Lemma strip_slash_idem s : strip_slash (strip_slash s) = strip_slash s.
Proof. apply strip_set_idem. Qed.

(* the statement at the level of RadiRouter.resolve: the request path and the
   built url are both stripped of '/' before the rule is applied *)
Lemma identity_resolve_lemma kind rx fconv p names path0 vs u :
  lits_ok p = true ->
  identity_fmt kind p = true ->
  names_ok p names ->
  valid_str path0 ->
  match1 (handler kind rx fconv) p (strip_slash path0) = Some vs ->
  url_of_match kind rx fconv p names vs = UOk u ->
  match1 (handler kind rx fconv) p (strip_slash u) = Some vs.
Proof.
  intros Hok Hid Hn Hval Hm Hu.
  assert (Hv : valid_str (strip_slash path0)).
  { unfold strip_slash, strip_set.
    destruct (rstrip_prefix (fun c => c =? SLASH) (lstrip_set (fun c => c =? SLASH) path0)) as [w Hw].
    destruct (lstrip_suffix (fun c => c =? SLASH) path0) as [w' Hw'].
    unfold valid_str in *. rewrite Hw' in Hval. apply Forall_app in Hval. destruct Hval as [_ Hval].
    rewrite Hw in Hval. apply Forall_app in Hval. tauto. }
  destruct (identity_roundtrip_lemma kind rx fconv p names _ vs u Hok Hid Hn Hv Hm Hu) as [-> _].
  now rewrite strip_slash_idem.
Qed.
