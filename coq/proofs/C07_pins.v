(* C07_pins.v — the source text of the regular expression that Fields.v
   re-implements by hand (scan_key / scan_value / opt_matches), as extracted
   from /repo into gen/Gen.v on every run.  An edited regex breaks this file. *)
From Verif Require Import lib.Base gen.Gen model.Fields.

(* FieldStorage._patt, multipart.py:407 (after fix F8):  (.+?)(=(Q[^Q]*Q|.+?))?(;|$)   Q = double quote *)
Lemma field_opt_patt_pinned :
  Gen.field_opt_patt_src
  = [40;46;43;63;41;40;61;40;34;91;94;34;93;42;34;124;46;43;63;41;41;63;40;59;124;36;41]%N.
Proof. reflexivity. Qed.
