(* C04_proofs.v — Content-Length bodies: exactness, no over-read, spill independence. *)
From Verif Require Import lib.Base lib.ListX model.Stream model.Body.

(* every logged request: positive, at most one buffer, and never reaching past
   byte [cl] of the stream (position at which it was issued + size <= cl) *)
Definition reqs_ok (buf cl : nat) (l : list (nat * nat)) : Prop :=
  Forall (fun np => 0 < fst np /\ fst np <= buf /\ snd np + fst np <= cl) l.

Lemma read_len_le s n : read_len s n <= n.
Proof. unfold read_len; destruct (sched s); lia. Qed.

Lemma read_len_pos s n : 0 < n -> 0 < read_len s n.
Proof. unfold read_len; destruct (sched s); lia. Qed.

(* Closed form of the loop without a size limit. *)
Lemma cl_loop_spec :
  forall fuel s buf c acc sp,
    0 < buf ->
    length (rest s) < fuel ->
    sp = Nat.ltb buf (length acc) ->
    exists s',
      cl_loop fuel s buf None c acc sp
        = BDone (acc ++ firstn c (rest s))
                (Nat.ltb buf (length (acc ++ firstn c (rest s)))) s'
      /\ rest s' = skipn c (rest s)
      /\ pos s' = pos s + Nat.min c (length (rest s))
      /\ (forall cl0, pos s + c <= cl0 -> reqs_ok buf cl0 (reqs s) -> reqs_ok buf cl0 (reqs s')).
Proof.
  induction fuel as [|f IH]; intros s buf c acc sp Hbuf Hfuel Hsp; [lia|].
  cbn [cl_loop].
  destruct (Nat.eqb_spec c 0) as [->|Hc].
  - exists s. rewrite firstn_O, app_nil_r. split; [now rewrite Hsp|].
    split; [reflexivity|]. split; [simpl; lia|]. intros; assumption.
  - set (n := Nat.min c buf).
    assert (Hn : 0 < n) by (unfold n; lia).
    unfold read. set (k := read_len s n).
    assert (Hk : 0 < k <= n) by (unfold k; split; [apply read_len_pos; lia | apply read_len_le]).
    destruct (firstn k (rest s)) as [|x part] eqn:Hpart.
    + (* EOF: the stream is exhausted *)
      apply firstn_nil_inv in Hpart. destruct Hpart as [Hk0|Hnil]; [lia|].
      rewrite Hnil, firstn_nil, !skipn_nil, app_nil_r, <- Hsp.
      eexists. split; [reflexivity|]. cbn [rest pos reqs length].
      split; [reflexivity|]. split; [lia|].
      intros cl0 Hcl Hok. constructor; [|exact Hok]. cbn [fst snd]. unfold n. lia.
    + rewrite <- Hpart. cbn [over].
      assert (Hlen : length (firstn k (rest s)) = Nat.min k (length (rest s))) by apply firstn_length.
      assert (Hne : rest s <> []) by (intro E; rewrite E, firstn_nil in Hpart; discriminate).
      assert (Hrl : 0 < length (rest s)) by (destruct (rest s); [congruence | simpl; lia]).
      set (m := length (firstn k (rest s))) in *.
      assert (Hm : 0 < m <= k) by lia.
      match goal with |- context [cl_loop f ?s1 buf None ?c1 ?a1 ?sp1] =>
        destruct (IH s1 buf c1 a1 sp1) as (s' & Heq & Hrest & Hpos & Hreq) end.
      * exact Hbuf.
      * cbn [rest]. rewrite skipn_length. lia.
      * rewrite Hsp, app_length. fold m.
        destruct (Nat.ltb_spec buf (length acc)), (Nat.ltb_spec buf (length acc + m)); simpl; try reflexivity; lia.
      * cbn [rest pos reqs] in *.
        exists s'. rewrite Heq.
        (* firstn k (rest s) is a full k bytes or the whole remainder *)
        assert (Hcase : m = k \/ (m < k /\ skipn k (rest s) = [] /\ firstn k (rest s) = rest s)).
        { destruct (Nat.le_gt_cases k (length (rest s))) as [Hle|Hgt].
          - left. lia.
          - right. split; [lia|]. split; [apply skipn_all2; lia | apply firstn_all2; lia]. }
        assert (Hbody : (acc ++ firstn k (rest s)) ++ firstn (c - m) (skipn k (rest s))
                        = acc ++ firstn c (rest s)).
        { rewrite <- app_assoc. f_equal.
          destruct Hcase as [Hmk | (Hlt & Hsk & Hall)].
          - rewrite Hmk. apply firstn_firstn_skipn. unfold n in *. lia.
          - rewrite Hsk, firstn_nil, app_nil_r, Hall.
            symmetry. apply firstn_all2. unfold n in *. lia. }
        rewrite Hbody. split; [reflexivity|].
        split; [|split].
        -- rewrite Hrest. destruct Hcase as [Hmk | (Hlt & Hsk & Hall)].
           ++ rewrite Hmk. apply skipn_sub_skipn. unfold n in *; lia.
           ++ rewrite Hsk, skipn_nil. symmetry. apply skipn_all2. unfold n in *. lia.
        -- rewrite Hpos, skipn_length. lia.
        -- intros cl0 Hcl Hok. apply Hreq; [lia|].
           constructor; [|exact Hok]. cbn [fst snd]. unfold n. lia.
Qed.

(* ---- the property-level statements ---- *)

Lemma C04_exact_lemma :
  forall data sc buf cl,
    0 < buf ->
    exists s',
      body_read_cl (stream_init data sc) buf None cl
        = BDone (firstn (Z.to_nat cl) data) (Nat.ltb buf (Nat.min (Z.to_nat cl) (length data))) s'
      /\ rest s' = skipn (Z.to_nat cl) data
      /\ pos s' = Nat.min (Z.to_nat cl) (length data)
      /\ reqs_ok buf (Z.to_nat cl) (reqs s').
Proof.
  intros data sc buf cl Hbuf. unfold body_read_cl.
  destruct (cl_loop_spec (S (length (rest (stream_init data sc)))) (stream_init data sc) buf
                         (Z.to_nat cl) [] false Hbuf) as (s' & Heq & Hrest & Hpos & Hreq).
  - lia.
  - simpl. destruct buf; [lia|reflexivity].
  - exists s'. cbn [app rest stream_init pos reqs] in *.
    rewrite Heq, firstn_length. repeat split; auto.
    apply Hreq; [lia | constructor].
Qed.

(* the bytes delivered do not depend on the buffer size nor on the fragmentation *)
Lemma C04_independent_lemma :
  forall data sc sc' buf buf' cl,
    0 < buf -> 0 < buf' ->
    match body_read_cl (stream_init data sc) buf None cl,
          body_read_cl (stream_init data sc') buf' None cl with
    | BDone b _ _, BDone b' _ _ => b = b'
    | _, _ => False
    end.
Proof.
  intros data sc sc' buf buf' cl H H'.
  destruct (C04_exact_lemma data sc buf cl H) as (s1 & E1 & _).
  destruct (C04_exact_lemma data sc' buf' cl H') as (s2 & E2 & _).
  now rewrite E1, E2.
Qed.

(* ---- the defect repaired by the fix: commit (F4) ----
   The unrepaired _iter_body subtracted the *requested* size:
     rest_len -= part_size
   Model of that variant and a concrete witness that it truncates the body. *)
Fixpoint cl_loop_prefix (fuel : nat) (s : stream) (buf : nat)
         (rest_len : nat) (acc : list N) : option (list N) :=
  match fuel with
  | O => None
  | S f =>
    if Nat.eqb rest_len 0 then Some acc
    else
      let part_size := Nat.min rest_len buf in
      let (part, s') := read s part_size in
      match part with
      | [] => Some acc
      | _ => cl_loop_prefix f s' buf (rest_len - part_size) (acc ++ part)
      end
  end.

Definition f4_data : list N := map N.of_nat (seq 0 20).

Lemma F4_prefix_variant_truncates :
  exists data sc buf cl,
    0 < buf /\
    cl_loop_prefix (S (length data)) (stream_init data sc) buf cl [] <> Some (firstn cl data).
Proof.
  exists f4_data, [2;2;2;2;2;2;2;2], 8, 20. split; [lia|].
  vm_compute. discriminate.
Qed.
