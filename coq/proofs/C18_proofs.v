(* C18_proofs.v — parse_qsl (model/Qsl.v) inverts urlencode; totality; fuel. *)
From Verif Require Import lib.Base lib.Str lib.Utf8 lib.Pct model.Qsl proofs.C18_spec.
From Coq Require Import ZifyBool.

(* ================================================================== *)
(* 2. Fuel: i strictly increases                                       *)
(* ================================================================== *)

(* ---- list/scan facts that do not depend on the mode of parse_qsl ---- *)

Lemma for_else_stop stop a x r n idx c :
  Forall (fun y => stop y = false) a -> stop x = true ->
  for_else stop (a ++ x :: r) n idx c = (n + length a, Some x).
Proof.
  intros Ha Hx. revert n idx c. induction Ha as [|y a Hy _ IH]; intros n idx c.
  - cbn [app for_else length]. rewrite Hx. f_equal. lia.
  - cbn [app for_else length]. rewrite Hy, IH. f_equal. lia.
Qed.

(* no separator at all: idx ends at least at the length (exactly, unless empty) and
   the leftover c is not a separator *)
Lemma for_else_nostop stop a n idx c :
  Forall (fun y => stop y = false) a ->
  exists idx' c', for_else stop a n idx c = (idx', c')
                  /\ (a <> [] -> n + length a <= idx' /\ exists y, c' = Some y /\ stop y = false).
Proof.
  intros Ha. revert n idx c. induction Ha as [|y a Hy _ IH]; intros n idx c.
  - cbn [for_else]. do 2 eexists. split; [reflexivity|]. congruence.
  - cbn [for_else length]. rewrite Hy.
    destruct (IH (S n) n (Some y)) as (i' & c' & E & P). rewrite E.
    do 2 eexists. split; [reflexivity|]. intros _.
    destruct a as [|z a].
    + cbn [for_else] in E. injection E as <- <-. cbn [length]. split; [lia|]. eauto.
    + destruct P as [P1 P2]; [discriminate|]. cbn [length] in *. split; [lia | exact P2].
Qed.

Lemma for_else_nostop_ge stop a :
  Forall (fun y => stop y = false) a -> length a <= fst (for_else stop a 0 0 None).
Proof.
  intros Ha. destruct a as [|y a]; [cbn; lia|].
  destruct (for_else_nostop stop (y :: a) 0 0 None Ha) as (i' & c' & E & P).
  rewrite E. destruct P as [P _]; [discriminate|]. cbn [fst]. lia.
Qed.

Lemma skipn_pre {A} (pre r : list A) : skipn (length pre) (pre ++ r) = r.
Proof. induction pre; cbn; auto. Qed.

Lemma slice_mid {A} (pre a r : list A) n :
  n = length pre + length a -> slice (pre ++ a ++ r) (length pre) n = a.
Proof.
  intros ->. unfold slice. rewrite skipn_pre.
  replace (length pre + length a - length pre) with (length a) by lia.
  rewrite firstn_app, Nat.sub_diag, firstn_all. cbn. apply app_nil_r.
Qed.

Lemma slice_tail {A} (pre a : list A) n :
  length pre + length a <= n -> slice (pre ++ a) (length pre) n = a.
Proof.
  intros H. unfold slice. rewrite skipn_pre. apply firstn_all2. lia.
Qed.

Section Generic.
Context {St : Type} (add : str -> str -> St -> St).

(* fuel is consulted before the loop test, hence 0 < fuel *)
Lemma loop_progress fuel qs i st :
  length qs < fuel + i -> 0 < fuel -> qsl_loop add fuel qs i st <> None.
Proof.
  revert i st. induction fuel as [|f IH]; intros i st H H0; [lia|].
  cbn [qsl_loop].
  destruct (Nat.ltb_spec i (length qs)) as [Hi|Hi]; [|discriminate].
  destruct (for_else is_eq_or_amp (skipn i qs) 0 0 None) as [idx c].
  assert (Hf : 0 < f) by lia.
  destruct (slice qs i (i + idx)).
  - apply IH; lia.
  - destruct (opt_is c 38).
    + apply IH; lia.
    + destruct (for_else is_amp (skipn (i + idx + 1) qs) 0 0 None) as [idx2 c2].
      apply IH; lia.
Qed.

Lemma run_fuel_suffices qs st : qsl_run add qs st <> None.
Proof. unfold qsl_run. apply loop_progress; lia. Qed.

Lemma loop_done f qs i st : length qs <= i -> qsl_loop add (S f) qs i st = Some st.
Proof.
  intros H. cbn [qsl_loop]. destruct (Nat.ltb_spec i (length qs)); [lia | reflexivity].
Qed.

(* ================================================================== *)
(* 3. The scanner on a well-formed encoding                            *)
(* ================================================================== *)

(* the encoder, abstractly: what the scanner needs to know about quote / quote_plus *)
Context (q : str -> str).
Context (q_dec : forall s, Forall scalar s -> decode_component (q s) = s).
Context (q_chars : forall s, Forall (fun x => is_eq_or_amp x = false) (q s)).
Context (q_nonempty : forall s, s <> [] -> q s <> []).

Lemma q_chars_amp s : Forall (fun x => is_amp x = false) (q s).
Proof.
  eapply Forall_impl; [|apply (q_chars s)]. intros x. unfold is_eq_or_amp, is_amp.
  intros H. apply orb_false_iff in H. tauto.
Qed.

Definition step_add (st : St) (p : str * str) : St := add (fst p) (snd p) st.

(* one pair followed by '&': the loop consumes exactly  q k = q v &  *)
Lemma loop_pair_mid f pre k v rest st :
  k <> [] -> Forall scalar k -> Forall scalar v ->
  qsl_loop add (S f) (pre ++ (q k ++ [61%N] ++ q v ++ [38%N]) ++ rest) (length pre) st
  = qsl_loop add f (pre ++ (q k ++ [61%N] ++ q v ++ [38%N]) ++ rest)
             (length (pre ++ q k ++ [61%N] ++ q v ++ [38%N])) (add k v st).
Proof.
  intros Hk Hsk Hsv.
  set (qs := pre ++ (q k ++ [61%N] ++ q v ++ [38%N]) ++ rest).
  assert (Eqs1 : qs = pre ++ q k ++ (61%N :: q v ++ 38%N :: rest)).
  { unfold qs. rewrite <- !app_assoc. reflexivity. }
  assert (Eqs2 : qs = (pre ++ q k ++ [61%N]) ++ q v ++ (38%N :: rest)).
  { unfold qs. rewrite <- !app_assoc. reflexivity. }
  assert (Hlen : length pre < length qs).
  { rewrite Eqs1, !app_length. pose proof (q_nonempty k Hk). destruct (q k); [congruence | cbn; lia]. }
  assert (Hs1 : skipn (length pre) qs = q k ++ 61%N :: q v ++ 38%N :: rest)
    by (rewrite Eqs1; apply skipn_pre).
  assert (Hkey : slice qs (length pre) (length pre + length (q k)) = q k)
    by (rewrite Eqs1; apply slice_mid; reflexivity).
  assert (Hi2 : length pre + length (q k) + 1 = length (pre ++ q k ++ [61%N]))
    by (rewrite !app_length; cbn; lia).
  assert (Hs2 : skipn (length (pre ++ q k ++ [61%N])) qs = q v ++ 38%N :: rest)
    by (rewrite Eqs2; apply skipn_pre).
  assert (Hval : slice qs (length (pre ++ q k ++ [61%N])) (length (pre ++ q k ++ [61%N]) + length (q v)) = q v)
    by (rewrite Eqs2; apply slice_mid; reflexivity).
  clearbody qs.
  cbn [qsl_loop].
  destruct (Nat.ltb_spec (length pre) (length qs)) as [_|]; [|lia].
  rewrite Hs1, for_else_stop by (try apply q_chars; reflexivity).
  cbn [Nat.add]. rewrite !Hkey.
  pose proof (q_nonempty k Hk) as Hne.
  destruct (q k) as [|x0 qk0] eqn:Eqk; [congruence|]. rewrite <- Eqk in *. clear Hne.
  rewrite q_dec by exact Hsk. cbn [opt_is]. cbn [N.eqb Pos.eqb].
  rewrite !Hi2, Hs2, for_else_stop by (try apply q_chars_amp; reflexivity).
  cbn [Nat.add]. rewrite Hval, q_dec by exact Hsv.
  f_equal. rewrite !app_length. cbn. lia.
Qed.

(* the last pair: no '&' behind it *)
Lemma loop_pair_last f pre k v st :
  k <> [] -> Forall scalar k -> Forall scalar v ->
  qsl_loop add (S (S f)) (pre ++ q k ++ [61%N] ++ q v) (length pre) st = Some (add k v st).
Proof.
  intros Hk Hsk Hsv.
  set (qs := pre ++ q k ++ [61%N] ++ q v).
  assert (Eqs1 : qs = pre ++ q k ++ (61%N :: q v)) by reflexivity.
  assert (Eqs2 : qs = (pre ++ q k ++ [61%N]) ++ q v).
  { unfold qs. rewrite <- !app_assoc. reflexivity. }
  assert (Hlen : length pre < length qs).
  { rewrite Eqs1, !app_length. pose proof (q_nonempty k Hk). destruct (q k); [congruence | cbn; lia]. }
  assert (HL : length qs = length (pre ++ q k ++ [61%N]) + length (q v))
    by (rewrite Eqs2, app_length; reflexivity).
  assert (Hs1 : skipn (length pre) qs = q k ++ 61%N :: q v)
    by (rewrite Eqs1; apply skipn_pre).
  assert (Hkey : slice qs (length pre) (length pre + length (q k)) = q k)
    by (rewrite Eqs1; apply slice_mid; reflexivity).
  assert (Hi2 : length pre + length (q k) + 1 = length (pre ++ q k ++ [61%N]))
    by (rewrite !app_length; cbn; lia).
  assert (Hs2 : skipn (length (pre ++ q k ++ [61%N])) qs = q v)
    by (rewrite Eqs2; apply skipn_pre).
  assert (Hval : forall n, length (q v) <= n ->
                 slice qs (length (pre ++ q k ++ [61%N])) (length (pre ++ q k ++ [61%N]) + n) = q v)
    by (intros n Hn; rewrite Eqs2; apply slice_tail; lia).
  clearbody qs.
  cbn [qsl_loop].
  destruct (Nat.ltb_spec (length pre) (length qs)) as [_|]; [|lia].
  rewrite Hs1, for_else_stop by (try apply q_chars; reflexivity).
  cbn [Nat.add]. rewrite !Hkey.
  pose proof (q_nonempty k Hk) as Hne.
  destruct (q k) as [|x0 qk0] eqn:Eqk; [congruence|]. rewrite <- Eqk in *. clear Hne.
  rewrite q_dec by exact Hsk. cbn [opt_is]. cbn [N.eqb Pos.eqb].
  rewrite !Hi2, Hs2.
  pose proof (for_else_nostop_ge is_amp (q v) (q_chars_amp v)) as Hge.
  destruct (for_else is_amp (q v) 0 0 None) as [idx2 c2]. cbn [fst] in Hge.
  rewrite Hval by exact Hge. rewrite q_dec by exact Hsv.
  destruct (Nat.ltb_spec (length (pre ++ q k ++ [61%N]) + idx2 + 1) (length qs)) as [Hlt|]; [lia | reflexivity].
Qed.

Lemma urlencode_cons p p' ps :
  urlencode_with q (p :: p' :: ps)
  = (q (fst p) ++ [61%N] ++ q (snd p) ++ [38%N]) ++ urlencode_with q (p' :: ps).
Proof. unfold urlencode_with. cbn [map join]. rewrite <- !app_assoc. reflexivity. Qed.

Lemma urlencode_one p : urlencode_with q [p] = q (fst p) ++ [61%N] ++ q (snd p).
Proof. reflexivity. Qed.

Lemma loop_urlencode ps : forall pre st fuel,
  sendable ps ->
  length ps <= fuel ->
  qsl_loop add (S fuel) (pre ++ urlencode_with q ps) (length pre) st
  = Some (fold_left step_add ps st).
Proof.
  induction ps as [|p ps IH]; intros pre st fuel Hs Hf.
  - cbn [urlencode_with map join fold_left]. apply loop_done. rewrite app_nil_r. lia.
  - inversion Hs as [|? ? (Hk & Hsk & Hsv) Hs']; subst.
    destruct ps as [|p' ps].
    + rewrite urlencode_one. cbn [fold_left]. cbn [length] in Hf.
      destruct fuel as [|fuel]; [lia|].
      apply loop_pair_last; assumption.
    + rewrite urlencode_cons. rewrite loop_pair_mid by assumption.
      destruct fuel as [|fuel]; [cbn [length] in Hf; lia|].
      rewrite app_assoc.
      replace (pre ++ q (fst p) ++ [61%N] ++ q (snd p) ++ [38%N])
        with (pre ++ (q (fst p) ++ [61%N] ++ q (snd p) ++ [38%N])) by reflexivity.
      rewrite IH; [reflexivity | exact Hs' | cbn [length] in *; lia].
Qed.

Lemma length_le_urlencode ps : sendable ps -> length ps <= length (urlencode_with q ps).
Proof.
  induction ps as [|p ps IH]; intros Hs; [cbn; lia|].
  inversion Hs as [|? ? (Hk & _) Hs']; subst.
  pose proof (q_nonempty _ Hk) as Hne.
  destruct ps as [|p' ps].
  - rewrite urlencode_one, !app_length. cbn. lia.
  - rewrite urlencode_cons, !app_length. specialize (IH Hs'). cbn [length] in *. lia.
Qed.

Lemma run_urlencode ps st :
  sendable ps -> qsl_run add (urlencode_with q ps) st = Some (fold_left step_add ps st).
Proof.
  intros Hs. unfold qsl_run.
  replace (length (urlencode_with q ps) + 1) with (S (length (urlencode_with q ps))) by lia.
  apply (loop_urlencode ps [] st); [exact Hs|].
  pose proof (length_le_urlencode ps Hs). lia.
Qed.

End Generic.

(* ================================================================== *)
(* 4. The [add] closure computes [group]                               *)
(* ================================================================== *)

Lemma str_eqb_sym a b : str_eqb a b = str_eqb b a.
Proof. destruct (str_eqb_spec a b), (str_eqb_spec b a); congruence. Qed.

Lemma dict_get_set {V} (d : list (str * V)) k v k' :
  dict_get (dict_set d k v) k' = if str_eqb k k' then Some v else dict_get d k'.
Proof.
  induction d as [|[k0 v0] d IH]; cbn [dict_set dict_get].
  - destruct (str_eqb k k'); reflexivity.
  - destruct (str_eqb_spec k0 k) as [->|Hn]; cbn [dict_get].
    + destruct (str_eqb k k'); reflexivity.
    + rewrite IH. destruct (str_eqb_spec k0 k') as [->|Hn'].
      * destruct (str_eqb_spec k k'); [congruence | reflexivity].
      * reflexivity.
Qed.

Definition memb (k : str) (l : list str) : bool := existsb (fun k' => str_eqb k' k) l.

Lemma memb_in k l : memb k l = true <-> In k l.
Proof.
  unfold memb. rewrite existsb_exists. split.
  - intros (x & Hx & E). apply str_eqb_eq in E. congruence.
  - intros H. exists k. split; [exact H | apply str_eqb_refl].
Qed.

Lemma dedup_in k l : In k (dedup l) <-> In k l.
Proof.
  induction l as [|x l IH]; cbn [dedup]; [tauto|].
  cbn [In]. rewrite filter_In, IH. split.
  - intros [->|[H _]]; auto.
  - intros [->|H]; auto.
    destruct (str_eqb_spec k x) as [->|Hn]; [left; reflexivity|].
    right. split; [exact H|]. destruct (str_eqb_spec k x); [contradiction | reflexivity].
Qed.

Lemma dedup_nodup l : NoDup (dedup l).
Proof.
  induction l as [|x l IH]; cbn [dedup]; constructor.
  - rewrite filter_In. intros [_ H]. rewrite str_eqb_refl in H. discriminate.
  - apply NoDup_filter, IH.
Qed.

Lemma dedup_snoc l k :
  dedup (l ++ [k]) = if memb k l then dedup l else dedup l ++ [k].
Proof.
  induction l as [|x l IH]; [reflexivity|].
  cbn [app dedup]. rewrite IH. unfold memb in *. cbn [existsb].
  destruct (existsb (fun k' => str_eqb k' k) l) eqn:E.
  - rewrite orb_true_r. reflexivity.
  - rewrite orb_false_r. rewrite filter_app. cbn [filter].
    rewrite (str_eqb_sym x k).
    destruct (str_eqb k x); cbn [negb]; [rewrite app_nil_r|]; reflexivity.
Qed.

Lemma values_of_snoc k' ps k v :
  values_of k' (ps ++ [(k, v)]) = values_of k' ps ++ (if str_eqb k k' then [v] else []).
Proof.
  induction ps as [|[k0 v0] ps IH]; cbn [app values_of]; [destruct (str_eqb k k'); reflexivity|].
  rewrite IH. destruct (str_eqb k0 k'); reflexivity.
Qed.

Lemma values_of_nil_iff k ps : values_of k ps = [] <-> ~ In k (map fst ps).
Proof.
  induction ps as [|[k0 v0] ps IH]; cbn [values_of map fst In]; [tauto|].
  destruct (str_eqb_spec k0 k) as [->|Hn].
  - split; [discriminate | intros H; exfalso; apply H; auto].
  - rewrite IH. tauto.
Qed.

(* dict_set on a key-indexed table with distinct keys *)
Lemma dict_set_map_in (g : str -> fval) l k val :
  NoDup l -> In k l ->
  dict_set (map (fun k' => (k', g k')) l) k val
  = map (fun k' => (k', if str_eqb k k' then val else g k')) l.
Proof.
  induction l as [|x l IH]; intros Hnd Hin; [contradiction|].
  inversion Hnd as [|? ? Hx Hnd']; subst.
  cbn [map dict_set]. destruct (str_eqb_spec x k) as [->|Hn].
  - rewrite str_eqb_refl. f_equal.
    apply map_ext_in. intros a Ha. destruct (str_eqb_spec k a) as [->|]; [contradiction | reflexivity].
  - destruct (str_eqb_spec k x); [congruence|]. f_equal.
    apply IH; [exact Hnd'|]. destruct Hin; [congruence | assumption].
Qed.

Lemma dict_set_map_notin (g : str -> fval) l k val :
  ~ In k l ->
  dict_set (map (fun k' => (k', g k')) l) k val = map (fun k' => (k', g k')) l ++ [(k, val)].
Proof.
  induction l as [|x l IH]; intros Hin; [reflexivity|].
  cbn [map dict_set app]. destruct (str_eqb_spec x k) as [->|Hn].
  - exfalso. apply Hin. left. reflexivity.
  - f_equal. apply IH. intros H. apply Hin. right. exact H.
Qed.

(* the grouping after one more submitted pair *)
Lemma group_snoc ps k v :
  group (ps ++ [(k, v)]) = dict_set (group ps) k (mkval (values_of k ps ++ [v])).
Proof.
  unfold group. rewrite map_app. cbn [map fst]. rewrite dedup_snoc.
  destruct (memb k (map fst ps)) eqn:E.
  - apply memb_in in E.
    rewrite dict_set_map_in by (try apply dedup_nodup; apply dedup_in; exact E).
    apply map_ext. intros a. rewrite values_of_snoc.
    destruct (str_eqb_spec k a) as [->|]; [reflexivity | now rewrite app_nil_r].
  - assert (Hn : ~ In k (map fst ps)) by (intros H; apply memb_in in H; congruence).
    rewrite dict_set_map_notin by (rewrite dedup_in; exact Hn).
    rewrite map_app. cbn [map]. rewrite values_of_snoc, str_eqb_refl. f_equal.
    apply map_ext_in. intros a Ha. rewrite values_of_snoc.
    destruct (str_eqb_spec k a) as [->|]; [|now rewrite app_nil_r].
    exfalso. apply Hn. apply dedup_in. exact Ha.
Qed.

(* the state of the closure after the pairs [ps] *)
Record add_inv (ps : list (str * str)) (st : add_state) : Prop := {
  inv_seen : forall k, dict_get (a_seen st) k = hd_error (values_of k ps);
  inv_lists : forall k, dict_get (a_lists st) k
                        = if Nat.leb 2 (length (values_of k ps)) then Some (values_of k ps) else None;
  inv_out : a_out st = group ps
}.

Lemma add_inv_init : add_inv [] (add_init []).
Proof. constructor; reflexivity. Qed.

Lemma hd_error_snoc {A} (l : list A) x : hd_error (l ++ [x]) = match l with [] => Some x | y :: _ => Some y end.
Proof. destruct l; reflexivity. Qed.

Lemma add_inv_step ps st k v :
  add_inv ps st -> add_inv (ps ++ [(k, v)]) (add_setitem k v st).
Proof.
  intros [I1 I2 I3]. unfold add_setitem.
  pose proof (I2 k) as L. pose proof (I1 k) as S1.
  destruct (Nat.leb_spec 2 (length (values_of k ps))) as [Hlen|Hlen].
  - (* already a list *)
    rewrite L. destruct (values_of k ps) as [|x vl] eqn:Ev; [cbn in Hlen; lia|].
    constructor; cbn [a_seen a_lists a_out].
    + intros k'. rewrite I1, values_of_snoc. destruct (values_of k' ps) eqn:Ev'; [|reflexivity].
      (* no value for k' yet: then k' <> k *)
      destruct (str_eqb_spec k k') as [<-|]; [|reflexivity]. congruence.
    + intros k'. rewrite dict_get_set, values_of_snoc. destruct (str_eqb_spec k k') as [<-|Hn].
      * rewrite Ev. rewrite app_length. cbn [length].
        destruct (Nat.leb_spec 2 (S (length vl) + 1)); [reflexivity | lia].
      * rewrite app_nil_r. apply I2.
    + rewrite group_snoc, I3, Ev. f_equal.
      destruct vl; [cbn in Hlen; lia | reflexivity].
  - (* not yet a list *)
    rewrite L. clear L.
    assert (L' : match dict_get (a_lists st) k with Some (x :: vl) => False | _ => True end).
    { rewrite I2. destruct (Nat.leb_spec 2 (length (values_of k ps))); [lia | exact I]. }
    destruct (values_of k ps) as [|first [|second rest']] eqn:Ev; cbn [length] in Hlen; try lia.
    + (* first occurrence *)
      rewrite S1. cbn [hd_error].
      constructor; cbn [a_seen a_lists a_out].
      * intros k'. rewrite dict_get_set, values_of_snoc. destruct (str_eqb_spec k k') as [<-|Hn].
        -- rewrite Ev. reflexivity.
        -- rewrite app_nil_r. apply I1.
      * intros k'. rewrite I2, values_of_snoc. destruct (str_eqb_spec k k') as [<-|Hn].
        -- rewrite Ev. reflexivity.
        -- rewrite app_nil_r. reflexivity.
      * rewrite group_snoc, I3, Ev. reflexivity.
    + (* second occurrence: promotion to a list *)
      rewrite S1. cbn [hd_error].
      constructor; cbn [a_seen a_lists a_out].
      * intros k'. rewrite I1, values_of_snoc. destruct (values_of k' ps) eqn:Ev'; [|reflexivity].
        destruct (str_eqb_spec k k') as [<-|]; [|reflexivity]. congruence.
      * intros k'. rewrite dict_get_set, values_of_snoc. destruct (str_eqb_spec k k') as [<-|Hn].
        -- rewrite Ev. reflexivity.
        -- rewrite app_nil_r. apply I2.
      * rewrite group_snoc, I3, Ev. reflexivity.
Qed.

Lemma fold_add_inv ps : forall ps0 st,
  add_inv ps0 st -> add_inv (ps0 ++ ps) (fold_left (step_add add_setitem) ps st).
Proof.
  induction ps as [|[k v] ps IH]; intros ps0 st H; cbn [fold_left].
  - rewrite app_nil_r. exact H.
  - replace (ps0 ++ (k, v) :: ps) with ((ps0 ++ [(k, v)]) ++ ps) by (rewrite <- app_assoc; reflexivity).
    apply IH. unfold step_add. cbn [fst snd]. apply add_inv_step, H.
Qed.

Lemma fold_add_group ps : a_out (fold_left (step_add add_setitem) ps (add_init [])) = group ps.
Proof. apply (inv_out _ _ (fold_add_inv ps [] _ add_inv_init)). Qed.

(* ---- the same closure writing into a dict that already holds entries ---- *)

Definition keys {V} (d : list (str * V)) : list str := map fst d.

Lemma dict_set_keys_in {V} (d : list (str * V)) k v k' : In k' (keys d) -> In k' (keys (dict_set d k v)).
Proof.
  induction d as [|[k0 v0] d IH]; cbn [dict_set keys map fst In]; [tauto|].
  destruct (str_eqb k0 k); cbn [keys map fst In]; tauto.
Qed.

Lemma dict_set_keys_self {V} (d : list (str * V)) k v : In k (keys (dict_set d k v)).
Proof.
  induction d as [|[k0 v0] d IH]; cbn [dict_set keys map fst In]; [auto|].
  destruct (str_eqb_spec k0 k) as [->|]; cbn [keys map fst In]; auto.
Qed.

Lemma dict_set_twice {V} (d : list (str * V)) k v v' : dict_set (dict_set d k v) k v' = dict_set d k v'.
Proof.
  induction d as [|[k0 v0] d IH]; cbn [dict_set]; [now rewrite str_eqb_refl|].
  destruct (str_eqb k0 k) eqn:E; cbn [dict_set]; rewrite E; [reflexivity | now rewrite IH].
Qed.

(* two assignments commute when the first key is already present (no new key is appended before it) *)
Lemma dict_set_comm {V} (d : list (str * V)) k v k1 v1 :
  k <> k1 -> In k (keys d) ->
  dict_set (dict_set d k1 v1) k v = dict_set (dict_set d k v) k1 v1.
Proof.
  intros Hne. induction d as [|[k0 v0] d IH]; cbn [keys map fst In]; [tauto|].
  intros Hin. cbn [dict_set].
  destruct (str_eqb k0 k1) eqn:E1; destruct (str_eqb k0 k) eqn:E2; cbn [dict_set]; rewrite ?E1, ?E2.
  - apply str_eqb_eq in E1. apply str_eqb_eq in E2. congruence.
  - reflexivity.
  - reflexivity.
  - f_equal. apply IH. destruct Hin as [Hin|Hin]; [|exact Hin].
    cbn [fst] in Hin. subst k0. rewrite str_eqb_refl in E2. discriminate.
Qed.

Lemma dict_update_cons (d : fdict) k v e : dict_update d ((k, v) :: e) = dict_update (dict_set d k v) e.
Proof. reflexivity. Qed.

Lemma dict_update_set_present (e d : fdict) k v :
  In k (keys d) -> ~ In k (keys e) -> dict_set (dict_update d e) k v = dict_update (dict_set d k v) e.
Proof.
  revert d. induction e as [|[k1 v1] e IH]; intros d Hin Hnot; [reflexivity|].
  cbn [keys map fst In] in Hnot. rewrite !dict_update_cons.
  rewrite IH by (try apply dict_set_keys_in; tauto).
  rewrite dict_set_comm by (try assumption; intros ->; tauto). reflexivity.
Qed.

(* writing one more entry into the parsed part commutes with the merge into the old dict *)
Lemma dict_update_set_comm (g d : fdict) k v :
  NoDup (keys g) -> dict_update d (dict_set g k v) = dict_set (dict_update d g) k v.
Proof.
  revert d. induction g as [|[k0 v0] g IH]; intros d Hnd; [reflexivity|].
  cbn [keys map fst] in Hnd. inversion Hnd as [|? ? Hk0 Hnd']; subst.
  cbn [dict_set]. destruct (str_eqb_spec k0 k) as [->|Hn].
  - rewrite !dict_update_cons.
    rewrite dict_update_set_present by (try apply dict_set_keys_self; exact Hk0).
    rewrite dict_set_twice. reflexivity.
  - rewrite !dict_update_cons. apply IH, Hnd'.
Qed.

Lemma group_keys_nodup ps : NoDup (keys (group ps)).
Proof.
  unfold group, keys. rewrite map_map. cbn [fst]. rewrite map_id. apply dedup_nodup.
Qed.

Lemma fold_add_into d0 ps : forall p0 st1 st2,
  add_inv p0 st2 ->
  a_seen st1 = a_seen st2 -> a_lists st1 = a_lists st2 -> a_out st1 = dict_update d0 (a_out st2) ->
  a_out (fold_left (step_add add_setitem) ps st1)
  = dict_update d0 (a_out (fold_left (step_add add_setitem) ps st2)).
Proof.
  induction ps as [|[k v] ps IH]; intros p0 st1 st2 Hinv Hs Hl Ho; cbn [fold_left]; [exact Ho|].
  unfold step_add at 2 4. cbn [fst snd].
  apply (IH (p0 ++ [(k, v)])); [apply add_inv_step, Hinv | | |];
    unfold add_setitem; rewrite Hs, Hl;
    (destruct (dict_get (a_lists st2) k) as [[|x vl]|];
     [destruct (dict_get (a_seen st2) k)| |destruct (dict_get (a_seen st2) k)]); cbn [a_seen a_lists a_out];
    try reflexivity; try congruence;
    rewrite Ho; symmetry; apply dict_update_set_comm;
    rewrite (inv_out _ _ Hinv); apply group_keys_nodup.
Qed.

Lemma fold_add_pair ps : forall acc, fold_left (step_add add_pair) ps acc = acc ++ ps.
Proof.
  induction ps as [|[k v] ps IH]; intros acc; cbn [fold_left]; [now rewrite app_nil_r|].
  rewrite IH. unfold step_add, add_pair. cbn [fst snd]. rewrite <- app_assoc. reflexivity.
Qed.

(* ================================================================== *)
(* 5. The two spellings: quote_plus and quote(safe='')                 *)
(* ================================================================== *)

Lemma qchar_not_sep safe x :
  safe 61%N = false -> safe 38%N = false -> qchar safe x = true -> is_eq_or_amp x = false.
Proof.
  intros H1 H2 H. unfold is_eq_or_amp.
  destruct (N.eqb_spec x 61) as [->|]; [unfold qchar in H; rewrite H1 in H; vm_compute in H; discriminate|].
  destruct (N.eqb_spec x 38) as [->|]; [unfold qchar in H; rewrite H2 in H; vm_compute in H; discriminate|].
  reflexivity.
Qed.

Lemma Forall_replace_char (P : N -> Prop) c r (s : str) :
  Forall P s -> Forall P r -> Forall P (replace_char N.eqb c r s).
Proof.
  intros Hs Hr. induction Hs as [|x s Hx _ IH]; [constructor|].
  unfold replace_char in *. cbn [flat_map]. apply Forall_app. split; [|exact IH].
  destruct (N.eqb x c); [exact Hr | constructor; [exact Hx | constructor]].
Qed.

Lemma replace_char_nonempty c x (s : str) : s <> [] -> replace_char N.eqb c [x] s <> [].
Proof.
  destruct s as [|y s]; [congruence|]. intros _. unfold replace_char. cbn [flat_map].
  destruct (N.eqb y c); discriminate.
Qed.

Lemma quote_chars s : Forall (fun x => is_eq_or_amp x = false) (quote s).
Proof.
  eapply Forall_impl; [|apply (quote_gen_chars no_safe s)].
  intros x [H _]. revert H. apply qchar_not_sep; reflexivity.
Qed.

Lemma quote_plus_chars s : Forall (fun x => is_eq_or_amp x = false) (quote_plus s).
Proof.
  unfold quote_plus. apply Forall_replace_char; [|repeat constructor].
  eapply Forall_impl; [|apply (quote_gen_chars space_safe s)].
  intros x [H _]. revert H. apply qchar_not_sep; reflexivity.
Qed.

Lemma quote_nonempty s : s <> [] -> quote s <> [].
Proof. apply quote_gen_nonempty. Qed.

Lemma quote_plus_nonempty s : s <> [] -> quote_plus s <> [].
Proof. intros H. unfold quote_plus. apply replace_char_nonempty, quote_gen_nonempty, H. Qed.

Lemma quote_ascii s : Forall (fun x => (x < 128)%N) (quote s).
Proof. eapply Forall_impl; [|apply (quote_gen_chars no_safe s)]. intros x [_ H]. exact H. Qed.

Lemma quote_plus_ascii s : Forall (fun x => (x < 128)%N) (quote_plus s).
Proof.
  unfold quote_plus. apply Forall_replace_char; [|repeat constructor; lia].
  eapply Forall_impl; [|apply (quote_gen_chars space_safe s)]. intros x [_ H]. exact H.
Qed.

Lemma urlencode_with_ascii q ps :
  (forall s, Forall (fun x => (x < 128)%N) (q s)) ->
  Forall (fun x => (x < 128)%N) (urlencode_with q ps).
Proof.
  intros Hq. unfold urlencode_with. induction ps as [|p ps IH]; [constructor|].
  cbn [map]. destruct ps as [|p' ps].
  - cbn [map join]. repeat (apply Forall_app; split); auto. repeat constructor; lia.
  - cbn [map join] in *. repeat (apply Forall_app; split); auto; repeat constructor; lia.
Qed.

(* ---- assembled statements ---- *)

Lemma sendable_of_in ps :
  (forall k v, In (k, v) ps -> k <> [] /\ Forall scalar k /\ Forall scalar v) -> sendable ps.
Proof.
  intros H. apply Forall_forall. intros [k v] Hin. cbn [fst snd]. apply H, Hin.
Qed.

Lemma pairs_plus ps : sendable ps -> parse_qsl_pairs (urlencode ps) = QDone ps.
Proof.
  intros H. unfold parse_qsl_pairs, urlencode.
  rewrite (run_urlencode add_pair quote_plus unquote_plus_quote_plus quote_plus_chars quote_plus_nonempty) by exact H.
  cbn [qres_of]. rewrite fold_add_pair. reflexivity.
Qed.

Lemma pairs_quote ps : sendable ps -> parse_qsl_pairs (urlencode_q ps) = QDone ps.
Proof.
  intros H. unfold parse_qsl_pairs, urlencode_q.
  rewrite (run_urlencode add_pair quote unquote_plus_quote quote_chars quote_nonempty) by exact H.
  cbn [qres_of]. rewrite fold_add_pair. reflexivity.
Qed.

Lemma into_plus ps : sendable ps -> parse_qsl_into [] (urlencode ps) = QDone (group ps).
Proof.
  intros H. unfold parse_qsl_into, urlencode.
  rewrite (run_urlencode add_setitem quote_plus unquote_plus_quote_plus quote_plus_chars quote_plus_nonempty) by exact H.
  cbn [qres_of]. rewrite fold_add_group. reflexivity.
Qed.

Lemma into_quote ps : sendable ps -> parse_qsl_into [] (urlencode_q ps) = QDone (group ps).
Proof.
  intros H. unfold parse_qsl_into, urlencode_q.
  rewrite (run_urlencode add_setitem quote unquote_plus_quote quote_chars quote_nonempty) by exact H.
  cbn [qres_of]. rewrite fold_add_group. reflexivity.
Qed.

Lemma query_eq qs : query qs = parse_qsl_into [] qs.
Proof. destruct qs; reflexivity. Qed.

Lemma C18_roundtrip_lemma :
  forall ps : list (str * str),
    (forall k v, In (k, v) ps -> k <> [] /\ Forall scalar k /\ Forall scalar v) ->
    (* quote_plus spelling (urlencode's default) *)
    query (urlencode ps) = QDone (group ps)
    /\ forms_urlencoded (urlencode ps) = QDone (group ps)
    /\ parse_qsl_pairs (urlencode ps) = QDone ps
    (* quote(safe='') spelling *)
    /\ query (urlencode_q ps) = QDone (group ps)
    /\ forms_urlencoded (urlencode_q ps) = QDone (group ps)
    /\ parse_qsl_pairs (urlencode_q ps) = QDone ps.
Proof.
  intros ps H. apply sendable_of_in in H. rewrite !query_eq. unfold forms_urlencoded, latin1_dec.
  repeat split; auto using into_plus, into_quote, pairs_plus, pairs_quote.
Qed.

(* the urlencoded text is pure ASCII: its latin1 (or ascii/utf-8) bytes are the same
   numbers, so touni(body, 'latin1') gives back the very text that was encoded *)
Lemma C18_body_ascii_lemma :
  forall ps,
    Forall (fun x => (x < 128)%N) (urlencode ps) /\ Forall (fun x => (x < 128)%N) (urlencode_q ps)
    /\ latin1_enc (urlencode ps) = Some (urlencode ps) /\ latin1_dec (urlencode ps) = urlencode ps
    /\ latin1_enc (urlencode_q ps) = Some (urlencode_q ps) /\ latin1_dec (urlencode_q ps) = urlencode_q ps.
Proof.
  intros ps.
  pose proof (urlencode_with_ascii quote_plus ps quote_plus_ascii) as H1.
  pose proof (urlencode_with_ascii quote ps quote_ascii) as H2.
  assert (B : forall s, Forall (fun x => (x < 128)%N) s -> Forall (fun b => (b < 256)%N) s).
  { intros s. apply Forall_impl. intros; lia. }
  repeat split; auto; apply latin1_enc_dec; apply B; assumption.
Qed.

Lemma C18_params_lemma :
  forall ps1 ps2,
    (forall k v, In (k, v) (ps1 ++ ps2) -> k <> [] /\ Forall scalar k /\ Forall scalar v) ->
    params (urlencode ps1) (urlencode ps2) = QDone (dict_update (group ps1) (group ps2)).
Proof.
  intros ps1 ps2 H. unfold params.
  assert (H1 : sendable ps1) by (apply sendable_of_in; intros; apply H, in_or_app; auto).
  assert (H2 : sendable ps2) by (apply sendable_of_in; intros; apply H, in_or_app; auto).
  rewrite query_eq, into_plus by exact H1. unfold forms_urlencoded, latin1_dec.
  rewrite into_plus by exact H2. reflexivity.
Qed.

(* ---- totality ---- *)

Lemma qres_of_run_total {St B} (add : str -> str -> St -> St) (f : St -> B) qs st :
  exists d, qres_of f (qsl_run add qs st) = QDone d.
Proof.
  pose proof (run_fuel_suffices add qs st) as H.
  destruct (qsl_run add qs st) as [s|]; [|congruence]. eexists. reflexivity.
Qed.

Lemma C18_total_lemma :
  forall (qs : str) (body : list N) (d0 : fdict),
    (exists d, query qs = QDone d)
    /\ (exists d, forms_urlencoded body = QDone d)
    /\ (exists d, params qs body = QDone d)
    /\ (exists l, parse_qsl_pairs qs = QDone l)
    /\ (exists d, parse_qsl_into d0 qs = QDone d).
Proof.
  intros qs body d0.
  assert (Q : exists d, query qs = QDone d) by (rewrite query_eq; apply qres_of_run_total).
  assert (F : exists d, forms_urlencoded body = QDone d) by apply qres_of_run_total.
  repeat split; try assumption; try apply qres_of_run_total.
  unfold params. destruct Q as [d1 ->], F as [d2 ->]. eexists. reflexivity.
Qed.

Lemma C18_fuel_lemma :
  forall (St : Type) (add : str -> str -> St -> St) (qs : str) (st : St),
    (* the loop variable i strictly increases: whatever i and the state, fuel
       that exceeds the distance to the end is never exhausted *)
    (forall fuel i st', length qs < fuel + i -> 0 < fuel -> qsl_loop add fuel qs i st' <> None)
    /\ qsl_run add qs st <> None.
Proof.
  intros St add qs st. split; [intros; apply loop_progress; assumption | apply run_fuel_suffices].
Qed.

(* ---- several reads on one request ---- *)

Lemma C18_access_order_lemma :
  forall (qs : str) (body : list N) (order : list accessor),
    (* the i-th read returns what its accessor returns on a fresh request, whatever was read before *)
    (forall i, nth_error (read_seq qs body order) i = option_map (read_one qs body) (nth_error order i))
    (* hence two reads through the same accessor agree, in any two access orders *)
    /\ (forall order' i j a, nth_error order i = Some a -> nth_error order' j = Some a ->
          nth_error (read_seq qs body order) i = nth_error (read_seq qs body order') j).
Proof.
  intros qs body order.
  assert (H : forall o i, nth_error (read_seq qs body o) i = option_map (read_one qs body) (nth_error o i)).
  { intros o i. unfold read_seq. apply nth_error_map. }
  split; [apply H|]. intros order' i j a Hi Hj. rewrite !H, Hi, Hj. reflexivity.
Qed.

Lemma C18_access_roundtrip_lemma :
  forall ps1 ps2 order,
    (forall k v, In (k, v) (ps1 ++ ps2) -> k <> [] /\ Forall scalar k /\ Forall scalar v) ->
    read_seq (urlencode ps1) (urlencode ps2) order
    = map (fun a => QDone match a with
                          | AQuery => group ps1
                          | AForms => group ps2
                          | AParams => dict_update (group ps1) (group ps2)
                          end) order.
Proof.
  intros ps1 ps2 order H. unfold read_seq. apply map_ext. intros a.
  assert (H1 : sendable ps1) by (apply sendable_of_in; intros; apply H, in_or_app; auto).
  assert (H2 : sendable ps2) by (apply sendable_of_in; intros; apply H, in_or_app; auto).
  destruct a; cbn [read_one].
  - rewrite query_eq. apply into_plus, H1.
  - unfold forms_urlencoded, latin1_dec. apply into_plus, H2.
  - apply C18_params_lemma, H.
Qed.

(* ---- reads, copies and attribute reads interleaved with updates through the item API ---- *)

Definition state_after (ro : bool) (st : rstate) (ops : list op) : rstate := fold_left (apply_op ro) ops st.

Lemma out_of_some_noop ro st o x : out_of st o = Some x -> apply_op ro st o = st.
Proof. destruct o, ro; cbn; congruence. Qed.

Lemma run_ops_app ro st pre post :
  run_ops ro st (pre ++ post) = run_ops ro st pre ++ run_ops ro (state_after ro st pre) post.
Proof.
  revert st. induction pre as [|o pre IH]; intros st; [reflexivity|].
  unfold state_after in *. cbn [app run_ops fold_left].
  destruct (out_of st o) as [x|] eqn:E.
  - rewrite (out_of_some_noop ro st o x E). cbn [app]. rewrite IH. reflexivity.
  - apply IH.
Qed.

Lemma state_after_readonly st ops : state_after true st ops = st.
Proof. unfold state_after. induction ops as [|o ops IH]; [reflexivity|]. cbn [fold_left apply_op]. exact IH. Qed.

Definition expected_read (ps1 ps2 : list (str * str)) (a : accessor) : fdict :=
  match a with
  | AQuery => group ps1
  | AForms => group ps2
  | AParams => dict_update (group ps1) (group ps2)
  end.

Lemma view_of_encoded st ps1 ps2 a :
  (forall k v, In (k, v) (ps1 ++ ps2) -> k <> [] /\ Forall scalar k /\ Forall scalar v) ->
  r_qs st = urlencode ps1 -> r_body st = urlencode ps2 -> selects_urlencoded (r_ct st) = true ->
  view st a = RO (QDone (expected_read ps1 ps2 a)).
Proof.
  intros H Hq Hb Hc. unfold view. rewrite Hq, Hb, Hc.
  pose proof (C18_access_roundtrip_lemma ps1 ps2 [a] H) as R. cbn [read_seq map] in R.
  injection R as R. destruct a; cbn [read_one expected_read] in *; rewrite R; reflexivity.
Qed.

Lemma C18_reads_follow_updates_lemma :
  forall (ro : bool) (st : rstate) (pre post : list op) (o : op) (x : rout),
    (* an observing operation (read / copy / attribute read) returns the view of what the
       request carries at that moment, i.e. of the state reached by the updates before it *)
    (out_of (state_after ro st pre) o = Some x ->
     run_ops ro st (pre ++ o :: post)
     = run_ops ro st pre ++ x :: run_ops ro (state_after ro st pre) post)
    (* on a read-only environ nothing ever changes *)
    /\ state_after true st pre = st
    (* and when the state is the encoding of pairs under a content type that selects the
       urlencoded parser, the views are their grouping / merge *)
    /\ (forall ps1 ps2 a,
          (forall k v, In (k, v) (ps1 ++ ps2) -> k <> [] /\ Forall scalar k /\ Forall scalar v) ->
          r_qs (state_after ro st pre) = urlencode ps1 ->
          r_body (state_after ro st pre) = urlencode ps2 ->
          selects_urlencoded (r_ct (state_after ro st pre)) = true ->
          view (state_after ro st pre) a = RO (QDone (expected_read ps1 ps2 a))).
Proof.
  intros ro st pre post o x. split; [|split].
  - intros E. rewrite run_ops_app. cbn [run_ops]. rewrite E. reflexivity.
  - apply state_after_readonly.
  - intros ps1 ps2 a H Hq Hb Hc. apply view_of_encoded; assumption.
Qed.

(* ---- one application object, several requests ---- *)
Lemma C18_requests_independent_lemma :
  forall (reqs : list (str * list N)) i,
    nth_error (serve_all reqs) i
    = option_map (fun qb => [query (fst qb); forms_urlencoded (snd qb); params (fst qb) (snd qb)])
                 (nth_error reqs i).
Proof. intros reqs i. unfold serve_all. apply nth_error_map. Qed.

(* ---- cache_in ---- *)
Lemma C18_cache_in_lemma :
  forall (ro gf : bool) (base : Z) (st : cstate),
    (* a value that was delivered is delivered again without calling the getter *)
    (forall v st', cache_step ro gf base st CGet = (CVal v, st') ->
                   cache_step ro gf base st' CGet = (CVal v, st'))
    (* a failing getter caches nothing *)
    /\ (forall st', cache_step ro gf base st CGet = (CGetterErr, st') -> c_cached st' = None)
    (* read_only: assignment and deletion are refused and change nothing *)
    /\ (ro = true -> forall v, cache_step ro gf base st (CSet v) = (CReadOnly, st)
                               /\ cache_step ro gf base st CDel = (CReadOnly, st))
    (* not read_only: after a deletion the next read recomputes *)
    /\ (ro = false -> forall st', cache_step ro gf base st CDel = (COk, st') -> c_cached st' = None).
Proof.
  intros ro gf base st. repeat split.
  - intros v st'. cbn [cache_step]. destruct (c_cached st) as [w|] eqn:E.
    + intros [= <- <-]. cbn [cache_step]. rewrite E. reflexivity.
    + destruct gf; [discriminate|]. intros [= <- <-]. reflexivity.
  - intros st'. cbn [cache_step]. destruct (c_cached st) as [w|]; [discriminate|].
    destruct gf; [|discriminate]. intros [= <-]. reflexivity.
  - subst ro. reflexivity.
  - subst ro. reflexivity.
  - intros -> st'. cbn [cache_step]. destruct (c_cached st); [|discriminate]. intros [= <-]. reflexivity.
Qed.

(* ---- parse_qsl(qs, setitem=d.__setitem__) on a dict that already holds entries ---- *)
Lemma C18_setitem_into_lemma :
  forall (d0 : fdict) (ps : list (str * str)),
    (forall k v, In (k, v) ps -> k <> [] /\ Forall scalar k /\ Forall scalar v) ->
    parse_qsl_into d0 (urlencode ps) = QDone (dict_update d0 (group ps))
    /\ parse_qsl_into d0 (urlencode_q ps) = QDone (dict_update d0 (group ps)).
Proof.
  intros d0 ps H. apply sendable_of_in in H. unfold parse_qsl_into, urlencode, urlencode_q.
  rewrite (run_urlencode add_setitem quote_plus unquote_plus_quote_plus quote_plus_chars quote_plus_nonempty) by exact H.
  rewrite (run_urlencode add_setitem quote unquote_plus_quote quote_chars quote_nonempty) by exact H.
  cbn [qres_of].
  rewrite (fold_add_into d0 ps [] (add_init d0) (add_init []) add_inv_init eq_refl eq_refl eq_refl).
  rewrite fold_add_group. auto.
Qed.

