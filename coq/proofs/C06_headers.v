(* C06_headers.v — the header-end search (regex scanner + carried suffix of
   CRLFCRLF) and the bytes after a delimiter. *)
From Verif Require Import lib.Base lib.ListX lib.Str model.MultipartRef model.Multipart
  proofs.C06_pattern proofs.C06_dres.
Require Import Lia.

Ltac cmp x v :=
  let Hne := fresh "Hne" in
  let E1 := fresh "E1" in
  let E2 := fresh "E2" in
  destruct (N.eqb_spec x v) as [->|Hne];
  [| assert (E1 : N.eqb x v = false) by (now apply N.eqb_neq);
     assert (E2 : N.eqb v x = false) by (apply N.eqb_neq; congruence) ].

Lemma CR_LF : N.eqb CR LF = false. Proof. reflexivity. Qed.
Lemma LF_CR : N.eqb LF CR = false. Proof. reflexivity. Qed.
Ltac rdc := cbn -[N.eqb CR LF HY Nat.leb]; rewrite ?N.eqb_refl, ?CR_LF, ?LF_CR; cbn -[N.eqb CR LF HY Nat.leb].

Lemma Hres_H4 : forall d k c, 0 < d -> d < k -> k < length H4 ->
  compat H4 (skipn d (firstn k H4) ++ c) = true -> compat (skipn k H4) c = true.
Proof.
  intros d k c Hd Hk Hl. simpl in Hl.
  destruct d as [|[|[|d]]]; destruct k as [|[|[|[|k]]]]; try lia; unfold H4; rdc; try discriminate.
  destruct c as [|x c]; [reflexivity|]. rdc.
  destruct (N.eqb LF x); [reflexivity | discriminate].
Qed.

Lemma H4_pos : 0 < length H4.
Proof. simpl. lia. Qed.

(* ---- consequences of hdr_clean ---- *)
Lemma hdr_clean_cons c X : hdr_clean (c :: X) = true -> hdr_clean X = true.
Proof. cbn [hdr_clean]. intros H. apply andb_true_iff in H. apply H. Qed.

Lemma hdr_clean_skipn j X : hdr_clean X = true -> hdr_clean (skipn j X) = true.
Proof.
  revert X; induction j as [|j IH]; intros X H; [exact H|].
  destruct X as [|c X]; [exact H|]. simpl. apply IH. eapply hdr_clean_cons. exact H.
Qed.

(* the header region: up to the end of its CRLFCRLF, or all of X when unterminated *)
Definition hclean_upto (X : bytes) : bool :=
  match findb H4 X with Some e => hdr_clean (firstn (e + 4) X) | None => hdr_clean X end.

Lemma prefixb_compat t x : prefixb t x = true -> compat t x = true.
Proof.
  intros H. apply prefixb_spec in H. destruct H as [r ->].
  rewrite compat_app, compat_refl, skipn_all. now destruct r.
Qed.

Lemma findb_cons_false t c s : prefixb t (c :: s) = false -> findb t (c :: s) = option_map S (findb t s).
Proof. unfold findb, prefixb. intros E. cbn [find_sub]. now rewrite E. Qed.

Lemma hclean_upto_cons c s :
  prefixb H4 (c :: s) = false -> hclean_upto (c :: s) = true -> hclean_upto s = true.
Proof.
  intros E. unfold hclean_upto. rewrite findb_cons_false by exact E.
  destruct (findb H4 s) as [e|]; cbn [option_map]; [|apply hdr_clean_cons].
  change (S e + 4) with (S (e + 4)). cbn [firstn]. apply hdr_clean_cons.
Qed.

Lemma hclean_upto_skip Y c :
  (forall j, j < length Y -> prefixb H4 (skipn j Y ++ c) = false) ->
  hclean_upto (Y ++ c) = true -> hclean_upto c = true.
Proof.
  induction Y as [|y Y IH]; intros Hj H; [exact H|].
  apply IH.
  - intros j L. apply (Hj (S j)). simpl. lia.
  - eapply hclean_upto_cons; [|exact H]. apply (Hj 0). simpl. lia.
Qed.

(* ---- the regex scanner ---- *)
Definition hrhs (s : bytes) (i : nat) : hmatch :=
  match fcp H4 s with
  | Some p => if p + 4 <=? length s then MEnd (i + p) else MPart (length s - p)
  | None => MNo
  end.

Lemma hrhs_skip c s i : compat H4 (c :: s) = false -> hrhs (c :: s) i = hrhs s (S i).
Proof.
  intros E. unfold hrhs. cbn [fcp]. rewrite E.
  destruct (fcp H4 s) as [p|]; cbn [option_map length]; [|reflexivity].
  change (S p + 4 <=? S (length s)) with (p + 4 <=? length s).
  destruct (p + 4 <=? length s); f_equal; lia.
Qed.

Lemma hrhs_here c s i : compat H4 (c :: s) = true ->
  hrhs (c :: s) i = if 4 <=? length (c :: s) then MEnd i else MPart (length (c :: s)).
Proof.
  intros E. unfold hrhs. cbn [fcp]. rewrite E. cbn [Nat.add]. rewrite Nat.add_0_r, Nat.sub_0_r. reflexivity.
Qed.

Ltac rw_ne := repeat match goal with H : N.eqb _ _ = false |- _ => rewrite H end.
Ltac nomatch := unfold H4; rdc; rw_ne; easy.

Lemma hsearch_spec s : forall i, hclean_upto s = true -> hsearch s i = hrhs s i.
Proof.
  induction s as [|c s IH]; intros i Hc; [reflexivity|].
  assert (Hc' : prefixb H4 (c :: s) = false -> hclean_upto s = true)
    by (intros E; eapply hclean_upto_cons; eauto).
  cbn [hsearch].
  cmp c CR.
  - (* a CR *)
    destruct s as [|x [|y [|z r]]].
    + reflexivity.
    + cmp x LF; [reflexivity|].
      rewrite hrhs_skip by nomatch.
      rewrite <- IH by (apply Hc'; nomatch). rdc. unfold alt2, eol. now rewrite ?E1, ?E2.
    + cmp x LF.
      * cmp y LF; [vm_compute in Hc; discriminate Hc|].
        cmp y CR; [reflexivity|].
        rewrite hrhs_skip by nomatch.
        rewrite <- IH by (apply Hc'; nomatch). rdc. unfold alt2, eol. rdc. now rewrite ?E1, ?E2, ?E0, ?E3.
      * rewrite hrhs_skip by nomatch.
        rewrite <- IH by (apply Hc'; nomatch). rdc. unfold alt2, eol. now rewrite ?E1, ?E2.
    + cmp x LF.
      * cmp y CR.
        -- cmp z LF; [rewrite hrhs_here by reflexivity; reflexivity|].
           rewrite hrhs_skip by nomatch.
           rewrite <- IH by (apply Hc'; nomatch). rdc. unfold alt2, eol. rdc. rewrite ?E1, ?E2.
           destruct r; reflexivity.
        -- rewrite hrhs_skip by nomatch.
           rewrite <- IH by (apply Hc'; nomatch). rdc. unfold alt2, eol. rdc. now rewrite ?E1, ?E2.
      * rewrite hrhs_skip by nomatch.
        rewrite <- IH by (apply Hc'; nomatch). rdc. unfold alt2, eol. rdc. now rewrite ?E1, ?E2.
  - rewrite hrhs_skip by nomatch.
    apply IH. apply Hc'. nomatch.
Qed.

(* ---- _eat_headers ---- *)
Local Notation hres := (C06_dres.dres H4).
Local Notation hx_of := (C06_dres.tr_of H4).

Lemma regex_part c b :
  hclean_upto (skipn b c) = true ->
  match hsearch (skipn b c) b with
  | MNo => (ENone, None)
  | MEnd i => (EFound (Z.of_nat i), None)
  | MPart l => (ENone, Some (skipn l H4))
  end = hres (Z.of_nat b) (skipn b c).
Proof.
  intros Hc. rewrite hsearch_spec by exact Hc. unfold hrhs, C06_dres.dres.
  change (length H4) with 4.
  destruct (fcp H4 (skipn b c)) as [p|]; [|reflexivity].
  destruct (p + 4 <=? length (skipn b c)); [|reflexivity].
  f_equal. f_equal. lia.
Qed.

Lemma hdr_clean_crlfcr x r : hdr_clean (CR :: LF :: CR :: x :: r) = true -> x = LF.
Proof.
  cbn -[N.eqb CR LF]. rewrite N.eqb_refl, CR_LF, LF_CR, !N.eqb_refl.
  intros H. apply andb_true_iff in H. destruct H as [H _]. now apply N.eqb_eq.
Qed.

Lemma hclean_upto_crlfcr x r : hclean_upto (CR :: LF :: CR :: x :: r) = true -> x = LF.
Proof.
  unfold hclean_upto. destruct (findb H4 (CR :: LF :: CR :: x :: r)) as [e|].
  - rewrite Nat.add_comm. cbn [Nat.add firstn]. apply hdr_clean_crlfcr.
  - apply hdr_clean_crlfcr.
Qed.

(* a carried prefix that c does not continue: no CRLFCRLF starts inside it *)
Lemma hclean_upto_broken k c :
  0 < k -> k < 4 -> compat (skipn k H4) c = false ->
  hclean_upto (firstn k H4 ++ c) = true -> hclean_upto c = true.
Proof.
  intros Hk Hk4 Ec. apply hclean_upto_skip.
  intros j Hj. rewrite firstn_length in Hj. change (length H4) with 4 in Hj.
  destruct (prefixb H4 (skipn j (firstn k H4) ++ c)) eqn:E; [|reflexivity].
  apply prefixb_compat in E. destruct j as [|j].
  - cbn [skipn] in E. rewrite compat_app, firstn_length in E. change (length H4) with 4 in E.
    rewrite Nat.min_l in E by lia. rewrite Ec, andb_false_r in E. discriminate.
  - apply Hres_H4 in E; [congruence | lia | lia | change (length H4) with 4; lia].
Qed.

Lemma eat_headers_spec c b k :
  k < 4 -> (0 < k -> b = 0) ->
  hclean_upto (firstn k H4 ++ skipn b c) = true ->
  eat_headers c b (hx_of k) = C06_dres.dspec H4 b k (skipn b c).
Proof.
  intros Hk Hb Hc. unfold C06_dres.dspec.
  destruct k as [|k].
  - (* nothing expected: the regex *)
    cbn [firstn app] in *. unfold eat_headers. cbn [C06_dres.tr_of Nat.eqb].
    rewrite regex_part by exact Hc. f_equal. lia.
  - rewrite (Hb ltac:(lia)) in *. clear Hb. cbn [skipn] in *.
    set (ex := skipn (S k) H4).
    assert (Lex : length ex = 4 - S k) by (unfold ex; rewrite skipn_length; reflexivity).
    assert (Hre : compat ex c = false ->
            match hsearch c 0 with
            | MNo => (ENone, None)
            | MEnd i => (EFound (Z.of_nat i), None)
            | MPart l => (ENone, Some (skipn l H4))
            end = hres (Z.of_nat 0) c).
    { intros Ec. apply (regex_part c 0). cbn [skipn].
      apply (hclean_upto_broken (S k) c); [lia | lia | exact Ec | exact Hc]. }
    unfold eat_headers. cbn [C06_dres.tr_of Nat.eqb]. fold ex.
    change (skipn 0 c) with c. rewrite slice_0.
    destruct (Nat.leb_spec (length ex) (length c)) as [Lc|Lc].
    + (* enough bytes for the comparison *)
      rewrite str_eqb_prefixb_firstn by exact Lc.
      rewrite <- compat_long by exact Lc.
      destruct (compat ex c) eqn:Ec.
      * rewrite (C06_dres.dres_hit H4 Hres_H4 H4_pos) by (try exact Ec; change (length H4) with 4; lia).
        change (length H4) with 4. destruct (Nat.leb_spec 4 (S k + length c)); [|lia].
        f_equal. f_equal. lia.
      * rewrite (C06_dres.dres_broken H4 Hres_H4 H4_pos) by (try exact Ec; change (length H4) with 4; lia).
        rewrite Hre by reflexivity.
        rewrite firstn_length, Nat.min_l by exact Lc.
        destruct (Nat.eqb_spec (length ex) 0); [lia|].
        destruct (Nat.ltb_spec (length ex) (length ex)); [lia|]. cbn [andb].
        destruct k as [|[|[|k]]]; try lia.
        -- cbn. f_equal.
        -- cbn. f_equal.
        -- (* CRLFCR then a byte that is not LF: excluded *)
           exfalso. destruct c as [|x c]; [simpl in Lc; lia|].
           cbn [firstn app H4] in Hc. apply hclean_upto_crlfcr in Hc. subst x.
           unfold ex in Ec. cbn -[N.eqb] in Ec. rewrite N.eqb_refl in Ec. discriminate.
    + (* the chunk is shorter than what is expected *)
      rewrite firstn_all2 by lia.
      destruct (str_eqb_spec c ex) as [->|_]; [lia|].
      destruct (Nat.eqb_spec (length c) 0) as [E0|E0].
      * destruct c; [|discriminate]. rewrite app_nil_r.
        unfold C06_dres.dres. rewrite (C06_dres.fcp_firstn_t H4 H4_pos) by lia.
        rewrite firstn_length. change (length H4) with 4. rewrite Nat.min_l by lia.
        destruct (Nat.leb_spec (0 + 4) (S k)); [lia|]. now rewrite Nat.sub_0_r.
      * destruct (Nat.ltb_spec (length c) (length ex)); [|lia]. cbn [andb].
        rewrite <- compat_short by lia.
        destruct (compat ex c) eqn:Ec.
        -- rewrite (C06_dres.dres_hit H4 Hres_H4 H4_pos) by (try exact Ec; change (length H4) with 4; lia).
           change (length H4) with 4. destruct (Nat.leb_spec 4 (S k + length c)); [lia|].
           unfold ex. now rewrite skipn_skipn.
        -- rewrite (C06_dres.dres_broken H4 Hres_H4 H4_pos) by (try exact Ec; change (length H4) with 4; lia).
           rewrite Hre by reflexivity.
           destruct k as [|[|[|k]]]; try lia.
           ++ cbn. f_equal.
           ++ cbn. f_equal.
Qed.

(* ---- hdr_clean is prefix closed, hence implies hclean_upto ---- *)
Lemma hdr_clean_firstn j : forall X, hdr_clean X = true -> hdr_clean (firstn j X) = true.
Proof.
  induction j as [|j IH]; intros X H; [reflexivity|].
  destruct X as [|c X]; [reflexivity|].
  cbn [firstn]. pose proof (hdr_clean_cons _ _ H) as H'.
  cbn [hdr_clean] in H |- *. rewrite (IH X H'). rewrite andb_true_r.
  apply andb_true_iff in H. destruct H as [H _].
  destruct (N.eqb c CR); [|reflexivity].
  destruct X as [|c1 [|c2 [|c3 r]]]; destruct j as [|[|[|j]]]; cbn [firstn]; try reflexivity; try exact H;
    destruct (N.eqb c1 LF); try reflexivity; destruct (N.eqb c2 LF); try reflexivity; try discriminate;
    destruct (N.eqb c2 CR); try reflexivity; try exact H.
Qed.

Lemma hdr_clean_upto X : hdr_clean X = true -> hclean_upto X = true.
Proof.
  intros H. unfold hclean_upto. destruct (findb H4 X); [now apply hdr_clean_firstn | exact H].
Qed.
