(* C19_shape.v — Route.url's slice bookkeeping (cidx / clen / end over
   pattern_out) computes exactly the segment-wise specification url_spec. *)
From Verif Require Import lib.Base lib.Str lib.PyIntDec model.RouteSpec model.RouteUrl proofs.C19_spec.
Local Open Scope N_scope.

Lemma param_token_CR : Gen.param_token = CR.
Proof. reflexivity. Qed.

(* ---- small list facts ---- *)

Lemma slice_mid {A} (a b c : list A) :
  slice (a ++ b ++ c) (length a) (length a + length b) = b.
Proof.
  unfold slice. rewrite skipn_app, skipn_all, Nat.sub_diag. simpl.
  replace (length a + length b - length a)%nat with (length b) by lia.
  rewrite firstn_app, firstn_all, Nat.sub_diag. simpl. apply app_nil_r.
Qed.

Lemma slice_to_end {A} (a b : list A) :
  slice (a ++ b) (length a) (length (a ++ b)) = b.
Proof.
  unfold slice. rewrite skipn_app, skipn_all, Nat.sub_diag. simpl.
  rewrite app_length. replace (length a + length b - length a)%nat with (length b) by lia.
  apply firstn_all.
Qed.

Lemma skipn_app_exact {A} (a b : list A) : skipn (length a) (a ++ b) = b.
Proof. rewrite skipn_app, skipn_all, Nat.sub_diag. reflexivity. Qed.

(* ---- push / finish / join ---- *)

Lemma push_nil acc : push acc (PStr []) = acc.
Proof. destruct acc; simpl; [now rewrite app_nil_r | reflexivity]. Qed.

Lemma push_app acc a b : push (push acc (PStr a)) (PStr b) = push acc (PStr (a ++ b)).
Proof. destruct acc; simpl; [now rewrite app_assoc | reflexivity]. Qed.

Lemma fold_push_none ret : fold_left push ret None = None.
Proof. induction ret; simpl; auto. Qed.

Lemma join_pieces_fold ret t :
  finish (fold_left push ret (Some t)) =
  match join_pieces ret with UOk s => UOk (t ++ s) | e => e end.
Proof.
  revert t; induction ret as [|v ret IH]; intros t; simpl.
  - now rewrite app_nil_r.
  - destruct v as [s|z|r]; simpl.
    + rewrite IH. destruct (join_pieces ret); try reflexivity. now rewrite app_assoc.
    + now rewrite fold_push_none.
    + now rewrite fold_push_none.
Qed.

Lemma join_pieces_finish ret : join_pieces ret = finish (fold_left push ret (Some [])).
Proof. rewrite join_pieces_fold. destruct (join_pieces ret); reflexivity. Qed.

Lemma fold_push_snoc ret acc v : fold_left push (ret ++ [v]) acc = push (fold_left push ret acc) v.
Proof. now rewrite fold_left_app. Qed.

(* ---- pattern_of ---- *)

Lemma pattern_of_app p q : pattern_of (p ++ q) = pattern_of p ++ pattern_of q.
Proof.
  induction p as [|[s|f] p IH]; simpl; [reflexivity | now rewrite IH, app_assoc | now rewrite IH].
Qed.

Lemma filters_of_app p q : filters_of (p ++ q) = filters_of p ++ filters_of q.
Proof. induction p as [|[s|f] p IH]; simpl; [reflexivity | exact IH | now rewrite IH]. Qed.

Lemma filters_of_length p : length (filters_of p) = nwild p.
Proof. induction p as [|[s|f] p IH]; simpl; auto. Qed.

Lemma nwild_app p q : nwild (p ++ q) = (nwild p + nwild q)%nat.
Proof. induction p as [|[s|f] p IH]; simpl; auto. Qed.

Lemma nth_filters p f r : nth_error (filters_of (p ++ Wild f :: r)) (nwild p) = Some f.
Proof.
  rewrite filters_of_app, nth_error_app2 by (rewrite filters_of_length; lia).
  rewrite filters_of_length, Nat.sub_diag. reflexivity.
Qed.

(* the literal text up to the next wildcard is what find('\r') delimits *)
Lemma find_char_next_lit p :
  lits_ok p = true ->
  match find_char N.eqb CR (pattern_of p) with
  | Some j => firstn j (pattern_of p) = next_lit p
  | None => pattern_of p = next_lit p
  end.
Proof.
  induction p as [|[s|f] p IH]; simpl; intros Hok.
  - reflexivity.
  - apply andb_true_iff in Hok. destruct Hok as [Hs Hp]. specialize (IH Hp).
    unfold lit_ok in Hs. apply negb_true_iff in Hs.
    induction s as [|c s IHs]; simpl in *.
    + exact IH.
    + apply orb_false_iff in Hs. destruct Hs as [Hc Hs]. rewrite Hc.
      specialize (IHs Hs).
      destruct (find_char N.eqb CR (s ++ pattern_of p)); simpl; now rewrite IHs.
  - reflexivity.
Qed.

Lemma lookahead_next_lit pre p :
  lits_ok p = true ->
  lookahead (pre ++ pattern_of p) (length pre) = next_lit p.
Proof.
  intros Hok. unfold lookahead. rewrite skipn_app_exact.
  pose proof (find_char_next_lit p Hok) as H.
  destruct (find_char N.eqb CR (pattern_of p)) as [j|] eqn:E.
  - unfold slice. rewrite skipn_app_exact.
    replace (length pre + j - length pre)%nat with j by lia. exact H.
  - rewrite slice_to_end. exact H.
Qed.

Section Shape.
Variable kind : fid -> fkind.
Variable rx : fid -> str -> option nat.
Variable fconv : str -> str.

Variable p_all : pat.
Variable names : list str.
Variable args : list pyval.
Variable kw : list (str * pyval).

Let po := pattern_of p_all.
Let filters := filters_of p_all.
Let loop := url_loop kind rx fconv po names filters args kw.

(* a literal chunk only advances clen *)
Lemma loop_lit s cs ret pidx aidx cidx clen :
  lit_ok s = true ->
  loop (s ++ cs) ret pidx aidx cidx clen = loop cs ret pidx aidx cidx (clen + length s).
Proof.
  unfold lit_ok. rewrite negb_true_iff. revert clen.
  induction s as [|c s IH]; intros clen Hs; simpl in *.
  - now rewrite Nat.add_0_r.
  - apply orb_false_iff in Hs. destruct Hs as [Hc Hs].
    unfold loop in *. cbn [url_loop]. rewrite Hc. cbn [negb].
    rewrite IH by exact Hs. f_equal. lia.
Qed.

Lemma nth_error_skipn_hd {A} (l : list A) n :
  nth_error l n = match skipn n l with x :: _ => Some x | [] => None end.
Proof.
  revert l; induction n as [|n IH]; intros [|x l]; simpl; auto.
Qed.

Lemma skipn_S_tl {A} (l : list A) n x t : skipn n l = x :: t -> skipn (S n) l = t.
Proof.
  revert l; induction n as [|n IH]; intros l H.
  - simpl in H. subst l. reflexivity.
  - destruct l as [|y l]; [discriminate|]. change (skipn (S n) l = t). apply IH. exact H.
Qed.

Lemma loop_spec p :
  forall p_done pre0 cur ret aidx,
    p_all = p_done ++ p ->
    lits_ok p = true ->
    po = pre0 ++ cur ++ pattern_of p ->
    loop (pattern_of p) ret (nwild p_done) aidx (length pre0) (length cur)
    = spec_go kind rx fconv kw p (skipn (nwild p_done) names) (skipn aidx args)
              (push (fold_left push ret (Some [])) (PStr cur)).
Proof.
  induction p as [|sg p IH]; intros p_done pre0 cur ret aidx Hall Hok Hpo.
  - (* end of the pattern: radirouter.py:107-111 *)
    simpl. unfold loop. cbn [url_loop].
    simpl in Hpo. rewrite app_nil_r in Hpo.
    destruct cur as [|c cur].
    + simpl. rewrite push_nil. apply join_pieces_finish.
    + cbn [length Nat.eqb]. rewrite join_pieces_finish, fold_push_snoc.
      do 2 f_equal. f_equal.
      rewrite Hpo. rewrite <- (app_nil_r (c :: cur)) at 1. exact (slice_mid pre0 (c :: cur) []).
  - destruct sg as [s|f].
    + (* literal chunk *)
      simpl in Hok. apply andb_true_iff in Hok. destruct Hok as [Hs Hp].
      cbn [pattern_of spec_go]. rewrite loop_lit by exact Hs.
      rewrite <- app_length.
      assert (Hn : nwild p_done = nwild (p_done ++ [Lit s])) by (rewrite nwild_app; simpl; lia).
      rewrite Hn.
      rewrite (IH (p_done ++ [Lit s]) pre0 (cur ++ s) ret aidx).
      * now rewrite push_app.
      * rewrite Hall, <- app_assoc. reflexivity.
      * exact Hp.
      * rewrite Hpo. cbn [pattern_of]. now rewrite <- app_assoc.
    + (* wildcard *)
      simpl in Hok.
      cbn [pattern_of spec_go]. unfold loop. cbn [url_loop].
      rewrite param_token_CR, N.eqb_refl. cbn [negb].
      rewrite (nth_error_skipn_hd names).
      fold filters. unfold filters at 1. rewrite Hall, nth_filters.
      destruct (skipn (nwild p_done) names) as [|n names'] eqn:En; [reflexivity|].
      (* the value *)
      unfold fetch. rewrite (nth_error_skipn_hd args).
      set (cidx' := S (if Nat.eqb (length cur) 0 then length pre0 else (length pre0 + length cur)%nat)).
      assert (Hc : cidx' = length (pre0 ++ cur ++ [CR])).
      { unfold cidx'. rewrite !app_length. simpl.
        destruct cur; simpl; lia. }
      assert (Hpo' : po = (pre0 ++ cur ++ [CR]) ++ [] ++ pattern_of p).
      { rewrite Hpo. cbn [pattern_of]. rewrite param_token_CR. rewrite <- !app_assoc. reflexivity. }
      assert (Hla : lookahead po cidx' = next_lit p).
      { rewrite Hc, Hpo'. simpl. apply lookahead_next_lit. exact Hok. }
      assert (Hn : S (nwild p_done) = nwild (p_done ++ [Wild f])) by (rewrite nwild_app; simpl; lia).
      assert (Hall' : p_all = (p_done ++ [Wild f]) ++ p) by (rewrite Hall, <- app_assoc; reflexivity).
      assert (Hnames : skipn (nwild (p_done ++ [Wild f])) names = names').
      { rewrite <- Hn. eapply skipn_S_tl; eauto. }
      (* the pieces pushed so far *)
      set (ret1 := if Nat.eqb (length cur) 0 then ret
                   else ret ++ [PStr (slice po (length pre0)
                                            (if Nat.eqb (length cur) 0 then length pre0
                                             else (length pre0 + length cur)%nat))]).
      assert (Hret1 : fold_left push ret1 (Some []) = push (fold_left push ret (Some [])) (PStr cur)).
      { unfold ret1. destruct cur as [|c cur].
        - simpl. now rewrite push_nil.
        - cbn [length Nat.eqb]. rewrite fold_push_snoc. do 2 f_equal.
          rewrite Hpo. exact (slice_mid pre0 (c :: cur) _). }
      assert (Hstep : forall prt aidx',
                 loop (pattern_of p) (ret1 ++ [prt]) (S (nwild p_done)) aidx' cidx' 0
                 = spec_go kind rx fconv kw p names' (skipn aidx' args)
                           (push (push (fold_left push ret (Some [])) (PStr cur)) prt)).
      { intros prt aidx'. rewrite Hn, Hc.
        change 0%nat with (length (@nil N)).
        rewrite (IH (p_done ++ [Wild f]) (pre0 ++ cur ++ [CR]) [] (ret1 ++ [prt]) aidx' Hall' Hok Hpo').
        rewrite Hnames, fold_push_snoc, Hret1, push_nil. reflexivity. }
      fold loop. fold ret1. fold cidx'.
      destruct (is_anon n).
      * destruct (skipn aidx args) as [|v args'] eqn:Ea; [reflexivity|].
        assert (Ha : skipn (S aidx) args = args') by (eapply skipn_S_tl; eauto).
        unfold format, check.
        destruct f as [k|].
        -- destruct (f_out_of (kind k)) as [fm|].
           ++ destruct (apply_fmt fm v) as [s| | | | | |]; try reflexivity.
              rewrite Hla.
              destruct (validate kind rx fconv k (PStr s) (next_lit p)); [reflexivity|].
              rewrite Hstep, Ha. reflexivity.
           ++ rewrite Hla.
              destruct (validate kind rx fconv k v (next_lit p)); [reflexivity|].
              rewrite Hstep, Ha. reflexivity.
        -- rewrite Hstep, Ha. reflexivity.
      * destruct (kw_get kw n) as [v|]; [|reflexivity].
        unfold format, check.
        destruct f as [k|].
        -- destruct (f_out_of (kind k)) as [fm|].
           ++ destruct (apply_fmt fm v) as [s| | | | | |]; try reflexivity.
              rewrite Hla.
              destruct (validate kind rx fconv k (PStr s) (next_lit p)); [reflexivity|].
              rewrite Hstep. reflexivity.
           ++ rewrite Hla.
              destruct (validate kind rx fconv k v (next_lit p)); [reflexivity|].
              rewrite Hstep. reflexivity.
        -- rewrite Hstep. reflexivity.
Qed.

End Shape.

Lemma url_shape_lemma kind rx fconv p_all names args kw :
  lits_ok p_all = true ->
  url_of_pat kind rx fconv p_all names args kw = url_spec kind rx fconv kw p_all names args.
Proof.
  intros Hok. unfold url_of_pat, url, url_spec.
  destruct names as [|n0 names0] eqn:En; [reflexivity|].
  rewrite <- En.
  pose proof (loop_spec kind rx fconv p_all names args kw p_all [] [] [] [] 0 eq_refl Hok eq_refl) as H.
  simpl in H. rewrite H. reflexivity.
Qed.

(* ---- the Ok shape: literals verbatim and in order, one text per wildcard ---- *)

Section Fill.
Variable kind : fid -> fkind.
Variable rx : fid -> str -> option nat.
Variable fconv : str -> str.
Variable kw : list (str * pyval).

Lemma fetch_err n args e u : fetch kw n args = inl e -> e <> UOk u.
Proof.
  unfold fetch. destruct (is_anon n).
  - destruct args; intros [= <-]; discriminate.
  - destruct (kw_get kw n); intros [= <-]; discriminate.
Qed.

Lemma format_err f v e u : format kind f v = inl e -> e <> UOk u.
Proof.
  unfold format. destruct f as [k|]; [|discriminate].
  destruct (f_out_of (kind k)); [|discriminate].
  destruct (apply_fmt f v); intros [= <-]; discriminate.
Qed.

Lemma check_err f prt la e u : check kind rx fconv f prt la = Some e -> e <> UOk u.
Proof.
  unfold check, validate. destruct f as [k|]; [|discriminate].
  destruct prt; try (intros [= <-]; discriminate).
  destruct (handler kind rx fconv k (s ++ la)) as [[v [|n]]|]; intros [= <-]; discriminate.
Qed.

Lemma spec_go_fill p :
  forall names args acc u,
    spec_go kind rx fconv kw p names args acc = UOk u ->
    exists t texts, acc = Some t /\ length texts = nwild p /\ u = t ++ fill p texts.
Proof.
  induction p as [|[s|f] p IH]; intros names args acc u H; simpl in H.
  - destruct acc as [t|]; simpl in H; [|discriminate]. injection H as <-.
    exists t, []. simpl. now rewrite app_nil_r.
  - apply IH in H. destruct H as [t [texts [Hacc [Hl ->]]]].
    destruct acc as [t0|]; simpl in Hacc; [|discriminate]. injection Hacc as <-.
    exists t0, texts. simpl. now rewrite app_assoc.
  - destruct names as [|n names']; [discriminate|].
    destruct (fetch kw n args) as [e|[v args']] eqn:E1; [exfalso; subst e; eapply fetch_err; eauto|].
    destruct (format kind f v) as [e|prt] eqn:E2; [exfalso; subst e; eapply format_err; eauto|].
    destruct (check kind rx fconv f prt (next_lit p)) as [e|] eqn:E3; [exfalso; subst e; eapply check_err; eauto|].
    apply IH in H. destruct H as [t [texts [Hacc [Hl ->]]]].
    destruct acc as [t0|]; [|discriminate].
    destruct prt as [s|z|r]; simpl in Hacc; try discriminate. injection Hacc as <-.
    exists t0, (s :: texts). simpl. rewrite Hl, app_assoc. auto.
Qed.

End Fill.

Lemma url_shape_literals_lemma kind rx fconv p names args kw u :
  lits_ok p = true ->
  names <> [] ->
  url_of_pat kind rx fconv p names args kw = UOk u ->
  exists texts, length texts = nwild p /\ u = fill p texts.
Proof.
  intros Hok Hn H. rewrite url_shape_lemma in H by exact Hok.
  unfold url_spec in H. destruct names; [congruence|].
  apply spec_go_fill in H. destruct H as [t [texts [[= <-] [Hl ->]]]].
  exists texts. auto.
Qed.
