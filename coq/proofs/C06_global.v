(* C06_global.v — the streaming parser equals the one-piece reference on
   well-formed prefixes: after consuming p the state is the abstraction of p. *)
From Verif Require Import lib.Base lib.ListX lib.Str model.MultipartRef model.Multipart
  proofs.C06_pattern proofs.C06_dres proofs.C06_eat_data proofs.C06_headers proofs.C06_core proofs.C06_scan.
Require Import Lia.

Lemma tr_of_carry t D :
  trest_of t (carry_len t D) = tr_of t (match carry_len t D with Some k => k | None => 0 end).
Proof.
  destruct (carry_len t D) as [k|] eqn:E; [|reflexivity].
  destruct (carry_len_some _ _ _ E) as (Hk & _). unfold tr_of. cbn [trest_of option_map].
  destruct (Nat.eqb_spec k 0); [lia | reflexivity].
Qed.

Lemma no_occ_prefix t X rest j :
  compat t (skipn j X) = false -> prefixb t (skipn j X ++ rest) = false.
Proof.
  intros H. destruct (prefixb t (skipn j X ++ rest)) eqn:E; [|reflexivity].
  apply prefixb_compat in E. rewrite compat_false_app in E by exact H. discriminate.
Qed.

Section Global.
Variable B : bytes.
Hypothesis HB : contains_char N.eqb CR B = false.
Let tok := token B.
Let n := length tok.
Let tl := LF :: HY :: HY :: B.
Let Htok : tok = CR :: tl := eq_refl.
Let Hcr : ~ In CR tl := token_cr B HB.

Definition hcarry (X : bytes) : nat := match carry_len H4 X with Some k => k | None => 0 end.
Definition dcarry (X : bytes) : nat := match carry_len tok X with Some k => k | None => 0 end.

Lemma n_ge4 : 4 <= n.
Proof. unfold n, tok, token, dash_boundary. simpl. lia. Qed.

Lemma dcarry_lt X : dcarry X < n.
Proof.
  unfold dcarry. destruct (carry_len tok X) as [k|] eqn:E.
  - destruct (carry_len_some _ _ _ E) as (_ & H & _). exact H.
  - pose proof n_ge4. lia.
Qed.

Lemma hcarry_lt X : hcarry X < 4.
Proof.
  unfold hcarry. destruct (carry_len H4 X) as [k|] eqn:E.
  - destruct (carry_len_some _ _ _ E) as (_ & H & _). exact H.
  - lia.
Qed.

(* ---- the eaters on  pending ++ chunk[base:] ---- *)
Lemma eat_data_pending X c b :
  findb tok X = None ->
  eat_data tok c b (tr_of tok (dcarry X)) =
  dres tok (Z.of_nat b - Z.of_nat (length X)) (X ++ skipn b c).
Proof.
  intros Hf. rewrite (eat_data_dspec tok CR tl Htok Hcr) by apply dcarry_lt.
  unfold dspec, dcarry, carry_len.
  rewrite (findb_fcp tok X) in Hf by discriminate.
  destruct (fcp tok X) as [p0|] eqn:Ep.
  - destruct (Nat.leb_spec (p0 + length tok) (length X)); [discriminate|].
    destruct (fcp_some _ _ _ Ep) as (P1 & _ & _).
    rewrite (dres_carry tok CR tl Htok Hcr _ X (skipn b c) p0 Ep) by lia.
    f_equal. lia.
  - rewrite (dres_nocarry tok CR tl Htok Hcr _ X (skipn b c) Ep). cbn [firstn app]. f_equal. lia.
Qed.

Lemma eat_headers_pending X c b :
  findb H4 X = None -> hclean_upto (X ++ skipn b c) = true -> (X <> [] -> b = 0) ->
  eat_headers c b (tr_of H4 (hcarry X)) =
  dres H4 (Z.of_nat b - Z.of_nat (length X)) (X ++ skipn b c).
Proof.
  intros Hf Hc Hb. unfold hcarry, carry_len.
  rewrite (findb_fcp H4 X) in Hf by discriminate.
  destruct (fcp H4 X) as [p0|] eqn:Ep.
  - destruct (Nat.leb_spec (p0 + length H4) (length X)); [discriminate|].
    change (length H4) with 4 in *.
    destruct (fcp_some _ _ _ Ep) as (P1 & P2 & P3).
    set (k := length X - p0).
    assert (Hh : skipn p0 X = firstn k H4).
    { pose proof (compat_is_firstn _ _ P2) as Hx. rewrite skipn_length in Hx. apply Hx.
      change (length H4) with 4. lia. }
    assert (HX : X = firstn p0 X ++ firstn k H4) by (rewrite <- Hh; symmetry; apply firstn_skipn).
    rewrite eat_headers_spec.
    + unfold dspec. rewrite (C06_dres.dres_carry H4 Hres_H4 H4_pos _ X (skipn b c) p0 Ep) by (change (length H4) with 4; lia).
      fold k. f_equal. lia.
    + lia.
    + intros _. apply Hb. intros ->. simpl in P1. lia.
    + rewrite HX, <- app_assoc in Hc. apply hclean_upto_skip in Hc; [exact Hc|].
      intros j Hj. rewrite firstn_length, Nat.min_l in Hj by lia.
      rewrite app_assoc.
      replace (skipn j (firstn p0 X) ++ firstn k H4) with (skipn j X).
      * apply no_occ_prefix. now apply P3.
      * rewrite HX at 1. rewrite skipn_app_le by (rewrite firstn_length; lia). reflexivity.
  - rewrite eat_headers_spec.
    + unfold dspec. rewrite (C06_dres.dres_nocarry H4 Hres_H4 H4_pos _ X (skipn b c) Ep). cbn [firstn app]. f_equal. lia.
    + lia.
    + intros H; lia.
    + cbn [firstn app]. apply hclean_upto_skip in Hc; [exact Hc|].
      intros j Hj. apply no_occ_prefix. now apply (fcp_none _ _ Ep).
Qed.

(* ---- one iteration of the loop of iter_markup ---- *)
Lemma im_loop_data f s c abs_start b :
  im_loop (S f) s c CData abs_start b =
  let '(r, tr) := eat_data (s_tok s) c b (trest s) in
  match r with
  | EStop => mkSt (s_tok s) (cur_meth s) tr (heater s) true (abspos s) (sec_start s) (out s) (error s)
  | EErr e => mkSt (s_tok s) (cur_meth s) tr (heater s) (stopped s) (abspos s) (sec_start s) (out s) (Some e)
  | EFuel => mkSt (s_tok s) (cur_meth s) tr (heater s) (stopped s) (abspos s) (sec_start s) (out s) (Some EOutOfFuel)
  | ENone => mkSt (s_tok s) CData tr (heater s) (stopped s) (abspos s + Z.of_nat (length c))%Z abs_start (out s) (error s)
  | EFound e =>
    im_loop f (mkSt (s_tok s) (cur_meth s) tr (heater s) (stopped s) (abspos s) (sec_start s)
                    (out s ++ [(Data, abs_start, abspos s + e)%Z]) (error s))
            c CHdr (abspos s + (e + Z.of_nat (length (s_tok s))) + 2)%Z
            (Z.to_nat (e + Z.of_nat (length (s_tok s))))
  end.
Proof. cbn [im_loop]. destruct (eat_data (s_tok s) c b (trest s)) as [r tr]. reflexivity. Qed.

Lemma im_loop_hdr f s c abs_start b :
  im_loop (S f) s c CHdr abs_start b =
  let '(h, r) := eat (heater s) c b in
  match r with
  | EStop => mkSt (s_tok s) (cur_meth s) (trest s) h true (abspos s) (sec_start s) (out s) (error s)
  | EErr e => mkSt (s_tok s) (cur_meth s) (trest s) h (stopped s) (abspos s) (sec_start s) (out s) (Some e)
  | EFuel => mkSt (s_tok s) (cur_meth s) (trest s) h (stopped s) (abspos s) (sec_start s) (out s) (Some EOutOfFuel)
  | ENone => mkSt (s_tok s) CHdr (trest s) h (stopped s) (abspos s + Z.of_nat (length c))%Z abs_start (out s) (error s)
  | EFound e =>
    im_loop f (mkSt (s_tok s) (cur_meth s) (trest s) h (stopped s) (abspos s) (sec_start s)
                    (out s ++ [(Headers, abs_start, abspos s + e)%Z]) (error s))
            c CData (abspos s + (e + 4) + 0)%Z (Z.to_nat (e + 4))
  end.
Proof. cbn [im_loop]. destruct (eat (heater s) c b) as [h r]. reflexivity. Qed.

(* ---- abstraction ---- *)
Definition meth_of (R : bytes) : hmeth :=
  match R with [] => HFirst | x :: _ => if N.eqb x CR then HLf else HLastHyphen end.

(* the state inside the loop; cm0/ss0: the not yet updated cur_meth / abs_start_section fields *)
Definition lst (cm0 : cur) (ss0 : Z) (Q : bytes) (ap : Z) (secs : list section) (s : final) : st :=
  match s with
  | FDelim a => mkSt tok cm0 None (mkH (meth_of (skipn a Q)) None false) false ap ss0 secs None
  | FHeaders hs => mkSt tok cm0 None (mkH HHeaders (tr_of H4 (hcarry (skipn hs Q))) false) false ap ss0 secs None
  | FData ds => mkSt tok cm0 (tr_of tok (dcarry (skipn ds Q))) (mkH HFirst None false) false ap ss0 secs None
  | _ => mkSt tok cm0 None (mkH HFirst None false) false ap ss0 secs None
  end.

Definition cur_of (s : final) : cur := match s with FData _ => CData | _ => CHdr end.
Definition start_of (s : final) : Z :=
  match s with
  | FDelim a => Z.of_nat (a + 2) | FHeaders hs => Z.of_nat hs | FData ds => Z.of_nat ds | _ => 0%Z
  end.

Definition gamma (P : bytes) (secs : list section) (s : final) : st :=
  lst (cur_of s) (start_of s) P (Z.of_nat (length P)) secs s.

Definition Final (P : bytes) (secs : list section) (f : final) (s : st) : Prop :=
  match f with
  | FStopped => stopped s = true /\ out s = secs /\ error s = None
  | FDelim _ | FHeaders _ | FData _ => s = gamma P secs f
  | _ => False
  end.

Section Loop.
Variables p c : bytes.
Let P := p ++ c.
Let ap := Z.of_nat (length p).
Definition Qb (b : nat) : bytes := firstn (length p + b) P.

Lemma Qb_length b : b <= length c -> length (Qb b) = length p + b.
Proof. intros L. unfold Qb, P. rewrite firstn_length, app_length. lia. Qed.

Lemma P_Qb b : b <= length c -> P = Qb b ++ skipn b c.
Proof.
  intros L. unfold Qb. rewrite <- (firstn_skipn (length p + b) P) at 1. f_equal.
  unfold P. rewrite skipn_app. rewrite skipn_all2 by lia. simpl. f_equal. lia.
Qed.

Lemma P_split b a : b <= length c -> a <= length p + b -> skipn a P = skipn a (Qb b) ++ skipn b c.
Proof.
  intros L La. rewrite (P_Qb b L) at 1. apply skipn_app_le. rewrite Qb_length by exact L. exact La.
Qed.

Lemma P_length : length P = length p + length c.
Proof. unfold P. apply app_length. Qed.

(* what has been seen of the current section may not yet complete it *)
Definition pend_ok (Q : bytes) (s : final) : Prop :=
  match s with
  | FDelim a => skipn a Q = [] \/ skipn a Q = [CR] \/ skipn a Q = [HY]
  | FHeaders hs => findb H4 (skipn hs Q) = None
  | FData ds => findb tok (skipn ds Q) = None
  | _ => False
  end.

Lemma WScan_pend_ok Q s : is_wait s -> WScan tok Q s [] s -> pend_ok Q s /\ anchor s <= length Q.
Proof.
  intros Hw W. destruct s; try contradiction; inversion W; subst; cbn [pend_ok anchor]; try (split; assumption).
  match goal with H : WScan _ _ (FHeaders _) [] (FDelim _) |- _ => inversion H end.
Qed.

(* ---- the bytes after a delimiter ---- *)
Definition delim_side (R : bytes) (b : nat) : Prop := R = [] \/ (b = 0 /\ (R = [CR] \/ R = [HY])).

Lemma slice_two (ch : bytes) b : slice ch b (b + 2) = firstn 2 (skipn b ch).
Proof. unfold slice. f_equal. lia. Qed.
Lemma slice_one (ch : bytes) b : slice ch b (b + 1) = firstn 1 (skipn b ch).
Proof. unfold slice. f_equal. lia. Qed.

Lemma eat_delim_wait R ch b :
  delim_side R b ->
  (R ++ skipn b ch = [] \/ R ++ skipn b ch = [CR] \/ R ++ skipn b ch = [HY]) ->
  eat (mkH (meth_of R) None false) ch b = (mkH (meth_of (R ++ skipn b ch)) None false, ENone).
Proof.
  intros [->|[-> [->| ->]]] Hw; cbn [app] in *.
  - unfold eat, eat_first. cbn [meth_of eat_meth]. rewrite slice_two.
    destruct Hw as [->|[->| ->]]; reflexivity.
  - cbn [skipn] in *. destruct Hw as [Hw|[Hw|Hw]]; try discriminate. injection Hw as ->. reflexivity.
  - cbn [skipn] in *. destruct Hw as [Hw|[Hw|Hw]]; try discriminate. injection Hw as ->. reflexivity.
Qed.

Lemma eat_delim_stop R ch b r :
  delim_side R b -> R ++ skipn b ch = HY :: HY :: r ->
  exists h, eat (mkH (meth_of R) None false) ch b = (h, EStop).
Proof.
  intros [->|[-> [->| ->]]] Hw; cbn [app] in *.
  - unfold eat, eat_first. cbn [meth_of eat_meth]. rewrite slice_two, Hw. eexists. reflexivity.
  - discriminate.
  - cbn [skipn] in *. injection Hw as ->. eexists. reflexivity.
Qed.

Lemma eat_delim_crlf R ch b r :
  delim_side R b -> R ++ skipn b ch = CR :: LF :: r ->
  eat (mkH (meth_of R) None false) ch b = eat (mkH HHeaders None false) ch (b + 2 - length R).
Proof.
  intros [->|[-> [->| ->]]] Hw; cbn [app] in *.
  - unfold eat at 1. unfold eat_first. cbn [meth_of eat_meth]. rewrite slice_two, Hw.
    cbn -[Z.add Z.to_nat]. replace (Z.to_nat (Z.of_nat b + 2)) with (b + 2 - 0) by lia. reflexivity.
  - cbn [skipn] in *. injection Hw as ->. reflexivity.
  - discriminate.
Qed.

Lemma hcarry_nil : hcarry [] = 0.
Proof. reflexivity. Qed.
Lemma dcarry_nil : dcarry [] = 0.
Proof. reflexivity. Qed.

Lemma loop_ok : forall s0 secs f, WScan tok P s0 secs f ->
  forall b cm0 ss0 secs0 fuel,
    b <= length c -> length c - b < fuel ->
    anchor s0 <= length p + b -> (b = 0 \/ anchor s0 = length p + b) ->
    pend_ok (Qb b) s0 ->
    Final P (secs0 ++ secs) f
          (im_loop fuel (lst cm0 ss0 (Qb b) ap secs0 s0) c (cur_of s0) (start_of s0) b).
Proof.
  induction 1 as [a La Hw | a r Es | a r secs f Es W IH | hs L E Hc | hs e secs f L E Hc W IH
                 | ds L E | ds q secs f L E W IH];
    intros b cm0 ss0 secs0 fuel Lb Lf Lanc Hb0 Hp; (destruct fuel as [|fuel]; [lia|]);
    cbn [anchor] in Lanc, Hb0; cbn [cur_of start_of pend_ok] in *.
  - (* delimiter, nothing decisive after it *)
    rewrite (P_split b a Lb Lanc) in Hw.
    assert (Hside : delim_side (skipn a (Qb b)) b).
    { destruct Hb0 as [->|Ha]; [|left; rewrite skipn_all2; [reflexivity | rewrite Qb_length by exact Lb; lia]].
      destruct Hp as [Hp|[Hp|Hp]]; [left; exact Hp | right; auto | right; auto]. }
    rewrite im_loop_hdr. cbn [lst heater].
    rewrite (eat_delim_wait _ c b Hside Hw). cbn [Final gamma lst cur_of start_of].
    cbn [s_tok cur_meth trest stopped abspos sec_start out error].
    rewrite app_nil_r, <- (P_split b a Lb Lanc). f_equal. unfold ap. rewrite P_length. lia.
  - (* closing delimiter *)
    assert (La : a <= length P) by (apply Nat.lt_le_incl; eapply skipn_nonempty_le; exact Es).
    rewrite (P_split b a Lb Lanc) in Es.
    assert (Hside : delim_side (skipn a (Qb b)) b).
    { destruct Hb0 as [->|Ha]; [|left; rewrite skipn_all2; [reflexivity | rewrite Qb_length by exact Lb; lia]].
      destruct Hp as [Hp|[Hp|Hp]]; [left; exact Hp | right; auto | right; auto]. }
    rewrite im_loop_hdr. cbn [lst heater].
    destruct (eat_delim_stop _ c b r Hside Es) as [h Eh]. rewrite Eh.
    cbn [Final stopped out error]. rewrite app_nil_r. auto.
  - (* CRLF after the delimiter: a header block starts *)
    assert (La2 : a + 2 <= length P).
    { assert (length (skipn a P) = S (S (length r))) by now rewrite Es. rewrite skipn_length in H. lia. }
    pose proof Es as Es'. rewrite (P_split b a Lb Lanc) in Es'.
    assert (Hside : delim_side (skipn a (Qb b)) b).
    { destruct Hb0 as [->|Ha]; [|left; rewrite skipn_all2; [reflexivity | rewrite Qb_length by exact Lb; lia]].
      destruct Hp as [Hp|[Hp|Hp]]; [left; exact Hp | right; auto | right; auto]. }
    set (b' := b + 2 - length (skipn a (Qb b))).
    assert (Hb' : a + 2 = length p + b').
    { unfold b'. rewrite skipn_length, Qb_length by exact Lb.
      destruct Hside as [HR|[-> HR]].
      - assert (length (skipn a (Qb b)) = 0) by now rewrite HR. rewrite skipn_length, Qb_length in H by exact Lb. lia.
      - assert (length (skipn a (Qb 0)) = 1) by (destruct HR as [HR|HR]; now rewrite HR).
        rewrite skipn_length, Qb_length in H by lia. lia. }
    assert (Lb' : b' <= length c) by (rewrite P_length in La2; lia).
    assert (Hnil : skipn (a + 2) (Qb b') = []) by (apply skipn_all2; rewrite Qb_length by exact Lb'; lia).
    specialize (IH b' cm0 ss0 secs0 (S fuel) Lb' ltac:(unfold b' in *; rewrite skipn_length, Qb_length in * by exact Lb; lia)
                   ltac:(cbn [anchor]; lia) ltac:(right; cbn [anchor]; lia)).
    cbn [cur_of start_of pend_ok] in IH. rewrite Hnil in IH.
    specialize (IH eq_refl).
    rewrite im_loop_hdr in IH |- *. cbn [lst heater] in IH |- *.
    rewrite Hnil, hcarry_nil in IH. cbn [tr_of Nat.eqb] in IH.
    rewrite (eat_delim_crlf _ c b r Hside Es'). fold b'. exact IH.
  - (* header block not terminated *)
    pose proof (P_split b hs Lb Lanc) as HP. set (X := skipn hs (Qb b)) in *.
    rewrite im_loop_hdr. cbn [lst heater]. fold X.
    unfold eat. cbn [eat_meth]. unfold eat_in_headers. cbn [hexp hstopped].
    rewrite (eat_headers_pending X c b Hp).
    2:{ rewrite <- HP. unfold hclean_upto. rewrite E. exact Hc. }
    2:{ intros HX. destruct Hb0 as [Hb0|Hb0]; [exact Hb0|]. exfalso. apply HX. unfold X.
        apply skipn_all2. rewrite Qb_length by exact Lb. lia. }
    rewrite <- HP, dres_findb by discriminate. rewrite E.
    cbn [Final gamma lst cur_of start_of s_tok cur_meth trest stopped abspos sec_start out error].
    rewrite app_nil_r, tr_of_carry. fold (hcarry (skipn hs P)).
    f_equal. unfold ap. rewrite P_length. lia.
  - (* header block terminated *)
    pose proof (P_split b hs Lb Lanc) as HP. set (X := skipn hs (Qb b)) in *.
    pose proof (findb_bound _ _ _ E) as Hbd. rewrite skipn_length in Hbd. change (length H4) with 4 in Hbd.
    assert (LX : length X = length p + b - hs) by (unfold X; rewrite skipn_length, Qb_length by exact Lb; lia).
    assert (Hlate : length X < e + 4).
    { destruct (Nat.lt_ge_cases (length X) (e + 4)) as [H|H]; [exact H|]. exfalso.
      rewrite HP in E. apply findb_app_inv in E; [congruence | exact H]. }
    rewrite im_loop_hdr. cbn [lst heater]. fold X.
    unfold eat. cbn [eat_meth]. unfold eat_in_headers. cbn [hexp hstopped].
    rewrite (eat_headers_pending X c b Hp).
    2:{ rewrite <- HP. unfold hclean_upto. rewrite E. exact Hc. }
    2:{ intros HX. destruct Hb0 as [Hb0|Hb0]; [exact Hb0|]. exfalso. apply HX. unfold X.
        apply skipn_all2. rewrite Qb_length by exact Lb. lia. }
    rewrite <- HP, dres_findb by discriminate. rewrite E.
    cbn [s_tok cur_meth trest stopped abspos sec_start out error].
    set (b' := hs + e + 4 - length p).
    assert (Lb' : b' <= length c) by (rewrite P_length in Hbd; unfold b'; lia).
    assert (Hnil : skipn (hs + e + 4) (Qb b') = []) by (apply skipn_all2; rewrite Qb_length by exact Lb'; unfold b'; lia).
    specialize (IH b' cm0 ss0 (secs0 ++ [sec Headers hs (hs + e)]) fuel Lb' ltac:(unfold b'; lia)
                   ltac:(cbn [anchor]; unfold b'; lia) ltac:(right; cbn [anchor]; unfold b'; lia)).
    cbn [cur_of start_of pend_ok lst] in IH. rewrite Hnil in IH. specialize (IH eq_refl).
    rewrite dcarry_nil in IH. cbn [tr_of Nat.eqb] in IH.
    rewrite <- app_assoc in IH. cbn [app] in IH.
    replace (Z.to_nat (Z.of_nat b - Z.of_nat (length X) + Z.of_nat e + 4)) with b' by (unfold b'; lia).
    replace (ap + (Z.of_nat b - Z.of_nat (length X) + Z.of_nat e + 4) + 0)%Z with (Z.of_nat (hs + e + 4))
      by (unfold ap; lia).
    replace (ap + (Z.of_nat b - Z.of_nat (length X) + Z.of_nat e))%Z with (Z.of_nat (hs + e)) by (unfold ap; lia).
    exact IH.
  - (* data section not terminated *)
    pose proof (P_split b ds Lb Lanc) as HP. set (X := skipn ds (Qb b)) in *.
    rewrite im_loop_data. cbn [lst s_tok trest]. fold X.
    rewrite (eat_data_pending X c b Hp).
    rewrite <- HP, dres_findb by discriminate. rewrite E.
    cbn [Final gamma lst cur_of start_of s_tok cur_meth trest heater stopped abspos sec_start out error].
    rewrite app_nil_r, tr_of_carry. fold (dcarry (skipn ds P)).
    f_equal. unfold ap. rewrite P_length. lia.
  - (* data section terminated by a delimiter *)
    pose proof (P_split b ds Lb Lanc) as HP. set (X := skipn ds (Qb b)) in *.
    pose proof (findb_bound _ _ _ E) as Hbd. rewrite skipn_length in Hbd. fold n in Hbd.
    assert (LX : length X = length p + b - ds) by (unfold X; rewrite skipn_length, Qb_length by exact Lb; lia).
    assert (Hlate : length X < q + n).
    { destruct (Nat.lt_ge_cases (length X) (q + n)) as [H|H]; [exact H|]. exfalso.
      rewrite HP in E. apply findb_app_inv in E; [congruence | exact H]. }
    rewrite im_loop_data. cbn [lst s_tok trest]. fold X.
    rewrite (eat_data_pending X c b Hp).
    rewrite <- HP, dres_findb by discriminate. rewrite E.
    cbn [s_tok cur_meth trest heater stopped abspos sec_start out error]. fold n.
    set (b' := ds + q + n - length p).
    assert (Lb' : b' <= length c) by (rewrite P_length in Hbd; unfold b'; lia).
    assert (Hnil : skipn (ds + q + n) (Qb b') = []) by (apply skipn_all2; rewrite Qb_length by exact Lb'; unfold b'; lia).
    specialize (IH b' cm0 ss0 (secs0 ++ [sec Data ds (ds + q)]) fuel Lb' ltac:(unfold b'; lia)
                   ltac:(cbn [anchor]; unfold b'; lia) ltac:(right; cbn [anchor]; unfold b'; lia)).
    cbn [cur_of start_of pend_ok lst] in IH. fold n in IH. rewrite Hnil in IH. specialize (IH (or_introl eq_refl)).
    cbn [meth_of] in IH.
    rewrite <- app_assoc in IH. cbn [app] in IH.
    replace (Z.to_nat (Z.of_nat b - Z.of_nat (length X) + Z.of_nat q + Z.of_nat n)) with b' by (unfold b'; lia).
    replace (ap + (Z.of_nat b - Z.of_nat (length X) + Z.of_nat q + Z.of_nat n) + 2)%Z with (Z.of_nat (ds + q + n + 2))
      by (unfold ap; lia).
    replace (ap + (Z.of_nat b - Z.of_nat (length X) + Z.of_nat q))%Z with (Z.of_nat (ds + q)) by (unfold ap; lia).
    exact IH.
Qed.

End Loop.

(* ---- the first delimiter ---- *)
Definition D_of (P : bytes) : bytes := virt P ++ P.
Definition a0 (P : bytes) : nat := n - length (virt P).
Definition first_ok (P : bytes) : Prop := match P with [] => True | x :: _ => x = CR \/ x = HY end.

Definition start_st (m : nat) (apos : Z) : st :=
  mkSt tok CStart (tr_of tok m) (mkH HFirst None false) false apos 0 [] None.

Inductive inv (P : bytes) (s : st) : Prop :=
| inv_start :
    first_ok P -> prefixb (D_of P) tok = true -> length (D_of P) < n ->
    s = start_st (length (D_of P)) (Z.of_nat (length P)) -> inv P s
| inv_scan secs f :
    prefixb tok (D_of P) = true -> WScan tok P (FDelim (a0 P)) secs f ->
    Final P ((Data, 0, 0)%Z :: secs) f s -> inv P s.

Definition wfP (P : bytes) : Prop :=
  first_ok P /\
  ((prefixb (D_of P) tok = true /\ length (D_of P) < n) \/
   (prefixb tok (D_of P) = true /\ exists secs f, WScan tok P (FDelim (a0 P)) secs f)).

Lemma virt_app p c : p <> [] -> virt (p ++ c) = virt p.
Proof. destruct p; [congruence | reflexivity]. Qed.

Lemma D_of_app p c : p <> [] -> D_of (p ++ c) = D_of p ++ c.
Proof. intros H. unfold D_of. rewrite virt_app by exact H. now rewrite app_assoc. Qed.

Lemma a0_app p c : p <> [] -> a0 (p ++ c) = a0 p.
Proof. intros H. unfold a0. now rewrite virt_app. Qed.

Lemma virt_cases P : virt P = [] \/ (virt P = CRLF /\ exists r, P = HY :: r).
Proof.
  destruct P as [|x r]; [left; reflexivity|]. cbn [virt].
  destruct (N.eqb_spec x HY) as [->|]; [right; split; [reflexivity | eauto] | left; reflexivity].
Qed.

Lemma virt_firstn P : firstn (length (virt P)) tok = virt P.
Proof. destruct (virt_cases P) as [->|[-> _]]; reflexivity. Qed.

Lemma prefix_firstn (X t : bytes) : prefixb X t = true -> firstn (length X) t = X.
Proof. apply prefixb_firstn. Qed.

Lemma prefixb_length (X t : bytes) : prefixb X t = true -> length X <= length t.
Proof. intros H. apply prefixb_spec in H. destruct H as [r ->]. rewrite app_length. lia. Qed.

Lemma findb_short t X : length X < length t -> findb t X = None.
Proof.
  intros L. destruct (findb t X) as [q|] eqn:E; [|reflexivity].
  pose proof (findb_bound _ _ _ E). lia.
Qed.

Lemma findb_prefix t X : prefixb t X = true -> findb t X = Some 0.
Proof. intros H. apply findb_intro; [exact H | intros j Hj; lia]. Qed.

(* a proper, non-empty prefix of the delimiter is carried entirely *)
Lemma carry_prefix X : prefixb X tok = true -> length X < n -> X <> [] ->
  carry_len tok X = Some (length X).
Proof.
  intros Hp Hl Hne. unfold carry_len.
  assert (E : fcp tok X = Some 0).
  { apply fcp_intro; [destruct X; [congruence | simpl; lia] | | intros j Hj; lia].
    cbn [skipn]. rewrite compat_short by (fold n; lia). exact Hp. }
  rewrite E. fold n. destruct (Nat.leb_spec (0 + n) (length X)); [lia|]. now rewrite Nat.sub_0_r.
Qed.

Lemma tr_of_pos m : 0 < m -> tr_of tok m = Some (skipn m tok).
Proof. intros H. unfold tr_of. destruct (Nat.eqb_spec m 0); [lia | reflexivity]. Qed.

(* _eat_start_boundary on a non-empty chunk, while the first delimiter is incomplete *)
Lemma start_step p c :
  c <> [] -> first_ok (p ++ c) -> prefixb (D_of p) tok = true -> length (D_of p) < n ->
  eat_start_boundary tok c 0 (tr_of tok (length (D_of p))) =
  dres tok (Z.of_nat (length c) - Z.of_nat (length (D_of (p ++ c)))) (D_of (p ++ c)).
Proof.
  intros Hc Hf Hp Hl. destruct p as [|y p'].
  - (* nothing seen so far *)
    cbn [app] in *. change (length (D_of [])) with 0. cbn [tr_of Nat.eqb].
    destruct c as [|x r]; [congruence|]. cbn [first_ok] in Hf.
    unfold eat_start_boundary.
    change (slice (x :: r) 0 (0 + 1)) with [x]. cbv iota beta.
    destruct Hf as [->| ->].
    + rewrite N.eqb_refl. change (@None bytes) with (tr_of tok 0).
      rewrite (eat_data_dspec tok CR tl Htok Hcr) by (pose proof n_ge4; fold n; lia).
      unfold dspec. change (skipn 0 (CR :: r)) with (CR :: r). change (firstn 0 tok) with (@nil N).
      unfold D_of. cbn [virt]. change (N.eqb CR HY) with false.
      cbn [app]. f_equal. lia.
    + change (N.eqb HY CR) with false. cbv iota.
      unfold D_of. cbn [virt]. rewrite N.eqb_refl.
      destruct (prefixb (skipn 2 tok) (HY :: r)) eqn:Eb.
      * assert (Ht : prefixb tok (CRLF ++ HY :: r) = true).
        { apply prefixb_spec in Eb. destruct Eb as [r' Er]. apply prefixb_spec. exists r'.
          rewrite Er. reflexivity. }
        rewrite dres_findb by discriminate. rewrite (findb_prefix _ _ Ht).
        apply f_equal2; [apply f_equal | reflexivity]. rewrite app_length. cbn [length CRLF]. lia.
      * cbn [negb]. change (Some (skipn 2 tok)) with (tr_of tok 2).
        rewrite (eat_data_dspec tok CR tl Htok Hcr) by (pose proof n_ge4; fold n; lia).
        unfold dspec. change (skipn 0 (HY :: r)) with (HY :: r). change (firstn 2 tok) with CRLF.
        match goal with |- dres _ ?a _ = dres _ ?b _ =>
          replace a with b by (rewrite app_length; cbn [length CRLF]; lia) end. reflexivity.
  - assert (Hne : y :: p' <> []) by discriminate.
    rewrite D_of_app by exact Hne.
    assert (Lpos : 0 < length (D_of (y :: p'))) by (unfold D_of; rewrite app_length; simpl; lia).
    unfold eat_start_boundary. rewrite tr_of_pos by exact Lpos.
    rewrite <- tr_of_pos by exact Lpos.
    rewrite (eat_data_dspec tok CR tl Htok Hcr) by (fold n; lia).
    unfold dspec. cbn [skipn]. rewrite (prefix_firstn _ _ Hp). f_equal. rewrite app_length. lia.
Qed.

Lemma im_loop_start f s c abs_start b :
  im_loop (S f) s c CStart abs_start b =
  let '(r, tr) := eat_start_boundary (s_tok s) c b (trest s) in
  match r with
  | EStop => mkSt (s_tok s) (cur_meth s) tr (heater s) true (abspos s) (sec_start s) (out s) (error s)
  | EErr e => mkSt (s_tok s) (cur_meth s) tr (heater s) (stopped s) (abspos s) (sec_start s) (out s) (Some e)
  | EFuel => mkSt (s_tok s) (cur_meth s) tr (heater s) (stopped s) (abspos s) (sec_start s) (out s) (Some EOutOfFuel)
  | ENone => mkSt (s_tok s) CStart tr (heater s) (stopped s) (abspos s + Z.of_nat (length c))%Z abs_start (out s) (error s)
  | EFound e =>
    let start_next := (e + Z.of_nat (length (s_tok s)))%Z in
    let abs_end := (abspos s + e)%Z in
    if (abs_end <? 0)%Z && negb (abs_end =? -2)%Z then
      mkSt (s_tok s) (cur_meth s) tr (heater s) (stopped s) (abspos s) (sec_start s) (out s) (Some EAssertion)
    else
      let end' := if (abs_end <? 0)%Z then (- abspos s)%Z else e in
      im_loop f (mkSt (s_tok s) (cur_meth s) tr (heater s) (stopped s) (abspos s) (sec_start s)
                      (out s ++ [(Data, abs_start, abspos s + end')%Z]) (error s))
              c CHdr (abspos s + start_next + 2)%Z (Z.to_nat start_next)
  end.
Proof. cbn [im_loop]. destruct (eat_start_boundary (s_tok s) c b (trest s)) as [r tr]. reflexivity. Qed.

(* ---- one chunk ---- *)
Lemma init_eq : init B = start_st 0 0.
Proof. unfold init, start_st. rewrite HB. reflexivity. Qed.

Lemma feed_start_empty m apos : m < n -> feed (start_st m apos) [] = start_st m apos.
Proof.
  intros Hm. unfold feed. cbn [start_st error stopped cur_meth sec_start length].
  rewrite im_loop_start. cbn [start_st s_tok trest cur_meth heater stopped abspos sec_start out error length].
  assert (E : eat_start_boundary tok [] 0 (tr_of tok m) = (ENone, tr_of tok m)).
  { unfold tr_of at 1. destruct (Nat.eqb_spec m 0) as [->|Hm0]; [reflexivity|].
    unfold eat_start_boundary. rewrite <- tr_of_pos by lia.
    rewrite (eat_data_dspec tok CR tl Htok Hcr) by (fold n; lia).
    unfold dspec. cbn [skipn]. rewrite app_nil_r, dres_findb by discriminate.
    rewrite findb_short by (rewrite firstn_length; fold n; lia).
    rewrite carry_prefix.
    - rewrite firstn_length. fold n. rewrite Nat.min_l by lia. cbn [trest_of option_map].
      now rewrite tr_of_pos by lia.
    - apply prefixb_spec. exists (skipn m tok). symmetry. apply firstn_skipn.
    - rewrite firstn_length. fold n. lia.
    - intros E0. assert (length (firstn m tok) = 0) by now rewrite E0.
      rewrite firstn_length in H. fold n in H. lia. }
  rewrite E. cbn [length Z.of_nat]. rewrite Z.add_0_r. reflexivity.
Qed.

Lemma Qb_0 p c : Qb p c 0 = p.
Proof.
  unfold Qb. rewrite Nat.add_0_r, firstn_app, firstn_all, Nat.sub_diag. cbn [firstn]. apply app_nil_r.
Qed.

Lemma prefixb_tok_nonempty P : prefixb tok (D_of P) = true -> P <> [] /\ a0 P <= length P.
Proof.
  intros H. apply prefixb_length in H. fold n in H. pose proof n_ge4. unfold D_of in H. rewrite app_length in H.
  split.
  - intros ->. cbn in H. lia.
  - unfold a0. lia.
Qed.

Lemma step p s c : inv p s -> wfP (p ++ c) -> inv (p ++ c) (feed s c).
Proof.
  intros Hinv [Hfo Hwf]. destruct Hinv as [Hf0 Hpre Hlen Hs | secs f Hpre W HF].
  - (* the first delimiter is not complete yet *)
    subst s. destruct c as [|x0 c0] eqn:Ec.
    { rewrite app_nil_r in *. rewrite feed_start_empty by exact Hlen.
      apply inv_start; auto. }
    rewrite <- Ec in *. assert (Hc : c <> []) by (rewrite Ec; discriminate). clear Ec x0 c0.
    set (D' := D_of (p ++ c)) in *.
    assert (LD : length D' = length (virt (p ++ c)) + length p + length c).
    { unfold D', D_of. rewrite !app_length. lia. }
    assert (Hne : D' <> []).
    { intros E0. assert (length D' = 0) by now rewrite E0. destruct c; [congruence | simpl in LD; lia]. }
    unfold feed. cbn [start_st error stopped cur_meth sec_start].
    rewrite im_loop_start. cbn [start_st s_tok trest cur_meth heater stopped abspos sec_start out error].
    rewrite (start_step p c Hc Hfo Hpre Hlen). fold D'.
    rewrite dres_findb by discriminate.
    destruct Hwf as [[Hp' Hl']|[Hp' (secs & f & W)]].
    + (* still incomplete *)
      rewrite findb_short by (fold n; exact Hl').
      rewrite (carry_prefix D' Hp' Hl' Hne). cbn [trest_of option_map].
      assert (LDp : 0 < length D') by (rewrite LD; destruct c; [congruence | simpl; lia]).
      apply inv_start; auto. fold D'. unfold start_st. rewrite tr_of_pos by exact LDp.
      f_equal. rewrite app_length. lia.
    + (* the first delimiter is completed by this chunk *)
      rewrite (findb_prefix _ _ Hp').
      assert (Hvirt : virt (p ++ c) = virt p \/ p = []).
      { destruct p; [right; reflexivity | left; reflexivity]. }
      assert (Lv : length (virt (p ++ c)) + length p < n).
      { destruct Hvirt as [Ev| ->]; [rewrite Ev; unfold D_of in Hlen; rewrite app_length in Hlen; exact Hlen|].
        pose proof n_ge4. destruct (virt_cases ([] ++ c)) as [E|[E _]]; rewrite E; simpl; lia. }
      set (a := a0 (p ++ c)). assert (Ha : a = n - length (virt (p ++ c))) by reflexivity.
      set (b := a - length p).
      assert (Lb : b <= length c).
      { apply prefixb_length in Hp'. fold n in Hp'. unfold b. lia. }
      assert (Hnil : skipn a (Qb p c b) = []) by (apply skipn_all2; rewrite Qb_length by exact Lb; unfold b; lia).
      pose proof (loop_ok p c (FDelim a) secs f W b CStart 0%Z [(Data, 0, 0)%Z] (S (length c)) Lb ltac:(lia)
                          ltac:(cbn [anchor]; unfold b; lia) ltac:(right; cbn [anchor]; unfold b; lia)) as HL.
      cbn [pend_ok cur_of start_of lst] in HL. rewrite Hnil in HL. specialize (HL (or_introl eq_refl)).
      cbn [meth_of] in HL.
      apply (inv_scan _ _ secs f Hp' W).
      fold n.
      replace (Z.of_nat (length p) + (Z.of_nat (length c) - Z.of_nat (length D') + Z.of_nat 0))%Z
        with (- Z.of_nat (length (virt (p ++ c))))%Z by lia.
      replace (Z.to_nat (Z.of_nat (length c) - Z.of_nat (length D') + Z.of_nat 0 + Z.of_nat n)) with b
        by (unfold b; lia).
      replace (Z.of_nat (length p) + (Z.of_nat (length c) - Z.of_nat (length D') + Z.of_nat 0 + Z.of_nat n) + 2)%Z
        with (Z.of_nat (a + 2)) by (unfold b in *; lia).
      destruct (virt_cases (p ++ c)) as [Ev|[Ev _]]; rewrite Ev in *; cbn [length CRLF Z.of_nat Z.opp] in *.
      * cbn. replace (Z.of_nat (length p) + (Z.of_nat (length c) - Z.of_nat (length D') + 0))%Z with 0%Z by lia.
        exact HL.
      * cbn. replace (Z.of_nat (length p) + - Z.of_nat (length p))%Z with 0%Z by lia. exact HL.
  - (* past the first delimiter *)
    destruct (prefixb_tok_nonempty p Hpre) as [Hne La0].
    assert (Hpre' : prefixb tok (D_of (p ++ c)) = true) by (rewrite D_of_app by exact Hne; now apply prefixb_app_l).
    destruct Hwf as [[Hp' Hl']|[_ (secs' & f' & W')]].
    { apply prefixb_length in Hpre'. fold n in Hpre'. lia. }
    rewrite a0_app in W' by exact Hne.
    destruct (WScan_split tok p c _ _ _ W' La0) as (secs1 & s1 & secs2 & W1 & Esecs & Hor).
    destruct (WScan_det tok p _ _ _ W _ _ W1) as [<- <-].
    destruct Hor as [(-> & -> & ->)|(Hw & Wp & Wc)].
    + (* already stopped *)
      cbn [Final] in HF. destruct HF as (Hst & Hout & Herr).
      unfold feed. rewrite Herr, Hst.
      apply (inv_scan _ _ secs FStopped Hpre').
      * rewrite a0_app by exact Hne. rewrite app_nil_r in Esecs. subst secs'. exact W'.
      * cbn [Final]. auto.
    + destruct (WScan_pend_ok p f Hw Wp) as [Hpend Hanc].
      assert (Hs : s = gamma p ((Data, 0, 0)%Z :: secs) f) by (destruct f; try contradiction; exact HF).
      pose proof (loop_ok p c f secs2 f' Wc 0 (cur_of f) (start_of f) ((Data, 0, 0)%Z :: secs) (S (S (length c)))
                          ltac:(lia) ltac:(lia) ltac:(lia) ltac:(left; reflexivity)) as HL.
      rewrite Qb_0 in HL. specialize (HL Hpend).
      apply (inv_scan _ _ secs' f' Hpre').
      * rewrite a0_app by exact Hne. exact W'.
      * rewrite Esecs. subst s. unfold feed, gamma.
        destruct f; try contradiction; cbn [lst error stopped cur_meth sec_start cur_of start_of] in *; exact HL.
Qed.

(* ---- well-formed prefixes are prefix closed ---- *)
Lemma first_ok_app p c : first_ok (p ++ c) -> first_ok p.
Proof. destruct p; [intros _; exact I | intros H; exact H]. Qed.

Lemma wfP_prefix p c : wfP (p ++ c) -> wfP p.
Proof.
  intros [Hfo Hwf]. split; [eapply first_ok_app; exact Hfo|].
  destruct p as [|y p'] eqn:Ep.
  { left. split; [reflexivity|]. pose proof n_ge4. cbn. lia. }
  rewrite <- Ep in *. assert (Hne : p <> []) by (rewrite Ep; discriminate). clear Ep y p'.
  rewrite D_of_app in Hwf by exact Hne. rewrite a0_app in Hwf by exact Hne.
  destruct Hwf as [[Hp' Hl']|[Hp' (secs & f & W)]].
  - left. rewrite app_length in Hl'. split; [|lia].
    apply prefixb_spec in Hp'. destruct Hp' as [r Hr]. apply prefixb_spec. exists (c ++ r).
    rewrite Hr. now rewrite app_assoc.
  - destruct (Nat.lt_ge_cases (length (D_of p)) n) as [L|L].
    + left. split; [|exact L]. apply prefixb_firstn in Hp'. apply prefixb_firstn.
      rewrite <- Hp'. fold n. rewrite firstn_firstn, Nat.min_l by lia.
      rewrite firstn_app. replace (length (D_of p) - length (D_of p)) with 0 by lia.
      cbn [firstn]. now rewrite app_nil_r, firstn_all.
    + right. assert (Hp : prefixb tok (D_of p) = true).
      { rewrite <- (prefixb_app_long tok (D_of p) c) by (fold n; exact L). exact Hp'. }
      split; [exact Hp|].
      destruct (prefixb_tok_nonempty p Hp) as [_ La0].
      destruct (WScan_split tok p c _ _ _ W La0) as (secs1 & s1 & _ & W1 & _). eauto.
Qed.

Lemma feed_all chunks : forall p s,
  inv p s -> wfP (p ++ concat chunks) -> inv (p ++ concat chunks) (fold_left feed chunks s).
Proof.
  induction chunks as [|c cs IH]; intros p s Hinv Hwf; cbn [concat fold_left] in *.
  - now rewrite app_nil_r.
  - rewrite app_assoc in *. apply IH; [|exact Hwf].
    apply step; [exact Hinv|]. eapply wfP_prefix. exact Hwf.
Qed.

End Global.

(* ---------------------------------------------------------------- the theorem *)

Lemma wf_prefixb_inv B P :
  wf_prefixb B P = true ->
  contains_char N.eqb CR B = false /\
  wfP B P /\
  (prefixb (token B) (D_of P) = true ->
   exists x r, P = x :: r /\ (N.eqb x CR || N.eqb x HY) = true /\
   wf_delim (S (length P)) (token B) P (a0 B P) = true).
Proof.
  unfold wf_prefixb. intros H. apply andb_true_iff in H. destruct H as [HB H].
  apply negb_true_iff in HB. split; [exact HB|].
  pose proof (n_ge4 B) as Hn4.
  destruct P as [|x r].
  - split.
    + split; [exact I|]. left. split; [reflexivity | cbn; lia].
    + intros Hp. apply (prefixb_length B) in Hp. cbn in Hp. lia.
  - apply andb_true_iff in H. destruct H as [Hx H].
    assert (Hfo : first_ok (x :: r)).
    { cbn. apply orb_true_iff in Hx. destruct Hx as [Hx|Hx]; apply N.eqb_eq in Hx; auto. }
    fold (D_of (x :: r)) in H.
    destruct (prefixb (token B) (D_of (x :: r))) eqn:Ep.
    + split.
      * split; [exact Hfo|]. right. split; [exact Ep|].
        destruct (prefixb_tok_nonempty B (x :: r) Ep) as [_ La0].
        destruct (wf_delim_scan (token B) _ _ _ La0 H) as (secs & f & W & _). eauto.
      * intros _. exists x, r. auto.
    + split.
      * split; [exact Hfo|]. left. split; [exact H|].
        pose proof (prefixb_length B _ _ H) as L.
        destruct (Nat.eq_dec (length (D_of (x :: r))) (length (token B))) as [E|E]; [|lia].
        exfalso. apply prefixb_firstn in H. rewrite E, firstn_all in H.
        rewrite <- H in Ep at 1. unfold prefixb in Ep.
        assert (prefixb (D_of (x :: r)) (D_of (x :: r)) = true) by (apply prefixb_spec; exists []; now rewrite app_nil_r).
        unfold prefixb in H0. congruence.
      * discriminate.
Qed.

Theorem stream_eq_ref B chunks :
  wf_prefix B (concat chunks) -> markup_chunks B chunks = ref_obs B (concat chunks).
Proof.
  unfold wf_prefix. intros Hwf. set (P := concat chunks) in *.
  destruct (wf_prefixb_inv B P Hwf) as (HB & HwfP & Hdelim).
  assert (Hinit : inv B [] (init B)).
  { apply inv_start; [exact I | reflexivity | pose proof (n_ge4 B); cbn; lia | now apply init_eq]. }
  pose proof (feed_all B HB chunks [] (init B) Hinit HwfP) as Hinv. cbn [app] in Hinv. fold P in Hinv.
  unfold markup_chunks, ref_obs, obs.
  destruct Hinv as [Hfo Hpre Hlen Hs | secs f Hpre W HF].
  - (* the first delimiter never completed *)
    rewrite Hs. cbn [start_st out error].
    unfold ref. destruct P as [|x r]; [reflexivity|].
    cbn [first_ok] in Hfo.
    assert (Hx : N.eqb x CR || N.eqb x HY = true).
    { destruct Hfo as [->| ->]; [now rewrite N.eqb_refl | rewrite N.eqb_refl; apply orb_true_r]. }
    rewrite Hx. fold (D_of (x :: r)). rewrite (findb_short B) by exact Hlen. reflexivity.
  - destruct (Hdelim Hpre) as (x & r & EP & Hx & Hwd).
    destruct (prefixb_tok_nonempty B P Hpre) as [_ La0].
    destruct (wf_delim_scan (token B) _ _ _ La0 Hwd) as (secs' & f' & W' & Esc).
    destruct (WScan_det (token B) P _ _ _ W _ _ W') as [<- <-].
    unfold ref. rewrite EP, Hx. rewrite <- EP. fold (D_of P).
    rewrite (findb_prefix B _ _ Hpre). cbn [Nat.add]. fold (a0 B P). rewrite Esc.
    cbn [cons_secs fst snd app]. unfold sec. cbn [Nat.sub Z.of_nat].
    destruct f; cbn [Final] in HF; try contradiction.
    + rewrite HF. reflexivity.
    + rewrite HF. reflexivity.
    + rewrite HF. reflexivity.
    + destruct HF as (_ & -> & ->). reflexivity.
Qed.

Theorem split_independent B chunks :
  wf_prefix B (concat chunks) -> markup_chunks B chunks = markup_chunks B [concat chunks].
Proof.
  intros H. rewrite (stream_eq_ref B chunks H).
  rewrite (stream_eq_ref B [concat chunks]); cbn [concat]; rewrite app_nil_r; [reflexivity | exact H].
Qed.

Theorem split_independent_pairwise B chunks chunks' :
  concat chunks = concat chunks' -> wf_prefix B (concat chunks) ->
  markup_chunks B chunks = markup_chunks B chunks'.
Proof.
  intros E H.
  rewrite (stream_eq_ref B chunks H). rewrite E in H |- *. symmetry. exact (stream_eq_ref B chunks' H).
Qed.
