(* C17_dec.v — str(n) as modelled by PyIntParse.dec_of_N is a digit string that
   denotes n, and Python's int() reads it back. *)
From Verif Require Import lib.Base lib.Str lib.PyIntParse model.Static model.Range proofs.C17_range.
From Coq Require Import ZifyBool.
Local Open Scope N_scope.

Lemma log2_div10 n : n / 10 <> 0 -> N.log2 (n / 10) < N.log2 n.
Proof.
  intros H. set (m := n / 10) in *. assert (0 < m) by lia.
  assert (2 * m <= n).
  { pose proof (N.mul_div_le n 10). unfold m. lia. }
  pose proof (N.log2_le_mono _ _ H1) as L. rewrite N.log2_double in L by assumption. lia.
Qed.

Lemma dec_digits_S f n acc :
  dec_digits (S f) n acc = if n / 10 =? 0 then (48 + n mod 10) :: acc
                           else dec_digits f (n / 10) ((48 + n mod 10) :: acc).
Proof. reflexivity. Qed.

Lemma dec_digits_spec : forall fuel n acc,
  (N.to_nat (N.log2 n) <= fuel)%nat ->
  exists ds, dec_digits (S fuel) n acc = ds ++ acc
             /\ forallb is_digit ds = true /\ ds <> [] /\ (length ds <= S fuel)%nat
             /\ forall v, dvalf v ds = v * 10 ^ N.of_nat (length ds) + n.
Proof.
  induction fuel as [|fuel IH]; intros n acc Hf; rewrite dec_digits_S.
  - (* fuel 0: log2 n = 0, n <= 1 *)
    destruct (N.eqb_spec (n / 10) 0) as [E|E].
    + exists [48 + n mod 10]. split; [reflexivity|].
      assert (n < 10) by (apply (N.div_small_iff n 10); [lia|exact E]).
      rewrite N.mod_small by assumption.
      split; [cbn [forallb]; unfold is_digit; lia|]. split; [discriminate|]. split; [cbn [length]; lia|].
      intros v. cbn [dvalf fold_left length]. change (N.of_nat 1) with 1. rewrite N.pow_1_r. lia.
    + exfalso. pose proof (log2_div10 n E). lia.
  - destruct (N.eqb_spec (n / 10) 0) as [E|E].
    + exists [48 + n mod 10]. split; [reflexivity|].
      assert (n < 10) by (apply (N.div_small_iff n 10); [lia|exact E]).
      rewrite N.mod_small by assumption.
      split; [cbn [forallb]; unfold is_digit; lia|]. split; [discriminate|]. split; [cbn [length]; lia|].
      intros v. cbn [dvalf fold_left length]. change (N.of_nat 1) with 1. rewrite N.pow_1_r. lia.
    + pose proof (log2_div10 n E) as L.
      destruct (IH (n / 10) ((48 + n mod 10) :: acc)) as (ds & Ed & Hd & Hne & Hl & Hv); [lia|].
      assert (Hlt : n mod 10 < 10) by (apply N.mod_lt; lia).
      assert (Hdm : n = 10 * (n / 10) + n mod 10) by (apply N.div_mod; lia).
      remember (n mod 10) as d eqn:Edd. remember (n / 10) as q eqn:Eq.
      exists (ds ++ [48 + d]). rewrite Ed, <- app_assoc. split; [reflexivity|].
      split.
      { rewrite forallb_app, Hd. cbn [forallb andb]. rewrite andb_true_r. unfold is_digit. lia. }
      split; [destruct ds; discriminate|]. split; [rewrite app_length; cbn [length]; lia|].
      intros v. unfold dvalf in *. rewrite fold_left_app. cbn [fold_left]. rewrite Hv.
      rewrite app_length. cbn [length]. rewrite Nat2N.inj_add. change (N.of_nat 1) with 1.
      rewrite N.pow_add_r, N.pow_1_r.
      replace (48 + d - 48) with d by lia. rewrite Hdm. ring.
Qed.

Lemma dec_of_N_spec n :
  forallb is_digit (dec_of_N n) = true /\ dec_of_N n <> []
  /\ (length (dec_of_N n) <= S (N.to_nat (N.log2 n)))%nat
  /\ dval (dec_of_N n) = n.
Proof.
  unfold dec_of_N.
  destruct (dec_digits_spec (N.to_nat (N.log2 n)) n []) as (ds & E & Hd & Hne & Hl & Hv); [lia|].
  rewrite E, app_nil_r. repeat split; try assumption.
  unfold dval. rewrite Hv. lia.
Qed.

(* int(str(n)) = n for every n below 2^4299 (far beyond any file length) *)
Lemma py_int_dec_of_N n : N.log2 n < 4299 -> py_int_dec (dec_of_N n) = Some (Z.of_N n).
Proof.
  intros H. destruct (dec_of_N_spec n) as (Hd & Hne & Hl & Hv).
  rewrite py_int_digits; [now rewrite Hv|]. repeat split; try assumption. lia.
Qed.

Lemma py_int_dec_of_Z z : (0 <= z)%Z -> N.log2 (Z.to_N z) < 4299 ->
  py_int_dec (dec_of_Z z) = Some z.
Proof.
  intros Hz H. unfold dec_of_Z. destruct z as [|p|p]; try lia.
  - rewrite py_int_dec_of_N by exact H. reflexivity.
  - rewrite py_int_dec_of_N by exact H. reflexivity.
Qed.

Lemma decimal_text_lemma :
  forall z : Z, (0 <= z)%Z -> N.log2 (Z.to_N z) < 4299 ->
    py_int_dec (dec_of_Z z) = Some z
    /\ forallb is_digit (dec_of_Z z) = true /\ dval (dec_of_Z z) = Z.to_N z.
Proof.
  intros z Hz H. split; [now apply py_int_dec_of_Z|].
  unfold dec_of_Z. destruct z as [|p|p]; try lia.
  - destruct (dec_of_N_spec (Z.to_N 0)) as (A0 & _ & _ & B0). auto.
  - destruct (dec_of_N_spec (Z.to_N (Z.pos p))) as (A1 & _ & _ & B1). auto.
Qed.
