(* C11_hooks.v — the hook slots of the tree: which hooks a lookup collects
   (the trace of the selected branch), and what insertion / removal do to the
   hooks the tree holds. *)
From Coq Require Import Sorting.Sorted.
From Verif Require Import lib.Base lib.Str gen.Gen model.RouteSpec model.Dispatch model.Router
     proofs.C02_proofs proofs.C01_get proofs.C01_insert proofs.C01_router proofs.C11_proofs.

Local Opaque TOKEN.
Local Arguments N.eqb : simpl never.

(* ------------------------------------------------------------------ *)
(* the hooks a tree holds, by pattern                                   *)
(* ------------------------------------------------------------------ *)
Definition hentry : Type := (list pc * hookpair)%type.
Definition hpre (a : list pc) (e : hentry) : hentry := (a ++ fst e, snd e).

Fixpoint hpaths (n : node) : list hentry :=
  match n with
  | Node _ _ _ _ h ks =>
    match h with Some hp => [([], hp)] | None => [] end
    ++ flat_map (fun k => map (hpre (key_pcs k)) (hpaths k)) ks
  end.

Definition hown (n : node) : list hentry := match nhooks n with Some hp => [([], hp)] | None => [] end.
Definition hkid_entries (k : node) : list hentry := map (hpre (key_pcs k)) (hpaths k).
Definition hkids_entries (ks : list node) : list hentry := flat_map hkid_entries ks.

Lemma hpaths_node key d nm f h ks :
  hpaths (Node key d nm f h ks) = match h with Some hp => [([], hp)] | None => [] end ++ hkids_entries ks.
Proof. reflexivity. Qed.

Lemma hpaths_eq n : hpaths n = hown n ++ hkids_entries (nkids n).
Proof. destruct n. reflexivity. Qed.

Lemma hkids_entries_cons k ks : hkids_entries (k :: ks) = hkid_entries k ++ hkids_entries ks.
Proof. reflexivity. Qed.

Lemma hkids_entries_app a b : hkids_entries (a ++ b) = hkids_entries a ++ hkids_entries b.
Proof. unfold hkids_entries. apply flat_map_app. Qed.

Lemma in_hkid_entries k e :
  In e (hkid_entries k) <-> exists e0, In e0 (hpaths k) /\ e = hpre (key_pcs k) e0.
Proof.
  unfold hkid_entries. rewrite in_map_iff. split; intros (e0 & A & B); exists e0; auto.
Qed.

Lemma in_hkids_entries ks e :
  In e (hkids_entries ks) <-> exists k, In k ks /\ In e (hkid_entries k).
Proof. unfold hkids_entries. rewrite in_flat_map. tauto. Qed.

Definition pprefix (q p : list pc) : Prop := exists t, p = q ++ t.

(* ------------------------------------------------------------------ *)
(* the trace of a successful lookup                                     *)
(* ------------------------------------------------------------------ *)
Definition hcons (h : option hookpair) (i : nat) (hs : hooklist) : hooklist :=
  match h with Some hp => (i, hp) :: hs | None => hs end.

Lemma g_hook_found h i r d nm vs hs :
  g_hook h i r = GFound d nm vs hs -> exists hs', r = GFound d nm vs hs' /\ hs = hcons h i hs'.
Proof.
  destruct h as [hp|]; destruct r as [d0 nm0 vs0 hs0|vs0 hs0 j]; simpl; try discriminate.
  - intros [= <- <- <- <-]. eauto.
  - intros [= <- <- <- <-]. eauto.
Qed.

Lemma g_val_found v r d nm vs hs :
  g_val v r = GFound d nm vs hs -> exists vs', r = GFound d nm vs' hs /\ vs = v :: vs'.
Proof. destruct r as [d0 nm0 vs0 hs0|vs0 hs0 j]; simpl; [|discriminate]. intros [= <- <- <- <-]. eauto. Qed.

Section Trace.
Variable filt : fid -> str -> option (value * nat).
Local Notation get_at := (Router.get_at filt true).

Lemma wild_of_found path i ks r :
  Router.wild_of filt get_at path i ks = Some r ->
  exists k, In k ks /\ head_is k TOKEN = true /\ r = Router.wild_res filt get_at k path i.
Proof.
  induction ks as [|k ks IH]; simpl; [discriminate|]. destruct ks as [|k2 ks2].
  - destruct (head_is k TOKEN) eqn:E; [|discriminate]. intros [= <-]. exists k. auto.
  - intros H. destruct (IH H) as (k0 & A & B & C). exists k0. auto.
Qed.

Lemma lit_of_found c0 path i w ks d nm vs hs :
  Router.lit_of true get_at c0 path i w ks = GFound d nm vs hs ->
  (exists k, In k ks /\ head_is k c0 = true /\ c0 <> TOKEN /\ Router.lit_res get_at k path i = GFound d nm vs hs)
  \/ w tt = Some (GFound d nm vs hs).
Proof.
  induction ks as [|k ks IH]; cbn [Router.lit_of].
  - destruct (w tt) as [r|]; [|discriminate]. intros ->. now right.
  - destruct (head_is k c0 && (negb true || negb (N.eqb c0 TOKEN))) eqn:E.
    + apply andb_true_iff in E. destruct E as [E1 E2]. simpl in E2. apply negb_true_iff, N.eqb_neq in E2.
      destruct (Router.lit_res get_at k path i) as [d0 nm0 vs0 hs0|vs0 hs0 j] eqn:El.
      * intros [= <- <- <- <-]. left. exists k. split; [now left|]. split; [exact E1|]. split; [exact E2 | exact El].
      * destruct (w tt) as [r|]; [|discriminate]. intros ->. now right.
    + intros H. destruct (IH H) as [(k0 & A & B)|B]; [left; exists k0; split; [now right | exact B] | now right].
Qed.

Lemma get_found_trace n path i d nm vs hs :
  get_at n path i = GFound d nm vs hs ->
  (path = [] /\ ndata n = Some d /\ nnames n = nm /\ vs = [] /\ hs = []) \/
  (exists c0 r k, path = c0 :: r /\ In k (nkids n) /\
     ((head_is k c0 = true /\ c0 <> TOKEN /\ prefixb (nkey k) path = true /\
       exists hs', get_at k (skipn (length (nkey k)) path) (i + length (nkey k)) = GFound d nm vs hs' /\
                   hs = hcons (nhooks k) (i + length (nkey k)) hs')
      \/
      (head_is k TOKEN = true /\
       exists v m vs' hs', wild_take filt (nflt k) path = Some (v, m) /\
                           get_at k (skipn m path) (i + m) = GFound d nm vs' hs' /\
                           vs = v :: vs' /\ hs = hcons (nhooks k) (i + m) hs'))).
Proof.
  rewrite (get_at_eq filt n path i). destruct n as [key d0 nm0 f h kids].
  destruct path as [|c0 r].
  - destruct d0; [|discriminate]. intros [= <- <- <- <-]. left. auto.
  - intros H. right. exists c0, r.
    assert (Hw : forall res, Router.wild_of filt (Router.get_at filt true) (c0 :: r) i kids = Some (GFound d nm vs hs) ->
                 res = tt ->
                 exists k, In k kids /\ head_is k TOKEN = true /\
                   exists v m vs' hs', wild_take filt (nflt k) (c0 :: r) = Some (v, m) /\
                     Router.get_at filt true k (skipn m (c0 :: r)) (i + m) = GFound d nm vs' hs' /\
                     vs = v :: vs' /\ hs = hcons (nhooks k) (i + m) hs').
    { intros res Hwo _. apply wild_of_found in Hwo. destruct Hwo as (k & A & B & C). exists k. split; [exact A|].
      split; [exact B|]. unfold Router.wild_res in C.
      destruct (wild_take filt (nflt k) (c0 :: r)) as [[v m]|]; [|discriminate].
      symmetry in C. apply g_val_found in C. destruct C as (vs' & C & ->).
      apply g_hook_found in C. destruct C as (hs' & C & ->). exists v, m, vs', hs'. auto. }
    apply lit_of_found in H. destruct H as [(k & A & B & C & D)|H].
    + exists k. split; [reflexivity|]. split; [exact A|]. left. split; [exact B|]. split; [exact C|].
      unfold Router.lit_res in D. destruct (prefixb (nkey k) (c0 :: r)); [|discriminate]. split; [reflexivity|].
      apply g_hook_found in D. destruct D as (hs' & D & ->). eauto.
    + destruct (Hw tt H eq_refl) as (k & A & B & C). exists k. split; [reflexivity|]. split; [exact A|]. right. auto.
Qed.

(* ---- positions ---- *)
Fixpoint consume (q : list pc) (path : str) : option nat :=
  match q with
  | [] => Some 0
  | PC c :: q' =>
    match path with
    | x :: r => if N.eqb x c then option_map S (consume q' r) else None
    | [] => None
    end
  | PW f :: q' =>
    match path with
    | [] => None
    | _ :: _ => match wild_take filt f path with
                | Some (_, m) => option_map (Nat.add m) (consume q' (skipn m path))
                | None => None
                end
    end
  end.

Lemma consume_lit s : forall q path,
  prefixb s path = true ->
  consume (map PC s ++ q) path = option_map (Nat.add (length s)) (consume q (skipn (length s) path)).
Proof.
  unfold prefixb. induction s as [|c s IH]; intros q path H; simpl.
  - now destruct (consume q path).
  - destruct path as [|x r]; [discriminate|]. simpl in H. apply andb_true_iff in H. destruct H as [H1 H2].
    rewrite N.eqb_sym, H1. rewrite (IH q r H2). simpl. now destruct (consume q (skipn (length s) r)).
Qed.

(* a collected hook (position, pair) against the hook entry it stems from *)
Definition hrel (i : nat) (path : str) (e : hentry) (ph : nat * hookpair) : Prop :=
  snd ph = snd e /\ exists c, consume (fst e) path = Some c /\ fst ph = i + c.

Definition hooks_ok (es : list hentry) (p : list pc) (path : str) (i : nat) (hs : hooklist) : Prop :=
  exists qs, Forall2 (hrel i path) qs hs /\
             StronglySorted (fun a b => length (fst a) < length (fst b)) qs /\
             forall e, In e qs <-> In e es /\ pprefix (fst e) p.

Lemma hkids_nonempty ks e :
  Forall (fun k => key_ok (nkey k)) ks -> In e (hkids_entries ks) -> fst e <> [].
Proof.
  intros Hok Hin. apply in_hkids_entries in Hin. destruct Hin as (k & Hk & Hin).
  apply in_hkid_entries in Hin. destruct Hin as (e0 & _ & ->). rewrite Forall_forall in Hok.
  specialize (Hok k Hk). unfold key_pcs. simpl. destruct (str_eqb (nkey k) tok); [discriminate|].
  destruct Hok as [Hne _]. destruct (nkey k); [contradiction | discriminate].
Qed.

(* entries of another child are no prefixes of a pattern through child k *)
Lemma other_kid_no_prefix ks k x e p0 :
  Forall (fun k => key_ok (nkey k)) ks -> NoDup (map khead ks) -> In k ks -> In x ks -> x <> k ->
  In e (hkid_entries x) -> ~ pprefix (fst e) (key_pcs k ++ p0).
Proof.
  intros Hok Hnd Hk Hx Hne Hin [t Ht]. apply in_hkid_entries in Hin. destruct Hin as (e0 & _ & ->). simpl in Ht.
  rewrite Forall_forall in Hok.
  assert (Hh : khead x = khead k).
  { pose proof (Hok x Hx) as Kx. pose proof (Hok k Hk) as Kk. unfold key_pcs in Ht.
    destruct (str_eqb_spec (nkey x) tok) as [Ex|Ex], (str_eqb_spec (nkey k) tok) as [Ek|Ek].
    - unfold khead. now rewrite Ex, Ek.
    - exfalso. destruct Kk as [Kne _]. destruct (nkey k); [contradiction | discriminate].
    - exfalso. destruct Kx as [Kne _]. destruct (nkey x); [contradiction | discriminate].
    - unfold khead. destruct Kx as [Kx _], Kk as [Kk _].
      destruct (nkey x), (nkey k); try contradiction. simpl in Ht. now injection Ht. }
  apply Hne. clear - Hnd Hk Hx Hh.
  induction ks as [|y ys IH]; [destruct Hk|]. simpl in Hnd. inversion Hnd as [|? ? Hn Hd]; subst.
  destruct Hx as [<-|Hx], Hk as [<-|Hk]; auto.
  - exfalso. apply Hn. rewrite Hh. now apply in_map.
  - exfalso. apply Hn. rewrite <- Hh. now apply in_map.
Qed.

Lemma pprefix_app a q p : pprefix (a ++ q) (a ++ p) <-> pprefix q p.
Proof.
  unfold pprefix. split; intros [t H]; exists t.
  - rewrite <- app_assoc in H. now apply app_inv_head in H.
  - now rewrite H, app_assoc.
Qed.

Lemma sorted_map_hpre a qs :
  StronglySorted (fun x y : hentry => length (fst x) < length (fst y)) qs ->
  StronglySorted (fun x y : hentry => length (fst x) < length (fst y)) (map (hpre a) qs).
Proof.
  induction 1 as [|x l Hs IH Hall]; simpl; constructor; auto.
  rewrite Forall_forall in *. intros y Hy. apply in_map_iff in Hy. destruct Hy as (y0 & <- & Hy0).
  simpl. rewrite !app_length. specialize (Hall y0 Hy0). lia.
Qed.

Lemma same_head_same_kid ks x k :
  NoDup (map khead ks) -> In x ks -> In k ks -> khead x = khead k -> x = k.
Proof.
  induction ks as [|y ys IH]; intros Hnd Hx Hk Hh; [destruct Hk|]. simpl in Hnd.
  inversion Hnd as [|? ? Hn Hd]; subst. destruct Hx as [<-|Hx], Hk as [<-|Hk]; auto.
  - exfalso. apply Hn. rewrite Hh. now apply in_map.
  - exfalso. apply Hn. rewrite <- Hh. now apply in_map.
Qed.

(* one step of the trace: the hooks of node n from those of its child k *)
Lemma hooks_step kids k p0 path i c hs' :
  Forall (fun k => key_ok (nkey k)) kids -> NoDup (map khead kids) -> In k kids ->
  Forall (fun x => key_ok (nkey x)) (nkids k) ->
  (forall q, consume (key_pcs k ++ q) path = option_map (Nat.add c) (consume q (skipn c path))) ->
  hooks_ok (hkids_entries (nkids k)) p0 (skipn c path) (i + c) hs' ->
  hooks_ok (hkids_entries kids) (key_pcs k ++ p0) path i (hcons (nhooks k) (i + c) hs').
Proof.
  intros Hok Hnd Hk Hokk Hcons (qs & HF & Hs & Hm).
  exists (map (hpre (key_pcs k)) (hown k ++ qs)). split; [|split].
  - assert (Hshift : forall e ph, hrel (i + c) (skipn c path) e ph -> hrel i path (hpre (key_pcs k) e) ph).
    { intros e ph (A & c1 & B & C). split; [exact A|]. exists (c + c1). simpl. rewrite Hcons, B. simpl.
      split; [reflexivity | lia]. }
    rewrite map_app. unfold hcons, hown. destruct (nhooks k) as [hp|]; simpl.
    + constructor.
      * split; [reflexivity|]. exists c. simpl. rewrite Hcons. simpl. split; [f_equal; lia | reflexivity].
      * clear - HF Hshift. induction HF; simpl; constructor; auto.
    + clear - HF Hshift. induction HF; simpl; constructor; auto.
  - apply sorted_map_hpre. unfold hown. destruct (nhooks k) as [hp|]; simpl; [|exact Hs].
    constructor; [exact Hs|]. rewrite Forall_forall. intros e He. apply Hm in He. destruct He as [He _].
    simpl. pose proof (hkids_nonempty _ _ Hokk He) as Hne. destruct (fst e); [contradiction | simpl; lia].
  - intros e. rewrite in_map_iff. split.
    + intros (e0 & <- & He0). apply in_app_or in He0. split.
      * apply in_hkids_entries. exists k. split; [exact Hk|]. apply in_hkid_entries. exists e0. split; [|reflexivity].
        rewrite hpaths_eq. apply in_or_app. destruct He0 as [He0|He0]; [now left | right; apply Hm in He0; tauto].
      * simpl. apply pprefix_app. destruct He0 as [He0|He0].
        -- unfold hown in He0. destruct (nhooks k); [|destruct He0]. destruct He0 as [<-|[]]. now exists p0.
        -- apply Hm in He0. tauto.
    + intros (Hin & Hpre). apply in_hkids_entries in Hin. destruct Hin as (x & Hx & Hin).
      destruct (N.eq_dec (khead x) (khead k)) as [Eh|Eh].
      * assert (x = k) by (eapply same_head_same_kid; eauto). subst x.
        apply in_hkid_entries in Hin. destruct Hin as (e0 & He0 & ->). exists e0. split; [reflexivity|].
        assert (Hpre' : pprefix (fst e0) p0) by (apply (proj1 (pprefix_app (key_pcs k) _ _)); exact Hpre).
        rewrite hpaths_eq in He0. apply in_app_or in He0.
        apply in_or_app. destruct He0 as [He0|He0]; [now left | right; apply Hm; split; assumption].
      * exfalso. eapply (other_kid_no_prefix kids k x e p0); eauto. intros ->. now apply Eh.
Qed.

Lemma consume_tok f q c0 r v m :
  wild_take filt f (c0 :: r) = Some (v, m) ->
  consume (PW f :: q) (c0 :: r) = option_map (Nat.add m) (consume q (skipn m (c0 :: r))).
Proof. intros H. simpl. now rewrite H. Qed.

(* the lookup returns: a held pattern that matches, and exactly the hooks held
   under the prefixes of that pattern, outermost first, each with the position
   reached after matching its prefix *)
Theorem get_trace_lemma : forall n, wf n -> forall path i d nm vs hs,
  get_at n path i = GFound d nm vs hs ->
  exists p, In (p, (d, nm)) (paths n) /\ matchf filt p path = Some vs /\
            hooks_ok (hkids_entries (nkids n)) p path i hs.
Proof.
  induction n as [key d0 nm0 f h kids IH] using node_ind'. intros Hw path i d nm vs hs Hg.
  pose proof (wf_inv _ _ _ _ _ _ Hw) as (W1 & W2 & W3 & W4).
  apply get_found_trace in Hg. simpl in Hg.
  destruct Hg as [(-> & Hd & Hnm & -> & ->)|(c0 & r & k & -> & Hk & Hcase)].
  - subst d0 nm0. exists []. split; [rewrite paths_node; now left|]. split; [reflexivity|].
    exists []. split; [constructor|]. split; [constructor|]. intros e. split; [intros [] |].
    intros (Hin & [t Ht]). exfalso. apply (hkids_nonempty kids e W2 Hin). destruct (fst e); [reflexivity | discriminate].
  - rewrite Forall_forall in IH, W1. pose proof W2 as W2'. rewrite Forall_forall in W2'.
    pose proof (W2' k Hk) as Kk. pose proof (wf_inv _ _ _ _ _ _ (match k as k0 return wf k0 -> wf (Node (nkey k0) (ndata k0) (nnames k0) (nflt k0) (nhooks k0) (nkids k0)) with Node _ _ _ _ _ _ => fun H => H end (W1 k Hk))) as (_ & K2 & _ & _).
    destruct Hcase as [(Hh & Hc0 & Hpre & hs' & Hgk & ->)|(Hh & v & m & vs' & hs' & Hwt & Hgk & -> & ->)].
    + (* literal child *)
      assert (Hlit : nkey k <> tok).
      { intros Ht. apply Hc0. apply head_is_khead in Hh; [|apply Kk]. rewrite <- Hh. unfold khead. now rewrite Ht. }
      assert (Hnt : ~ In TOKEN (nkey k)) by (destruct Kk as [_ [E|E]]; [contradiction | exact E]).
      destruct (IH k Hk (W1 k Hk) _ _ _ _ _ _ Hgk) as (p0 & A & B & C).
      exists (key_pcs k ++ p0). split; [|split].
      * rewrite paths_node. apply in_or_app. right. apply in_kids_entries. exists k. split; [exact Hk|].
        apply in_kid_entries. eauto.
      * rewrite key_pcs_lit by (auto; apply Kk). now rewrite matchf_lit, Hpre.
      * apply hooks_step; auto. intros q. rewrite key_pcs_lit by (auto; apply Kk). now apply consume_lit.
    + (* wildcard child *)
      assert (Ht : nkey k = tok).
      { apply key_ok_tok_head; [exact Kk|]. apply head_is_khead; [apply Kk | exact Hh]. }
      destruct (IH k Hk (W1 k Hk) _ _ _ _ _ _ Hgk) as (p0 & A & B & C).
      exists (key_pcs k ++ p0). split; [|split].
      * rewrite paths_node. apply in_or_app. right. apply in_kids_entries. exists k. split; [exact Hk|].
        apply in_kid_entries. eauto.
      * rewrite key_pcs_tok by exact Ht. simpl app. cbn [matchf]. rewrite wild_step_take, Hwt, B. reflexivity.
      * apply hooks_step; auto. intros q. rewrite key_pcs_tok by exact Ht. simpl app. now apply (consume_tok _ _ _ _ v).
Qed.

End Trace.

(* ------------------------------------------------------------------ *)
(* insertion, seen from the hook slots (the same development as          *)
(* proofs/C01_insert.v, over hpaths)                                     *)
(* ------------------------------------------------------------------ *)
Definition hitem_entries (it : item) (nm : list str) : list hentry :=
  match it with IHooks h => [([], h)] | IData _ => [] end.

(* es' holds exactly what es holds plus new *)
Definition hadds (es' new es : list hentry) : Prop := forall e, In e es' <-> In e new \/ In e es.

Lemma h_pre_pre a b e : hpre a (hpre b e) = hpre (a ++ b) e.
Proof. unfold hpre. simpl. now rewrite app_assoc. Qed.

Lemma h_map_pre_pre a b es : map (hpre a) (map (hpre b) es) = map (hpre (a ++ b)) es.
Proof. rewrite map_map. apply map_ext. intros e. apply h_pre_pre. Qed.

Lemma h_pre_nil e : hpre [] e = e.
Proof. destruct e. reflexivity. Qed.

Lemma h_map_pre_nil es : map (hpre []) es = es.
Proof. rewrite <- (map_id es) at 2. apply map_ext. apply h_pre_nil. Qed.

Lemma h_adds_map_pre a es' new es :
  hadds es' new es -> hadds (map (hpre a) es') (map (hpre a) new) (map (hpre a) es).
Proof.
  intros H e. rewrite !in_map_iff. split.
  - intros (x & <- & Hx). apply H in Hx. destruct Hx as [Hx|Hx]; [left | right]; eauto.
  - intros [(x & <- & Hx)|(x & <- & Hx)]; exists x; (split; [reflexivity|]); apply H; auto.
Qed.


Lemma hpaths_leaf key f it nm : hpaths (leaf_of key f it nm) = hitem_entries it nm.
Proof. destruct it; reflexivity. Qed.


Lemma hkid_entries_single key f c :
  hkid_entries (Node key None [] f None [c])
  = map (hpre (key_pcs (Node key None [] f None [c]))) (hkid_entries c).
Proof. unfold hkid_entries at 1. simpl. rewrite app_nil_r. reflexivity. Qed.

Lemma h_chain_spec ps : forall fl it nm,
  ps <> [] -> Forall piece_ok ps -> pn ps <= length fl ->
  exists c, chain ps fl it nm = CNode c /\ wf c /\ key_ok (nkey c) /\
            hkid_entries c = map (hpre (ppat ps fl)) (hitem_entries it nm) /\
            khead c = phead ps.
Proof.
  induction ps as [|p ps IH]; intros fl it nm Hne Hok Hn; [contradiction|].
  inversion Hok as [|? ? Hp Hps]; subst.
  destruct p as [s|].
  - (* literal piece *)
    destruct Hp as [Hs Hnt]. cbn [chain].
    destruct ps as [|p2 ps2].
    + simpl. exists (leaf_of s None it nm). split; [reflexivity|]. split; [apply wf_leaf|].
      rewrite nkey_leaf. split; [split; auto|]. split.
      * unfold hkid_entries. rewrite hpaths_leaf, key_pcs_lit; rewrite ?nkey_leaf; auto.
        simpl. now rewrite app_nil_r.
      * unfold khead. now rewrite nkey_leaf.
    + destruct (IH fl it nm) as (c & Hc & Hw & Hk & He & Hh); [discriminate | exact Hps | exact Hn|].
      rewrite Hc. exists (Node s None [] None None [c]). split; [reflexivity|].
      split; [now apply wf_single|]. split; [split; auto|]. split; [|reflexivity].
      rewrite hkid_entries_single, He, h_map_pre_pre.
      rewrite key_pcs_lit by auto. reflexivity.
  - (* token piece *)
    cbn [chain]. destruct fl as [|f fs]; [simpl in Hn; lia|]. simpl in Hn.
    destruct ps as [|p2 ps2].
    + simpl. exists (leaf_of tok f it nm). split; [reflexivity|]. split; [apply wf_leaf|].
      rewrite nkey_leaf. split; [apply key_ok_tok|]. split.
      * unfold hkid_entries. rewrite hpaths_leaf, key_pcs_tok by apply nkey_leaf. now rewrite nflt_leaf.
      * unfold khead. now rewrite nkey_leaf.
    + destruct (IH fs it nm) as (c & Hc & Hw & Hk & He & Hh); [discriminate | exact Hps | lia|].
      rewrite Hc. exists (Node tok None [] f None [c]). split; [reflexivity|].
      split; [now apply wf_single|]. split; [apply key_ok_tok|]. split; [|reflexivity].
      rewrite hkid_entries_single, He, h_map_pre_pre.
      rewrite key_pcs_tok by reflexivity. reflexivity.
Qed.


Lemma h_mount_spec ks c :
  kids_ok ks -> wf c -> key_ok (nkey c) -> ~ In (khead c) (map khead ks) ->
  exists ks', mount ks c = Some ks' /\ kids_ok ks' /\
              hadds (hkids_entries ks') (hkid_entries c) (hkids_entries ks).
Proof.
  intros (Hw & Hk & Hnd & Hl) Hwc Hkc Hnin. unfold mount.
  destruct (str_eqb_spec (nkey c) tok) as [Ht|Ht].
  - assert (Hh : khead c = TOKEN) by (now apply key_ok_tok_head).
    destruct (last_is_tok ks) eqn:El.
    { exfalso. apply Hnin. rewrite Hh. now apply last_is_tok_in. }
    exists (ks ++ [c]). split; [reflexivity|]. split.
    + split; [apply Forall_app; auto|]. split; [apply Forall_app; auto|]. split.
      * rewrite map_app. simpl. clear - Hnd Hnin.
        induction (map khead ks) as [|x l IH]; simpl.
        -- constructor; [intros [] | constructor].
        -- inversion Hnd; subst. constructor.
           ++ rewrite in_app_iff. simpl. intros [H|[H|[]]]; [auto | apply Hnin; now left].
           ++ apply IH; auto. intros H. apply Hnin. now right.
      * apply tok_last_snoc. now rewrite <- Hh.
    + intros e. rewrite hkids_entries_app, in_app_iff. rewrite hkids_entries_cons.
      unfold hkids_entries at 2. simpl. rewrite app_nil_r. tauto.
  - exists (c :: ks). split; [reflexivity|]. split.
    + split; [now constructor|]. split; [now constructor|]. split; [simpl; now constructor|].
      simpl. destruct ks as [|k2 ks2]; [exact I|]. split; [now apply lit_head_not_tok | exact Hl].
    + intros e. rewrite hkids_entries_cons, in_app_iff. tauto.
Qed.

Lemma h_make_route_spec ks route fl it nm :
  kids_ok ks -> route <> [] -> ntok route <= length fl -> ~ In (hd 0%N route) (map khead ks) ->
  exists ks', make_route ks route fl it nm = inl ks' /\ kids_ok ks' /\
              hadds (hkids_entries ks') (map (hpre (fpat route fl)) (hitem_entries it nm)) (hkids_entries ks).
Proof.
  intros Hks Hne Hn Hnin. unfold make_route.
  destruct (pieces_spec route fl Hne) as (Hp & Hf & Hpn & Hpne & Hph).
  destruct (h_chain_spec (pieces route) fl it nm Hpne Hf) as (c & Hc & Hw & Hk & He & Hh); [lia|].
  rewrite Hc. destruct (h_mount_spec ks c Hks Hw Hk) as (ks' & Hm & Hks' & Ha).
  { now rewrite Hh, Hph. }
  rewrite Hm. exists ks'. split; [reflexivity|]. split; [exact Hks'|].
  now rewrite He, Hp in Ha.
Qed.


Lemma h_apply_item_spec n it nm n' :
  wf n -> apply_item n it nm = SOk n' ->
  wf n' /\ nkey n' = nkey n /\ nflt n' = nflt n /\ hadds (hpaths n') (hitem_entries it nm) (hpaths n).
Proof.
  destruct n as [key d nm0 f h ks]. intros Hw. apply wf_inv in Hw. destruct Hw as (H1 & H2 & H3 & H4).
  unfold apply_item. destruct it as [d'|h'].
  - destruct d as [x|]; [discriminate|]. intros [= <-]. split; [now constructor|].
    split; [reflexivity|]. split; [reflexivity|]. intros e. rewrite !hpaths_node. simpl. tauto.
  - destruct h as [x|]; [discriminate|]. intros [= <-]. split; [now constructor|].
    split; [reflexivity|]. split; [reflexivity|]. intros e. rewrite !hpaths_node. simpl. tauto.
Qed.

(* ------------------------------------------------------------------ *)
(* the statement for a node                                             *)
(* ------------------------------------------------------------------ *)
Definition h_new_entries (route : str) (fl : list (option fid)) (pidx : nat) (it : item) (nm : list str) :=
  map (hpre (fpat route (skipn pidx fl))) (hitem_entries it nm).

Definition h_set_ok (n : node) : Prop :=
  forall route fl pidx it nm n',
    wf n -> ntok route + pidx <= length fl -> set_at n route fl pidx it nm = SOk n' ->
    wf n' /\ nkey n' = nkey n /\ nflt n' = nflt n /\
    hadds (hpaths n') (h_new_entries route fl pidx it nm) (hpaths n).


Lemma hpaths_set_key k s : hpaths (set_key k s) = hpaths k.
Proof. now destruct k. Qed.


Lemma h_set_kid_spec k c0 r fl pidx it nm k' :
  head_is k c0 = true -> wf k -> key_ok (nkey k) -> h_set_ok k ->
  ntok (c0 :: r) + pidx <= length fl ->
  set_kid (fun k r p => set_at k r fl p it nm) fl it nm k (c0 :: r) pidx = inl k' ->
  wf k' /\ key_ok (nkey k') /\ khead k' = khead k /\
  hadds (hkid_entries k') (h_new_entries (c0 :: r) fl pidx it nm) (hkid_entries k).
Proof.
  intros Hh Hw Hk IH Hn. set (route := c0 :: r) in *. unfold set_kid.
  assert (Hkh : khead k = c0) by (apply head_is_khead; [apply Hk | exact Hh]).
  destruct (prefixb (nkey k) route) eqn:Ep.
  - (* the key matches: descend *)
    destruct (str_eqb_spec (nkey k) tok) as [Ht|Ht].
    + (* wildcard child *)
      assert (Hc0 : c0 = TOKEN).
      { rewrite Ht in Ep. apply prefixb_spec in Ep. destruct Ep as [r' Er'].
        unfold route, tok in Er'. simpl in Er'. now injection Er'. }
      assert (Hnt : ntok route = S (ntok r)) by (unfold route; simpl; rewrite Hc0, N.eqb_refl; reflexivity).
      rewrite Hnt in Hn.
      unfold filter_check. destruct fl as [|f0 fl0] eqn:Efl; [simpl in Hn; lia|]. rewrite <- Efl in *.
      destruct (nth_error fl pidx) as [f'|] eqn:Enth; [|discriminate].
      destruct (ofid_eqb (nflt k) f') eqn:Eof; [|discriminate].
      apply ofid_eqb_eq in Eof.
      destruct (set_at k (skipn 1 route) fl (S pidx) it nm) as [k1|e] eqn:Es; [|discriminate].
      intros [= <-].
      destruct (IH (skipn 1 route) fl (S pidx) it nm k1 Hw) as (Hw1 & Hk1 & Hf1 & Ha); [unfold route; simpl; lia | exact Es|].
      split; [exact Hw1|]. split; [now rewrite Hk1|]. split; [unfold khead; now rewrite Hk1|].
      unfold hkid_entries. rewrite (kid_entries_same_key k k1 Hk1 Hf1).
      apply (h_adds_map_pre (key_pcs k)) in Ha. unfold h_new_entries in *. rewrite h_map_pre_pre in Ha.
      rewrite key_pcs_tok in Ha |- * by exact Ht.
      replace (fpat route (skipn pidx fl)) with ([PW (nflt k)] ++ fpat (skipn 1 route) (skipn (S pidx) fl)); [exact Ha|].
      rewrite (nth_error_skipn fl pidx f' Enth). unfold route. simpl. rewrite Hc0, N.eqb_refl. now rewrite Eof.
    + (* literal child *)
      assert (Hlit : ~ In TOKEN (nkey k)) by (destruct Hk as [_ [E|E]]; [contradiction | exact E]).
      destruct (set_at k (skipn (length (nkey k)) route) fl pidx it nm) as [k1|e] eqn:Es; [|discriminate].
      intros [= <-]. pose proof (prefixb_split _ _ Ep) as Hsplit.
      destruct (IH (skipn (length (nkey k)) route) fl pidx it nm k1 Hw) as (Hw1 & Hk1 & Hf1 & Ha);
        [rewrite <- (ntok_lit (nkey k)) by exact Hlit; now rewrite <- Hsplit | exact Es|].
      split; [exact Hw1|]. split; [now rewrite Hk1|]. split; [unfold khead; now rewrite Hk1|].
      unfold hkid_entries. rewrite (kid_entries_same_key k k1 Hk1 Hf1).
      apply (h_adds_map_pre (key_pcs k)) in Ha. unfold h_new_entries in *. rewrite h_map_pre_pre in Ha.
      rewrite key_pcs_lit in Ha |- * by (auto; apply Hk).
      rewrite <- fpat_lit in Ha by exact Hlit. now rewrite <- Hsplit in Ha.
  - (* PARTIAL: split the child *)
    assert (Ht : nkey k <> tok).
    { intros Ht. assert (Hc : c0 = TOKEN) by (rewrite <- Hkh; unfold khead; now rewrite Ht).
      assert (E : prefixb (nkey k) route = true)
        by (rewrite Ht; apply prefixb_spec; exists r; unfold route; now rewrite Hc). congruence. }
    assert (Hlit : ~ In TOKEN (nkey k)) by (destruct Hk as [_ [E|E]]; [contradiction | exact E]).
    destruct (nkey k) as [|x key_t] eqn:Ekey; [destruct Hk; contradiction|].
    assert (Hx : x = c0) by (unfold khead in Hkh; rewrite Ekey in Hkh; exact Hkh). subst x.
    assert (Hc0 : c0 <> TOKEN) by (intros E; apply Hlit; now left).
    destruct (upto_tok_split route) as (tail & Hroute & Hupnt & Htail).
    set (up := upto_tok route) in *.
    assert (Hup : up = c0 :: upto_tok r).
    { unfold up, route. simpl. destruct (N.eqb_spec c0 TOKEN); [contradiction | reflexivity]. }
    set (si := cpl (c0 :: key_t) up).
    assert (Hsi_pos : 0 < si) by (unfold si; rewrite Hup; apply cpl_pos).
    assert (Hsi_le : si <= length (c0 :: key_t)) by apply cpl_le_l.
    assert (Hsi_up : si <= length up) by apply cpl_le_r.
    assert (Hsi_lt : si < length (c0 :: key_t)).
    { destruct (Nat.eq_dec si (length (c0 :: key_t))) as [E|E]; [|lia]. exfalso.
      apply cpl_full in E. assert (prefixb up route = true) by (apply prefixb_spec; eauto).
      rewrite (prefixb_trans _ _ _ E H) in Ep. discriminate. }
    set (A := firstn si (c0 :: key_t)). set (B := skipn si (c0 :: key_t)).
    assert (HAB : c0 :: key_t = A ++ B) by (symmetry; apply firstn_skipn).
    assert (HAnt : ~ In TOKEN A) by (apply not_in_firstn; exact Hlit).
    assert (HBnt : ~ In TOKEN B) by (apply not_in_skipn; exact Hlit).
    assert (HAne : A <> []).
    { unfold A. destruct si; [lia|]. discriminate. }
    assert (HBne : B <> []).
    { unfold B. intros E. apply (f_equal (@length N)) in E. rewrite skipn_length in E.
      change (length (@nil N)) with 0 in E. lia. }
    assert (HAroute : firstn si route = A).
    { unfold A, si. rewrite cpl_firstn. rewrite Hroute at 1. rewrite firstn_app.
      replace (cpl (c0 :: key_t) up - length up) with 0 by (fold si; lia). simpl. now rewrite app_nil_r. }
    assert (Hroute2 : route = A ++ skipn si route) by (rewrite <- HAroute; symmetry; apply firstn_skipn).
    assert (HhdA : hd 0%N A = c0) by (unfold A; rewrite firstn_hd by exact Hsi_pos; reflexivity).
    (* the old node under its shortened key, and the fresh parent *)
    set (old := set_key k B).
    assert (Hwold : wf old) by (apply wf_set_key; exact Hw).
    assert (Hkold : key_ok (nkey old)) by (unfold old; rewrite nkey_set_key; split; auto).
    assert (Heold : hkid_entries old = map (hpre (map PC B)) (hpaths k)).
    { unfold hkid_entries, old. rewrite hpaths_set_key, key_pcs_lit; rewrite ?nkey_set_key; auto. }
    assert (Hek : hkid_entries k = map (hpre (map PC A)) (hkid_entries old)).
    { rewrite Heold, h_map_pre_pre, <- map_app. unfold hkid_entries. rewrite key_pcs_lit; rewrite ?Ekey; auto; [|discriminate].
      now rewrite HAB. }
    fold si. fold B. destruct B as [|b0 Bt] eqn:EB; [contradiction|]. rewrite <- EB in *.
    fold old. fold A.
    destruct (skipn si route) as [|c1 rt] eqn:Erest.
    + (* the route ends inside the key *)
      destruct (apply_item (Node A None [] None None [old]) it nm) as [p|e] eqn:Eap; [|discriminate].
      intros [= <-].
      destruct (h_apply_item_spec _ _ _ _ (wf_single A None old Hwold Hkold) Eap) as (Hwp & Hkp & Hfp & Ha).
      simpl in Hkp, Hfp.
      split; [exact Hwp|]. split; [rewrite Hkp; split; auto|].
      split; [unfold khead; rewrite Hkp, Ekey; simpl; exact HhdA|].
      unfold hkid_entries at 1. rewrite (kid_entries_same_key (Node A None [] None None [old]) p Hkp Hfp).
      apply (h_adds_map_pre (key_pcs (Node A None [] None None [old]))) in Ha.
      change (map (hpre (key_pcs (Node A None [] None None [old]))) (hpaths (Node A None [] None None [old])))
        with (hkid_entries (Node A None [] None None [old])) in Ha.
      rewrite hkid_entries_single in Ha. rewrite key_pcs_lit in Ha by (simpl; auto).
      simpl nkey in Ha. rewrite <- Hek in Ha. unfold h_new_entries.
      rewrite (key_pcs_lit (Node A None [] None None [old])) by (simpl; auto). simpl nkey.
      replace (fpat route (skipn pidx fl)) with (map PC A); [exact Ha|].
      rewrite Hroute2, app_nil_r. rewrite <- (app_nil_r A) at 2. rewrite fpat_lit by exact HAnt. simpl. now rewrite app_nil_r.
    + (* a new branch below the fresh parent *)
      assert (Hrest_hd : c1 <> hd 0%N B).
      { rewrite EB. simpl.
        assert (Hsk : skipn si route = skipn si up ++ tail).
        { rewrite Hroute at 1. rewrite skipn_app. replace (si - length up) with 0 by lia. reflexivity. }
        rewrite Erest in Hsk. destruct (skipn si up) as [|y b'] eqn:Eup.
        - simpl in Hsk. destruct Htail as [->|[t ->]]; [discriminate|]. injection Hsk as -> _.
          intros E. apply HBnt. rewrite EB. left. now symmetry.
        - simpl in Hsk. injection Hsk as -> _. intros E. symmetry in E. revert E.
          apply (cpl_max (c0 :: key_t) up b0 Bt y b'); [exact EB | exact Eup]. }
      destruct (h_make_route_spec [old] (c1 :: rt) (skipn pidx fl) it nm) as (pk & Hmk & Hpk & Ha).
      * split; [now constructor|]. split; [now constructor|]. split; [|exact I].
        simpl. constructor; [intros [] | constructor].
      * discriminate.
      * rewrite skipn_length. rewrite Hroute2, ntok_lit in Hn by exact HAnt. lia.
      * simpl. unfold khead, old. rewrite nkey_set_key. intros [E|[]]. apply Hrest_hd.
        rewrite EB. simpl in *. congruence.
      * rewrite Hmk. intros [= <-]. destruct Hpk as (P1 & P2 & P3 & P4).
        split; [now constructor|]. split; [split; auto|].
        split; [unfold khead; simpl; rewrite Ekey; simpl; exact HhdA|].
        unfold hkid_entries at 1. rewrite key_pcs_lit by (simpl; auto). simpl nkey.
        rewrite hpaths_node. simpl app.
        apply (h_adds_map_pre (map PC A)) in Ha. rewrite h_map_pre_pre in Ha.
        rewrite hkids_entries_cons in Ha. unfold hkids_entries at 2 in Ha. simpl flat_map in Ha.
        rewrite app_nil_r, <- Hek in Ha. unfold h_new_entries.
        replace (fpat route (skipn pidx fl)) with (map PC A ++ fpat (c1 :: rt) (skipn pidx fl)); [exact Ha|].
        rewrite Hroute2 at 1. now rewrite fpat_lit by exact HAnt.
Qed.

Lemma h_set_go_spec ks : forall c0 r fl pidx it nm,
  Forall wf ks -> Forall (fun k => key_ok (nkey k)) ks -> Forall h_set_ok ks ->
  ntok (c0 :: r) + pidx <= length fl ->
  match set_go (fun k r p => set_at k r fl p it nm) fl it nm c0 (c0 :: r) pidx ks with
  | None => ~ In c0 (map khead ks)
  | Some (inl ks') =>
    Forall wf ks' /\ Forall (fun k => key_ok (nkey k)) ks' /\ map khead ks' = map khead ks /\
    hadds (hkids_entries ks') (h_new_entries (c0 :: r) fl pidx it nm) (hkids_entries ks)
  | Some (inr _) => True
  end.
Proof.
  induction ks as [|k ks IH]; intros c0 r fl pidx it nm Hw Hk Hs Hn; simpl; [tauto|].
  inversion Hw as [|? ? Hwk Hwks]; subst. inversion Hk as [|? ? Hkk Hkks]; subst.
  inversion Hs as [|? ? Hsk Hsks]; subst.
  destruct (head_is k c0) eqn:Eh.
  - destruct (set_kid _ fl it nm k (c0 :: r) pidx) as [k'|e] eqn:Ek; [|exact I].
    destruct (h_set_kid_spec k c0 r fl pidx it nm k' Eh Hwk Hkk Hsk Hn Ek) as (H1 & H2 & H3 & H4).
    split; [now constructor|]. split; [now constructor|]. split; [simpl; now rewrite H3|].
    intros e. rewrite !hkids_entries_cons, !in_app_iff. rewrite (H4 e). tauto.
  - specialize (IH c0 r fl pidx it nm Hwks Hkks Hsks Hn).
    assert (Hne : khead k <> c0).
    { intros E. apply head_is_khead in E; [congruence | apply Hkk]. }
    destruct (set_go _ fl it nm c0 (c0 :: r) pidx ks) as [[ks'|e]|].
    + destruct IH as (H1 & H2 & H3 & H4). split; [now constructor|]. split; [now constructor|].
      split; [simpl; now rewrite H3|].
      intros e. rewrite !hkids_entries_cons, !in_app_iff. rewrite (H4 e). tauto.
    + exact I.
    + simpl. intros [E|E]; [now apply Hne | now apply IH].
Qed.

Lemma h_set_at_ok : forall n, h_set_ok n.
Proof.
  induction n as [key d nm0 f h kids IH] using node_ind'.
  intros route fl pidx it nm n' Hw Hn. pose proof (wf_inv _ _ _ _ _ _ Hw) as (H1 & H2 & H3 & H4).
  destruct route as [|c0 r].
  - intros Hs. simpl in Hs. destruct (h_apply_item_spec _ _ _ _ Hw Hs) as (A1 & A2 & A3 & A4).
    repeat split; auto; unfold h_new_entries; simpl; rewrite h_map_pre_nil; apply A4.
  - cbn [set_at].
    pose proof (h_set_go_spec kids c0 r fl pidx it nm H1 H2 IH Hn) as Hgo.
    destruct (set_go _ fl it nm c0 (c0 :: r) pidx kids) as [[kids'|e]|].
    + intros [= <-]. destruct Hgo as (G1 & G2 & G3 & G4).
      split; [constructor; auto; [now rewrite G3 | now apply (tok_last_heads kids)]|].
      split; [reflexivity|]. split; [reflexivity|].
      intros e. rewrite !hpaths_node, !in_app_iff, (G4 e). tauto.
    + discriminate.
    + destruct (h_make_route_spec kids (c0 :: r) (skipn pidx fl) it nm) as (kids' & Hmk & Hk' & Ha).
      * repeat split; auto.
      * discriminate.
      * rewrite skipn_length. lia.
      * exact Hgo.
      * rewrite Hmk. intros [= <-]. destruct Hk' as (K1 & K2 & K3 & K4).
        split; [now constructor|]. split; [reflexivity|]. split; [reflexivity|].
        intros e. rewrite !hpaths_node, !in_app_iff, (Ha e). unfold h_new_entries. tauto.
Qed.


Theorem insert_hpaths : forall root route fl it nm root',
  wf root -> ntok route <= length fl -> set_at root route fl 0 it nm = SOk root' ->
  forall e, In e (hpaths root') <->
            In e (map (hpre (fpat route fl)) (hitem_entries it nm)) \/ In e (hpaths root).
Proof.
  intros root route fl it nm root' Hw Hn Hs.
  destruct (h_set_at_ok root route fl 0 it nm root' Hw) as (_ & _ & _ & H); [lia | exact Hs|].
  exact H.
Qed.

(* ------------------------------------------------------------------ *)
(* exact (non-prefix) removal, seen from the hook slots                  *)
(* ------------------------------------------------------------------ *)

(* a hook entry survives: route removals keep every hook (fix F14);
   hooks_only removes exactly the hook of that pattern *)
Definition hkeep (ho : bool) (route : str) (p : list pc) : Prop := ho = false \/ rstr p <> route.

Lemma hkids_entries_nonempty ks e :
  Forall (fun k => key_ok (nkey k)) ks -> In e (hkids_entries ks) -> fst e <> [].
Proof. apply hkids_nonempty. Qed.

Lemma prunable_hpaths n : prunable n = true -> hpaths n = [].
Proof. destruct n as [key [d|] nm f [h|] [|k ks]]; simpl; try discriminate; reflexivity. Qed.

Lemma h_rm_target_spec ho n :
  wf n ->
  exists n', (rm_target false ho n = RmKeep n' /\ prunable n' = false \/
              rm_target false ho n = RmPrune n' /\ prunable n' = true) /\
             wf n' /\ nkey n' = nkey n /\ nflt n' = nflt n /\
             forall e, In e (hpaths n') <-> In e (hpaths n) /\ (ho = false \/ fst e <> []).
Proof.
  destruct n as [key d nm f h ks]. intros Hw. apply wf_inv in Hw. destruct Hw as (W1 & W2 & W3 & W4).
  unfold rm_target.
  assert (Hfin : forall h', exists n',
            ((if prunable (Node key None [] f h' ks) then RmPrune (Node key None [] f h' ks)
              else RmKeep (Node key None [] f h' ks)) = RmKeep n' /\ prunable n' = false \/
             (if prunable (Node key None [] f h' ks) then RmPrune (Node key None [] f h' ks)
              else RmKeep (Node key None [] f h' ks)) = RmPrune n' /\ prunable n' = true) /\
            n' = Node key None [] f h' ks).
  { intros h'. exists (Node key None [] f h' ks). split; [|reflexivity].
    destruct (prunable (Node key None [] f h' ks)) eqn:E; [right | left]; auto. }
  assert (Hkids : forall e, In e (hkids_entries ks) -> fst e <> []) by (intros e; now apply hkids_nonempty).
  destruct ho.
  - destruct d as [x|].
    + exists (Node key (Some x) nm f None ks). split; [left; split; reflexivity|].
      split; [now constructor|]. split; [reflexivity|]. split; [reflexivity|].
      intros e. rewrite !hpaths_node. simpl app. rewrite in_app_iff. split.
      * intros Hin. split; [now right|]. right. now apply Hkids.
      * intros ([Hin|Hin] & [E|Hne]); try discriminate; auto.
        destruct h; [|destruct Hin]. destruct Hin as [<-|[]]. now elim Hne.
    + destruct (Hfin None) as (n' & Hn' & ->). exists (Node key None [] f None ks). split; [exact Hn'|].
      split; [now constructor|]. split; [reflexivity|]. split; [reflexivity|].
      intros e. rewrite !hpaths_node. simpl app. rewrite in_app_iff. split.
      * intros Hin. split; [now right|]. right. now apply Hkids.
      * intros ([Hin|Hin] & [E|Hne]); try discriminate; auto.
        destruct h; [|destruct Hin]. destruct Hin as [<-|[]]. now elim Hne.
  - destruct (Hfin h) as (n' & Hn' & ->). exists (Node key None [] f h ks). split; [exact Hn'|].
    split; [now constructor|]. split; [reflexivity|]. split; [reflexivity|].
    intros e. rewrite !hpaths_node. tauto.
Qed.

Lemma hkeep_shift k ho r p0 :
  key_ok (nkey k) -> (hkeep ho (nkey k ++ r) (key_pcs k ++ p0) <-> hkeep ho r p0).
Proof.
  intros Hk. unfold hkeep. rewrite rstr_app, (rstr_key k Hk).
  split; intros [H|H]; auto; right; intros E; apply H; [now rewrite E | now apply app_inv_head in E].
Qed.

Definition hrmk_ok (k : node) (ho : bool) (route : str) (r : rmres) : Prop :=
  match r with
  | RmNone => forall e0, In e0 (hpaths k) -> hkeep ho route (key_pcs k ++ fst e0)
  | RmKeep k' =>
    forall e, In e (hkid_entries k') <->
              exists e0, In e0 (hpaths k) /\ hkeep ho route (key_pcs k ++ fst e0) /\ e = hpre (key_pcs k) e0
  | RmPrune k' => forall e0, In e0 (hpaths k) -> ~ hkeep ho route (key_pcs k ++ fst e0)
  end.

Definition hrmn_ok (k : node) (ho : bool) (route : str) (r : rmres) : Prop :=
  match r with
  | RmNone => forall e0, In e0 (hpaths k) -> hkeep ho route (fst e0)
  | RmKeep k' =>
    forall e, In e (hkid_entries k') <->
              exists e0, In e0 (hpaths k) /\ hkeep ho route (fst e0) /\ e = hpre (key_pcs k) e0
  | RmPrune k' => forall e0, In e0 (hpaths k) -> ~ hkeep ho route (fst e0)
  end.

Lemma h_rm_kid_ok rec k ho c0 r :
  key_ok (nkey k) ->
  (forall route', hrmn_ok k ho route' (rec k route')) ->
  hrmk_ok k ho (c0 :: r) (rm_kid rec false ho k (c0 :: r)).
Proof.
  intros Hk IH. unfold rm_kid. set (route := c0 :: r).
  destruct (prefixb (nkey k) route) eqn:Ep.
  - pose proof (prefixb_split _ _ Ep) as Hs. specialize (IH (skipn (length (nkey k)) route)).
    destruct (rec k (skipn (length (nkey k)) route)) as [|k'|k']; simpl in *.
    + intros e0 Hin. rewrite Hs. apply hkeep_shift; auto.
    + intros e. rewrite IH. split; intros (e0 & H1 & H2 & H3); exists e0; (split; [exact H1|]); (split; [|exact H3]).
      * rewrite Hs. now apply hkeep_shift.
      * rewrite Hs in H2. now apply hkeep_shift in H2.
    + intros e0 Hin Hkeep. apply (IH e0 Hin). rewrite Hs in Hkeep. now apply hkeep_shift in Hkeep.
  - simpl. intros e0 Hin. right. rewrite rstr_app, (rstr_key k Hk). intros E. rewrite <- E in Ep.
    now rewrite prefixb_app in Ep.
Qed.

Lemma h_other_kid_kept x ho c0 r e :
  key_ok (nkey x) -> khead x <> c0 -> In e (hkid_entries x) -> hkeep ho (c0 :: r) (fst e).
Proof.
  intros Hk Hh Hin. apply in_hkid_entries in Hin. destruct Hin as (e0 & _ & ->).
  right. simpl. rewrite rstr_app, (rstr_key x Hk). unfold khead in Hh.
  destruct (nkey x) as [|y s]; [destruct Hk; contradiction|]. simpl in *. intros E. injection E as E _. congruence.
Qed.

Lemma h_own_kept ho c0 r : hkeep ho (c0 :: r) [].
Proof. right. discriminate. Qed.

Definition hkept (ho : bool) (route : str) (es' es : list hentry) : Prop :=
  forall e, In e es' <-> In e es /\ hkeep ho route (fst e).

Lemma hkids_entries_split pre k post :
  forall e, In e (hkids_entries (pre ++ k :: post)) <->
            In e (hkids_entries pre) \/ In e (hkid_entries k) \/ In e (hkids_entries post).
Proof. intros e. rewrite hkids_entries_app, hkids_entries_cons, !in_app_iff. tauto. Qed.

Lemma h_try_merge_spec p :
  wf p -> key_ok (nkey p) -> hkid_entries (try_merge false p) = hkid_entries p.
Proof.
  intros Hw Hk. destruct p as [key d nm f h kids]. unfold try_merge.
  destruct kids as [|c [|c2 ks]]; try reflexivity.
  destruct d; [reflexivity|]. destruct h; [reflexivity|].
  destruct (str_eqb key tok || head_is c TOKEN) eqn:E; [reflexivity|].
  apply orb_false_iff in E. destruct E as [E1 E2].
  apply wf_inv in Hw. destruct Hw as (W1 & W2 & W3 & W4).
  inversion W2 as [|? ? Hkc _]; subst. simpl in Hk.
  assert (Hkt : key <> tok) by (intros ->; now rewrite str_eqb_refl in E1).
  assert (Hklit : ~ In TOKEN key) by (destruct Hk as [_ [E|E]]; [contradiction | exact E]).
  assert (Hct : nkey c <> tok).
  { intros Ht. assert (head_is c TOKEN = true) by (apply head_is_khead; [apply Hkc | unfold khead; now rewrite Ht]). congruence. }
  assert (Hclit : ~ In TOKEN (nkey c)) by (destruct Hkc as [_ [E|E]]; [contradiction | exact E]).
  assert (Hml : ~ In TOKEN (key ++ nkey c)) by (rewrite in_app_iff; tauto).
  assert (Hmne : key ++ nkey c <> []) by (destruct Hk as [Hne _]; destruct key; [contradiction | discriminate]).
  assert (Hp : hpaths (Node key None nm f None [c]) = hkid_entries c).
  { rewrite hpaths_node. simpl. unfold hkids_entries. simpl. now rewrite app_nil_r. }
  unfold hkid_entries at 1 2. rewrite Hp, hpaths_set_key. unfold hkid_entries. rewrite h_map_pre_pre.
  rewrite (key_pcs_lit (set_key c (key ++ nkey c))) by (rewrite nkey_set_key; auto).
  rewrite (key_pcs_lit (Node key None nm f None [c])) by (simpl; auto; apply Hk).
  rewrite (key_pcs_lit c) by (auto; apply Hkc). rewrite nkey_set_key. simpl nkey. now rewrite map_app.
Qed.

Lemma h_node_rm key d nm f h kids ho c0 r rec :
  wf (Node key d nm f h kids) ->
  (forall k, In k kids -> khead k = c0 -> rmk_ok k false ho (c0 :: r) (rm_kid rec false ho k (c0 :: r))) ->
  (forall k, In k kids -> khead k = c0 -> hrmk_ok k ho (c0 :: r) (rm_kid rec false ho k (c0 :: r))) ->
  let n := Node key d nm f h kids in
  match rm_go rec false ho c0 (c0 :: r) kids with
  | None | Some (RmNone, _) => forall e0, In e0 (hpaths n) -> hkeep ho (c0 :: r) (fst e0)
  | Some (RmKeep k', rb) => hkept ho (c0 :: r) (hpaths (Node key d nm f h (rb k'))) (hpaths n)
  | Some (RmPrune k', _) =>
    let n0 := Node key d nm f h (match nkey k' with c :: _ => del_head c kids | [] => kids end) in
    hkept ho (c0 :: r) (hpaths n0) (hpaths n)
  end.
Proof.
  intros Hw Hkidd Hkid n. pose proof (wf_inv _ _ _ _ _ _ Hw) as (W1 & W2 & W3 & W4).
  pose proof (rm_go_spec rec false ho c0 (c0 :: r) kids W2) as Hgo.
  assert (Hown : forall e0, In e0 (match h with Some x => [([], x)] | None => [] end) ->
                            hkeep ho (c0 :: r) (fst e0)).
  { intros e0 Hin. destruct h; [|destruct Hin]. destruct Hin as [<-|[]]. apply h_own_kept. }
  assert (Hothers : forall ks, (forall x, In x ks -> In x kids /\ khead x <> c0) ->
                               forall e0, In e0 (hkids_entries ks) -> hkeep ho (c0 :: r) (fst e0)).
  { intros ks Hks e0 Hin. apply in_hkids_entries in Hin. destruct Hin as (x & Hx & Hin).
    destruct (Hks x Hx) as (Hxk & Hxh). rewrite Forall_forall in W2.
    eapply h_other_kid_kept; eauto. }
  destruct (rm_go rec false ho c0 (c0 :: r) kids) as [[res rb]|].
  - destruct Hgo as (pre & k & post & Hsplit & Hpre & Hkh & -> & Hrb).
    assert (Hkin : In k kids) by (rewrite Hsplit; apply in_or_app; right; now left).
    specialize (Hkid k Hkin Hkh). specialize (Hkidd k Hkin Hkh).
    assert (Hpost : forall x, In x post -> khead x <> c0).
    { intros x Hx E. rewrite Hsplit, map_app in W3. simpl in W3. apply NoDup_remove_2 in W3.
      apply W3. apply in_or_app. right. rewrite Hkh, <- E. now apply in_map. }
    assert (Hpre_k : forall e0, In e0 (hkids_entries pre) -> hkeep ho (c0 :: r) (fst e0)).
    { apply Hothers. intros x Hx. split; [rewrite Hsplit; apply in_or_app; now left | now apply Hpre]. }
    assert (Hpost_k : forall e0, In e0 (hkids_entries post) -> hkeep ho (c0 :: r) (fst e0)).
    { apply Hothers. intros x Hx. split; [rewrite Hsplit; apply in_or_app; right; now right | now apply Hpost]. }
    destruct (rm_kid rec false ho k (c0 :: r)) as [|k'|k']; simpl in Hkid, Hkidd.
    + intros e0 Hin. unfold n in Hin. rewrite hpaths_node in Hin. apply in_app_or in Hin.
      destruct Hin as [Hin|Hin]; [now apply Hown|]. rewrite Hsplit in Hin. apply hkids_entries_split in Hin.
      destruct Hin as [Hin|[Hin|Hin]]; [now apply Hpre_k | | now apply Hpost_k].
      apply in_hkid_entries in Hin. destruct Hin as (e1 & A & ->). simpl. now apply Hkid.
    + rewrite Hrb. intros e. unfold n. rewrite !hpaths_node, !in_app_iff, Hsplit.
      rewrite (hkids_entries_split pre k' post e), (hkids_entries_split pre k post e). rewrite (Hkid e). split.
      * intros [H|[H|[H|H]]].
        -- split; [now left | now apply Hown].
        -- split; [right; now left | now apply Hpre_k].
        -- destruct H as (e0 & H1 & H2 & ->). split; [|exact H2]. right. right. left.
           apply in_hkid_entries. eauto.
        -- split; [right; right; now right | now apply Hpost_k].
      * intros ([H|[H|[H|H]]] & Hkeep); auto.
        right. right. left. apply in_hkid_entries in H. destruct H as (e0 & H1 & ->). eauto.
    + destruct Hkidd as (A & B & C & D & E).
      assert (Hhd : match nkey k' with c :: _ => del_head c kids | [] => kids end = del_head (khead k) kids).
      { unfold khead in C. destruct (nkey k') as [|c s]; [contradiction|]. simpl in C. now rewrite C. }
      cbv zeta. rewrite Hhd.
      assert (Hdel : forall x, In x (del_head (khead k) kids) <-> In x kids /\ x <> k)
        by (apply del_head_spec; auto). intros e. unfold n. rewrite !hpaths_node, !in_app_iff. split.
      * intros [H|H]; [split; [now left | now apply Hown]|].
        apply in_hkids_entries in H. destruct H as (x & Hx & H). apply Hdel in Hx.
        destruct Hx as (Hxk & Hne). split; [right; apply in_hkids_entries; eauto|].
        rewrite Forall_forall in W2. eapply h_other_kid_kept; eauto.
        intros Eh. apply Hne. rewrite Hsplit in Hxk. apply in_app_or in Hxk.
        destruct Hxk as [Hxk|[Hxk|Hxk]]; [exfalso; now apply (Hpre x) | now symmetry | exfalso; now apply (Hpost x)].
      * intros ([H|H] & Hkeep); [now left|]. right. apply in_hkids_entries in H.
        destruct H as (x & Hx & H). apply in_hkids_entries. exists x. split; [|exact H]. apply Hdel.
        split; [exact Hx|]. intros ->. apply in_hkid_entries in H. destruct H as (e0 & H1 & ->).
        apply (Hkid e0 H1). exact Hkeep.
  - intros e0 Hin. unfold n in Hin. rewrite hpaths_node in Hin. apply in_app_or in Hin.
    destruct Hin as [Hin|Hin]; [now apply Hown|]. revert Hin. apply Hothers. intros x Hx. split; auto.
Qed.

Lemma hkeep_nil_iff ho p : hkeep ho [] p <-> (ho = false \/ p <> []).
Proof.
  unfold hkeep. split; intros [H|H]; auto; right.
  - intros ->. now apply H.
  - intros E. apply H. destruct p; [reflexivity | discriminate].
Qed.

(* a node seen from its parent *)
Lemma h_rm_at_kid_ok : forall k, wf k -> key_ok (nkey k) -> forall ho route,
  hrmn_ok k ho route (rm_at false false ho k route).
Proof.
  induction k as [key d nm f h kids IH] using node_ind'. intros Hw Hk ho route.
  pose proof (wf_inv _ _ _ _ _ _ Hw) as (W1 & W2 & W3 & W4).
  destruct route as [|c0 r].
  - cbn [rm_at]. destruct (h_rm_target_spec ho _ Hw) as (n' & Hr & A & B & C & D).
    assert (Hkp : key_pcs n' = key_pcs (Node key d nm f h kids)) by (now apply kid_entries_same_key).
    assert (D' : forall e, In e (hpaths n') <-> In e (hpaths (Node key d nm f h kids)) /\ hkeep ho [] (fst e)).
    { intros e. rewrite D, hkeep_nil_iff. tauto. }
    destruct Hr as [[-> Hp]|[-> Hp]]; simpl.
    + intros e. unfold hkid_entries. rewrite Hkp, in_map_iff. split.
      * intros (e0 & <- & H). apply D' in H. destruct H. eauto.
      * intros (e0 & H1 & H2 & ->). exists e0. split; [reflexivity|]. apply D'. auto.
    + intros e0 Hin Hkeep.
      assert (In e0 (hpaths n')) by (apply D'; auto). rewrite (prunable_hpaths _ Hp) in H. destruct H.
  - cbn [rm_at].
    assert (Hkidd : forall k, In k kids -> khead k = c0 ->
                     rmk_ok k false ho (c0 :: r) (rm_kid (fun k r => rm_at false false ho k r) false ho k (c0 :: r))).
    { intros k Hkin Hh. rewrite Forall_forall in W1, W2. apply rm_kid_ok; auto;
      intros route'; apply rm_at_kid_ok; auto. }
    assert (Hkid : forall k, In k kids -> khead k = c0 ->
                     hrmk_ok k ho (c0 :: r) (rm_kid (fun k r => rm_at false false ho k r) false ho k (c0 :: r))).
    { intros k Hkin Hh. rewrite Forall_forall in IH, W1, W2. apply h_rm_kid_ok; auto;
      intros route'; apply IH; auto. }
    pose proof (h_node_rm key d nm f h kids ho c0 r _ Hw Hkidd Hkid) as Hn. cbv zeta in Hn.
    pose proof (node_rm key d nm f h kids false ho c0 r _ Hw eq_refl Hkidd) as Hnd. cbv zeta in Hnd.
    destruct (rm_go _ false ho c0 (c0 :: r) kids) as [[[|k'|k'] rb]|]; cbv beta iota zeta.
    + exact Hn.
    + cbn [hrmn_ok]. intros e. unfold hkid_entries. rewrite in_map_iff.
      assert (Hkp : key_pcs (Node key d nm f h (rb k')) = key_pcs (Node key d nm f h kids)) by reflexivity.
      rewrite Hkp. split.
      * intros (e0 & <- & H). apply Hn in H. destruct H. eauto.
      * intros (e0 & H1 & H2 & ->). exists e0. split; [reflexivity|]. apply Hn. auto.
    + destruct Hnd as (A & _).
      set (n0 := Node key d nm f h (match nkey k' with c :: _ => del_head c kids | [] => kids end)) in *.
      assert (Hn0 : forall e, In e (hkid_entries n0) <->
                exists e0, In e0 (hpaths (Node key d nm f h kids)) /\ hkeep ho (c0 :: r) (fst e0) /\
                           e = hpre (key_pcs (Node key d nm f h kids)) e0).
      { intros e. unfold hkid_entries. rewrite in_map_iff.
        assert (Hkp : key_pcs n0 = key_pcs (Node key d nm f h kids)) by reflexivity. rewrite Hkp. split.
        - intros (e0 & <- & H). apply Hn in H. destruct H. eauto.
        - intros (e0 & H1 & H2 & ->). exists e0. split; [reflexivity|]. apply Hn. auto. }
      pose proof (h_try_merge_spec n0 A Hk) as M4.
      destruct (prunable (try_merge false n0)) eqn:Ep; cbn [hrmn_ok].
      * intros e0 Hin Hkeep.
        assert (Hin' : In (hpre (key_pcs (Node key d nm f h kids)) e0) (hkid_entries n0)) by (apply Hn0; eauto).
        rewrite <- M4 in Hin'. unfold hkid_entries in Hin'. rewrite (prunable_hpaths _ Ep) in Hin'. destruct Hin'.
      * intros e. rewrite M4. apply Hn0.
    + exact Hn.
Qed.

Lemma h_rm_root_ok : forall root ho route, wf root ->
  match rm_at true false ho root route with
  | RmNone => forall e0, In e0 (hpaths root) -> hkeep ho route (fst e0)
  | RmKeep r' | RmPrune r' => hkept ho route (hpaths r') (hpaths root)
  end.
Proof.
  intros [key d nm f h kids] ho route Hw.
  pose proof (wf_inv _ _ _ _ _ _ Hw) as (W1 & W2 & W3 & W4).
  destruct route as [|c0 r].
  - cbn [rm_at]. destruct (h_rm_target_spec ho _ Hw) as (n' & Hr & A & B & C & D).
    assert (D' : hkept ho [] (hpaths n') (hpaths (Node key d nm f h kids))).
    { intros e. rewrite D, hkeep_nil_iff. tauto. }
    destruct Hr as [[-> Hp]|[-> Hp]]; auto.
  - cbn [rm_at].
    assert (Hkidd : forall k, In k kids -> khead k = c0 ->
                     rmk_ok k false ho (c0 :: r) (rm_kid (fun k r => rm_at false false ho k r) false ho k (c0 :: r))).
    { intros k Hkin Hh. rewrite Forall_forall in W1, W2. apply rm_kid_ok; auto;
      intros route'; apply rm_at_kid_ok; auto. }
    assert (Hkid : forall k, In k kids -> khead k = c0 ->
                     hrmk_ok k ho (c0 :: r) (rm_kid (fun k r => rm_at false false ho k r) false ho k (c0 :: r))).
    { intros k Hkin Hh. rewrite Forall_forall in W1, W2. apply h_rm_kid_ok; auto;
      intros route'; apply h_rm_at_kid_ok; auto. }
    pose proof (h_node_rm key d nm f h kids ho c0 r _ Hw Hkidd Hkid) as Hn. cbv zeta in Hn.
    destruct (rm_go _ false ho c0 (c0 :: r) kids) as [[[|k'|k'] rb]|]; cbv beta iota zeta; auto.
    assert (Hm : forall p, try_merge true p = p).
    { intros [k0 d0 n0 f0 h0 [|c [|c2 ks]]]; reflexivity. }
    rewrite Hm. destruct (prunable _); exact Hn.
Qed.

(* RadiDict.remove, exact pattern, seen from the hook slots: removing a ROUTE
   (with all its pruning and merging) keeps every hook the tree holds — the
   repaired F14 —, and remove(hooks_only) removes exactly the hook of that
   pattern *)
Theorem remove_hpaths_exact : forall root pattern ho exact root',
  wf root -> ends_star pattern && negb exact = false ->
  rd_remove root pattern ho exact = Some root' ->
  forall e, In e (hpaths root') <-> In e (hpaths root) /\ (ho = false \/ rstr (fst e) <> pattern).
Proof.
  intros root pattern ho exact root' Hw Hwild. unfold rd_remove. rewrite Hwild. simpl.
  pose proof (h_rm_root_ok root ho pattern Hw) as H.
  destruct (rm_at true false ho root pattern) as [|r'|r']; intros [= <-].
  - intros e. split; [intros Hin; split; auto; now apply H | tauto].
  - exact H.
  - exact H.
Qed.

(* ------------------------------------------------------------------ *)
(* _match without filters finds the node of every hook held             *)
(* ------------------------------------------------------------------ *)
Lemma hkid_of_entry ks e :
  In e (hkids_entries ks) -> exists k e0, In k ks /\ e = hpre (key_pcs k) e0 /\ In e0 (hpaths k).
Proof.
  intros H. apply in_hkids_entries in H. destruct H as (k & Hk & H). apply in_hkid_entries in H.
  destruct H as (e0 & H0 & ->). eauto.
Qed.

Lemma tmatch_complete_h : forall n, wf n -> forall q hp pidx,
  In (q, hp) (hpaths n) ->
  exists n0, tmatch n (rstr q) [] pidx = MExact n0 /\ nhooks n0 = Some hp.
Proof.
  induction n as [key d nm f h kids IH] using node_ind'. intros Hw q hp pidx Hin.
  pose proof (wf_inv _ _ _ _ _ _ Hw) as (H1 & H2 & H3 & H4).
  rewrite hpaths_node in Hin. apply in_app_or in Hin. destruct Hin as [Hin|Hin].
  - destruct h as [x|]; [|destruct Hin]. destruct Hin as [Hin|[]]. injection Hin as <- <-.
    exists (Node key d nm f (Some x) kids). split; reflexivity.
  - apply hkid_of_entry in Hin. destruct Hin as (k & e0 & Hk & He & He0). destruct e0 as [q0 hp0].
    unfold hpre in He. simpl in He. injection He as -> ->.
    rewrite Forall_forall in IH, H1. pose proof H2 as H2'. rewrite Forall_forall in H2'. specialize (H2' k Hk).
    rewrite rstr_app, (rstr_key k H2').
    destruct (nkey k) as [|c0 s] eqn:Ekey; [destruct H2'; contradiction|]. simpl app. cbn [tmatch].
    assert (Hkh : khead k = c0) by (unfold khead; now rewrite Ekey).
    rewrite (tm_go_find _ [] c0 (c0 :: s ++ rstr q0) pidx kids k H2 H3 Hk Hkh).
    unfold tm_kid. rewrite Ekey.
    assert (Epre : prefixb (c0 :: s) (c0 :: s ++ rstr q0) = true) by (apply (prefixb_app (c0 :: s))).
    rewrite Epre. unfold filter_check.
    assert (Hsk : skipn (length (c0 :: s)) (c0 :: s ++ rstr q0) = rstr q0).
    { change (c0 :: s ++ rstr q0) with ((c0 :: s) ++ rstr q0). rewrite skipn_app, skipn_all, Nat.sub_diag. reflexivity. }
    destruct (str_eqb_spec (c0 :: s) tok) as [Et|Et].
    + injection Et as -> ->. simpl. apply (IH k Hk (H1 k Hk) q0 hp0 (S pidx) He0).
    + rewrite Hsk. apply (IH k Hk (H1 k Hk) q0 hp0 pidx He0).
Qed.

(* ------------------------------------------------------------------ *)
(* hook_installer on an existing hook pair: the pair at that pattern is  *)
(* replaced, nothing else                                                *)
(* ------------------------------------------------------------------ *)
Definition upd_rel (hp hp0 : hookpair) (route : str) (es' es : list hentry) : Prop :=
  forall e, In e es' <->
            (exists q, e = (q, hp) /\ rstr q = route /\ In (q, hp0) es) \/
            (In e es /\ rstr (fst e) <> route).

Lemma upd_hooks_hpaths hp hp0 : forall n, wf n -> forall route n0 pidx,
  tmatch n route [] pidx = MExact n0 -> nhooks n0 = Some hp0 ->
  upd_rel hp hp0 route (hpaths (upd_hooks_at n route hp)) (hpaths n).
Proof.
  induction n as [key d nm f h kids IH] using node_ind'. intros Hw route n0 pidx Hm Hh.
  pose proof (wf_inv _ _ _ _ _ _ Hw) as (W1 & W2 & W3 & W4).
  destruct route as [|c0 r].
  - simpl in Hm. injection Hm as <-. simpl in Hh. subst h. cbn [upd_hooks_at].
    intros e. rewrite !hpaths_node. simpl app. simpl In. split.
    + intros [<-|Hin]; [left; exists []; auto|]. right. split; [now right|].
      intros E. apply (hkids_nonempty kids e W2 Hin). destruct (fst e); [reflexivity | discriminate].
    + intros [(q & -> & Hq & Hin)|(Hin & Hne)].
      * destruct q; [now left | discriminate].
      * destruct Hin as [<-|Hin]; [now elim Hne | now right].
  - cbn [upd_hooks_at tmatch] in *.
    assert (G : forall ks, incl ks kids -> NoDup (map khead ks) ->
                tm_go (fun k r p => tmatch k r [] p) [] c0 (c0 :: r) pidx ks = MExact n0 ->
                upd_rel hp hp0 (c0 :: r)
                        (hkids_entries (upd_go (fun k r => upd_hooks_at k r hp) c0 (c0 :: r) ks))
                        (hkids_entries ks)).
    { induction ks as [|k ks IHks]; intros Hincl Hnd; [simpl; discriminate|]. cbn [tm_go upd_go].
      assert (Hk : In k kids) by (apply Hincl; now left).
      rewrite Forall_forall in IH, W1, W2. pose proof (W2 k Hk) as Kk.
      inversion Hnd as [|? ? Hn1 Hnds]; subst.
      destruct (head_is k c0) eqn:Eh.
      - (* the child _match steps into *)
        unfold tm_kid. destruct (prefixb (nkey k) (c0 :: r)) eqn:Ep; [|discriminate].
        pose proof (prefixb_split _ _ Ep) as Hs.
        assert (Hrec : exists pidx', tmatch k (skipn (length (nkey k)) (c0 :: r)) [] pidx' = MExact n0 ->
                                     True) by (exists 0; auto).
        intros Hm'.
        assert (Hm2 : exists pidx', tmatch k (skipn (length (nkey k)) (c0 :: r)) [] pidx' = MExact n0).
        { destruct (str_eqb_spec (nkey k) tok) as [Et|Et].
          - rewrite Et in *. simpl in Hm'. exists (S pidx). exact Hm'.
          - exists pidx. exact Hm'. }
        destruct Hm2 as (pidx' & Hm2).
        pose proof (IH k Hk (W1 k Hk) _ n0 pidx' Hm2 Hh) as Hrel.
        assert (Hoth : forall e, In e (hkids_entries ks) -> rstr (fst e) <> c0 :: r).
        { intros e Hin. apply in_hkids_entries in Hin. destruct Hin as (x & Hx & Hin).
          apply in_hkid_entries in Hin. destruct Hin as (e0 & _ & ->). simpl.
          assert (Kx : key_ok (nkey x)) by (apply W2, Hincl; now right).
          rewrite rstr_app, (rstr_key x Kx). intros E.
          apply head_is_khead in Eh; [|apply Kk]. apply Hn1. rewrite Eh.
          replace c0 with (khead x); [now apply in_map|]. unfold khead.
          destruct (nkey x); [destruct Kx; contradiction|]. simpl in E. now injection E. }
        intros e. rewrite !hkids_entries_cons, !in_app_iff.
        assert (Hkp : key_pcs (upd_hooks_at k (skipn (length (nkey k)) (c0 :: r)) hp) = key_pcs k).
        { destruct (upd_hooks_ok hp k (skipn (length (nkey k)) (c0 :: r)) (W1 k Hk)) as (_ & A & B & _).
          now apply kid_entries_same_key. }
        assert (Hkrel : upd_rel hp hp0 (c0 :: r)
                          (hkid_entries (upd_hooks_at k (skipn (length (nkey k)) (c0 :: r)) hp)) (hkid_entries k)).
        { intros e1. unfold hkid_entries at 1. rewrite Hkp, in_map_iff. split.
          - intros (e0 & <- & Hin). apply Hrel in Hin. destruct Hin as [(q & -> & Hq & Hin)|(Hin & Hne)].
            + left. exists (key_pcs k ++ q). split; [reflexivity|]. split.
              * rewrite rstr_app, (rstr_key k Kk), Hq. now rewrite <- Hs.
              * apply in_hkid_entries. exists (q, hp0). auto.
            + right. split; [apply in_hkid_entries; eauto|]. simpl. rewrite rstr_app, (rstr_key k Kk).
              intros E. apply Hne. rewrite Hs in E. now apply app_inv_head in E.
          - intros [(q & -> & Hq & Hin)|(Hin & Hne)].
            + apply in_hkid_entries in Hin. destruct Hin as ([q0 h0] & Hin0 & E). unfold hpre in E. simpl in E.
              injection E as -> <-. exists (q0, hp). split; [reflexivity|]. apply Hrel. left. exists q0.
              split; [reflexivity|]. split; [|exact Hin0].
              rewrite rstr_app, (rstr_key k Kk), Hs in Hq. now apply app_inv_head in Hq.
            + apply in_hkid_entries in Hin. destruct Hin as (e0 & Hin0 & ->). exists e0. split; [reflexivity|].
              apply Hrel. right. split; [exact Hin0|]. intros E. apply Hne. simpl.
              rewrite rstr_app, (rstr_key k Kk), E. now rewrite <- Hs. }
        rewrite (Hkrel e). split.
        + intros [[(q & -> & Hq & Hin)|(Hin & Hne)]|Hin].
          * left. exists q. split; [reflexivity|]. split; [exact Hq | apply in_or_app; now left].
          * right. split; [now left | exact Hne].
          * right. split; [now right | now apply Hoth].
        + intros [(q & -> & Hq & Hin)|([Hin|Hin] & Hne)].
          * apply in_app_or in Hin. destruct Hin as [Hin|Hin].
            -- left. left. exists q. split; [reflexivity|]. split; [exact Hq | exact Hin].
            -- exfalso. apply (Hoth _ Hin). exact Hq.
          * left. right. split; [exact Hin | exact Hne].
          * now right.
      - (* not this child *)
        intros Hm'. assert (Hincl' : incl ks kids) by (intros x Hx; apply Hincl; now right).
        pose proof (IHks Hincl' Hnds Hm') as Hrel.
        assert (Hthis : forall e, In e (hkid_entries k) -> rstr (fst e) <> c0 :: r).
        { intros e Hin. apply in_hkid_entries in Hin. destruct Hin as (e0 & _ & ->). simpl.
          rewrite rstr_app, (rstr_key k Kk). intros E.
          assert (head_is k c0 = true); [|congruence]. apply head_is_khead; [apply Kk|]. unfold khead.
          destruct (nkey k); [destruct Kk; contradiction|]. simpl in E. now injection E. }
        intros e. rewrite !hkids_entries_cons, !in_app_iff, (Hrel e). split.
        + intros [Hin|[(q & -> & Hq & Hin)|(Hin & Hne)]].
          * right. split; [now left | now apply Hthis].
          * left. exists q. split; [reflexivity|]. split; [exact Hq | apply in_or_app; now right].
          * right. split; [now right | exact Hne].
        + intros [(q & -> & Hq & Hin)|([Hin|Hin] & Hne)].
          * apply in_app_or in Hin. destruct Hin as [Hin|Hin].
            -- exfalso. apply (Hthis _ Hin). exact Hq.
            -- right. left. exists q. split; [reflexivity|]. split; [exact Hq | exact Hin].
          * now left.
          * right. right. split; [exact Hin | exact Hne]. }
    pose proof (G kids (incl_refl _) W3 Hm) as Hrel.
    intros e. rewrite !hpaths_node, !in_app_iff, (Hrel e). split.
    + intros [Hin|[(q & -> & Hq & Hin)|(Hin & Hne)]].
      * right. split; [now left|]. destruct h; [|destruct Hin]. destruct Hin as [<-|[]]. discriminate.
      * left. exists q. split; [reflexivity|]. split; [exact Hq | apply in_or_app; now right].
      * right. split; [now right | exact Hne].
    + intros [(q & -> & Hq & Hin)|([Hin|Hin] & Hne)].
      * apply in_app_or in Hin. destruct Hin as [Hin|Hin].
        -- exfalso. destruct h; [|destruct Hin]. destruct Hin as [Hin|[]]. injection Hin as <- _. discriminate.
        -- right. left. exists q. split; [reflexivity|]. split; [exact Hq | exact Hin].
      * now left.
      * right. right. split; [exact Hin | exact Hne].
Qed.

(* ------------------------------------------------------------------ *)
(* the hooks index and the hook slots of the tree                       *)
(* ------------------------------------------------------------------ *)
Definition HI (t : node) (idx : list (str * hookpair)) : Prop :=
  (forall q hp, In (q, hp) (hpaths t) -> al_get idx (rstr q) = Some hp) /\
  (forall p hp, al_get idx p = Some hp -> exists q, rstr q = p /\ In (q, hp) (hpaths t)).

Definition HInv (R : router) : Prop := HI (tree R) (hooks_idx R).

Lemma HI_same t t' idx : (forall e, In e (hpaths t') <-> In e (hpaths t)) -> HI t idx -> HI t' idx.
Proof.
  intros He (H1 & H2). split.
  - intros q hp Hin. apply H1. now apply He.
  - intros p hp Hg. destruct (H2 p hp Hg) as (q & A & B). exists q. split; [exact A | now apply He].
Qed.

Lemma tmatch_sound_h : forall n route pidx n0 hp0,
  Forall (fun _ : node => True) [] ->
  wf n -> tmatch n route [] pidx = MExact n0 -> nhooks n0 = Some hp0 ->
  exists q, rstr q = route /\ In (q, hp0) (hpaths n).
Proof.
  induction n as [key d nm f h kids IH] using node_ind'. intros route pidx n0 hp0 _ Hw Hm Hh.
  pose proof (wf_inv _ _ _ _ _ _ Hw) as (W1 & W2 & W3 & W4).
  destruct route as [|c0 r].
  - simpl in Hm. injection Hm as <-. simpl in Hh. subst h. exists []. split; [reflexivity|].
    rewrite hpaths_node. now left.
  - cbn [tmatch] in Hm.
    assert (G : forall ks, incl ks kids ->
                tm_go (fun k r p => tmatch k r [] p) [] c0 (c0 :: r) pidx ks = MExact n0 ->
                exists q, rstr q = c0 :: r /\ In (q, hp0) (hkids_entries ks)).
    { induction ks as [|k ks IHks]; intros Hincl; [simpl; discriminate|]. cbn [tm_go].
      assert (Hk : In k kids) by (apply Hincl; now left).
      rewrite Forall_forall in IH, W1, W2. pose proof (W2 k Hk) as Kk.
      destruct (head_is k c0).
      - unfold tm_kid. destruct (prefixb (nkey k) (c0 :: r)) eqn:Ep; [|discriminate]. intros Hm'.
        pose proof (prefixb_split _ _ Ep) as Hs.
        assert (Hm2 : exists pidx', tmatch k (skipn (length (nkey k)) (c0 :: r)) [] pidx' = MExact n0).
        { destruct (str_eqb_spec (nkey k) tok) as [Et|Et].
          - rewrite Et in *. simpl in Hm'. exists (S pidx). exact Hm'.
          - exists pidx. exact Hm'. }
        destruct Hm2 as (pidx' & Hm2).
        destruct (IH k Hk _ pidx' n0 hp0 (Forall_nil _) (W1 k Hk) Hm2 Hh) as (q0 & A & B).
        exists (key_pcs k ++ q0). split.
        + rewrite rstr_app, (rstr_key k Kk), A. now rewrite <- Hs.
        + rewrite hkids_entries_cons. apply in_or_app. left. apply in_hkid_entries. exists (q0, hp0). auto.
      - intros Hm'. destruct (IHks (fun x Hx => Hincl x (or_intror Hx)) Hm') as (q & A & B).
        exists q. split; [exact A|]. rewrite hkids_entries_cons. apply in_or_app. now right. }
    destruct (G kids (incl_refl _) Hm) as (q & A & B). exists q. split; [exact A|].
    rewrite hpaths_node. apply in_or_app. now right.
Qed.

(* what a registration does to the tree and to the hooks index *)
Lemma rt_add_tree R rule pattern nm flts ms h name ow :
  hooks_idx (fst (rt_add R rule pattern nm flts ms h name ow)) = hooks_idx R /\
  (tree (fst (rt_add R rule pattern nm flts ms h name ow)) = tree R \/
   exists t', set_at (tree R) pattern flts 0 (IData (length (heap R))) nm = SOk t' /\
              tree (fst (rt_add R rule pattern nm flts ms h name ow)) = t').
Proof.
  unfold rt_add. destruct (rt_match R pattern flts) as [d|].
  - destruct (nth_error (heap R) d) as [rt|]; [|auto].
    destruct (if ow then Some _ else mt_add _ _ _) as [t'|]; [|auto].
    destruct name as [[|c nme]|]; simpl; auto.
    destruct (al_get (named R) (c :: nme)) as [d0|]; simpl; auto.
    destruct (negb ow && negb (Nat.eqb d0 d)); simpl; auto.
  - cbv zeta. destruct (set_at (tree R) pattern flts 0 (IData (length (heap R))) nm) as [t'|e] eqn:Es; [|auto].
    simpl. rewrite nth_error_app2 by lia. rewrite Nat.sub_diag. simpl.
    destruct (if ow then Some _ else mt_add _ _ _) as [t2|]; [|split; [reflexivity | right; eauto]].
    destruct name as [[|c nme]|]; simpl; try (split; [reflexivity | right; eauto]).
    destruct (al_get (named R) (c :: nme)) as [d0|]; simpl; try (split; [reflexivity | right; eauto]).
    destruct (negb ow && negb (Nat.eqb d0 (length (heap R)))); simpl; split; try reflexivity; right; eauto.
Qed.

Lemma HInv_rt_add R rule pattern nm flts ms h name ow :
  Inv R -> HInv R -> ntok pattern = length flts -> HInv (fst (rt_add R rule pattern nm flts ms h name ow)).
Proof.
  intros HI0 HH Hn. unfold HInv. destruct (rt_add_tree R rule pattern nm flts ms h name ow) as (-> & [->|(t' & Hs & ->)]);
    [exact HH|].
  apply (HI_same (tree R)); [|exact HH]. intros e.
  rewrite (insert_hpaths (tree R) pattern flts (IData (length (heap R))) nm t' (inv_wf R HI0)) by (auto; lia).
  simpl. tauto.
Qed.

Lemma HInv_rt_remove_pattern R pattern :
  Inv R -> HInv R -> ends_star pattern = false -> HInv (fst (rt_remove_pattern R pattern)).
Proof.
  intros HI0 HH Hs. unfold rt_remove_pattern.
  destruct (rd_remove (tree R) pattern false false) as [t'|] eqn:Er; [|exact HH]. rewrite Hs. unfold HInv. simpl.
  apply (HI_same (tree R)); [|exact HH]. intros e.
  rewrite (remove_hpaths_exact (tree R) pattern false false t' (inv_wf R HI0)) by (auto; now rewrite Hs). tauto.
Qed.

Lemma HInv_rt_remove_name R nme : Inv R -> HInv R -> HInv (fst (rt_remove_name R nme)).
Proof.
  intros HI0 HH. unfold rt_remove_name. destruct (al_get (named R) nme) as [d|]; [|exact HH].
  destruct (pattern_of_rid R d) as [pattern|]; [|exact HH].
  destruct (rd_remove (tree R) pattern false true) as [t'|] eqn:Er; [|exact HH].
  assert (Hsame : forall e, In e (hpaths t') <-> In e (hpaths (tree R))).
  { intros e. rewrite (remove_hpaths_exact (tree R) pattern false true t' (inv_wf R HI0)); auto; [tauto|].
    now rewrite andb_false_r. }
  destruct (al_get (routes R) pattern); unfold HInv; simpl; apply (HI_same (tree R)); auto.
Qed.

Lemma al_get_del {B} (l : list (str * B)) k k' :
  al_get (al_del l k) k' = if str_eqb k' k then None else al_get l k'.
Proof.
  unfold al_del. rewrite (al_get_filter l (fun p => negb (str_eqb p k)) k'). now destruct (str_eqb k' k).
Qed.

Lemma HInv_rt_remove_hook R pattern : Inv R -> HInv R -> HInv (fst (rt_remove_hook R pattern)).
Proof.
  intros HI0 HH. unfold rt_remove_hook.
  destruct (rd_remove (tree R) pattern true false) as [t'|] eqn:Er; [|exact HH].
  assert (Hs : ends_star pattern && negb false = false).
  { unfold rd_remove in Er. destruct (ends_star pattern); [discriminate | reflexivity]. }
  pose proof (remove_hpaths_exact (tree R) pattern true false t' (inv_wf R HI0) Hs Er) as Hp.
  destruct HH as (H1 & H2). unfold HInv. simpl. split.
  - intros q hp Hin. apply Hp in Hin. destruct Hin as (Hin & [E|Hne]); [discriminate|]. simpl in Hne.
    rewrite al_get_del. destruct (str_eqb_spec (rstr q) pattern); [contradiction | now apply H1].
  - intros p hp Hg. rewrite al_get_del in Hg. destruct (str_eqb_spec p pattern) as [->|Hne]; [discriminate|].
    destruct (H2 p hp Hg) as (q & A & B). exists q. split; [exact A|]. apply Hp. split; [exact B|].
    right. simpl. congruence.
Qed.

Lemma HInv_rt_add_hook R pattern nm flts h partial :
  Inv R -> HInv R -> ntok pattern = length flts -> HInv (fst (rt_add_hook R pattern nm flts h partial)).
Proof.
  intros HI0 HH Hn. pose proof (inv_wf R HI0) as Hw. destruct HH as (H1 & H2). unfold rt_add_hook, rt_match_hooks.
  destruct (tmatch (tree R) pattern [] 0) as [n0|mm] eqn:Em.
  - destruct (nhooks n0) as [hp0|] eqn:Eh.
    + (* the pair at that pattern is updated in place *)
      destruct (tmatch_sound_h (tree R) pattern 0 n0 hp0 (Forall_nil _) Hw Em Eh) as (q0 & Hq0 & Hin0).
      assert (Hidx : al_get (hooks_idx R) pattern = Some hp0) by (rewrite <- Hq0; now apply H1).
      rewrite Hidx. unfold HInv. simpl.
      pose proof (upd_hooks_hpaths (install hp0 h partial) hp0 (tree R) Hw pattern n0 0 Em Eh) as Hrel.
      split.
      * intros q hp Hin. apply Hrel in Hin. rewrite al_get_set.
        destruct Hin as [(q1 & E & Hq & _)|(Hin & Hne)].
        -- injection E as -> ->. now rewrite Hq, str_eqb_refl.
        -- simpl in Hne. destruct (str_eqb_spec pattern (rstr q)) as [E|_]; [now elim Hne | now apply H1].
      * intros p hp Hg. rewrite al_get_set in Hg. destruct (str_eqb_spec pattern p) as [<-|Hne].
        -- injection Hg as <-. exists q0. split; [exact Hq0|]. apply Hrel. left. exists q0. auto.
        -- destruct (H2 p hp Hg) as (q & A & B). exists q. split; [exact A|]. apply Hrel. right.
           split; [exact B|]. simpl. congruence.
    + (* a node without a hook: add_hooks *)
      destruct (set_at (tree R) pattern flts 0 (IHooks (install (None, None) h partial)) nm) as [t'|e] eqn:Es; [|split; assumption].
      unfold HInv. simpl.
      pose proof (insert_hpaths (tree R) pattern flts _ nm t' Hw ltac:(lia) Es) as Hp. simpl in Hp.
      assert (Hnone : forall q hp, In (q, hp) (hpaths (tree R)) -> rstr q <> pattern).
      { intros q hp Hin E. destruct (tmatch_complete_h (tree R) Hw q hp 0 Hin) as (n1 & A & B).
        rewrite E, Em in A. injection A as <-. congruence. }
      split.
      * intros q hp Hin. apply Hp in Hin. rewrite al_get_set. destruct Hin as [[E|[]]|Hin].
        -- unfold hpre in E. simpl in E. injection E as <- <-. now rewrite app_nil_r, rstr_fpat, str_eqb_refl.
        -- destruct (str_eqb_spec pattern (rstr q)) as [E|_]; [exfalso; eapply Hnone; eauto | now apply H1].
      * intros p hp Hg. rewrite al_get_set in Hg. destruct (str_eqb_spec pattern p) as [<-|Hne].
        -- injection Hg as <-. exists (fpat pattern flts). split; [apply rstr_fpat|]. apply Hp. left. left.
           unfold hpre. simpl. now rewrite app_nil_r.
        -- destruct (H2 p hp Hg) as (q & A & B). exists q. split; [exact A|]. apply Hp. now right.
  - (* no such node yet *)
    destruct (set_at (tree R) pattern flts 0 (IHooks (install (None, None) h partial)) nm) as [t'|e] eqn:Es; [|split; assumption].
    unfold HInv. simpl.
    pose proof (insert_hpaths (tree R) pattern flts _ nm t' Hw ltac:(lia) Es) as Hp. simpl in Hp.
    assert (Hnone : forall q hp, In (q, hp) (hpaths (tree R)) -> rstr q <> pattern).
    { intros q hp Hin E. destruct (tmatch_complete_h (tree R) Hw q hp 0 Hin) as (n1 & A & B).
      rewrite E, Em in A. discriminate. }
    split.
    + intros q hp Hin. apply Hp in Hin. rewrite al_get_set. destruct Hin as [[E|[]]|Hin].
      * unfold hpre in E. simpl in E. injection E as <- <-. now rewrite app_nil_r, rstr_fpat, str_eqb_refl.
      * destruct (str_eqb_spec pattern (rstr q)) as [E|_]; [exfalso; eapply Hnone; eauto | now apply H1].
    + intros p hp Hg. rewrite al_get_set in Hg. destruct (str_eqb_spec pattern p) as [<-|Hne].
      * injection Hg as <-. exists (fpat pattern flts). split; [apply rstr_fpat|]. apply Hp. left. left.
        unfold hpre. simpl. now rewrite app_nil_r.
      * destruct (H2 p hp Hg) as (q & A & B). exists q. split; [exact A|]. apply Hp. now right.
Qed.

Lemma HInv_rt_remove_method R p fl ms : HInv R -> HInv (rt_remove_method R p fl ms).
Proof.
  intros HH. unfold rt_remove_method. destruct (rt_match R p fl) as [d|]; [|exact HH].
  destruct (nth_error (heap R) d); exact HH.
Qed.

Lemma HInv_rt_remove_obj R p0 fl : Inv R -> HInv R -> HInv (fst (rt_remove_obj R p0 fl)).
Proof.
  intros HI0 HH. unfold rt_remove_obj. destruct (rt_match R p0 fl) as [d|]; [|exact HH].
  destruct (pattern_of_rid R d) as [pattern|]; [|exact HH].
  destruct (rd_remove (tree R) pattern false true) as [t'|] eqn:Er; [|exact HH].
  assert (Hsame : forall e, In e (hpaths t') <-> In e (hpaths (tree R))).
  { intros e. rewrite (remove_hpaths_exact (tree R) pattern false true t' (inv_wf R HI0)); auto; [tauto|].
    now rewrite andb_false_r. }
  destruct (al_get (routes R) pattern); unfold HInv; simpl; apply (HI_same (tree R)); auto.
Qed.

Lemma HInv_rt_route_method R p fl ms h ow : HInv R -> HInv (fst (rt_route_method R p fl ms h ow)).
Proof.
  intros HH. unfold rt_route_method. destruct (rt_match R p fl) as [d|]; [|exact HH].
  destruct (nth_error (heap R) d); [|exact HH]. destruct (if ow then Some _ else mt_add _ _ _); exact HH.
Qed.

(* histories without prefix-"*" removals *)
Definition noprefix_cmd (c : cmd) : Prop :=
  hist_cmd c /\ match c with CRemovePattern p => ends_star p = false | _ => True end.

Lemma HInv_step R c : Inv R -> HInv R -> noprefix_cmd c -> HInv (fst (run_cmd R c)).
Proof.
  intros HI0 HH (Hc & Hp). destruct c; simpl in *; try exact HH.
  - pose proof (HInv_rt_add R rule pattern nm flts methods h name overwrite HI0 HH Hc) as G.
    now destruct (rt_add R rule pattern nm flts methods h name overwrite).
  - pose proof (HInv_rt_remove_pattern R pattern HI0 HH Hp) as G. now destruct (rt_remove_pattern R pattern).
  - pose proof (HInv_rt_remove_name R name HI0 HH) as G. now destruct (rt_remove_name R name).
  - pose proof (HInv_rt_add_hook R pattern nm flts h partial HI0 HH Hc) as G.
    now destruct (rt_add_hook R pattern nm flts h partial).
  - pose proof (HInv_rt_remove_hook R pattern HI0 HH) as G. now destruct (rt_remove_hook R pattern).
  - now apply HInv_rt_remove_method.
  - pose proof (HInv_rt_remove_obj R pattern flts HI0 HH) as G. now destruct (rt_remove_obj R pattern flts).
  - pose proof (HInv_rt_route_method R pattern flts ms h overwrite HH) as G.
    now destruct (rt_route_method R pattern flts ms h overwrite).
Qed.

Lemma Inv_HInv_exec cs : forall R, Inv R -> HInv R -> Forall noprefix_cmd cs ->
  Inv (exec_cmds R cs) /\ HInv (exec_cmds R cs).
Proof.
  unfold exec_cmds. induction cs as [|c cs IH]; intros R HI0 HH Hcs; simpl; [auto|].
  inversion Hcs as [|? ? Hc Hcs']; subst. apply IH; auto.
  - apply Inv_hist_step; [exact HI0 | apply Hc].
  - now apply HInv_step.
Qed.

Lemma HInv0 : HInv router0.
Proof. split; simpl; [intros q hp [] | intros p hp H; discriminate]. Qed.

(* ------------------------------------------------------------------ *)
(* a hook rule and a route of one tree: string prefix = pattern prefix   *)
(* ------------------------------------------------------------------ *)
Lemma pprefix_rstr q p : pprefix q p -> prefixb (rstr q) (rstr p) = true.
Proof. intros [t ->]. rewrite rstr_app. apply prefixb_app. Qed.

Lemma compat_prefix : forall n, wf n -> forall q hp p x,
  In (q, hp) (hpaths n) -> In (p, x) (paths n) -> prefixb (rstr q) (rstr p) = true -> pprefix q p.
Proof.
  induction n as [key d nm f h kids IH] using node_ind'. intros Hw q hp p x Hq Hp Hpre.
  pose proof (wf_inv _ _ _ _ _ _ Hw) as (W1 & W2 & W3 & W4).
  rewrite hpaths_node in Hq. apply in_app_or in Hq. destruct Hq as [Hq|Hq].
  - destruct h; [|destruct Hq]. destruct Hq as [Hq|[]]. injection Hq as <- _. now exists p.
  - apply hkid_of_entry in Hq. destruct Hq as (kx & [q0 hp0] & Hkx & E & Hq0). unfold hpre in E. simpl in E.
    injection E as -> ->. rewrite Forall_forall in IH, W1, W2. pose proof (W2 kx Hkx) as Kx.
    rewrite rstr_app, (rstr_key kx Kx) in Hpre.
    rewrite paths_node in Hp. apply in_app_or in Hp. destruct Hp as [Hp|Hp].
    + exfalso. destruct d; [|destruct Hp]. destruct Hp as [Hp|[]]. injection Hp as <- _. simpl in Hpre.
      destruct Kx as [Kne _]. destruct (nkey kx); [contradiction | discriminate].
    + apply kid_of_entry in Hp. destruct Hp as (k & p0 & Hk & -> & Hp0). pose proof (W2 k Hk) as Kk.
      rewrite rstr_app, (rstr_key k Kk) in Hpre.
      assert (Hh : khead kx = khead k).
      { unfold khead. destruct Kx as [Kx _], Kk as [Kk _]. destruct (nkey kx), (nkey k); try contradiction.
        unfold prefixb in Hpre. simpl in Hpre. apply andb_true_iff in Hpre. destruct Hpre as [E _].
        apply N.eqb_eq in E. simpl. exact E. }
      assert (kx = k) by (eapply same_head_same_kid; eauto). subst kx.
      apply pprefix_app. rewrite prefixb_app_same in Hpre. eapply IH; eauto.
Qed.

(* ------------------------------------------------------------------ *)
(* the hooks of a matched request                                        *)
(* ------------------------------------------------------------------ *)
Lemma get_trace_root filt root path d nm vs hs :
  wf root -> get filt true root path = GFound d nm vs hs ->
  exists p, In (p, (d, nm)) (paths root) /\ matchf filt p path = Some vs /\
            hooks_ok filt (hpaths root) p path 0 hs.
Proof.
  intros Hw Hg. unfold get in Hg. apply g_hook_found in Hg. destruct Hg as (hs1 & Hg & ->).
  destruct (get_trace_lemma filt root Hw path 0 d nm vs hs1 Hg) as (p & A & B & (qs & HF & Hs & Hm)).
  exists p. split; [exact A|]. split; [exact B|].
  pose proof (wf_inv _ _ _ _ _ _ (match root as k0 return wf k0 -> wf (Node (nkey k0) (ndata k0) (nnames k0) (nflt k0) (nhooks k0) (nkids k0)) with Node _ _ _ _ _ _ => fun H => H end Hw)) as (_ & K2 & _ & _).
  exists (hown root ++ qs). split; [|split].
  - unfold hcons, hown. destruct (nhooks root) as [hp|]; simpl; [|exact HF]. constructor; [|exact HF].
    split; [reflexivity|]. exists 0. simpl. auto.
  - unfold hown. destruct (nhooks root) as [hp|]; simpl; [|exact Hs]. constructor; [exact Hs|].
    rewrite Forall_forall. intros e He. apply Hm in He. destruct He as [He _].
    pose proof (hkids_nonempty _ _ K2 He) as Hne. simpl. destruct (fst e); [contradiction | simpl; lia].
  - intros e. rewrite in_app_iff, (Hm e), hpaths_eq, in_app_iff. split.
    + intros [He|(He & Hp)]; [|tauto]. split; [now left|].
      unfold hown in He. destruct (nhooks root); [|destruct He]. destruct He as [<-|[]]. now exists p.
    + tauto.
Qed.

(* For every history without prefix-"*" removals: a matched request collects
   exactly the hooks of the hooks index whose pattern is a (string) prefix of
   the matched route's pattern, outermost first, each with the position the
   path has reached after matching that prefix. *)
Theorem hooks_fire_lemma : forall filt (cs : list cmd) path cds d m h kw hs,
  Forall noprefix_cmd cs ->
  let R := exec_cmds router0 cs in
  resolve filt R path cds = ROk d m h kw hs ->
  exists rt qs,
    nth_error (heap R) d = Some rt /\
    Forall2 (hrel filt 0 (strip_sep path)) qs hs /\
    StronglySorted (fun a b : hentry => length (fst a) < length (fst b)) qs /\
    (forall q hp, In (q, hp) qs ->
       al_get (hooks_idx R) (rstr q) = Some hp /\ pprefix q (fpat (r_pattern rt) (r_filters rt))) /\
    (forall ph hp, al_get (hooks_idx R) ph = Some hp -> prefixb ph (r_pattern rt) = true ->
       exists q, rstr q = ph /\ In (q, hp) qs).
Proof.
  intros filt cs path cds d m h kw hs Hcs R Hres.
  destruct (Inv_HInv_exec cs router0 Inv0 HInv0 Hcs) as (HI0 & (H1 & H2)). fold R in HI0, H1, H2.
  unfold resolve in Hres.
  destruct (get filt true (tree R) (strip_sep path)) as [d0 nm vs hs0|vs hs0 i] eqn:Eg; [|discriminate].
  destruct (nth_error (heap R) d0) as [rt|] eqn:Eh; [|discriminate].
  destruct (dispatch_on (r_methods rt) cds) as [m0 [h0 mn]|a]; [|discriminate].
  injection Hres as <- <- <- <- <-.
  destruct (get_trace_root filt (tree R) _ _ _ _ _ (inv_wf R HI0) Eg) as (p & A & B & (qs & HF & Hs & Hm)).
  apply (inv_paths R HI0) in A as A'. destruct A' as (pat0 & d1 & rt1 & A1 & A2 & A3). unfold entry_of in A3.
  injection A3 as -> <- ->. assert (rt1 = rt) by congruence. subst rt1.
  destruct (inv_routes R HI0 pat0 d0 A1) as (rt2 & B1 & B2 & _). assert (rt2 = rt) by congruence. subst rt2.
  exists rt, qs. rewrite B2. split; [exact Eh|]. split; [exact HF|]. split; [exact Hs|]. split.
  - intros q hp Hin. apply Hm in Hin. destruct Hin as (Hin & Hp). split; [now apply H1 | exact Hp].
  - intros ph hp Hg Hpre. destruct (H2 ph hp Hg) as (q & Hq & Hin). exists q. split; [exact Hq|].
    apply Hm. split; [exact Hin|]. simpl.
    eapply (compat_prefix (tree R) (inv_wf R HI0)); eauto. now rewrite Hq, rstr_fpat.
Qed.
