(* C12_markup.v — whatever bytes are fed, in whatever chunks, the section list
   of the streaming multipart parser alternates Data, Headers, Data, ... — so the
   asserts of FieldStorage.iter_items can never fail. *)
From Verif Require Import lib.Base lib.Str.
From Verif Require Import model.MultipartRef model.Multipart model.Fields model.BodyPipeline.
From Verif Require Import proofs.C12_pipeline.

Definition flip (k : kind) : kind := match k with Data => Headers | Headers => Data end.
Definition kind_eqb (a b : kind) : bool :=
  match a, b with Data, Data | Headers, Headers => true | _, _ => false end.

Definition alt_step (st : option kind) (x : section) : option kind :=
  match st with
  | Some e => if kind_eqb (fst (fst x)) e then Some (flip e) else None
  | None => None
  end.

(* the kind expected next when the list alternates from [e]; None when it does not *)
Definition alt_from (e : kind) (o : list section) : option kind := fold_left alt_step o (Some e).

Lemma fold_alt_none o : fold_left alt_step o None = None.
Proof. induction o; simpl; auto. Qed.

Lemma alt_from_altb o : forall e, alt_from e o <> None -> altb e o = true.
Proof.
  unfold alt_from. induction o as [|[[k a] b] o IH]; intros e H; [reflexivity|].
  cbn [fold_left alt_step fst] in H. cbn [altb].
  destruct e, k; cbn [kind_eqb] in H; try (rewrite fold_alt_none in H; congruence);
    cbn [flip] in H; now apply IH.
Qed.

Lemma alt_from_snoc e o k a b :
  alt_from e (o ++ [(k, a, b)]) = alt_step (alt_from e o) (k, a, b).
Proof. unfold alt_from. now rewrite fold_left_app. Qed.

Definition expect (c : cur) : kind := match c with CStart | CData => Data | CHdr => Headers end.

Definition post_ok (s' : st) : Prop :=
  alt_from Data (out s') <> None /\
  (error s' = None -> stopped s' = false -> alt_from Data (out s') = Some (expect (cur_meth s'))).

Lemma im_loop_alt :
  forall fuel s chunk c abs base,
    alt_from Data (out s) = Some (expect c) ->
    post_ok (im_loop fuel s chunk c abs base).
Proof.
  induction fuel as [|f IH]; intros s chunk c abs base H.
  - cbn [im_loop]. split; cbn [out error]; [congruence | discriminate].
  - cbn [im_loop].
    assert (Hn : alt_from Data (out s) <> None) by congruence.
    destruct c.
    + (* CStart *)
      destruct (eat_start_boundary (s_tok s) chunk base (trest s)) as [r tr].
      destruct r as [e| | | |e]; try (split; cbn [out error stopped cur_meth]; [exact Hn | try discriminate; auto]).
      destruct (_ && _)%bool; [split; cbn [out error]; [exact Hn | discriminate]|].
      apply IH. cbn [out]. rewrite alt_from_snoc, H. reflexivity.
    + (* CData *)
      destruct (eat_data (s_tok s) chunk base (trest s)) as [r tr].
      destruct r as [e| | | |e]; try (split; cbn [out error stopped cur_meth]; [exact Hn | try discriminate; auto]).
      apply IH. cbn [out]. rewrite alt_from_snoc, H. reflexivity.
    + (* CHdr *)
      destruct (eat (heater s) chunk base) as [h' r].
      destruct r as [e| | | |e]; try (split; cbn [out error stopped cur_meth]; [exact Hn | try discriminate; auto]).
      apply IH. cbn [out]. rewrite alt_from_snoc, H. reflexivity.
Qed.

Definition inv (s : st) : Prop := post_ok s.

Lemma feed_inv s chunk : inv s -> inv (feed s chunk).
Proof.
  intros [Hn Hc]. unfold feed.
  destruct (error s) eqn:Ee; [split; [exact Hn | rewrite Ee; discriminate]|].
  destruct (stopped s) eqn:Es; [split; [exact Hn | rewrite Es; discriminate]|].
  apply im_loop_alt. now apply Hc.
Qed.

Lemma init_inv B : inv (init B).
Proof. split; cbn [init out cur_meth]; [discriminate | reflexivity]. Qed.

Lemma fold_feed_inv chunks : forall s, inv s -> inv (fold_left feed chunks s).
Proof. induction chunks as [|c cs IH]; intros s H; [exact H|]. simpl. apply IH. now apply feed_inv. Qed.

Theorem markup_chunks_alternates B chunks : altb Data (fst (markup_chunks B chunks)) = true.
Proof.
  unfold markup_chunks, obs. cbn [fst].
  destruct (fold_feed_inv chunks (init B) (init_inv B)) as [Hn _].
  now apply alt_from_altb.
Qed.

(* ------------------------------------------------------------------ *)
(* section starts are never negative (so no seek to a negative offset) *)
Local Open Scope Z_scope.

Ltac break_match :=
  repeat match goal with
         | |- context [match ?x with _ => _ end] => destruct x eqn:?
         | |- context [if ?x then _ else _] => destruct x eqn:?
         end.

Lemma tail_part_found tok chunk start tr d tr' :
  tail_part tok chunk start tr = (EFound d, tr') -> - Z.of_nat (length tok) <= d.
Proof.
  unfold tail_part. destruct (skipn start chunk) as [|n l]; [discriminate|].
  destruct tr as [r|].
  - destruct (Nat.ltb _ _).
    + destruct (prefixb _ r); [discriminate|]. destruct (match_tail _ _ _ _); discriminate.
    + destruct (prefixb r _).
      * intros [= <- _]. lia.
      * destruct (match_tail _ _ _ _); discriminate.
  - destruct (match_tail _ _ _ _); discriminate.
Qed.

Lemma eat_loop_found :
  forall fuel tok chunk start tr d tr',
    eat_loop fuel tok chunk start tr = (EFound d, tr') -> - Z.of_nat (length tok) <= d.
Proof.
  induction fuel as [|f IH]; intros tok chunk start tr d tr'; cbn [eat_loop]; [discriminate|].
  destruct (Nat.ltb _ _); [apply tail_part_found|].
  destruct (match tr with Some r => _ | None => false end).
  - intros [= <- _]. lia.
  - destruct (match_tail tok chunk start _) as [m|]; [|apply IH].
    destruct (Nat.eqb m _); [intros [= <- _]; lia | apply IH].
Qed.

Lemma eat_data_found tok chunk base tr d tr' :
  eat_data tok chunk base tr = (EFound d, tr') -> - Z.of_nat (length tok) <= d.
Proof. apply eat_loop_found. Qed.

Lemma eat_start_found tok chunk base tr d tr' :
  (2 <= length tok)%nat ->
  eat_start_boundary tok chunk base tr = (EFound d, tr') -> - Z.of_nat (length tok) <= d.
Proof.
  intros Ht. unfold eat_start_boundary.
  destruct tr; [apply eat_data_found|].
  destruct (slice chunk base (base + 1)); [discriminate|].
  destruct (N.eqb _ CR); [apply eat_data_found|].
  destruct (prefixb _ chunk); [intros [= <- _]; lia|].
  destruct (negb _); [discriminate | apply eat_data_found].
Qed.

Lemma eat_headers_found chunk base ex d ex' :
  eat_headers chunk base ex = (EFound d, ex') -> -4 <= d.
Proof.
  unfold eat_headers.
  assert (R : forall d ex',
             match hsearch (skipn base chunk) base with
             | MNo => (ENone, None)
             | MEnd i => (EFound (Z.of_nat i), None)
             | MPart l => (ENone, Some (skipn l H4))
             end = (EFound d, ex') -> -4 <= d).
  { intros d0 e0. destruct (hsearch _ _); intros [= <- _] || discriminate. lia. }
  destruct ex as [e|]; [|apply R].
  destruct (str_eqb _ e); [intros [= <- _]; lia|].
  destruct (Nat.eqb _ 0); [discriminate|].
  destruct (_ && _)%bool; [discriminate|].
  destruct (str_eqb e _); [discriminate|].
  destruct (Nat.ltb _ 2); [discriminate | apply R].
Qed.

Lemma eat_in_headers_found h chunk base h' d :
  eat_in_headers h chunk base = (h', EFound d) -> -4 <= d.
Proof.
  unfold eat_in_headers. destruct (eat_headers chunk base (hexp h)) as [r ex] eqn:E.
  destruct r; intros [= _ <-] || discriminate. now apply eat_headers_found in E.
Qed.

Lemma eat_found h chunk base h' d : eat h chunk base = (h', EFound d) -> -4 <= d.
Proof.
  unfold eat. destruct (eat_meth h).
  - destruct (eat_first h chunk base) as [h1 r]. destruct r; try discriminate.
    destruct (hstopped h1); [discriminate | apply eat_in_headers_found].
  - destruct (eat_lf h chunk base) as [h1 r]. destruct r; try discriminate.
    destruct (hstopped h1); [discriminate | apply eat_in_headers_found].
  - destruct (eat_last_hyphen h chunk base) as [h1 r]. destruct r; try discriminate.
    destruct (hstopped h1); [discriminate | apply eat_in_headers_found].
  - apply eat_in_headers_found.
Qed.

Definition pos_ok (s : st) : Prop :=
  0 <= abspos s /\ 0 <= sec_start s /\ (2 <= length (s_tok s))%nat /\ starts_nonneg (out s).

Lemma starts_nonneg_snoc o k a b : starts_nonneg o -> 0 <= a -> starts_nonneg (o ++ [(k, a, b)]).
Proof. intros H Ha. apply Forall_app. split; [exact H|]. constructor; [exact Ha | constructor]. Qed.

Lemma im_loop_pos :
  forall fuel s chunk c abs base,
    pos_ok s -> 0 <= abs -> pos_ok (im_loop fuel s chunk c abs base).
Proof.
  induction fuel as [|f IH]; intros s chunk c abs base (Ha & Hs & Ht & Ho) Habs.
  - cbn [im_loop]. repeat split; cbn [abspos sec_start s_tok out]; assumption.
  - cbn [im_loop]. destruct c.
    + destruct (eat_start_boundary (s_tok s) chunk base (trest s)) as [r tr] eqn:E.
      destruct r as [e| | | |e];
        try (repeat split; cbn [abspos sec_start s_tok out]; (assumption || lia)).
      apply (eat_start_found _ _ _ _ _ _ Ht) in E.
      destruct (_ && _)%bool; [repeat split; cbn [abspos sec_start s_tok out]; assumption|].
      apply IH; [|lia].
      repeat split; cbn [abspos sec_start s_tok out]; try assumption.
      now apply starts_nonneg_snoc.
    + destruct (eat_data (s_tok s) chunk base (trest s)) as [r tr] eqn:E.
      destruct r as [e| | | |e];
        try (repeat split; cbn [abspos sec_start s_tok out]; (assumption || lia)).
      apply eat_data_found in E.
      apply IH; [|lia].
      repeat split; cbn [abspos sec_start s_tok out]; try assumption.
      now apply starts_nonneg_snoc.
    + destruct (eat (heater s) chunk base) as [h' r] eqn:E.
      destruct r as [e| | | |e];
        try (repeat split; cbn [abspos sec_start s_tok out]; (assumption || lia)).
      apply eat_found in E.
      apply IH; [|lia].
      repeat split; cbn [abspos sec_start s_tok out]; try assumption.
      now apply starts_nonneg_snoc.
Qed.

Lemma feed_pos s chunk : pos_ok s -> pos_ok (feed s chunk).
Proof.
  intros H. unfold feed. destruct (error s); [exact H|]. destruct (stopped s); [exact H|].
  apply im_loop_pos; [exact H | apply H].
Qed.

Lemma init_pos B : pos_ok (init B).
Proof. repeat split; cbn [init abspos sec_start s_tok out]; try lia; [simpl; lia | constructor]. Qed.

Lemma fold_feed_pos chunks : forall s, pos_ok s -> pos_ok (fold_left feed chunks s).
Proof. induction chunks as [|c cs IH]; intros s H; [exact H|]. simpl. apply IH. now apply feed_pos. Qed.

Theorem markup_chunks_starts_nonneg B chunks : starts_nonneg (fst (markup_chunks B chunks)).
Proof.
  unfold markup_chunks, obs. cbn [fst]. apply (fold_feed_pos chunks (init B) (init_pos B)).
Qed.

Theorem markup_chunks_ok B chunks : markup_ok (markup_chunks B chunks).
Proof. intros _. split; [apply markup_chunks_alternates | apply markup_chunks_starts_nonneg]. Qed.
