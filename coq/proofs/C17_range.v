(* C17_range.v — get_first_range: soundness for any int parser, and agreement
   with RFC 7233 on headers from the grammar (with the concrete parser). *)
From Verif Require Import lib.Base lib.ListX lib.Str lib.StrX lib.PyIntParse model.Static model.Range.
From Coq Require Import ZifyBool.
Local Open Scope Z_scope.

(* ------------------------------------------------------------------ *)
(* soundness: whatever int() is                                        *)
(* ------------------------------------------------------------------ *)
Lemma range_sound_lemma :
  forall (pint : str -> option Z) (hdr : str) (len s e : Z),
    get_first_range pint hdr len = Some (s, e) -> 0 <= s /\ s < e /\ e <= len.
Proof.
  intros pint hdr len s e. unfold get_first_range.
  destruct (findb s_bytes_eq hdr) as [i|]; [|discriminate].
  destruct (split_all N.eqb DASH _) as [|st [|en [|x l]]]; try discriminate.
  match goal with |- match ?r with _ => _ end = _ -> _ => destruct r as [[s0 e0]|] end; [|discriminate].
  destruct ((0 <=? s0) && (s0 <? e0) && (e0 <=? len)) eqn:G; [|discriminate].
  intros [= <- <-]. lia.
Qed.

(* ------------------------------------------------------------------ *)
(* string lemmas                                                       *)
(* ------------------------------------------------------------------ *)




(* ------------------------------------------------------------------ *)
(* digit strings and the concrete parser                               *)
(* ------------------------------------------------------------------ *)
Definition dvalf (v : N) (d : str) : N := fold_left (fun a c => (a * 10 + (c - 48))%N) d v.
Definition dval (d : str) : N := dvalf 0 d.

(* 1*DIGIT, at most sys.int_info.default_max_str_digits characters *)
Definition digit_str (d : str) : Prop :=
  d <> [] /\ forallb is_digit d = true /\ (length d <= 4300)%nat.

Lemma digs_digits : forall d acc nd,
  forallb is_digit d = true -> (d <> [] \/ nd <> 0%N) ->
  digs d acc nd false = Some (dvalf acc d, (nd + N.of_nat (length d))%N, []).
Proof.
  induction d as [|c d IH]; intros acc nd Hd Hne.
  - simpl. destruct Hne as [Hne|Hne]; [congruence|].
    apply N.eqb_neq in Hne. rewrite Hne. simpl. do 3 f_equal. lia.
  - simpl in Hd. apply andb_true_iff in Hd as [Hc Hd].
    cbn [digs]. rewrite Hc. rewrite IH; [|exact Hd|right; lia].
    cbn [dvalf fold_left length]. do 3 f_equal. lia.
Qed.

Lemma digit_not_space c : is_digit c = true -> is_c_space c = false.
Proof. unfold is_digit, is_c_space. lia. Qed.

Lemma digit_tr c : is_digit c = true -> tr_char c = c.
Proof. unfold is_digit, tr_char. intros H. destruct (N.ltb_spec c 127); [reflexivity|lia]. Qed.

Lemma digits_map_tr d : forallb is_digit d = true -> map tr_char d = d.
Proof.
  induction d as [|c d IH]; simpl; [reflexivity|].
  intros H. apply andb_true_iff in H as [Hc Hd]. now rewrite (digit_tr _ Hc), (IH Hd).
Qed.

Lemma py_int_digits d : digit_str d -> py_int_dec d = Some (Z.of_N (dval d)).
Proof.
  intros (Hne & Hd & Hlen). unfold py_int_dec. rewrite (digits_map_tr _ Hd).
  destruct d as [|c d]; [congruence|].
  pose proof Hd as Hd'. simpl in Hd'. apply andb_true_iff in Hd' as [Hc _].
  cbn [lstrip_set]. rewrite (digit_not_space _ Hc).
  assert (E1 : (c =? 43)%N = false) by (unfold is_digit in Hc; lia).
  assert (E2 : (c =? 45)%N = false) by (unfold is_digit in Hc; lia).
  rewrite E1, E2.
  rewrite (digs_digits (c :: d) 0 0 Hd); [|left; congruence].
  cbn [forallb negb]. unfold max_str_digits.
  destruct (N.ltb_spec 4300 (0 + N.of_nat (length (c :: d)))); [lia|reflexivity].
Qed.

Lemma digits_no_char d c : forallb is_digit d = true -> is_digit c = false ->
  contains_char N.eqb c d = false.
Proof.
  intros Hd Hc. induction d as [|x d IH]; simpl; [reflexivity|].
  simpl in Hd. apply andb_true_iff in Hd as [Hx Hd]. rewrite (IH Hd), orb_false_r.
  apply N.eqb_neq. intros ->. congruence.
Qed.

(* ------------------------------------------------------------------ *)
(* RFC 7233 section 2.1, first byte-range-spec of the set              *)
(* ------------------------------------------------------------------ *)
Inductive range_spec :=
| SFromTo (a b : N)     (* first-byte-pos "-" last-byte-pos *)
| SFrom (a : N)         (* first-byte-pos "-" *)
| SSuffix (n : N).      (* "-" suffix-length *)

(* the spec selects at least one byte of a representation of [len] bytes *)
Definition selects (sp : range_spec) (len : Z) : Prop :=
  match sp with
  | SFromTo a b => (a <= b)%N /\ Z.of_N a < len
  | SFrom a => Z.of_N a < len
  | SSuffix n => (0 < n)%N /\ 0 < len
  end.

(* the selected bytes as a half-open interval, clipped to the representation *)
Definition rfc_range (sp : range_spec) (len : Z) : option (Z * Z) :=
  match sp with
  | SFromTo a b => if (Z.of_N a <=? Z.of_N b) && (Z.of_N a <? len)
                   then Some (Z.of_N a, Z.min (Z.of_N b + 1) len) else None
  | SFrom a => if Z.of_N a <? len then Some (Z.of_N a, len) else None
  | SSuffix n => if (0 <? Z.of_N n) && (0 <? len) then Some (Z.max 0 (len - Z.of_N n), len) else None
  end.

Lemma rfc_range_none_iff sp len : rfc_range sp len = None <-> ~ selects sp len.
Proof.
  destruct sp as [a b|a|n]; simpl;
  match goal with |- context[if ?c then _ else _] => destruct c eqn:E end;
  (split; [intros H; try discriminate; lia | intros H; try reflexivity; exfalso; apply H; lia]).
Qed.

(* what follows the first spec: nothing, or a comma and anything at all *)
Definition tail_ok (t : str) : Prop := t = [] \/ exists t', t = COMMA :: t'.

Lemma first_range_of da db t :
  contains_char N.eqb COMMA (da ++ DASH :: db) = false -> tail_ok t ->
  fst (split_once N.eqb COMMA ((da ++ DASH :: db) ++ t)) = da ++ DASH :: db.
Proof.
  intros Hc [->|[t' ->]].
  - rewrite app_nil_r, split_once_nosep by exact Hc. reflexivity.
  - rewrite split_once_app by exact Hc. reflexivity.
Qed.



Lemma header_parts pint da db t len :
  forallb is_digit da = true -> forallb is_digit db = true -> tail_ok t ->
  get_first_range pint (s_bytes_eq ++ da ++ DASH :: db ++ t) len =
  (let res :=
     if is_nil da then match pint db with None => None | Some e => Some (Z.max 0 (len - e), len) end
     else if is_nil db then match pint da with None => None | Some s => Some (s, len) end
     else match pint da with None => None | Some s =>
          match pint db with None => None | Some e => Some (s, Z.min (e + 1) len) end end in
   match res with
   | Some (s, e) => if (0 <=? s) && (s <? e) && (e <=? len) then Some (s, e) else None
   | None => None
   end).
Proof.
  intros Ha Hb Ht. unfold get_first_range.
  pose proof (findb_prefix s_bytes_eq (da ++ DASH :: db ++ t)) as F.
  rewrite F. change (skipn (0 + 6) (s_bytes_eq ++ da ++ DASH :: db ++ t)) with (da ++ DASH :: db ++ t).
  replace (da ++ DASH :: db ++ t) with ((da ++ DASH :: db) ++ t) by (rewrite <- app_assoc; reflexivity).
  assert (NC : contains_char N.eqb COMMA (da ++ DASH :: db) = false).
  { rewrite contains_app. simpl. rewrite !digits_no_char by (assumption || reflexivity). reflexivity. }
  rewrite (first_range_of _ _ _ NC Ht).
  rewrite split_all_app by (apply digits_no_char; [assumption|reflexivity]).
  rewrite split_all_nosep by (apply digits_no_char; [assumption|reflexivity]).
  reflexivity.
Qed.

Lemma is_nil_false {A} (l : list A) : l <> [] -> is_nil l = false.
Proof. destruct l; [congruence|reflexivity]. Qed.

Ltac crush_cmp :=
  repeat match goal with
  | |- context[?a <=? ?b] => destruct (Z.leb_spec a b)
  | |- context[?a <? ?b] => destruct (Z.ltb_spec a b)
  end; cbn [andb]; try reflexivity; try (exfalso; lia); try (f_equal; f_equal; lia).

(* the three forms of byte-range-spec *)
Lemma range_rfc_from_to da db t len :
  digit_str da -> digit_str db -> tail_ok t -> 0 <= len ->
  get_first_range py_int_dec (s_bytes_eq ++ da ++ DASH :: db ++ t) len
  = rfc_range (SFromTo (dval da) (dval db)) len.
Proof.
  intros Ha Hb Ht Hl. rewrite header_parts by (apply Ha || apply Hb || exact Ht).
  rewrite (is_nil_false da) by apply Ha. rewrite (is_nil_false db) by apply Hb.
  rewrite (py_int_digits _ Ha), (py_int_digits _ Hb). cbv zeta. unfold rfc_range.
  set (a := Z.of_N (dval da)). set (b := Z.of_N (dval db)).
  assert (0 <= a) by (subst a; lia). assert (0 <= b) by (subst b; lia).
  crush_cmp.
Qed.

Lemma range_rfc_from da t len :
  digit_str da -> tail_ok t -> 0 <= len ->
  get_first_range py_int_dec (s_bytes_eq ++ da ++ DASH :: [] ++ t) len
  = rfc_range (SFrom (dval da)) len.
Proof.
  intros Ha Ht Hl. rewrite header_parts by (apply Ha || reflexivity || exact Ht).
  rewrite (is_nil_false da) by apply Ha. cbn [is_nil].
  rewrite (py_int_digits _ Ha). cbv zeta. unfold rfc_range.
  set (a := Z.of_N (dval da)). assert (0 <= a) by (subst a; lia).
  crush_cmp.
Qed.

Lemma range_rfc_suffix db t len :
  digit_str db -> tail_ok t -> 0 <= len ->
  get_first_range py_int_dec (s_bytes_eq ++ [] ++ DASH :: db ++ t) len
  = rfc_range (SSuffix (dval db)) len.
Proof.
  intros Hb Ht Hl. rewrite header_parts by (apply Hb || reflexivity || exact Ht).
  cbn [is_nil]. rewrite (py_int_digits _ Hb). cbv zeta. unfold rfc_range.
  set (n := Z.of_N (dval db)). assert (0 <= n) by (subst n; lia).
  crush_cmp.
Qed.

Lemma range_rfc_lemma :
  forall (da db t : str) (len : Z), tail_ok t -> 0 <= len ->
    (digit_str da -> digit_str db ->
       get_first_range py_int_dec (s_bytes_eq ++ da ++ DASH :: db ++ t) len
       = rfc_range (SFromTo (dval da) (dval db)) len)
    /\ (digit_str da ->
       get_first_range py_int_dec (s_bytes_eq ++ da ++ DASH :: t) len
       = rfc_range (SFrom (dval da)) len)
    /\ (digit_str db ->
       get_first_range py_int_dec (s_bytes_eq ++ DASH :: db ++ t) len
       = rfc_range (SSuffix (dval db)) len).
Proof.
  intros da db t len Ht Hl. repeat split; intros.
  - now apply range_rfc_from_to.
  - now apply (range_rfc_from da t len).
  - now apply (range_rfc_suffix db t len).
Qed.

(* more than 4300 digits: int() raises, the request is answered 416 although
   the range may be satisfiable (documented limit, not part of the theorem) *)

Definition nines_4301 : str := repeat 57%N (43 * 100 + 1).

(* "bytes=0-99...9" (4301 nines) on a 10-byte representation: the RFC selects
   bytes 0-9, int() raises ValueError and the code answers None (416) *)
Lemma digit_limit_witness :
  exists (da db : str) (len : Z),
    da <> [] /\ db <> [] /\ forallb is_digit da = true /\ forallb is_digit db = true /\ 0 <= len
    /\ length db = 4301%nat
    /\ get_first_range py_int_dec (s_bytes_eq ++ da ++ DASH :: db) len = None
    /\ rfc_range (SFromTo (dval da) (dval db)) len = Some (0, 10).
Proof.
  exists [48%N], nines_4301, 10.
  split; [discriminate|]. split; [discriminate|]. split; [reflexivity|].
  split; [vm_compute; reflexivity|]. split; [lia|]. split; [vm_compute; reflexivity|].
  split; vm_compute; reflexivity.
Qed.
