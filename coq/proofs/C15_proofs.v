(* C15_proofs.v — the signed-cookie guard: _lscmp, the split at '?', the reduction
   of forgery to a MAC collision.  Round trips are in C15_roundtrip.v. *)
From Coq Require Import String Ascii.
From Coq Require Import Permutation.
From Verif Require Import lib.Base lib.Str lib.Utf8 lib.Base64 model.Cookie.
Local Open Scope N_scope.

(* ------------------------------------------------------------------ *)
(* _lscmp is equality                                                   *)
(* ------------------------------------------------------------------ *)
Lemma lscmp_true a : forall b, lscmp a b = true -> a = b.
Proof.
  unfold lscmp. induction a as [|x a IH]; intros [|y b]; simpl; intros H;
    try reflexivity; try discriminate.
  apply andb_true_iff in H. destruct H as [H1 H2].
  destruct (N.eqb_spec x y) as [->|Hn].
  - f_equal. apply IH. simpl in H1. now rewrite H1, H2.
  - simpl in H1. discriminate.
Qed.

Lemma lscmp_refl a : lscmp a a = true.
Proof.
  unfold lscmp. induction a as [|x a IH]; simpl; [reflexivity|].
  rewrite N.eqb_refl. simpl. exact IH.
Qed.

Lemma lscmp_correct a b : lscmp a b = true <-> a = b.
Proof. split; [apply lscmp_true | intros ->; apply lscmp_refl]. Qed.

(* ------------------------------------------------------------------ *)
(* data.split(b'?', 1)                                                 *)
(* ------------------------------------------------------------------ *)
Lemma split_once_app c a b : ~ In c a -> split_once N.eqb c (a ++ c :: b) = (a, Some b).
Proof.
  induction a as [|x a IH]; intros Hn; simpl.
  - now rewrite N.eqb_refl.
  - destruct (N.eqb_spec x c) as [->|Hx]; [exfalso; apply Hn; now left|].
    rewrite IH; [reflexivity|]. intros Hin. apply Hn. now right.
Qed.

Lemma contains_char_In c s : contains_char N.eqb c s = true <-> In c s.
Proof.
  unfold contains_char. rewrite existsb_exists. split.
  - intros [x [Hx E]]. apply N.eqb_eq in E. now subst.
  - intros H. exists c. split; [assumption | apply N.eqb_refl].
Qed.

Lemma contains_char_false c s : contains_char N.eqb c s = false <-> ~ In c s.
Proof. rewrite <- contains_char_In. destruct (contains_char N.eqb c s); split; congruence. Qed.

(* ------------------------------------------------------------------ *)
(* the guard                                                           *)
(* ------------------------------------------------------------------ *)
Section Guard.
Variable val : Type.
Variable mac : list N -> list N -> list N.
Variable loads : list N -> @lres val.

Notation decode := (cookie_decode val mac loads).

(* cookie_decode reaches the unpickler ONLY through a signature that equals
   base64(mac(key, message)) for the message after the first '?' *)
Lemma loader_guarded data secret arg r :
  decode data secret = DLoaded arg r ->
  exists d k sig msg,
    utf8_encode data = Some d /\ utf8_encode secret = Some k
    /\ d = 33 :: sig ++ 63 :: msg /\ ~ In 63 sig
    /\ sig = b64encode (mac k msg)
    /\ b64decode msg = Some arg /\ r = loads arg.
Proof.
  unfold cookie_decode, split_qmark.
  destruct (utf8_encode data) as [d|] eqn:Ed; [|discriminate].
  destruct (utf8_encode secret) as [k|] eqn:Ek; [|discriminate].
  destruct (prefixb [33] d && contains_char N.eqb 63 d) eqn:Ep; [|discriminate].
  destruct (split_once N.eqb 63 d) as [sig0 [msg|]] eqn:Es; [|discriminate].
  destruct (lscmp (tl sig0) (b64encode (mac k msg))) eqn:El; [|discriminate].
  destruct (b64decode msg) as [a|] eqn:Eb; [|discriminate].
  intros [= <- <-].
  apply andb_true_iff in Ep. destruct Ep as [Ep _].
  apply prefixb_spec in Ep. destruct Ep as [rest Hrest]. simpl in Hrest.
  apply split_once_some in Es. destruct Es as [Hd Hc].
  apply contains_char_false in Hc.
  apply lscmp_true in El.
  destruct sig0 as [|c0 sig]; [subst d; simpl in Hd; injection Hd as E _; discriminate|].
  assert (c0 = 33) by (subst d; simpl in Hd; now injection Hd). subst c0.
  simpl in El.
  exists d, k, sig, msg. repeat split; try assumption; try reflexivity.
  intros Hin. apply Hc. now right.
Qed.

(* a transmitted signature that differs from base64(mac(key, msg)) and contains
   no '?' is rejected without touching the unpickler — no assumption on the MAC *)
Lemma signature_tamper data secret k sig' msg :
  utf8_encode data = Some (33 :: sig' ++ 63 :: msg) ->
  utf8_encode secret = Some k ->
  ~ In 63 sig' ->
  sig' <> b64encode (mac k msg) ->
  decode data secret = DNone.
Proof.
  intros Ed Ek Hq Hne. unfold cookie_decode, split_qmark. rewrite Ed, Ek.
  destruct (prefixb [33] _ && contains_char N.eqb 63 _); [|reflexivity].
  change (33 :: sig' ++ 63 :: msg) with ((33 :: sig') ++ 63 :: msg).
  rewrite split_once_app.
  - simpl tl. destruct (lscmp sig' (b64encode (mac k msg))) eqn:El; [|reflexivity].
    apply lscmp_true in El. contradiction.
  - intros [E|Hin]; [discriminate | contradiction].
Qed.

(* accepted data splits uniquely *)
Lemma accepted_split data secret k sig msg arg r :
  utf8_encode data = Some (33 :: sig ++ 63 :: msg) ->
  utf8_encode secret = Some k ->
  ~ In 63 sig ->
  decode data secret = DLoaded arg r ->
  sig = b64encode (mac k msg).
Proof.
  intros Ed Ek Hq H. destruct (loader_guarded _ _ _ _ H) as [d [k' [sig2 [msg2 [Ed' [Ek' [Hd [Hq2 [Hs _]]]]]]]]].
  rewrite Ed in Ed'. injection Ed' as <-. rewrite Ek in Ek'. injection Ek' as <-.
  injection Hd as Hd.
  assert (E : split_once N.eqb 63 (sig ++ 63 :: msg) = split_once N.eqb 63 (sig2 ++ 63 :: msg2)) by now rewrite Hd.
  rewrite !split_once_app in E by assumption. injection E as -> ->. exact Hs.
Qed.

(* the same at the level of Request.get_cookie: whatever the Cookie header is,
   pickle.loads is called only on the base64-decoding of a message whose
   transmitted signature is base64(mac(key, message)) *)
Lemma request_loader_guarded hdr key secret arg :
  snd (get_cookie val mac loads hdr key secret) = Some arg ->
  exists sec value d k sig msg,
    secret = Some sec /\ parse_cookies hdr = PCookies d /\ assoc_get key d = Some value
    /\ utf8_encode value = Some (33 :: sig ++ 63 :: msg) /\ utf8_encode sec = Some k
    /\ ~ In 63 sig /\ sig = b64encode (mac k msg) /\ b64decode msg = Some arg.
Proof.
  unfold get_cookie. destruct (parse_cookies hdr) as [d| |] eqn:Ep; try discriminate.
  destruct secret as [sec|].
  - destruct (nonempty sec) eqn:En.
    + destruct (assoc_get key d) as [[|c v']|] eqn:Eg; try discriminate.
      destruct (cookie_decode val mac loads (c :: v') sec) as [|a r| |] eqn:Ed; try discriminate.
      intros H. assert (a = arg) by (destruct r; [| |destruct (str_eqb name key)]; simpl in H; congruence).
      subst a. destruct (loader_guarded _ _ _ _ Ed) as [d0 [k [sig [msg [E1 [E2 [E3 [E4 [E5 [E6 _]]]]]]]]]].
      subst d0. exists sec, (c :: v'), d, k, sig, msg. repeat split; assumption.
    + destruct (assoc_get key d) as [[|c v']|]; discriminate.
  - destruct (assoc_get key d) as [[|c v']|]; discriminate.
Qed.

(* reads on one request are independent of each other *)
Lemma reads_independent hdr reads :
  get_cookie_seq val mac loads hdr reads
  = List.map (fun r => get_cookie val mac loads hdr (fst r) (snd r)) reads.
Proof. induction reads as [|[n s] r IH]; simpl; [reflexivity | now rewrite IH]. Qed.

(* every read path of the request is a function of the Cookie header in force:
   reads after an update of the header see the new header only *)
Lemma reads_follow_updates h h' a b :
  request_run val mac loads h (a ++ QSetHeader h' :: b)
  = request_run val mac loads h a ++ request_run val mac loads h' b.
Proof.
  revert h; induction a as [|o r IH]; intros h; simpl; [reflexivity|].
  destruct o; simpl; rewrite IH; reflexivity.
Qed.

Definition is_read (o : qop) : Prop := match o with QSetHeader _ => False | _ => True end.

Lemma reads_without_update h ops :
  Forall is_read ops -> request_run val mac loads h ops = List.map (qread val mac loads h) ops.
Proof.
  induction ops as [|o r IH]; intros H; simpl; [reflexivity|].
  inversion H as [|? ? Ho Hr]; subst. destruct o; simpl in *; try contradiction; now rewrite IH.
Qed.

Hypothesis mac_bytes : forall k m, bytes_ok (mac k m).

(* payload changed, signature kept: acceptance IS a MAC collision *)
Lemma payload_tamper data secret k msg msg' arg r :
  utf8_encode data = Some (33 :: b64encode (mac k msg) ++ 63 :: msg') ->
  utf8_encode secret = Some k ->
  decode data secret = DLoaded arg r ->
  mac k msg' = mac k msg.
Proof.
  intros Ed Ek H.
  pose proof (accepted_split _ _ _ _ _ _ _ Ed Ek (proj1 (b64encode_no_qmark_bang _)) H) as E.
  symmetry. apply b64encode_inj; auto.
Qed.

(* read with another secret: acceptance IS a MAC collision between the two keys *)
Lemma other_secret data secret' k k' msg arg r :
  utf8_encode data = Some (33 :: b64encode (mac k msg) ++ 63 :: msg) ->
  utf8_encode secret' = Some k' ->
  decode data secret' = DLoaded arg r ->
  mac k' msg = mac k msg.
Proof.
  intros Ed Ek H.
  pose proof (accepted_split _ _ _ _ _ _ _ Ed Ek (proj1 (b64encode_no_qmark_bang _)) H) as E.
  symmetry. apply b64encode_inj; auto.
Qed.

End Guard.

(* ------------------------------------------------------------------ *)
(* BaseResponse.copy: the copy and the original do not share cookies    *)
(* ------------------------------------------------------------------ *)
Lemma mjar_insert_perm e j : Permutation (mjar_insert e j) (e :: j).
Proof.
  induction j as [|e' r IH]; simpl; [apply Permutation_refl|].
  destruct (str_ltb (fst e') (fst e)); [|apply Permutation_refl].
  eapply Permutation_trans; [apply perm_skip; exact IH | apply perm_swap].
Qed.

Lemma mjar_copy_perm j : Permutation (mjar_copy j) j.
Proof.
  unfold mjar_copy. induction j as [|e r IH]; simpl; [constructor|].
  eapply Permutation_trans; [apply mjar_insert_perm | now apply perm_skip].
Qed.

Lemma copy_independent (val : Type) (mac : list N -> list N -> list N)
      (dumps : str -> @cval val -> list N) (st : rpair) (o : @rop val) :
  let st' := fst (fst (rstep val mac dumps st o)) in
  match o with
  | RSet true _ _ _ | RDel true _ => fst st' = fst st            (* on the copy: the original keeps its cookies *)
  | RSet false _ _ _ | RDel false _ => snd st' = snd st          (* on the original: the copy keeps its cookies *)
  | RCopy => fst st' = fst st /\ exists c, snd st' = Some c /\ Permutation c (fst st)
  | RApply _ => snd st' = snd st                                 (* applied to the original: the copy keeps its cookies *)
  end.
Proof.
  destruct st as [r c]. destruct o as [oc name v secret|oc name| |cookies]; simpl.
  - destruct oc; [destruct c as [cj|]; [|reflexivity]|];
      destruct (mjar_set val mac dumps _ name v secret false); reflexivity.
  - destruct oc; [destruct c as [cj|]; [|reflexivity]|];
      destruct (mjar_delete val mac dumps _ name); reflexivity.
  - split; [reflexivity|]. exists (mjar_copy r). split; [reflexivity | apply mjar_copy_perm].
  - destruct (mjar_set_all val mac dumps [] cookies) as [[|e0 hj]|e]; reflexivity.
Qed.
