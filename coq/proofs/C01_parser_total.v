(* C01_parser_total.v — the rule parser model terminates: its fuel never runs out. *)
From Verif Require Import lib.Base lib.ListX lib.Str model.RuleParser.

Section Total.
Variable wordc : N -> bool.

Lemma span_len p s a b : span p s = (a, b) -> length s = length a + length b.
Proof.
  revert a b; induction s as [|c s IH]; intros a b; simpl.
  - intros [= <- <-]. reflexivity.
  - destruct (p c).
    + destruct (span p s) as [a' b'] eqn:E. intros [= <- <-]. simpl. rewrite (IH a' b' eq_refl). reflexivity.
    + intros [= <- <-]. reflexivity.
Qed.

Lemma eat_name_len s a b : eat_name wordc s = Some (a, b) -> length b < length s.
Proof.
  destruct s as [|c r]; simpl; [discriminate|]. destruct (name_start c); [|discriminate].
  destruct (span wordc r) as [x y] eqn:E. intros [= <- <-]. apply span_len in E. lia.
Qed.

Lemma eat_not_len bad s a b : eat_not bad s = Some (a, b) -> length b < length s.
Proof.
  unfold eat_not. destruct (span (fun c => negb (bad c)) s) as [x y] eqn:E.
  destruct x as [|x0 x]; [discriminate|]. intros [= <- <-]. apply span_len in E. simpl in E. lia.
Qed.

Lemma expect_colon_name_len s a b : expect_colon_name wordc s = Some (a, b) -> length b < length s.
Proof.
  unfold expect_colon_name. destruct (eat_name wordc s) as [[nm r]|] eqn:E; [|discriminate].
  apply eat_name_len in E. intros H.
  assert (b = r).
  { destruct r as [|c [|c' r']]; try (injection H as _ <-; reflexivity).
    - destruct (N.eqb c ch_slash || N.eqb c ch_nl); [injection H as _ <-; reflexivity | discriminate].
    - destruct (N.eqb c ch_slash); [injection H as _ <-; reflexivity | discriminate]. }
  subst. exact E.
Qed.

Lemma paren_scan_len fuel : forall s level acc w rest,
  paren_scan fuel s level acc = Some (w, rest) -> length rest < length s.
Proof.
  induction fuel as [|f IH]; intros s level acc w rest; simpl; [discriminate|].
  destruct s as [|c r]; [discriminate|].
  destruct (N.eqb c ch_bslash).
  - destruct r as [|d r']; [discriminate|]. intros H. apply IH in H. simpl. lia.
  - destruct (N.eqb c ch_rpar).
    + destruct level.
      * intros [= _ <-]. simpl. lia.
      * intros H. apply IH in H. simpl. lia.
    + destruct (N.eqb c ch_lpar); intros H; apply IH in H; simpl; lia.
Qed.

Lemma expect_parens_len s a b : expect_parens s = Some (a, b) -> length b < length s.
Proof.
  unfold expect_parens. destruct s as [|c r]; [discriminate|].
  destruct (paren_scan (S (length r)) r 0 [c]) as [[w rest]|] eqn:E; [|discriminate].
  intros [= _ <-]. apply paren_scan_len in E. simpl. lia.
Qed.

Lemma sel_scan_len s : forall acc a b, sel_scan s acc = Some (a, b) -> length b < length s.
Proof.
  induction s as [|c r IH]; intros acc a b; simpl; [discriminate|].
  destruct (N.eqb c ch_rbrk); [intros [= _ <-]; lia|].
  destruct (N.eqb c ch_nl); [discriminate|]. intros H. apply IH in H. lia.
Qed.

Lemma expect_selector_len s a b : expect_selector s = Some (a, b) -> length b < length s.
Proof.
  unfold expect_selector. destruct s as [|x [|c r]]; try discriminate.
  destruct (N.eqb c ch_nl); [discriminate|]. intros H. apply sel_scan_len in H. simpl. lia.
Qed.

Lemma tl_len {A} (l : list A) : length (tl l) <= length l.
Proof. destruct l; simpl; lia. Qed.

Ltac lens :=
  repeat match goal with
  | H : eat_name _ _ = Some _ |- _ => apply eat_name_len in H
  | H : eat_not _ _ = Some _ |- _ => apply eat_not_len in H
  | H : expect_colon_name _ _ = Some _ |- _ => apply expect_colon_name_len in H
  | H : expect_parens _ = Some _ |- _ => apply expect_parens_len in H
  | H : expect_selector _ = Some _ |- _ => apply expect_selector_len in H
  end.

Ltac break_all :=
  repeat match goal with
  | H : context [match ?x with _ => _ end] |- _ => destruct x eqn:?; try discriminate
  | H : inr _ = inr _ |- _ => injection H as ?; subst
  | H : (_, _) = (_, _) |- _ => injection H as ?; subst
  | H : Some _ = Some _ |- _ => injection H as ?; subst
  end.

Lemma parse_param_len c r t rest :
  parse_param wordc c r = inr (t, rest) -> length rest <= length r.
Proof.
  unfold parse_param. intros H.
  break_all; subst; lens;
  repeat match goal with
  | |- context [tl ?l] => pose proof (tl_len l); generalize dependent (tl l); intros
  | H : context [tl ?l] |- _ => pose proof (tl_len l); generalize dependent (tl l); intros
  end; simpl in *; lia.
Qed.

Lemma parse_param_no_fuel_error c r : parse_param wordc c r <> inl EFuel.
Proof.
  unfold parse_param. intros H.
  break_all;
  repeat match goal with
  | H : inl _ = inl _ |- _ => injection H as ?; subst; try discriminate
  end; break_all.
Qed.

Theorem iter_parse_fuel_suffices : forall fuel s,
  length s < fuel -> iter_parse wordc fuel s <> inl EFuel.
Proof.
  induction fuel as [|f IH]; intros s Hs; [lia|].
  cbn [iter_parse]. destruct s as [|c r]; [discriminate|].
  destruct (is_param_token c) eqn:Et.
  - destruct (parse_param wordc c r) as [e|[[[[p fl] a] sl] rest]] eqn:Ep.
    + intros [= ->]. exact (parse_param_no_fuel_error c r Ep).
    + apply parse_param_len in Ep.
      assert (Hr : length rest < f) by (simpl in Hs; lia).
      specialize (IH rest Hr). destruct (iter_parse wordc f rest) as [e|l]; [|discriminate].
      intros [= ->]. now apply IH.
  - destruct (span (fun x => negb (is_param_token x)) (c :: r)) as [part rest] eqn:Es.
    pose proof (span_len _ _ _ _ Es) as Hl.
    assert (Hp : part <> []).
    { simpl in Es. rewrite Et in Es. simpl in Es.
      destruct (span (fun x => negb (is_param_token x)) r). injection Es as <- _. discriminate. }
    assert (Hr : length rest < f).
    { destruct part; [congruence|]. simpl in *. lia. }
    specialize (IH rest Hr). destruct (iter_parse wordc f rest) as [e|l]; [|discriminate].
    intros [= ->]. now apply IH.
Qed.

Theorem parse_total : forall s, parse wordc s <> inl EFuel.
Proof. intros s. apply iter_parse_fuel_suffices. lia. Qed.

End Total.
