(* C06_scan.v — the one-piece scan as a relation [WScan] that also carries the
   well-formedness conditions; its relation to [ref]/[wf_prefixb]; determinism;
   how the scan of p ++ c splits into the scan of p and a continuation. *)
From Verif Require Import lib.Base lib.ListX lib.Str model.MultipartRef model.Multipart
  proofs.C06_pattern proofs.C06_headers.
Require Import Lia.

(* ---- findb and append ---- *)
Lemma findb_intro t s q :
  prefixb t (skipn q s) = true -> (forall j, j < q -> prefixb t (skipn j s) = false) ->
  findb t s = Some q.
Proof.
  intros Hq Hj. destruct (findb t s) as [q'|] eqn:E.
  - destruct (findb_some _ _ _ E) as [H1 H2].
    destruct (Nat.lt_trichotomy q q') as [L|[->|L]]; [| reflexivity |].
    + rewrite H2 in Hq by exact L. discriminate.
    + rewrite Hj in H1 by exact L. discriminate.
  - rewrite (findb_none _ _ E q) in Hq. discriminate.
Qed.

Lemma prefixb_app_l t X c : prefixb t X = true -> prefixb t (X ++ c) = true.
Proof.
  intros H. apply prefixb_spec in H. destruct H as [r ->]. rewrite <- app_assoc. apply prefixb_app.
Qed.

Lemma prefixb_app_long t X c : length t <= length X -> prefixb t (X ++ c) = prefixb t X.
Proof.
  unfold prefixb. revert X; induction t as [|a t IH]; intros X L; [reflexivity|].
  destruct X as [|x X]; [simpl in L; lia|]. simpl. rewrite IH by (simpl in L; lia). reflexivity.
Qed.

Lemma skipn_app_le {A} j (X c : list A) : j <= length X -> skipn j (X ++ c) = skipn j X ++ c.
Proof. intros L. rewrite skipn_app. replace (j - length X) with 0 by lia. reflexivity. Qed.

Lemma findb_app_some t X c q : findb t X = Some q -> findb t (X ++ c) = Some q.
Proof.
  intros E. destruct (findb_some _ _ _ E) as [H1 H2]. pose proof (findb_bound _ _ _ E) as Hb.
  apply findb_intro.
  - rewrite skipn_app_le by lia. now apply prefixb_app_l.
  - intros j Hj. rewrite skipn_app_le by lia.
    rewrite prefixb_app_long by (rewrite skipn_length; lia). now apply H2.
Qed.

Lemma findb_app_inv t X c q :
  findb t (X ++ c) = Some q -> q + length t <= length X -> findb t X = Some q.
Proof.
  intros E L. destruct (findb_some _ _ _ E) as [H1 H2].
  apply findb_intro.
  - rewrite skipn_app_le in H1 by lia. rewrite prefixb_app_long in H1 by (rewrite skipn_length; lia). exact H1.
  - intros j Hj. specialize (H2 j Hj). rewrite skipn_app_le in H2 by lia.
    rewrite prefixb_app_long in H2 by (rewrite skipn_length; lia). exact H2.
Qed.

Lemma findb_app_none t X c : findb t (X ++ c) = None -> findb t X = None.
Proof.
  intros E. destruct (findb t X) as [q|] eqn:E'; [|reflexivity].
  apply (findb_app_some t X c) in E'. congruence.
Qed.

(* an occurrence found in X ++ c that does not fit into X: X alone has none *)
Lemma findb_app_later t X c q :
  findb t (X ++ c) = Some q -> length X < q + length t -> findb t X = None.
Proof.
  intros E L. destruct (findb t X) as [q'|] eqn:E'; [|reflexivity].
  pose proof (findb_bound _ _ _ E'). apply (findb_app_some t X c) in E'. rewrite E in E'. injection E' as ->. lia.
Qed.

Section Scan.
Variable tok : bytes.
Let n := length tok.

Inductive WScan (P : bytes) : final -> list section -> final -> Prop :=
| WS_delim_wait a :
    a <= length P -> (skipn a P = [] \/ skipn a P = [CR] \/ skipn a P = [HY]) ->
    WScan P (FDelim a) [] (FDelim a)
| WS_delim_stop a r :
    skipn a P = HY :: HY :: r -> WScan P (FDelim a) [] FStopped
| WS_delim_crlf a r secs f :
    skipn a P = CR :: LF :: r -> WScan P (FHeaders (a + 2)) secs f -> WScan P (FDelim a) secs f
| WS_hdr_wait hs :
    hs <= length P -> findb H4 (skipn hs P) = None -> hdr_clean (skipn hs P) = true ->
    WScan P (FHeaders hs) [] (FHeaders hs)
| WS_hdr_found hs e secs f :
    hs <= length P -> findb H4 (skipn hs P) = Some e -> hdr_clean (firstn (e + 4) (skipn hs P)) = true ->
    WScan P (FData (hs + e + 4)) secs f ->
    WScan P (FHeaders hs) (sec Headers hs (hs + e) :: secs) f
| WS_data_wait ds :
    ds <= length P -> findb tok (skipn ds P) = None -> WScan P (FData ds) [] (FData ds)
| WS_data_found ds q secs f :
    ds <= length P -> findb tok (skipn ds P) = Some q -> WScan P (FDelim (ds + q + n)) secs f ->
    WScan P (FData ds) (sec Data ds (ds + q) :: secs) f.

(* ---- wf_delim / scan_delim produce a WScan derivation ---- *)
Lemma skipn_nonempty_le {A} a (P : list A) x r : skipn a P = x :: r -> a < length P.
Proof.
  intros E. destruct (Nat.lt_ge_cases a (length P)) as [L|L]; [exact L|].
  rewrite skipn_all2 in E by exact L. discriminate.
Qed.

Lemma wf_delim_scan fuel : forall P a,
  a <= length P -> wf_delim fuel tok P a = true ->
  exists secs f, WScan P (FDelim a) secs f /\ scan_delim fuel tok P a = (secs, f).
Proof.
  induction fuel as [|fuel IH]; intros P a La H; [discriminate|].
  cbn [wf_delim scan_delim] in *.
  destruct (skipn a P) as [|c1 [|c2 r]] eqn:Es.
  - exists [], (FDelim a). split; [apply WS_delim_wait; auto | reflexivity].
  - apply orb_true_iff in H. destruct H as [H|H]; apply N.eqb_eq in H; subst c1.
    + exists [], (FDelim a). split; [apply WS_delim_wait; auto | reflexivity].
    + exists [], (FDelim a). split; [apply WS_delim_wait; auto | reflexivity].
  - destruct (N.eqb c1 CR && N.eqb c2 LF) eqn:Ecl.
    + apply andb_true_iff in Ecl. destruct Ecl as [E1 E2]. apply N.eqb_eq in E1, E2. subst c1 c2.
      assert (Lhs : a + 2 <= length P).
      { assert (length (skipn a P) = S (S (length r))) by now rewrite Es. rewrite skipn_length in H0. lia. }
      destruct (findb H4 (skipn (a + 2) P)) as [e|] eqn:Eh.
      * apply andb_true_iff in H. destruct H as [Hcl H].
        pose proof (findb_bound _ _ _ Eh) as Hb. rewrite skipn_length in Hb. change (length H4) with 4 in Hb.
        destruct (findb tok (skipn (a + 2 + e + 4) P)) as [q|] eqn:Ed.
        -- pose proof (findb_bound _ _ _ Ed) as Hb2. rewrite skipn_length in Hb2. fold n in Hb2.
           destruct (IH P (a + 2 + e + 4 + q + n) ltac:(lia) H) as (secs & f & W & Esc).
           exists (sec Headers (a + 2) (a + 2 + e) :: sec Data (a + 2 + e + 4) (a + 2 + e + 4 + q) :: secs), f.
           split.
           ++ eapply WS_delim_crlf; [exact Es|]. apply WS_hdr_found; [lia | exact Eh | exact Hcl |].
              apply WS_data_found; [lia | exact Ed | exact W].
           ++ fold n. rewrite Esc. reflexivity.
        -- exists [sec Headers (a + 2) (a + 2 + e)], (FData (a + 2 + e + 4)). split; [|reflexivity].
           eapply WS_delim_crlf; [exact Es|]. apply WS_hdr_found; [lia | exact Eh | exact Hcl |].
           apply WS_data_wait; [lia | exact Ed].
      * exists [], (FHeaders (a + 2)). split; [|reflexivity].
        eapply WS_delim_crlf; [exact Es|]. apply WS_hdr_wait; [lia | exact Eh | exact H].
    + apply andb_true_iff in H. destruct H as [E1 E2]. apply N.eqb_eq in E1, E2. subst c1 c2.
      rewrite N.eqb_refl. cbn [andb].
      exists [], FStopped. split; [eapply WS_delim_stop; exact Es | reflexivity].
Qed.

(* ---- determinism ---- *)
Lemma WScan_det P s0 secs f : WScan P s0 secs f -> forall secs' f', WScan P s0 secs' f' -> secs = secs' /\ f = f'.
Proof.
  induction 1 as [a La Hw | a r Es | a r secs f Es W IH | hs L E Hc | hs e secs f L E Hc W IH
                 | ds L E | ds q secs f L E W IH];
    intros secs' f' W'; inversion W'; subst; try (split; reflexivity);
    try (repeat match goal with H : _ \/ _ |- _ => destruct H end; congruence);
    try (exfalso; repeat match goal with H : _ \/ _ |- _ => destruct H end;
         match goal with H1 : skipn ?a ?P = _, H2 : skipn ?a ?P = _ |- _ =>
           rewrite H1 in H2; vm_compute in H2; discriminate H2 end).
  - (* crlf / crlf *) apply IH. assumption.
  - (* hdr found / found *)
    match goal with H : findb H4 _ = Some ?e' |- _ => assert (e = e') by congruence; subst e' end.
    match goal with H : WScan _ (FData _) _ _ |- _ => destruct (IH _ _ H) as [-> ->] end.
    split; reflexivity.
  - (* data found / found *)
    match goal with H : findb tok _ = Some ?q' |- _ => assert (q = q') by congruence; subst q' end.
    match goal with H : WScan _ (FDelim _) _ _ |- _ => destruct (IH _ _ H) as [-> ->] end.
    split; reflexivity.
Qed.

(* ---- splitting the scan of p ++ c at the end of p ---- *)
Definition anchor (s : final) : nat :=
  match s with FDelim a => a | FHeaders hs => hs | FData ds => ds | _ => 0 end.

Definition is_wait (s : final) : Prop :=
  match s with FDelim _ | FHeaders _ | FData _ => True | _ => False end.

Lemma hdr_clean_app_l X c : hdr_clean (X ++ c) = true -> hdr_clean X = true.
Proof.
  intros H. apply (hdr_clean_firstn (length X)) in H.
  rewrite firstn_app, firstn_all, Nat.sub_diag in H. simpl in H. now rewrite app_nil_r in H.
Qed.

Lemma WScan_split p c : forall s0 secs' f',
  WScan (p ++ c) s0 secs' f' -> anchor s0 <= length p ->
  exists secs1 s1 secs2,
    WScan p s0 secs1 s1 /\ secs' = secs1 ++ secs2 /\
    ((s1 = FStopped /\ f' = FStopped /\ secs2 = []) \/
     (is_wait s1 /\ WScan p s1 [] s1 /\ WScan (p ++ c) s1 secs2 f')).
Proof.
  intros s0 secs' f' W. remember (p ++ c) as P eqn:EP.
  induction W as [a La Hw | a r Es | a r secs f Es W IH | hs L E Hc | hs e secs f L E Hc W IH
                 | ds L E | ds q secs f L E W IH]; intros Lp; cbn [anchor] in Lp; subst P.
  - (* delim wait *)
    rewrite skipn_app_le in Hw by exact Lp.
    assert (Hp : skipn a p = [] \/ skipn a p = [CR] \/ skipn a p = [HY]).
    { destruct (skipn a p) as [|x [|y X]]; auto.
      - destruct Hw as [Hw|[Hw|Hw]]; try discriminate; injection Hw as -> _; auto.
      - destruct Hw as [Hw|[Hw|Hw]]; try discriminate; injection Hw as _ Hw; destruct X; discriminate. }
    exists [], (FDelim a), []. split; [apply WS_delim_wait; auto|]. split; [reflexivity|]. right.
    split; [exact I|]. split; [apply WS_delim_wait; auto|].
    apply WS_delim_wait; [exact La | rewrite skipn_app_le by exact Lp; exact Hw].
  - (* delim stop *)
    rewrite skipn_app_le in Es by exact Lp.
    destruct (skipn a p) as [|x [|y X]] eqn:Ep.
    + exists [], (FDelim a), []. split; [apply WS_delim_wait; auto|]. split; [reflexivity|]. right.
      split; [exact I|]. split; [apply WS_delim_wait; auto|].
      eapply WS_delim_stop. rewrite skipn_app_le, Ep by exact Lp. exact Es.
    + injection Es as -> Es.
      exists [], (FDelim a), []. split; [apply WS_delim_wait; auto|]. split; [reflexivity|]. right.
      split; [exact I|]. split; [apply WS_delim_wait; auto|].
      eapply WS_delim_stop. rewrite skipn_app_le, Ep by exact Lp. simpl. rewrite Es. reflexivity.
    + injection Es as -> -> Es.
      exists [], FStopped, []. split; [eapply WS_delim_stop; exact Ep|]. split; [reflexivity|]. left. auto.
  - (* delim crlf *)
    rewrite skipn_app_le in Es by exact Lp.
    destruct (skipn a p) as [|x [|y X]] eqn:Ep.
    + exists [], (FDelim a), secs. split; [apply WS_delim_wait; auto|]. split; [reflexivity|]. right.
      split; [exact I|]. split; [apply WS_delim_wait; auto|].
      eapply WS_delim_crlf; [|exact W]. rewrite skipn_app_le, Ep by exact Lp. exact Es.
    + injection Es as -> Es.
      exists [], (FDelim a), secs. split; [apply WS_delim_wait; auto|]. split; [reflexivity|]. right.
      split; [exact I|]. split; [apply WS_delim_wait; auto|].
      eapply WS_delim_crlf; [|exact W]. rewrite skipn_app_le, Ep by exact Lp. simpl. rewrite Es. reflexivity.
    + injection Es as -> -> Es.
      assert (La : a + 2 <= length p).
      { assert (length (skipn a p) = S (S (length X))) by now rewrite Ep. rewrite skipn_length in H. lia. }
      destruct (IH La) as (secs1 & s1 & secs2 & W1 & Esecs & Hor).
      exists secs1, s1, secs2. split; [eapply WS_delim_crlf; [exact Ep | exact W1]|]. split; [exact Esecs | exact Hor].
  - (* hdr wait *)
    rewrite skipn_app_le in E, Hc by exact Lp.
    exists [], (FHeaders hs), []. split.
    { apply WS_hdr_wait; [exact Lp | eapply findb_app_none; exact E | eapply hdr_clean_app_l; exact Hc]. }
    split; [reflexivity|]. right. split; [exact I|]. split.
    { apply WS_hdr_wait; [exact Lp | eapply findb_app_none; exact E | eapply hdr_clean_app_l; exact Hc]. }
    apply WS_hdr_wait; [exact L | rewrite skipn_app_le by exact Lp; exact E | rewrite skipn_app_le by exact Lp; exact Hc].
  - (* hdr found *)
    rewrite skipn_app_le in E, Hc by exact Lp.
    destruct (Nat.le_gt_cases (e + 4) (length (skipn hs p))) as [Le|Le].
    + assert (Ep : findb H4 (skipn hs p) = Some e) by (eapply findb_app_inv; [exact E | exact Le]).
      rewrite firstn_app in Hc. replace (e + 4 - length (skipn hs p)) with 0 in Hc by lia.
      cbn [firstn] in Hc. rewrite app_nil_r in Hc.
      rewrite skipn_length in Le.
      destruct (IH ltac:(cbn [anchor]; lia)) as (secs1 & s1 & secs2 & W1 & Esecs & Hor).
      exists (sec Headers hs (hs + e) :: secs1), s1, secs2.
      split; [apply WS_hdr_found; assumption|]. split; [rewrite Esecs; reflexivity | exact Hor].
    + assert (Ep : findb H4 (skipn hs p) = None) by (eapply findb_app_later; [exact E | exact Le]).
      assert (Hcp : hdr_clean (skipn hs p) = true).
      { apply (hdr_clean_firstn (length (skipn hs p))) in Hc.
        rewrite firstn_firstn, Nat.min_l in Hc by lia.
        rewrite firstn_app, firstn_all, Nat.sub_diag in Hc. cbn [firstn] in Hc. now rewrite app_nil_r in Hc. }
      exists [], (FHeaders hs), (sec Headers hs (hs + e) :: secs).
      split; [apply WS_hdr_wait; assumption|]. split; [reflexivity|]. right. split; [exact I|].
      split; [apply WS_hdr_wait; assumption|].
      apply WS_hdr_found; try assumption; rewrite skipn_app_le by exact Lp; assumption.
  - (* data wait *)
    rewrite skipn_app_le in E by exact Lp.
    exists [], (FData ds), []. split; [apply WS_data_wait; [exact Lp | eapply findb_app_none; exact E]|].
    split; [reflexivity|]. right. split; [exact I|].
    split; [apply WS_data_wait; [exact Lp | eapply findb_app_none; exact E]|].
    apply WS_data_wait; [exact L | rewrite skipn_app_le by exact Lp; exact E].
  - (* data found *)
    rewrite skipn_app_le in E by exact Lp.
    destruct (Nat.le_gt_cases (q + n) (length (skipn ds p))) as [Le|Le].
    + assert (Ep : findb tok (skipn ds p) = Some q) by (eapply findb_app_inv; [exact E | exact Le]).
      rewrite skipn_length in Le.
      destruct (IH ltac:(cbn [anchor]; lia)) as (secs1 & s1 & secs2 & W1 & Esecs & Hor).
      exists (sec Data ds (ds + q) :: secs1), s1, secs2.
      split; [apply WS_data_found; assumption|]. split; [rewrite Esecs; reflexivity | exact Hor].
    + assert (Ep : findb tok (skipn ds p) = None) by (eapply findb_app_later; [exact E | exact Le]).
      exists [], (FData ds), (sec Data ds (ds + q) :: secs).
      split; [apply WS_data_wait; assumption|]. split; [reflexivity|]. right. split; [exact I|].
      split; [apply WS_data_wait; assumption|].
      apply WS_data_found; try assumption; rewrite skipn_app_le by exact Lp; assumption.
Qed.

End Scan.
