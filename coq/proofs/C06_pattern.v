(* C06_pattern.v — string-search theory used by the C06 proofs.
   [compat t x]: t and x agree on their common length (x is a prefix of t or
   t a prefix of x).  [fcp t s]: the first position of s at which the rest of
   s is compatible with t — a complete occurrence of t, or a partial one
   running into the end of s (the "carry").  Both [findb] (first occurrence)
   and the carried remainder are functions of [fcp]; [fcp_app] says how the
   search resumes when more bytes arrive. *)
From Verif Require Import lib.Base lib.ListX lib.Str.
Require Import Lia.

Fixpoint compat (t x : list N) : bool :=
  match t, x with
  | a :: t', b :: x' => N.eqb a b && compat t' x'
  | _, _ => true
  end.

Fixpoint fcp (t s : list N) : option nat :=
  match s with
  | [] => None
  | _ :: s' => if compat t s then Some 0 else option_map S (fcp t s')
  end.

Lemma compat_nil_r t : compat t [] = true.
Proof. destruct t; reflexivity. Qed.

Lemma compat_refl t : compat t t = true.
Proof. induction t as [|a t IH]; simpl; [reflexivity|]. now rewrite N.eqb_refl. Qed.

Lemma compat_long t x : length t <= length x -> compat t x = prefixb t x.
Proof.
  unfold prefixb. revert x; induction t as [|a t IH]; intros [|b x] L; simpl in *; try reflexivity; try lia.
  rewrite IH by lia. reflexivity.
Qed.

Lemma compat_short t x : length x <= length t -> compat t x = prefixb x t.
Proof.
  unfold prefixb. revert x; induction t as [|a t IH]; intros [|b x] L; simpl in *; try reflexivity; try lia.
  rewrite IH by lia. now rewrite N.eqb_sym.
Qed.

Lemma compat_app t x c : compat t (x ++ c) = compat t x && compat (skipn (length x) t) c.
Proof.
  revert t; induction x as [|b x IH]; intros t; simpl.
  - now rewrite compat_nil_r.
  - destruct t as [|a t]; simpl; [reflexivity|].
    rewrite IH. now rewrite andb_assoc.
Qed.

Lemma compat_false_app t x c : compat t x = false -> compat t (x ++ c) = false.
Proof. intros H. now rewrite compat_app, H. Qed.

Lemma compat_firstn t k : compat t (firstn k t) = true.
Proof.
  revert k; induction t as [|a t IH]; intros [|k]; simpl; try reflexivity.
  now rewrite N.eqb_refl, IH.
Qed.

(* a compatible string that is not longer than t is a prefix of t *)
Lemma compat_is_firstn t x : compat t x = true -> length x <= length t -> x = firstn (length x) t.
Proof.
  revert x; induction t as [|a t IH]; intros [|b x] H L; simpl in *; try reflexivity; try lia.
  apply andb_true_iff in H. destruct H as [E H]. apply N.eqb_eq in E. subst b.
  f_equal. apply IH; [exact H | lia].
Qed.

Lemma compat_is_prefix t x : compat t x = true -> length t <= length x -> firstn (length t) x = t.
Proof.
  intros H L. rewrite compat_long in H by exact L. now apply prefixb_firstn.
Qed.

(* ---- fcp ---- *)

Lemma fcp_some t s p :
  fcp t s = Some p ->
  p < length s /\ compat t (skipn p s) = true /\ forall j, j < p -> compat t (skipn j s) = false.
Proof.
  revert p; induction s as [|x s IH]; intros p; simpl; [discriminate|].
  destruct (compat t (x :: s)) eqn:E.
  - intros [= <-]. simpl. repeat split; [lia | exact E | intros j Hj; lia].
  - destruct (fcp t s) as [k|] eqn:Ek; [|discriminate]. intros [= <-].
    destruct (IH k eq_refl) as (H1 & H2 & H3). repeat split; [lia | exact H2 |].
    intros [|j] Hj; simpl; [exact E | apply H3; lia].
Qed.

Lemma fcp_none t s : fcp t s = None -> forall j, j < length s -> compat t (skipn j s) = false.
Proof.
  induction s as [|x s IH]; simpl; [intros _ j Hj; lia|].
  destruct (compat t (x :: s)) eqn:E; [discriminate|].
  destruct (fcp t s) eqn:Ek; [discriminate|]. intros _ [|j] Hj; simpl; [exact E | apply IH; [reflexivity | lia]].
Qed.

Lemma fcp_intro t s p :
  p < length s -> compat t (skipn p s) = true ->
  (forall j, j < p -> compat t (skipn j s) = false) -> fcp t s = Some p.
Proof.
  intros Hp Hc Hj. destruct (fcp t s) as [q|] eqn:E.
  - destruct (fcp_some _ _ _ E) as (H1 & H2 & H3).
    destruct (Nat.lt_trichotomy p q) as [L|[->|L]]; [| reflexivity |].
    + rewrite H3 in Hc by exact L. discriminate.
    + rewrite Hj in H2 by exact L. discriminate.
  - rewrite (fcp_none _ _ E p Hp) in Hc. discriminate.
Qed.

Lemma fcp_none_intro t s : (forall j, j < length s -> compat t (skipn j s) = false) -> fcp t s = None.
Proof.
  intros H. destruct (fcp t s) as [q|] eqn:E; [|reflexivity].
  destruct (fcp_some _ _ _ E) as (H1 & H2 & _). rewrite H in H2 by exact H1. discriminate.
Qed.

(* nothing in Y is compatible once c is appended: the search moves on into c *)
Lemma fcp_skip t Y c :
  (forall j, j < length Y -> compat t (skipn j Y ++ c) = false) ->
  fcp t (Y ++ c) = option_map (fun q => length Y + q) (fcp t c).
Proof.
  induction Y as [|y Y IH]; intros H; simpl.
  - destruct (fcp t c); reflexivity.
  - pose proof (H 0 ltac:(simpl; lia)) as H0. simpl in H0. rewrite H0.
    rewrite IH.
    + destruct (fcp t c); reflexivity.
    + intros j Hj. apply (H (S j)). simpl. lia.
Qed.

(* first occurrence in terms of fcp *)
Lemma findb_fcp t s :
  t <> [] ->
  findb t s = match fcp t s with
              | Some p => if p + length t <=? length s then Some p else None
              | None => None
              end.
Proof.
  intros Ht. destruct (findb t s) as [q|] eqn:Eq.
  - destruct (findb_some _ _ _ Eq) as [H1 H2]. pose proof (findb_bound _ _ _ Eq) as Hb.
    assert (Hl : 0 < length t) by (destruct t; [congruence | simpl; lia]).
    assert (Hq : compat t (skipn q s) = true).
    { rewrite compat_long; [exact H1 | rewrite skipn_length; lia]. }
    destruct (fcp t s) as [p|] eqn:Ep.
    + destruct (fcp_some _ _ _ Ep) as (P1 & P2 & P3).
      destruct (Nat.lt_trichotomy p q) as [L|[->|L]].
      * (* p < q : p is compatible; it is complete since q+|t| <= |s| *)
        assert (prefixb t (skipn p s) = true).
        { rewrite <- compat_long; [exact P2 | rewrite skipn_length; lia]. }
        rewrite H2 in H by exact L. discriminate.
      * destruct (Nat.leb_spec (q + length t) (length s)); [reflexivity | lia].
      * rewrite P3 in Hq by exact L. discriminate.
    + rewrite (fcp_none _ _ Ep q) in Hq by lia. discriminate.
  - destruct (fcp t s) as [p|] eqn:Ep; [|reflexivity].
    destruct (Nat.leb_spec (p + length t) (length s)) as [L|L]; [|reflexivity].
    destruct (fcp_some _ _ _ Ep) as (P1 & P2 & P3).
    rewrite compat_long in P2 by (rewrite skipn_length; lia).
    rewrite (findb_none _ _ Eq p) in P2. discriminate.
Qed.

(* ---- resuming a search ---- *)
Section Resume.
Variable t : list N.
(* a partial match of length k that is broken by c leaves no shorter partial match
   that c continues (true of CRLF--B because CR occurs once, and of CRLFCRLF) *)
Hypothesis Hres : forall d k c, 0 < d -> d < k -> k < length t ->
  compat t (skipn d (firstn k t) ++ c) = true -> compat (skipn k t) c = true.

Definition resume (X c : list N) : option nat :=
  match fcp t X with
  | None => option_map (fun q => length X + q) (fcp t c)
  | Some p =>
    if p + length t <=? length X then Some p
    else if compat (skipn (length X - p) t) c then Some p
    else option_map (fun q => length X + q) (fcp t c)
  end.

Lemma fcp_app X c : fcp t (X ++ c) = resume X c.
Proof.
  unfold resume. induction X as [|x X IH].
  - simpl. destruct (fcp t c); reflexivity.
  - change ((x :: X) ++ c) with (x :: X ++ c).
    cbn [fcp]. change (x :: X ++ c) with ((x :: X) ++ c).
    destruct (compat t (x :: X)) eqn:E.
    + (* position 0 is compatible in X *)
      rewrite compat_app, E. cbn [andb].
      destruct (Nat.leb_spec (0 + length t) (length (x :: X))) as [L|L].
      * rewrite skipn_all2 by (simpl in *; lia). now rewrite (match c with [] => eq_refl | _ => eq_refl end : compat [] c = true).
      * rewrite Nat.sub_0_r.
        destruct (compat (skipn (length (x :: X)) t) c) eqn:Ec; [reflexivity|].
        (* broken: no position inside X continues *)
        pose proof (compat_is_firstn _ _ E ltac:(lia)) as HX.
        change ((x :: X) ++ c) with (x :: (X ++ c)).
        rewrite fcp_skip.
        { destruct (fcp t c); simpl; [f_equal|reflexivity]. }
        intros j Hj.
        destruct (compat t (skipn j X ++ c)) eqn:Ej; [|reflexivity].
        assert (Hs : skipn j X = skipn (S j) (firstn (length (x :: X)) t)).
        { rewrite <- HX. reflexivity. }
        rewrite Hs in Ej. apply Hres in Ej; [congruence | lia | simpl; lia | simpl in *; lia].
    + rewrite compat_false_app by exact E.
      change (length (x :: X)) with (S (length X)).
      rewrite IH. destruct (fcp t X) as [p|] eqn:Ep; cbn [option_map].
      * change (S p + length t <=? S (length X)) with (p + length t <=? length X).
        destruct (p + length t <=? length X); [reflexivity|].
        change (S (length X) - S p) with (length X - p).
        destruct (compat (skipn (length X - p) t) c); [reflexivity|].
        destruct (fcp t c); reflexivity.
      * destruct (fcp t c); reflexivity.
Qed.

End Resume.

(* the carried remainder after a search that did not find t: [Some k] when the
   last k bytes (0 < k < |t|) are the longest partial match *)
Definition carry_len (t s : list N) : option nat :=
  match fcp t s with
  | Some p => if p + length t <=? length s then None else Some (length s - p)
  | None => None
  end.

Definition trest_of (t : list N) (k : option nat) : option (list N) :=
  option_map (fun k => skipn k t) k.

(* ---------------------------------------------------------------- list helpers *)

Lemma slice_0 {A} (s : list A) j : slice s 0 j = firstn j s.
Proof. unfold slice. now rewrite Nat.sub_0_r. Qed.

Lemma slice_skipn {A} (s : list A) i j : slice s i j = firstn (j - i) (skipn i s).
Proof. reflexivity. Qed.

Lemma nth_error_skipn {A} (s : list A) i d : nth_error (skipn i s) d = nth_error s (i + d).
Proof.
  revert s; induction i as [|i IH]; intros s; simpl; [reflexivity|].
  destruct s; simpl; [now destruct d | apply IH].
Qed.

Lemma nth_error_firstn {A} (s : list A) k d :
  nth_error (firstn k s) d = if d <? k then nth_error s d else None.
Proof.
  revert s d; induction k as [|k IH]; intros s d; simpl.
  - now destruct d.
  - destruct s as [|x s]; simpl.
    + destruct (d <? S k); destruct d; reflexivity.
    + destruct d; [reflexivity|]. cbn [nth_error]. rewrite IH. reflexivity.
Qed.

Lemma compat_nth t x d :
  compat t x = true -> d < length t -> d < length x -> nth_error x d = nth_error t d.
Proof.
  revert x d; induction t as [|a t IH]; intros [|b x] d H Lt Lx; simpl in *; try lia.
  apply andb_true_iff in H. destruct H as [E H]. apply N.eqb_eq in E. subst b.
  destruct d; simpl; [reflexivity | apply IH; [exact H | lia | lia]].
Qed.

Lemma str_eqb_prefixb_firstn r s :
  length r <= length s -> str_eqb (firstn (length r) s) r = prefixb r s.
Proof.
  intros L. destruct (prefixb r s) eqn:E.
  - apply prefixb_firstn in E. rewrite E. apply str_eqb_refl.
  - destruct (str_eqb_spec (firstn (length r) s) r) as [H|H]; [|reflexivity].
    apply prefixb_firstn in H. congruence.
Qed.

Lemma slice_suffix {A} (s : list A) start end_ i :
  i <= end_ - start ->
  slice s (start + (end_ - start - i)) end_ = skipn (end_ - start - i) (slice s start end_).
Proof.
  intros Hi. unfold slice. set (L := end_ - start). set (a := L - i).
  transitivity (skipn a (firstn (a + (L - a)) (skipn start s))).
  - rewrite <- firstn_skipn_comm. rewrite skipn_skipn. f_equal. unfold a, L. lia.
  - f_equal. f_equal. unfold a, L. lia.
Qed.

