(* C18_spec.v — the specification side of C18: what "the same pairs" means.
   Definitions only (no model code is mentioned here except the value type). *)
From Verif Require Import lib.Base lib.Str lib.Utf8 model.Qsl.

(* ================================================================== *)
(* Specification: grouping of submitted pairs                           *)
(* ================================================================== *)

(* values submitted under key k, in submission order *)
Fixpoint values_of (k : str) (ps : list (str * str)) : list str :=
  match ps with
  | [] => []
  | (k', v) :: r => if str_eqb k' k then v :: values_of k r else values_of k r
  end.

(* keep the first occurrence of every key *)
Fixpoint dedup (l : list str) : list str :=
  match l with
  | [] => []
  | k :: r => k :: filter (fun k' => negb (str_eqb k' k)) (dedup r)
  end.

(* a single value is a string, a repeated key a list *)
Definition mkval (vs : list str) : fval :=
  match vs with
  | [v] => VStr v
  | _ => VList vs
  end.

Definition group (ps : list (str * str)) : fdict :=
  map (fun k => (k, mkval (values_of k ps))) (dedup (map fst ps)).

(* what can be sent: non-empty keys, scalar text *)
Definition sendable (ps : list (str * str)) : Prop :=
  Forall (fun kv => fst kv <> [] /\ Forall scalar (fst kv) /\ Forall scalar (snd kv)) ps.


(* ================================================================== *)
(* Specification of parse_qsl on ARBITRARY strings                      *)
(* ================================================================== *)

(* split on '&'; in each segment drop leading '='s (the "empty key" rule of
   helpers.py skips a leading '=' and starts over); an empty remainder gives
   nothing; otherwise split at the first '=' (no '=': blank value) and
   percent-decode both sides *)
Definition seg_pairs (seg : str) : list (str * str) :=
  match lstrip_set (fun c => N.eqb c 61) seg with
  | [] => []
  | seg' =>
    match split_once N.eqb 61%N seg' with
    | (k, None) => [(decode_component k, [])]
    | (k, Some v) => [(decode_component k, decode_component v)]
    end
  end.

Definition qsl_spec (qs : str) : list (str * str) :=
  flat_map seg_pairs (split_all N.eqb 38%N qs).
