(* C20_pins.v -- every literal text of model/ErrPage.v that stands for a text of
   the source equals the constant the translator read from /repo (re-checked on
   every build), and the framework's own error bodies, taken from
   Gen.framework_errors, are plain text. *)
From Coq Require Import String.
From Verif Require Import lib.Base lib.Str lib.Html lib.PyRepr model.ErrPage proofs.C20_escape proofs.C20_html.
From Verif Require gen.Gen.

Definition w_handle : str := Eval compute in lit "_handle".
Definition w_cast : str := Eval compute in lit "_cast".
Definition w_resolve : str := Eval compute in lit "resolve".
Definition pct_s : str := Eval compute in lit "%s".
Definition h_content_type : str := Eval compute in lit "Content-Type".

(* the errors the model knows, in the order the translator lists them *)
Definition modelled_framework_errors : list (str * (Z * str)) :=
  [(w_handle, (400%Z, body_400_path)); (w_handle, (500%Z, body_500_crash));
   (w_cast, (500%Z, body_500_loops)); (w_cast, (500%Z, body_500_unhandled));
   (w_resolve, (405%Z, body_405)); (w_resolve, (404%Z, body_404))].

Definition texts_pinned : Prop :=
  Gen.framework_errors = modelled_framework_errors
  /\ Gen.unsupported_type_error = (500%Z, body_500_type_prefix)
  /\ Gen.critical_page_fmt = crit_head ++ pct_s ++ crit_head_end
  /\ Gen.critical_debug_fmt = crit_err_open ++ pct_s ++ crit_tb_open ++ pct_s ++ crit_close
  /\ Gen.critical_headers = [(h_content_type, crit_ctype)]
  /\ Gen.json_error_keys = [k_body; f_exception; f_traceback].

Lemma texts_pinned_lemma : texts_pinned.
Proof. unfold texts_pinned. repeat split; vm_compute; reflexivity. Qed.

(* ---- plainness, stated over the translator's lists ---- *)

Definition fw_entry_plain (p : str * (Z * str)) : bool :=
  markup_free (snd (snd p))
  && match assocZ (fst (snd p)) Gen.status_lines with
     | Some line => markup_free line
     | None => false
     end.

Lemma framework_errors_all_plain : forallb fw_entry_plain Gen.framework_errors = true.
Proof. vm_compute. reflexivity. Qed.

Lemma errors_map_all_plain : forallb fw_entry_plain Gen.errors_map = true.
Proof. vm_compute. reflexivity. Qed.

Lemma framework_errors_plain_lemma :
  forall w code body,
    In (w, (code, body)) Gen.framework_errors \/ In (w, (code, body)) Gen.errors_map ->
    markup_free body = true
    /\ exists line, assocZ code Gen.status_lines = Some line /\ markup_free line = true.
Proof.
  intros w code body H.
  assert (P : fw_entry_plain (w, (code, body)) = true).
  { destruct H as [H|H].
    - pose proof framework_errors_all_plain as A. rewrite forallb_forall in A. exact (A _ H).
    - pose proof errors_map_all_plain as A. rewrite forallb_forall in A. exact (A _ H). }
  unfold fw_entry_plain in P. cbn [fst snd] in P. apply andb_true_iff in P. destruct P as [P1 P2].
  split; [exact P1|]. destruct (assocZ code Gen.status_lines) as [line|]; [|discriminate].
  exists line. split; [reflexivity | exact P2].
Qed.

(* every error object the model builds (other than the unsupported-type one) carries a body
   from one of the translator's two lists *)
Lemma modelled_errors_from_source k x tb e :
  not_type_kind k = true -> err_of_kind k x tb = Some e ->
  exists w code,
    (In (w, (code, e_body e)) Gen.framework_errors \/ In (w, (code, e_body e)) Gen.errors_map)
    /\ assocZ code Gen.status_lines = Some (e_status e).
Proof.
  destruct texts_pinned_lemma as (F & _).
  intros Hk. unfold err_of_kind, http_error, status_lines.
  assert (InF : forall p, In p modelled_framework_errors -> In p Gen.framework_errors) by (now rewrite F).
  destruct k; try discriminate Hk;
    try (match goal with
         | |- context [match ?t with Some _ => _ | None => _ end] =>
           destruct t as [line|] eqn:El; [|discriminate]
         end;
         intros He; injection He as He; subst e; cbn [e_body e_status]).
  - exists w_resolve, 404%Z. split; [left; apply InF; simpl; tauto | first [exact El | vm_compute; reflexivity]].
  - exists w_resolve, 405%Z. split; [left; apply InF; simpl; tauto | first [exact El | vm_compute; reflexivity]].
  - exists w_handle, 400%Z. split; [left; apply InF; simpl; tauto | first [exact El | vm_compute; reflexivity]].
  - destruct (nth_error Gen.errors_map i) as [[c [code body]]|] eqn:E; [|discriminate].
    match goal with |- context [match ?t with Some _ => _ | None => _ end] => destruct t as [line|] eqn:El; [|discriminate] end.
    intros He; injection He as He; subst e. exists c, code. cbn [e_body e_status]. split; [right; now apply nth_error_In in E | exact El].
  - exists w_handle, 500%Z. split; [left; apply InF; simpl; tauto | first [exact El | vm_compute; reflexivity]].
  - exists w_cast, 500%Z. split; [left; apply InF; simpl; tauto | first [exact El | vm_compute; reflexivity]].
  - exists w_cast, 500%Z. split; [left; apply InF; simpl; tauto | first [exact El | vm_compute; reflexivity]].
Qed.
