(* PyIntParse.v — Python's int(s) for a str argument, base 10, and decimal
   printing (str(n) for n >= 0).  Owned by cluster staticG (C16/C17).

   CPython 3.12, Objects/longobject.c + Objects/unicodeobject.c:
     int(str) = PyLong_FromUnicodeObject(s, 10)
       1. _PyUnicode_TransformDecimalAndSpaceToASCII: code points < 127 are
          kept; other code points with Py_UNICODE_ISSPACE become ' '; other
          code points with a decimal-digit value become that ASCII digit; any
          other code point becomes '?' (and the parse fails).
       2. PyLong_FromString(.., 10): skip Py_ISSPACE (ASCII 9..13, 32); one
          optional '+' or '-'; then  D ( '_'? D )*  ; skip Py_ISSPACE; end of
          string required (an embedded NUL ends the C string early => error).
       3. more than sys.int_info.default_max_str_digits = 4300 digit
          characters (underscores not counted) => ValueError.
   NOT MODELLED: non-ASCII decimal digits (category Nd above U+00FF, e.g.
   ARABIC-INDIC DIGIT THREE): the model answers None where Python converts.
   No code point below 256 outside '0'..'9' is a decimal digit, so the model is
   exact on every latin-1 string (all WSGI environ values, PEP 3333). *)
From Verif Require Import lib.Base lib.Str.
Local Open Scope N_scope.

(* Py_UNICODE_ISSPACE (also the set removed by str.strip() without argument) *)
Definition is_py_space (c : N) : bool :=
  ((9 <=? c) && (c <=? 13)) || ((28 <=? c) && (c <=? 32)) || (c =? 133) || (c =? 160)
  || (c =? 5760) || ((8192 <=? c) && (c <=? 8202)) || (c =? 8232) || (c =? 8233)
  || (c =? 8239) || (c =? 8287) || (c =? 12288).

(* Py_ISSPACE (ASCII ctype table) *)
Definition is_c_space (c : N) : bool := ((9 <=? c) && (c <=? 13)) || (c =? 32).

Definition is_digit (c : N) : bool := (48 <=? c) && (c <=? 57).

(* step 1; '?' = 63 stands for "not convertible" *)
Definition tr_char (c : N) : N :=
  if c <? 127 then c else if is_py_space c then 32 else 63.

(* step 2, the digit run.  [nd] = digits seen so far, [after_us] = the previous
   character was an underscore.  Returns (value, digit count, rest). *)
Fixpoint digs (s : str) (acc nd : N) (after_us : bool) : option (N * N * str) :=
  match s with
  | [] => if after_us || (nd =? 0) then None else Some (acc, nd, [])
  | c :: r =>
    if is_digit c then digs r (acc * 10 + (c - 48)) (nd + 1) false
    else if c =? 95 then (if after_us || (nd =? 0) then None else digs r acc nd true)
    else if after_us || (nd =? 0) then None else Some (acc, nd, s)
  end.

Definition max_str_digits : N := 4300.

Definition py_int_dec (s : str) : option Z :=
  let t := lstrip_set is_c_space (map tr_char s) in
  let '(neg, t1) := match t with
                    | c :: r => if c =? 43 then (false, r)          (* '+' *)
                                else if c =? 45 then (true, r)      (* '-' *)
                                else (false, t)
                    | [] => (false, t)
                    end in
  match digs t1 0 0 false with
  | None => None
  | Some (v, nd, rest) =>
    if negb (forallb is_c_space rest) then None
    else if max_str_digits <? nd then None
    else Some (if neg then Z.opp (Z.of_N v) else Z.of_N v)
  end.

(* ---- str(n), n >= 0 ---- *)
Fixpoint dec_digits (fuel : nat) (n : N) (acc : str) : str :=
  match fuel with
  | O => acc
  | S f => let acc' := (48 + n mod 10) :: acc in
           if n / 10 =? 0 then acc' else dec_digits f (n / 10) acc'
  end.

(* fuel: a number has at most log2 n + 1 decimal digits *)
Definition dec_of_N (n : N) : str := dec_digits (S (N.to_nat (N.log2 n))) n [].

(* str(z) for any integer *)
Definition dec_of_Z (z : Z) : str :=
  match z with
  | Zneg p => 45 :: dec_of_N (Npos p)
  | _ => dec_of_N (Z.to_N z)
  end.
