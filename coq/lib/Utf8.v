(* Utf8.v — the UTF-8 codec over code points / byte values ([N]), and Latin-1.

   A Python [str] is a list of code points, a [bytes] a list of values < 256.

     utf8_enc c          bytes of one code point (meaningful for scalar values;
                         str.encode('utf-8') raises on surrogates, see utf8_encode)
     utf8_enc_str s      str.encode('utf-8') for scalar text
     utf8_encode s       str.encode('utf-8') : None = UnicodeEncodeError
     utf8_scan bs        the decoder loop of CPython (Objects/stringlib/codecs.h,
                         utf8_decode + the error positions chosen in
                         unicode_decode_utf8): one item per decoded code point,
                         [None] for every decoding error (= every place where
                         errors='replace' inserts U+FFFD / 'strict' raises)
     utf8_dec bs         bytes.decode('utf-8')            None = UnicodeDecodeError
     utf8_dec_replace bs bytes.decode('utf-8','replace')

   Owned by cluster qslH.  Statements below are stable (imported by C07/C12/C14).

   Note for importers: this file requires Coq's ZifyN, which (a standard-library
   side effect) makes [lia] understand N/Z division and modulo by constants in
   every file that loads it. *)
From Verif Require Import lib.Base.
From Coq Require Import ZifyBool ZifyN.
Local Open Scope N_scope.

(* ------------------------------------------------------------------ *)
(* Scalar values                                                       *)
(* ------------------------------------------------------------------ *)

Definition scalar (c : N) : Prop := c < 0xD800 \/ (0xE000 <= c /\ c <= 0x10FFFF).
Definition scalarb (c : N) : bool := (c <? 0xD800) || ((0xE000 <=? c) && (c <=? 0x10FFFF)).

Lemma scalarb_spec c : scalarb c = true <-> scalar c.
Proof. unfold scalarb, scalar. lia. Qed.

(* ------------------------------------------------------------------ *)
(* Encoder                                                             *)
(* ------------------------------------------------------------------ *)

Definition utf8_enc (c : N) : list N :=
  if c <? 0x80 then [c]
  else if c <? 0x800 then [0xC0 + c / 64; 0x80 + c mod 64]
  else if c <? 0x10000 then [0xE0 + c / 4096; 0x80 + (c / 64) mod 64; 0x80 + c mod 64]
  else [0xF0 + (c / 262144) mod 8; 0x80 + (c / 4096) mod 64; 0x80 + (c / 64) mod 64; 0x80 + c mod 64].
(* [(c / 262144) mod 8] is [c / 262144] for every code point (c <= 0x10FFFF gives a
   quotient <= 4); the [mod 8] only makes the byte-range lemmas unconditional for
   numbers that are not code points at all. *)

Definition utf8_enc_str (s : str) : list N := flat_map utf8_enc s.

(* str.encode('utf-8'): raises (None) on surrogates; code points above
   0x10FFFF do not exist in a Python str and are rejected as well *)
Definition utf8_encode (s : str) : option (list N) :=
  if forallb scalarb s then Some (utf8_enc_str s) else None.

(* ------------------------------------------------------------------ *)
(* Decoder                                                             *)
(* ------------------------------------------------------------------ *)

Definition is_cont (b : N) : bool := (0x80 <=? b) && (b <? 0xC0).

(* second byte acceptable after lead byte b0 of a 3-byte sequence:
   continuation, not an overlong (E0 80..9F), not a surrogate (ED A0..BF) *)
Definition ok2_3 (b0 b1 : N) : bool :=
  is_cont b1 && negb ((b0 =? 0xE0) && (b1 <? 0xA0)) && negb ((b0 =? 0xED) && (0xA0 <=? b1)).

(* second byte acceptable after lead byte b0 of a 4-byte sequence:
   continuation, not an overlong (F0 80..8F), not above 10FFFF (F4 90..BF) *)
Definition ok2_4 (b0 b1 : N) : bool :=
  is_cont b1 && negb ((b0 =? 0xF0) && (b1 <? 0x90)) && negb ((b0 =? 0xF4) && (0x90 <=? b1)).

(* CPython: InvalidStart consumes 1 byte, InvalidContinuationN consumes N bytes,
   "unexpected end of data" consumes everything that is left (always a valid
   proper prefix of a sequence) — the maximal-subpart rule. *)
Fixpoint utf8_scan (bs : list N) : list (option N) :=
  match bs with
  | [] => []
  | b0 :: r0 =>
    if b0 <? 0x80 then Some b0 :: utf8_scan r0
    else if b0 <? 0xC2 then None :: utf8_scan r0              (* continuation byte or C0/C1 *)
    else if b0 <? 0xE0 then                                    (* C2..DF : 0080-07FF *)
      match r0 with
      | [] => [None]                                           (* unexpected end *)
      | b1 :: r1 =>
        if is_cont b1 then Some ((b0 - 0xC0) * 64 + (b1 - 0x80)) :: utf8_scan r1
        else None :: utf8_scan r0                              (* InvalidContinuation1 *)
      end
    else if b0 <? 0xF0 then                                    (* E0..EF : 0800-FFFF *)
      match r0 with
      | [] => [None]
      | b1 :: r1 =>
        if ok2_3 b0 b1 then
          match r1 with
          | [] => [None]                                       (* unexpected end, 2 bytes *)
          | b2 :: r2 =>
            if is_cont b2
            then Some ((b0 - 0xE0) * 4096 + (b1 - 0x80) * 64 + (b2 - 0x80)) :: utf8_scan r2
            else None :: utf8_scan r1                          (* InvalidContinuation2 *)
          end
        else None :: utf8_scan r0                              (* InvalidContinuation1 *)
      end
    else if b0 <? 0xF5 then                                    (* F0..F4 : 10000-10FFFF *)
      match r0 with
      | [] => [None]
      | b1 :: r1 =>
        if ok2_4 b0 b1 then
          match r1 with
          | [] => [None]
          | b2 :: r2 =>
            if is_cont b2 then
              match r2 with
              | [] => [None]
              | b3 :: r3 =>
                if is_cont b3
                then Some ((b0 - 0xF0) * 262144 + (b1 - 0x80) * 4096 + (b2 - 0x80) * 64 + (b3 - 0x80))
                       :: utf8_scan r3
                else None :: utf8_scan r2                      (* InvalidContinuation3 *)
              end
            else None :: utf8_scan r1                          (* InvalidContinuation2 *)
          end
        else None :: utf8_scan r0                              (* InvalidContinuation1 *)
      end
    else None :: utf8_scan r0                                  (* F5..FF *)
  end.

Fixpoint sequence_opt {A} (l : list (option A)) : option (list A) :=
  match l with
  | [] => Some []
  | None :: _ => None
  | Some a :: r => match sequence_opt r with Some r' => Some (a :: r') | None => None end
  end.

(* strict decoder: bytes.decode('utf-8') *)
Definition utf8_dec (bs : list N) : option (list N) := sequence_opt (utf8_scan bs).

Definition repl_char : N := 0xFFFD.

(* bytes.decode('utf-8', 'replace') *)
Definition utf8_dec_replace (bs : list N) : list N :=
  map (fun o => match o with Some c => c | None => repl_char end) (utf8_scan bs).

(* bytes.decode('utf-8', 'ignore') *)
Definition utf8_dec_ignore (bs : list N) : list N :=
  flat_map (fun o => match o with Some c => [c] | None => [] end) (utf8_scan bs).

(* ------------------------------------------------------------------ *)
(* Latin-1: the identity embedding on code points < 256                 *)
(* ------------------------------------------------------------------ *)

Definition is_byte (b : N) : bool := b <? 256.
Definition latin1_dec (bs : list N) : str := bs.                  (* bytes.decode('latin1') *)
Definition latin1_enc (s : str) : option (list N) :=              (* str.encode('latin1')   *)
  if forallb is_byte s then Some s else None.

Lemma latin1_enc_dec bs : Forall (fun b => b < 256) bs -> latin1_enc (latin1_dec bs) = Some bs.
Proof.
  intros H. unfold latin1_enc, latin1_dec.
  replace (forallb is_byte bs) with true; [reflexivity|].
  symmetry. apply forallb_forall. intros x Hx. rewrite Forall_forall in H.
  specialize (H x Hx). unfold is_byte. lia.
Qed.

Lemma latin1_dec_enc s bs : latin1_enc s = Some bs -> latin1_dec bs = s.
Proof. unfold latin1_enc, latin1_dec. destruct (forallb is_byte s); congruence. Qed.

(* ------------------------------------------------------------------ *)
(* Lemmas about the encoder                                            *)
(* ------------------------------------------------------------------ *)

(* lia with N.div / N.modulo by constants.  (Deliberately not installed as
   Zify.zify_post_hook: that redefinition would leak into every importer.) *)
Ltac dlia := zify; Z.div_mod_to_equations; lia.

Lemma utf8_enc_ascii c : c < 128 -> utf8_enc c = [c].
Proof. intros H. unfold utf8_enc. replace (c <? 0x80) with true by dlia. reflexivity. Qed.

Lemma utf8_enc_high c : 128 <= c -> Forall (fun b => 128 <= b < 256) (utf8_enc c).
Proof.
  intros H. unfold utf8_enc.
  destruct (N.ltb_spec c 0x80); [dlia|].
  destruct (N.ltb_spec c 0x800); [|destruct (N.ltb_spec c 0x10000)];
    repeat constructor; dlia.
Qed.

Lemma utf8_enc_bytes c : scalar c -> Forall (fun b => b < 256) (utf8_enc c).
Proof.
  intros _. unfold utf8_enc.
  destruct (N.ltb_spec c 0x80); [|destruct (N.ltb_spec c 0x800); [|destruct (N.ltb_spec c 0x10000)]];
    repeat constructor; dlia.
Qed.

(* unconditional variant (any number) *)
Lemma utf8_enc_bytes_all c : Forall (fun b => b < 256) (utf8_enc c).
Proof.
  unfold utf8_enc.
  destruct (N.ltb_spec c 0x80); [|destruct (N.ltb_spec c 0x800); [|destruct (N.ltb_spec c 0x10000)]];
    repeat constructor; dlia.
Qed.

Lemma utf8_enc_nonempty c : utf8_enc c <> [].
Proof.
  unfold utf8_enc.
  destruct (c <? 0x80); [|destruct (c <? 0x800); [|destruct (c <? 0x10000)]]; discriminate.
Qed.

Lemma utf8_enc_length c : (1 <= length (utf8_enc c) <= 4)%nat.
Proof.
  unfold utf8_enc.
  destruct (c <? 0x80); [|destruct (c <? 0x800); [|destruct (c <? 0x10000)]]; simpl; dlia.
Qed.

Lemma utf8_enc_str_app a b : utf8_enc_str (a ++ b) = utf8_enc_str a ++ utf8_enc_str b.
Proof. unfold utf8_enc_str. apply flat_map_app. Qed.

Lemma utf8_enc_str_ascii s : Forall (fun c => c < 128) s -> utf8_enc_str s = s.
Proof.
  induction 1 as [|c s Hc _ IH]; [reflexivity|].
  unfold utf8_enc_str in *. simpl. rewrite IH, utf8_enc_ascii by exact Hc. reflexivity.
Qed.

Lemma utf8_enc_str_bytes s : Forall (fun b => b < 256) (utf8_enc_str s).
Proof.
  induction s as [|c s IH]; [constructor|].
  unfold utf8_enc_str in *. simpl. apply Forall_app. split; [apply utf8_enc_bytes_all | exact IH].
Qed.

(* ------------------------------------------------------------------ *)
(* Decoding an encoded code point                                      *)
(* ------------------------------------------------------------------ *)

Local Ltac ltb_true := match goal with |- context [?a <? ?b] =>
  replace (a <? b) with true by (symmetry; apply N.ltb_lt; dlia) end.
Local Ltac ltb_false := match goal with |- context [?a <? ?b] =>
  replace (a <? b) with false by (symmetry; apply N.ltb_ge; dlia) end.

Lemma is_cont_low x : x < 64 -> is_cont (0x80 + x) = true.
Proof. unfold is_cont. dlia. Qed.

Lemma scan1 c r : c < 0x80 -> utf8_scan (c :: r) = Some c :: utf8_scan r.
Proof. intros H. cbn [utf8_scan]. ltb_true. reflexivity. Qed.

Lemma scan2 a b r : 2 <= a -> a < 32 -> b < 64 ->
  utf8_scan (0xC0 + a :: 0x80 + b :: r) = Some (a * 64 + b) :: utf8_scan r.
Proof.
  intros H1 H2 H3. cbn [utf8_scan].
  ltb_false. ltb_false. ltb_true. rewrite is_cont_low by exact H3.
  do 2 f_equal. dlia.
Qed.

Lemma scan3 a b d r : a < 16 -> b < 64 -> d < 64 ->
  (a = 0 -> 32 <= b) -> (a = 13 -> b < 32) ->
  utf8_scan (0xE0 + a :: 0x80 + b :: 0x80 + d :: r) = Some (a * 4096 + b * 64 + d) :: utf8_scan r.
Proof.
  intros H1 H2 H3 H4 H5. cbn [utf8_scan].
  ltb_false. ltb_false. ltb_false. ltb_true.
  replace (ok2_3 (0xE0 + a) (0x80 + b)) with true by (unfold ok2_3, is_cont; dlia).
  rewrite is_cont_low by exact H3.
  do 2 f_equal. dlia.
Qed.

Lemma scan4 a b d e r : a < 5 -> b < 64 -> d < 64 -> e < 64 ->
  (a = 0 -> 16 <= b) -> (a = 4 -> b < 16) ->
  utf8_scan (0xF0 + a :: 0x80 + b :: 0x80 + d :: 0x80 + e :: r)
  = Some (a * 262144 + b * 4096 + d * 64 + e) :: utf8_scan r.
Proof.
  intros H1 H2 H3 H4 H5 H6. cbn [utf8_scan].
  ltb_false. ltb_false. ltb_false. ltb_false. ltb_true.
  replace (ok2_4 (0xF0 + a) (0x80 + b)) with true by (unfold ok2_4, is_cont; dlia).
  rewrite !is_cont_low by assumption.
  do 2 f_equal. dlia.
Qed.

(* the scanner reads back exactly one encoded scalar value and continues *)
Lemma utf8_scan_enc c r : scalar c -> utf8_scan (utf8_enc c ++ r) = Some c :: utf8_scan r.
Proof.
  intros Hs. unfold scalar in Hs. unfold utf8_enc.
  destruct (N.ltb_spec c 0x80) as [H1|H1]; [apply scan1; exact H1|].
  destruct (N.ltb_spec c 0x800) as [H2|H2].
  { cbn [app]. rewrite scan2 by dlia. do 2 f_equal. dlia. }
  destruct (N.ltb_spec c 0x10000) as [H3|H3].
  { cbn [app]. rewrite scan3 by dlia. do 2 f_equal. dlia. }
  cbn [app]. replace ((c / 262144) mod 8) with (c / 262144) by dlia.
  rewrite scan4 by dlia. do 2 f_equal. dlia.
Qed.

Lemma utf8_scan_enc_str s r :
  Forall scalar s -> utf8_scan (utf8_enc_str s ++ r) = map Some s ++ utf8_scan r.
Proof.
  induction 1 as [|c s Hc _ IH]; [reflexivity|].
  unfold utf8_enc_str in *. cbn [flat_map map app]. rewrite <- app_assoc.
  rewrite utf8_scan_enc by exact Hc. rewrite IH. reflexivity.
Qed.

Lemma sequence_opt_map_some {A} (l : list A) : sequence_opt (map Some l) = Some l.
Proof. induction l as [|a l IH]; simpl; [reflexivity | now rewrite IH]. Qed.

(* MAIN: strict decoding inverts encoding on scalar text *)
Lemma utf8_dec_enc s : Forall scalar s -> utf8_dec (utf8_enc_str s) = Some s.
Proof.
  intros H. unfold utf8_dec.
  rewrite <- (app_nil_r (utf8_enc_str s)), utf8_scan_enc_str by exact H.
  cbn [utf8_scan]. rewrite app_nil_r. apply sequence_opt_map_some.
Qed.

Lemma utf8_dec_replace_enc s : Forall scalar s -> utf8_dec_replace (utf8_enc_str s) = s.
Proof.
  intros H. unfold utf8_dec_replace.
  rewrite <- (app_nil_r (utf8_enc_str s)), utf8_scan_enc_str by exact H.
  cbn [utf8_scan]. rewrite app_nil_r, map_map. apply map_id.
Qed.

Lemma utf8_encode_some s : Forall scalar s -> utf8_encode s = Some (utf8_enc_str s).
Proof.
  intros H. unfold utf8_encode. replace (forallb scalarb s) with true; [reflexivity|].
  symmetry. apply forallb_forall. rewrite Forall_forall in H. intros x Hx.
  apply scalarb_spec. auto.
Qed.

(* str.encode('utf-8') then bytes.decode('utf-8') is the identity whenever encode succeeds *)
Lemma utf8_encode_dec s bs : utf8_encode s = Some bs -> utf8_dec bs = Some s.
Proof.
  unfold utf8_encode. destruct (forallb scalarb s) eqn:E; [|discriminate].
  intros [= <-]. apply utf8_dec_enc. apply Forall_forall. intros x Hx.
  apply scalarb_spec. rewrite forallb_forall in E. auto.
Qed.
