(* Base64.v — Python base64.b64encode / base64.b64decode (default validate=False,
   i.e. CPython 3.12 binascii.a2b_base64 in non-strict mode) over [list N],
   with the round-trip lemma.  Group arithmetic is written with div/mod so
   that no bitwise lemma is needed ((l << 2) | (v >> 4) = l*4 + v/16 for l < 64, etc.). *)
From Verif Require Import lib.Base.

Local Open Scope N_scope.

(* ---- alphabet ---- *)

Definition b64_char (n : N) : N :=
  if n <? 26 then n + 65            (* 'A'..'Z' *)
  else if n <? 52 then n + 71       (* 'a'..'z' *)
  else if n <? 62 then n - 4        (* '0'..'9' *)
  else if n =? 62 then 43           (* '+' *)
  else 47.                          (* '/' *)

Definition b64_val (c : N) : option N :=
  if (65 <=? c) && (c <=? 90) then Some (c - 65)
  else if (97 <=? c) && (c <=? 122) then Some (c - 71)
  else if (48 <=? c) && (c <=? 57) then Some (c + 4)
  else if c =? 43 then Some 62
  else if c =? 47 then Some 63
  else None.

Definition is_b64_char (c : N) : bool :=
  match b64_val c with Some _ => true | None => c =? 61 end.

Definition bytes_ok (l : list N) : Prop := Forall (fun b => (b < 256)%N) l.

(* ---- base64.b64encode ---- *)

Fixpoint b64encode (bs : list N) : list N :=
  match bs with
  | [] => []
  | [a] => [b64_char (a / 4); b64_char ((a mod 4) * 16); 61; 61]
  | [a; b] => [b64_char (a / 4); b64_char ((a mod 4) * 16 + b / 16);
               b64_char ((b mod 16) * 4); 61]
  | a :: b :: c :: r =>
      b64_char (a / 4) :: b64_char ((a mod 4) * 16 + b / 16)
      :: b64_char ((b mod 16) * 4 + c / 64) :: b64_char (c mod 64) :: b64encode r
  end.

(* ---- base64.b64decode: binascii.a2b_base64, strict_mode = 0 ----
   State: quad_pos [qp], leftchar [lc], pads.  None = binascii.Error.
   A '=' counts as padding only when quad_pos >= 2 (short-circuit of
   [quad_pos >= 2 && quad_pos + ++pads >= 4]); a complete pad sequence stops the
   parse and the rest of the input is ignored; characters outside the alphabet are
   skipped; at the end of the input quad_pos must be 0. *)
Fixpoint b64dec_go (s : list N) (qp : nat) (lc : N) (pads : nat) : option (list N) :=
  match s with
  | [] => match qp with O => Some [] | _ => None end
  | ch :: r =>
    if ch =? 61 then
      if (2 <=? qp)%nat then
        if (4 <=? qp + S pads)%nat then Some []
        else b64dec_go r qp lc (S pads)
      else b64dec_go r qp lc pads
    else
      match b64_val ch with
      | None => b64dec_go r qp lc pads
      | Some v =>
        match qp with
        | 0%nat => b64dec_go r 1 v 0
        | 1%nat => option_map (cons (lc * 4 + v / 16)) (b64dec_go r 2 (v mod 16) 0)
        | 2%nat => option_map (cons (lc * 16 + v / 4)) (b64dec_go r 3 (v mod 4) 0)
        | _ => option_map (cons (lc * 64 + v)) (b64dec_go r 0 0 0)
        end
      end
  end.

Definition b64decode (s : list N) : option (list N) := b64dec_go s 0 0 0.

(* ---- lemmas ---- *)

(* lia with division/modulo by constants *)
Local Ltac dm_lia := zify; Z.to_euclidean_division_equations; lia.

(* induction over a list three elements at a time *)
Lemma list_ind3 {A} (P : list A -> Prop) :
  P [] -> (forall a, P [a]) -> (forall a b, P [a; b]) ->
  (forall a b c r, P r -> P (a :: b :: c :: r)) ->
  forall l, P l.
Proof.
  intros H0 H1 H2 H3.
  fix IH 1. intros [|a [|b [|c r]]]; [exact H0 | apply H1 | apply H2 | apply H3, IH].
Qed.

(* a boolean property checked on 0..63 holds below 64 *)
Lemma N_lt64_cases (P : N -> bool) :
  forallb P (map N.of_nat (seq 0 64)) = true -> forall n, n < 64 -> P n = true.
Proof.
  intros H n Hn. rewrite forallb_forall in H. apply H.
  apply in_map_iff. exists (N.to_nat n). split; [apply N2Nat.id|].
  apply in_seq. lia.
Qed.

Lemma b64_char_big n : 64 <= n -> b64_char n = 47.
Proof.
  intros Hn. unfold b64_char.
  destruct (N.ltb_spec n 26); [lia|]. destruct (N.ltb_spec n 52); [lia|].
  destruct (N.ltb_spec n 62); [lia|]. destruct (N.eqb_spec n 62); [lia|reflexivity].
Qed.

Lemma b64_val_char n : n < 64 -> b64_val (b64_char n) = Some n.
Proof.
  intros Hn.
  pose (P := fun n => match b64_val (b64_char n) with Some m => m =? n | None => false end).
  assert (H : P n = true) by (apply N_lt64_cases; [vm_compute; reflexivity | exact Hn]).
  unfold P in H. destruct (b64_val (b64_char n)) as [m|]; [|discriminate].
  apply N.eqb_eq in H. now subst.
Qed.

(* everything we need to know about one output character of the alphabet *)
Definition char_good (c : N) : bool :=
  is_b64_char c && negb (c =? 61) && negb (c =? 63) && negb (c =? 33) && (c <? 128).

Lemma b64_char_good n : char_good (b64_char n) = true.
Proof.
  destruct (N.lt_ge_cases n 64) as [Hn|Hn].
  - revert n Hn. apply (N_lt64_cases (fun n => char_good (b64_char n))).
    vm_compute; reflexivity.
  - now rewrite b64_char_big.
Qed.

Lemma b64_char_not_pad n : b64_char n =? 61 = false.
Proof.
  pose proof (b64_char_good n) as H. unfold char_good in H.
  rewrite !andb_true_iff, !negb_true_iff in H. tauto.
Qed.

(* every output character is an alphabet character or the pad *)
Lemma b64encode_shape bs :
  Forall (fun c => c = 61 \/ char_good c = true) (b64encode bs).
Proof.
  induction bs as [|a|a b|a b c r IH] using list_ind3; cbn [b64encode];
    repeat (constructor; [first [left; reflexivity | right; apply b64_char_good]|]);
    solve [constructor | exact IH].
Qed.

Lemma b64encode_chars : forall bs, Forall (fun c => is_b64_char c = true) (b64encode bs).
Proof.
  intros bs. eapply Forall_impl; [|apply b64encode_shape].
  intros c [->|H]; [reflexivity|].
  unfold char_good in H. rewrite !andb_true_iff in H. tauto.
Qed.

Lemma b64encode_no_qmark_bang :
  forall bs, ~ In 63%N (b64encode bs) /\ ~ In 33%N (b64encode bs).
Proof.
  intros bs. pose proof (b64encode_shape bs) as H. rewrite Forall_forall in H.
  split; intros Hin; apply H in Hin; destruct Hin as [Hin|Hin]; discriminate.
Qed.

Lemma b64encode_ascii : forall bs, Forall (fun c => (c < 128)%N) (b64encode bs).
Proof.
  intros bs. eapply Forall_impl; [|apply b64encode_shape].
  intros c [->|H]; [reflexivity|].
  unfold char_good in H. rewrite !andb_true_iff in H. apply N.ltb_lt. tauto.
Qed.

Lemma b64encode_bytes : forall bs, bytes_ok (b64encode bs).
Proof.
  intros bs. eapply Forall_impl; [|apply b64encode_ascii]. cbv beta. intros c Hc. lia.
Qed.

Lemma b64encode_legal_or_pad :
  forall bs, Forall (fun c => b64_val c <> None \/ c = 61%N) (b64encode bs).
Proof.
  intros bs. eapply Forall_impl; [|apply b64encode_chars].
  intros c. unfold is_b64_char. destruct (b64_val c).
  - intros _. left. discriminate.
  - intros H. right. now apply N.eqb_eq.
Qed.

Lemma b64encode_length :
  forall bs, length (b64encode bs) = (4 * ((length bs + 2) / 3))%nat.
Proof.
  induction bs as [|a|a b|a b c r IH] using list_ind3; try reflexivity.
  cbn [b64encode length]. rewrite IH.
  replace (S (S (S (length r))) + 2)%nat with (length r + 2 + 1 * 3)%nat by lia.
  rewrite Nat.div_add by lia. lia.
Qed.

(* one decoder step on an alphabet character *)
Lemma b64dec_go_char n r qp lc pads :
  n < 64 ->
  b64dec_go (b64_char n :: r) qp lc pads =
  match qp with
  | 0%nat => b64dec_go r 1 n 0
  | 1%nat => option_map (cons (lc * 4 + n / 16)) (b64dec_go r 2 (n mod 16) 0)
  | 2%nat => option_map (cons (lc * 16 + n / 4)) (b64dec_go r 3 (n mod 4) 0)
  | _ => option_map (cons (lc * 64 + n)) (b64dec_go r 0 0 0)
  end.
Proof.
  intros Hn. cbn [b64dec_go]. now rewrite b64_char_not_pad, b64_val_char.
Qed.

Lemma b64decode_encode : forall bs, bytes_ok bs -> b64decode (b64encode bs) = Some bs.
Proof.
  unfold b64decode, bytes_ok.
  induction bs as [|a|a b|a b c r IH] using list_ind3; intros Hok.
  - reflexivity.
  - inversion_clear Hok as [|? ? Ha _].
    cbn [b64encode]. rewrite !b64dec_go_char by dm_lia.
    cbn. f_equal. f_equal. dm_lia.
  - inversion_clear Hok as [|? ? Ha Hok']. inversion_clear Hok' as [|? ? Hb _].
    cbn [b64encode]. rewrite !b64dec_go_char by dm_lia.
    cbn. f_equal. f_equal; [dm_lia|]. f_equal. dm_lia.
  - inversion_clear Hok as [|? ? Ha Hok']. inversion_clear Hok' as [|? ? Hb Hok].
    inversion_clear Hok as [|? ? Hc Hr].
    cbn [b64encode]. rewrite !b64dec_go_char by dm_lia.
    rewrite (IH Hr). cbn [option_map]. f_equal. f_equal; [dm_lia|]. f_equal; [dm_lia|].
    f_equal. dm_lia.
Qed.

Lemma b64encode_inj :
  forall a b, bytes_ok a -> bytes_ok b -> b64encode a = b64encode b -> a = b.
Proof.
  intros a b Ha Hb E. apply b64decode_encode in Ha, Hb.
  rewrite E in Ha. congruence.
Qed.
