(* PyRepr.v -- repr() of a Python str (CPython Objects/unicodeobject.c: unicode_repr).
     quote: double quote iff the string has a single quote and no double quote
     the quote character and the backslash get a backslash; TAB LF CR -> \t \n \r
     other code points below 32, and 127 -> \xNN
     remaining ASCII copied
     non-ASCII: copied when Py_UNICODE_ISPRINTABLE, else \xNN / \uNNNN / \UNNNNNNNN
   The Unicode table behind isprintable is a Section variable: it is consulted
   for code points >= 128 only (the ASCII decisions are hard-wired in CPython),
   and every lemma here holds for an arbitrary table. *)
From Verif Require Import lib.Base lib.Str lib.Html.

Definition hex_digit (d : N) : N := if (d <? 10)%N then (48 + d)%N else (87 + d)%N.

(* n in lower-case hexadecimal, exactly w digits (higher digits dropped) *)
Fixpoint hex_fixed (w : nat) (n : N) : str :=
  match w with
  | O => []
  | S w' => hex_fixed w' (n / 16) ++ [hex_digit (n mod 16)]
  end.

Section Repr.
Variable isprintable : N -> bool.

Definition repr_quote (s : str) : N :=
  if contains_char N.eqb 39%N s && negb (contains_char N.eqb 34%N s) then 34%N else 39%N.

Definition repr_char (q c : N) : str :=
  if N.eqb c q || N.eqb c 92 then [92; c]%N
  else if N.eqb c 9 then [92; 116]%N
  else if N.eqb c 10 then [92; 110]%N
  else if N.eqb c 13 then [92; 114]%N
  else if (c <? 32)%N || N.eqb c 127 then (92 :: 120 :: hex_fixed 2 c)%N
  else if (c <? 127)%N then [c]
  else if isprintable c then [c]
  else if (c <=? 255)%N then (92 :: 120 :: hex_fixed 2 c)%N
  else if (c <=? 65535)%N then (92 :: 117 :: hex_fixed 4 c)%N
  else (92 :: 85 :: hex_fixed 8 c)%N.

Definition py_repr (s : str) : str :=
  let q := repr_quote s in q :: flat_map (repr_char q) s ++ [q].

(* ---- lemmas ---- *)

Lemma hex_digit_range d : (d < 16)%N ->
  ((48 <= hex_digit d /\ hex_digit d <= 57) \/ (97 <= hex_digit d /\ hex_digit d <= 102))%N.
Proof.
  intros H. unfold hex_digit. destruct (N.ltb_spec d 10); lia.
Qed.

Lemma hex_digit_plain d : (d < 16)%N -> closed_piece [hex_digit d].
Proof.
  intros H. pose proof (hex_digit_range d H) as R.
  apply closed_plain; unfold is_angle, is_quote;
    rewrite ?orb_false_iff; repeat split; apply N.eqb_neq; lia.
Qed.

Lemma hex_fixed_closed w n : closed_piece (hex_fixed w n).
Proof.
  revert n; induction w as [|w IH]; intros n; simpl; [apply closed_nil|].
  apply closed_app; [apply IH|]. apply hex_digit_plain. apply N.mod_lt. discriminate.
Qed.

Lemma hex_fixed_length w n : length (hex_fixed w n) = w.
Proof. revert n; induction w as [|w IH]; intros n; simpl; [reflexivity|]. rewrite app_length, IH. simpl. lia. Qed.

(* one character under the single-quote convention: a closed piece unless it is
   one of the five HTML specials (which repr copies) *)
Lemma repr_char_closed c :
  is_angle c = false -> is_quote c = false -> N.eqb c 38 = false ->
  closed_piece (repr_char 39 c).
Proof.
  intros Ha Hq Hm. unfold repr_char.
  assert (P92 : closed_piece [92%N]) by (apply closed_plain; reflexivity).
  assert (Pc : closed_piece [c]) by (now apply closed_plain).
  assert (Px : forall w k, closed_piece (92%N :: k :: hex_fixed w c) \/ is_angle k = true \/ is_quote k = true \/ N.eqb k 38 = true).
  { intros w k. destruct (is_angle k) eqn:A; [auto|]. destruct (is_quote k) eqn:Q; [auto|].
    destruct (N.eqb k 38) eqn:M; [auto|]. left.
    change (closed_piece ([92%N] ++ [k] ++ hex_fixed w c)).
    apply closed_app; [exact P92|]. apply closed_app; [now apply closed_plain | apply hex_fixed_closed]. }
  destruct (N.eqb c 39 || N.eqb c 92).
  { change (closed_piece ([92%N] ++ [c])). now apply closed_app. }
  destruct (N.eqb c 9). { repeat split. }
  destruct (N.eqb c 10). { repeat split. }
  destruct (N.eqb c 13). { repeat split. }
  destruct ((c <? 32)%N || N.eqb c 127).
  { destruct (Px 2%nat 120%N) as [H|[H|[H|H]]]; [exact H | discriminate..]. }
  destruct (c <? 127)%N; [exact Pc|].
  destruct (isprintable c); [exact Pc|].
  destruct (c <=? 255)%N.
  { destruct (Px 2%nat 120%N) as [H|[H|[H|H]]]; [exact H | discriminate..]. }
  destruct (c <=? 65535)%N.
  { destruct (Px 4%nat 117%N) as [H|[H|[H|H]]]; [exact H | discriminate..]. }
  destruct (Px 8%nat 85%N) as [H|[H|[H|H]]]; [exact H | discriminate..].
Qed.

(* repr copies printable ASCII other than quote and backslash *)
Lemma repr_char_ascii_copy q c :
  (32 <= c)%N -> (c < 127)%N -> c <> q -> c <> 92%N -> repr_char q c = [c].
Proof.
  intros H1 H2 Hq Hb. unfold repr_char.
  apply N.eqb_neq in Hq, Hb. rewrite Hq, Hb. simpl.
  assert (E9 : N.eqb c 9 = false) by (apply N.eqb_neq; lia).
  assert (E10 : N.eqb c 10 = false) by (apply N.eqb_neq; lia).
  assert (E13 : N.eqb c 13 = false) by (apply N.eqb_neq; lia).
  assert (E127 : N.eqb c 127 = false) by (apply N.eqb_neq; lia).
  assert (L32 : (c <? 32)%N = false) by (apply N.ltb_ge; lia).
  assert (L127 : (c <? 127)%N = true) by (apply N.ltb_lt; lia).
  now rewrite E9, E10, E13, E127, L32, L127.
Qed.

(* a string without quote characters is shown between single quotes *)
Lemma repr_quote_no_quote s : no_quote s = true -> repr_quote s = 39%N.
Proof.
  intros H. unfold repr_quote.
  assert (E : contains_char N.eqb 39%N s = false).
  { unfold contains_char, no_quote in *. induction s as [|c s IH]; simpl in *; [reflexivity|].
    apply andb_true_iff in H. destruct H as [Hc Hs]. rewrite (IH Hs).
    unfold is_quote in Hc. apply negb_true_iff, orb_false_iff in Hc. destruct Hc as [_ Hc]. now rewrite Hc. }
  now rewrite E.
Qed.

(* "repr introduces no angle bracket and no ampersand that it did not copy":
   every character of repr_char q c is c itself or is none of < > & *)
Lemma repr_char_introduces_nothing q c x :
  In x (repr_char q c) -> x = c \/ (is_angle x = false /\ N.eqb x 38 = false).
Proof.
  unfold repr_char.
  assert (Hx : forall w k, is_angle k = false -> N.eqb k 38 = false ->
                           In x (92%N :: k :: hex_fixed w c) -> x = c \/ (is_angle x = false /\ N.eqb x 38 = false)).
  { intros w k Hk1 Hk2 [<-|[<-|H]]; [right; split; reflexivity | right; split; assumption |].
    right. destruct (hex_fixed_closed w c) as (A & _ & _).
    unfold no_angle in A. rewrite forallb_forall in A. specialize (A x H).
    apply negb_true_iff in A. split; [exact A|].
    clear A. revert c H. induction w as [|w IH]; intros c' H; simpl in H; [contradiction|].
    apply in_app_or in H. destruct H as [H|[<-|[]]]; [now apply (IH (c' / 16)%N)|].
    pose proof (hex_digit_range (c' mod 16)%N) as R.
    apply N.eqb_neq. assert (c' mod 16 < 16)%N by (apply N.mod_lt; discriminate). lia. }
  destruct (N.eqb c q || N.eqb c 92).
  { intros [<-|[<-|[]]]; [right; split; reflexivity | left; reflexivity]. }
  destruct (N.eqb c 9). { intros [<-|[<-|[]]]; right; split; reflexivity. }
  destruct (N.eqb c 10). { intros [<-|[<-|[]]]; right; split; reflexivity. }
  destruct (N.eqb c 13). { intros [<-|[<-|[]]]; right; split; reflexivity. }
  destruct ((c <? 32)%N || N.eqb c 127). { apply Hx; reflexivity. }
  destruct (c <? 127)%N. { intros [<-|[]]. now left. }
  destruct (isprintable c). { intros [<-|[]]. now left. }
  destruct (c <=? 255)%N. { apply Hx; reflexivity. }
  destruct (c <=? 65535)%N; apply Hx; reflexivity.
Qed.

(* the same for the whole repr: every character of repr(s) occurs in s or is none of < > & *)
Lemma py_repr_introduces_nothing s x :
  In x (py_repr s) -> In x s \/ (is_angle x = false /\ N.eqb x 38 = false).
Proof.
  unfold py_repr.
  assert (Hq : is_angle (repr_quote s) = false /\ N.eqb (repr_quote s) 38 = false).
  { unfold repr_quote. destruct (_ && _); split; reflexivity. }
  intros [<-|H]; [now right|].
  apply in_app_or in H. destruct H as [H|[<-|[]]]; [|now right].
  apply in_flat_map in H. destruct H as (c & Hc & Hx).
  destruct (repr_char_introduces_nothing _ _ _ Hx) as [->|R]; [now left | now right].
Qed.

End Repr.
