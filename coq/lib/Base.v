(* Base.v — common imports, the string type, and the integer codec used by the
   correspondence interface (every model exports corr_Cxx : list Z -> list Z). *)
From Coq Require Export List Arith ZArith NArith Bool Lia.
Export ListNotations.

(* A Python str is a list of code points, a bytes object a list of byte values. *)
Definition str := list N.

Fixpoint str_eqb (a b : str) : bool :=
  match a, b with
  | [], [] => true
  | x :: a', y :: b' => N.eqb x y && str_eqb a' b'
  | _, _ => false
  end.

Lemma str_eqb_spec a b : reflect (a = b) (str_eqb a b).
Proof.
  revert b; induction a as [|x a IH]; intros [|y b]; simpl; try (constructor; congruence).
  destruct (N.eqb_spec x y) as [->|Hn]; simpl.
  - destruct (IH b) as [->|Hn]; constructor; congruence.
  - constructor; congruence.
Qed.

Lemma str_eqb_eq a b : str_eqb a b = true <-> a = b.
Proof. destruct (str_eqb_spec a b); split; congruence. Qed.

Lemma str_eqb_refl a : str_eqb a a = true.
Proof. apply str_eqb_eq; reflexivity. Qed.

(* ---- integer codec (harness side of the correspondence; not used by theorems) ---- *)

Definition zs_of_str (s : str) : list Z := map Z.of_N s.
Definition str_of_zs (l : list Z) : str := map Z.to_N l.

(* length-prefixed string *)
Definition enc_str (s : str) : list Z := Z.of_nat (length s) :: zs_of_str s.

Definition dec_nat (l : list Z) : option (nat * list Z) :=
  match l with
  | [] => None
  | z :: r => Some (Z.to_nat z, r)
  end.

Definition dec_Z (l : list Z) : option (Z * list Z) :=
  match l with
  | [] => None
  | z :: r => Some (z, r)
  end.

Definition dec_str (l : list Z) : option (str * list Z) :=
  match l with
  | [] => None
  | z :: r => let n := Z.to_nat z in
              if Nat.leb n (length r) then Some (str_of_zs (firstn n r), skipn n r) else None
  end.

(* a list of n items, each decoded by [f] *)
Fixpoint dec_many {A} (f : list Z -> option (A * list Z)) (n : nat) (l : list Z)
  : option (list A * list Z) :=
  match n with
  | O => Some ([], l)
  | S n' => match f l with
            | None => None
            | Some (a, r) => match dec_many f n' r with
                             | None => None
                             | Some (xs, r') => Some (a :: xs, r')
                             end
            end
  end.

Definition dec_list {A} (f : list Z -> option (A * list Z)) (l : list Z)
  : option (list A * list Z) :=
  match l with
  | [] => None
  | z :: r => dec_many f (Z.to_nat z) r
  end.

Definition enc_list {A} (f : A -> list Z) (xs : list A) : list Z :=
  Z.of_nat (length xs) :: flat_map f xs.

Definition enc_bool (b : bool) : list Z := [if b then 1%Z else 0%Z].

Definition enc_option {A} (f : A -> list Z) (o : option A) : list Z :=
  match o with None => [0%Z] | Some a => 1%Z :: f a end.

(* sentinel returned when the harness sent something the decoder cannot read *)
Definition bad_input : list Z := [(-999)%Z].
