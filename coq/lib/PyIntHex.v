(* PyIntHex.v — model of Python's  int(b.strip(), 16)  on a bytes object, the
   spec-level hexadecimal numerals (every case / leading-zero spelling), the
   spec encoder and the round-trip lemmas.

   Rules of CPython 3.12 (Objects/longobject.c: PyLong_FromString, checked by
   experiment, see tools/props/C05.py kind='hex'):
     * bytes.strip() removes ASCII whitespace  b' \t\n\r\x0b\x0c'  (32, 9..13);
       int() skips the same set, so after strip() no inner whitespace is legal;
     * one optional sign '+' / '-' (nothing may follow it but the numeral);
     * base 16: an optional prefix '0x' / '0X', after which ONE underscore is
       allowed;
     * the numeral: at least one digit, must not start with '_', single
       underscores between digits only (no '__', no trailing '_');
     * anything else (NUL, bytes >= 128, empty) is a ValueError  (= None).
   Owned by cluster bodyA. *)
From Verif Require Import lib.Base lib.Str.
From Coq Require Import ZifyBool.

Local Open Scope N_scope.

(* ---- the model ---- *)

Definition is_space (c : N) : bool := (c =? 32) || ((9 <=? c) && (c <=? 13)).

Definition hex_digit (c : N) : option N :=
  if (48 <=? c) && (c <=? 57) then Some (c - 48)
  else if (97 <=? c) && (c <=? 102) then Some (c - 87)
  else if (65 <=? c) && (c <=? 70) then Some (c - 55)
  else None.

(* digits with single underscores between them; [prev_us]: previous byte was '_' *)
Fixpoint hex_digits (prev_us : bool) (acc : N) (l : list N) : option N :=
  match l with
  | [] => if prev_us then None else Some acc
  | c :: r =>
    if c =? 95 then (if prev_us then None else hex_digits true acc r)
    else match hex_digit c with
         | Some d => hex_digits false (16 * acc + d) r
         | None => None
         end
  end.

(* optional 0x / 0X, then one optional underscore *)
Definition strip_0x (l : list N) : list N :=
  match l with
  | a :: x :: r =>
    if (a =? 48) && ((x =? 120) || (x =? 88)) then
      match r with
      | u :: r' => if u =? 95 then r' else r
      | [] => r
      end
    else l
  | _ => l
  end.

Definition hex_body (l : list N) : option N :=
  let l1 := strip_0x l in
  match l1 with
  | [] => None
  | c :: _ => if c =? 95 then None else hex_digits false 0 l1
  end.

(* int(b.strip(), 16) ; None = ValueError *)
Definition py_int_hex (b : list N) : option Z :=
  let t := strip_set is_space b in
  match t with
  | [] => None
  | c :: r =>
    if c =? 43 then option_map Z.of_N (hex_body r)
    else if c =? 45 then option_map (fun n => Z.opp (Z.of_N n)) (hex_body r)
    else option_map Z.of_N (hex_body t)
  end.

(* ---- the specification side: plain hexadecimal numerals ---- *)

Fixpoint hex_val_acc (acc : N) (l : list N) : option N :=
  match l with
  | [] => Some acc
  | c :: r => match hex_digit c with
              | Some d => hex_val_acc (16 * acc + d) r
              | None => None
              end
  end.

(* value of a non-empty string of hex digits (any case, any leading zeros) *)
Definition hex_val (l : list N) : option N :=
  match l with
  | [] => None
  | _ => hex_val_acc 0 l
  end.

Definition is_hex (c : N) : bool :=
  match hex_digit c with Some _ => true | None => false end.

(* spec encoder: lower-case digits of n, most significant first *)
Definition hex_char (d : N) : N := if d <? 10 then 48 + d else 87 + d.

Fixpoint hex_of_fuel (f : nat) (n : N) : list N :=
  match f with
  | O => []
  | S f' => if n =? 0 then [] else hex_of_fuel f' (n / 16) ++ [hex_char (n mod 16)]
  end.

Definition hex_of_N (n : N) : list N :=
  if n =? 0 then [48] else hex_of_fuel (N.to_nat (N.size n)) n.

(* per-digit case choice: [up] lists which digits are written in upper case
   (missing entries = lower case) *)
Fixpoint apply_case (up : list bool) (l : list N) {struct l} : list N :=
  match l with
  | [] => []
  | c :: r => match up with
              | [] => l
              | b :: up' => (if b then ascii_upper c else c) :: apply_case up' r
              end
  end.

(* a spelling of n: k leading zeros, then its digits in the chosen cases *)
Definition hex_spell (k : nat) (up : list bool) (n : N) : list N :=
  repeat 48 k ++ apply_case up (hex_of_N n).

(* ---- lemmas ---- *)

Lemma hex_digit_some c d :
  hex_digit c = Some d ->
  d < 16 /\ c <> 95 /\ c <> 43 /\ c <> 45 /\ c <> 120 /\ c <> 88 /\ c <> 13 /\ c <> 10 /\ c <> 59
  /\ is_space c = false.
Proof.
  unfold hex_digit, is_space.
  destruct ((48 <=? c) && (c <=? 57)) eqn:E1; [intros [= <-]; lia|].
  destruct ((97 <=? c) && (c <=? 102)) eqn:E2; [intros [= <-]; lia|].
  destruct ((65 <=? c) && (c <=? 70)) eqn:E3; [intros [= <-]; lia|].
  discriminate.
Qed.

Lemma hex_val_acc_all_hex acc l v :
  hex_val_acc acc l = Some v -> forallb is_hex l = true.
Proof.
  revert acc; induction l as [|c l IH]; intros acc; simpl; [reflexivity|].
  unfold is_hex. destruct (hex_digit c) as [d|]; [|discriminate].
  intros H. simpl. eapply IH; eassumption.
Qed.

Lemma hex_val_all_hex l v : hex_val l = Some v -> forallb is_hex l = true /\ l <> [].
Proof.
  destruct l as [|c l]; [discriminate|]. intros H. split; [|discriminate].
  eapply hex_val_acc_all_hex; exact H.
Qed.

Lemma hex_digits_of_val acc l :
  forallb is_hex l = true -> hex_digits false acc l = hex_val_acc acc l.
Proof.
  revert acc; induction l as [|c l IH]; intros acc; simpl; [reflexivity|].
  unfold is_hex at 1. destruct (hex_digit c) as [d|] eqn:E; [|discriminate].
  simpl. intros H. destruct (hex_digit_some _ _ E) as (_ & Hus & _).
  apply N.eqb_neq in Hus. rewrite Hus. apply IH; exact H.
Qed.

Lemma lstrip_set_noop {A} (m : A -> bool) (s : list A) :
  forallb (fun c => negb (m c)) s = true -> lstrip_set m s = s.
Proof.
  destruct s as [|c s]; simpl; [reflexivity|].
  intros H. apply andb_true_iff in H. destruct H as [H _].
  destruct (m c); [discriminate | reflexivity].
Qed.

Lemma forallb_rev {A} (f : A -> bool) (s : list A) : forallb f (rev s) = forallb f s.
Proof.
  induction s as [|c s IH]; simpl; [reflexivity|].
  rewrite forallb_app, IH. simpl. rewrite andb_true_r. apply andb_comm.
Qed.

Lemma strip_set_noop {A} (m : A -> bool) (s : list A) :
  forallb (fun c => negb (m c)) s = true -> strip_set m s = s.
Proof.
  intros H. unfold strip_set, rstrip_set.
  rewrite (lstrip_set_noop m s H), lstrip_set_noop, rev_involutive; [reflexivity|].
  now rewrite forallb_rev.
Qed.

Lemma is_hex_not_space l :
  forallb is_hex l = true -> forallb (fun c => negb (is_space c)) l = true.
Proof.
  induction l as [|c l IH]; simpl; [reflexivity|].
  intros H. apply andb_true_iff in H. destruct H as [Hc Hl].
  unfold is_hex in Hc. destruct (hex_digit c) as [d|] eqn:E; [|discriminate].
  destruct (hex_digit_some _ _ E) as (_ & _ & _ & _ & _ & _ & _ & _ & _ & Hs).
  rewrite Hs. simpl. apply IH; exact Hl.
Qed.

(* the parser accepts every plain numeral with its value *)
Lemma py_int_hex_of_val l n : hex_val l = Some n -> py_int_hex l = Some (Z.of_N n).
Proof.
  intros Hv. destruct (hex_val_all_hex _ _ Hv) as [Hall Hne].
  unfold py_int_hex. rewrite (strip_set_noop is_space l (is_hex_not_space _ Hall)).
  destruct l as [|c r]; [congruence|].
  simpl in Hall. apply andb_true_iff in Hall. destruct Hall as [Hc Hr].
  unfold is_hex in Hc. destruct (hex_digit c) as [d|] eqn:E; [|discriminate].
  destruct (hex_digit_some _ _ E) as (_ & Hus & Hpl & Hmi & _).
  apply N.eqb_neq in Hpl, Hmi. rewrite Hpl, Hmi.
  assert (Hs0 : strip_0x (c :: r) = c :: r).
  { unfold strip_0x. destruct r as [|x r']; [reflexivity|].
    simpl in Hr. apply andb_true_iff in Hr. destruct Hr as [Hx _].
    unfold is_hex in Hx. destruct (hex_digit x) as [dx|] eqn:Ex; [|discriminate].
    destruct (hex_digit_some _ _ Ex) as (_ & _ & _ & _ & H120 & H88 & _).
    apply N.eqb_neq in H120, H88. rewrite H120, H88. simpl. now rewrite andb_false_r. }
  unfold hex_body. rewrite Hs0. apply N.eqb_neq in Hus. rewrite Hus.
  rewrite hex_digits_of_val.
  - unfold hex_val in Hv. rewrite Hv. reflexivity.
  - simpl. unfold is_hex at 1. rewrite E. exact Hr.
Qed.

(* ---- the encoder ---- *)

Lemma hex_digit_char d : d < 16 -> hex_digit (hex_char d) = Some d.
Proof.
  intros H. unfold hex_char, hex_digit.
  destruct (N.ltb_spec d 10).
  - replace ((48 <=? 48 + d) && (48 + d <=? 57)) with true by lia. f_equal. lia.
  - replace ((48 <=? 87 + d) && (87 + d <=? 57)) with false by lia.
    replace ((97 <=? 87 + d) && (87 + d <=? 102)) with true by lia. f_equal. lia.
Qed.

Lemma hex_val_acc_app acc l1 l2 :
  hex_val_acc acc (l1 ++ l2) =
  match hex_val_acc acc l1 with Some v => hex_val_acc v l2 | None => None end.
Proof.
  revert acc; induction l1 as [|c l1 IH]; intros acc; simpl; [reflexivity|].
  destruct (hex_digit c); [apply IH | reflexivity].
Qed.

Lemma hex_of_fuel_val f n :
  n < 2 ^ N.of_nat f -> hex_val_acc 0 (hex_of_fuel f n) = Some n.
Proof.
  revert n; induction f as [|f IH]; intros n Hn.
  - simpl in *. f_equal. lia.
  - cbn [hex_of_fuel]. destruct (N.eqb_spec n 0) as [->|Hz]; [reflexivity|].
    rewrite hex_val_acc_app, IH.
    + cbn [hex_val_acc]. rewrite hex_digit_char by (apply N.mod_lt; lia).
      f_equal. pose proof (N.div_mod n 16). lia.
    + rewrite Nat2N.inj_succ, N.pow_succ_r' in Hn.
      apply N.div_lt_upper_bound; [lia|].
      assert (0 < 2 ^ N.of_nat f) by (apply N.neq_0_lt_0, N.pow_nonzero; lia). lia.
Qed.

Lemma hex_of_fuel_nonempty f n : n <> 0 -> f <> O -> hex_of_fuel f n <> [].
Proof.
  intros Hn Hf. destruct f; [congruence|]. cbn [hex_of_fuel].
  apply N.eqb_neq in Hn. rewrite Hn. intros E. now apply app_eq_nil in E as [_ E].
Qed.

Lemma hex_of_N_acc n : hex_val_acc 0 (hex_of_N n) = Some n /\ hex_of_N n <> [].
Proof.
  unfold hex_of_N. destruct (N.eqb_spec n 0) as [->|Hz].
  - split; [reflexivity | discriminate].
  - split.
    + apply hex_of_fuel_val. rewrite N2Nat.id. apply N.size_gt.
    + apply hex_of_fuel_nonempty; [exact Hz|].
      destruct n as [|p]; [congruence|]. simpl. lia.
Qed.

Lemma hex_val_of_N n : hex_val (hex_of_N n) = Some n.
Proof.
  destruct (hex_of_N_acc n) as [Hv Hne]. unfold hex_val.
  destruct (hex_of_N n); [congruence | exact Hv].
Qed.

Lemma hex_digit_upper c d : hex_digit c = Some d -> hex_digit (ascii_upper c) = Some d.
Proof.
  unfold ascii_upper, hex_digit.
  destruct ((48 <=? c) && (c <=? 57)) eqn:E1.
  { intros [= <-]. replace ((97 <=? c) && (c <=? 122)) with false by lia. now rewrite E1. }
  destruct ((97 <=? c) && (c <=? 102)) eqn:E2.
  { intros [= <-]. replace ((97 <=? c) && (c <=? 122)) with true by lia.
    replace ((48 <=? c - 32) && (c - 32 <=? 57)) with false by lia.
    replace ((97 <=? c - 32) && (c - 32 <=? 102)) with false by lia.
    replace ((65 <=? c - 32) && (c - 32 <=? 70)) with true by lia. f_equal. lia. }
  destruct ((65 <=? c) && (c <=? 70)) eqn:E3; [|discriminate].
  intros [= <-]. replace ((97 <=? c) && (c <=? 122)) with false by lia.
  now rewrite E1, E2, E3.
Qed.

Lemma hex_val_acc_case up acc l :
  hex_val_acc acc (apply_case up l) = hex_val_acc acc l.
Proof.
  revert up acc; induction l as [|c l IH]; intros up acc; simpl; [reflexivity|].
  destruct up as [|b up]; [reflexivity|]. simpl.
  destruct b.
  - destruct (hex_digit c) as [d|] eqn:E.
    + rewrite (hex_digit_upper _ _ E). apply IH.
    + (* not a digit: the upper-cased byte is no digit either *)
      unfold ascii_upper, hex_digit in *.
      destruct ((97 <=? c) && (c <=? 122)) eqn:Ea; [|now rewrite E].
      destruct ((48 <=? c) && (c <=? 57)) eqn:E1; [discriminate|].
      destruct ((97 <=? c) && (c <=? 102)) eqn:E2; [discriminate|].
      replace ((48 <=? c - 32) && (c - 32 <=? 57)) with false by lia.
      replace ((97 <=? c - 32) && (c - 32 <=? 102)) with false by lia.
      replace ((65 <=? c - 32) && (c - 32 <=? 70)) with false by lia. reflexivity.
  - destruct (hex_digit c); [apply IH | reflexivity].
Qed.

Lemma hex_val_acc_zeros k acc l :
  hex_val_acc acc (repeat 48 k ++ l) = hex_val_acc (16 ^ N.of_nat k * acc) l.
Proof.
  revert acc; induction k as [|k IH]; intros acc.
  - cbn [repeat app]. change (N.of_nat 0) with 0. rewrite N.pow_0_r. f_equal. lia.
  - cbn [repeat app hex_val_acc]. change (hex_digit 48) with (Some 0). cbv beta iota.
    rewrite IH. f_equal. rewrite Nat2N.inj_succ, N.pow_succ_r'. lia.
Qed.

Lemma apply_case_nonempty up l : l <> [] -> apply_case up l <> [].
Proof. destruct l; [congruence|]. destruct up; simpl; discriminate. Qed.

(* every spelling (leading zeros, per-digit case) of n has value n *)
Lemma hex_val_spell k up n : hex_val (hex_spell k up n) = Some n.
Proof.
  destruct (hex_of_N_acc n) as [Hv Hne].
  assert (Hacc : hex_val_acc 0 (hex_spell k up n) = Some n).
  { unfold hex_spell. rewrite hex_val_acc_zeros, N.mul_0_r, hex_val_acc_case. exact Hv. }
  unfold hex_val. destruct (hex_spell k up n) eqn:E; [|exact Hacc].
  unfold hex_spell in E. apply app_eq_nil in E as [_ E].
  now apply apply_case_nonempty in E.
Qed.

(* round trip: the parser reads every spelling of n back as n *)
Lemma py_int_hex_spell k up n : py_int_hex (hex_spell k up n) = Some (Z.of_N n).
Proof. apply py_int_hex_of_val, hex_val_spell. Qed.

Lemma hex_spell_length k up n : length (hex_spell k up n) = (k + length (hex_of_N n))%nat.
Proof.
  unfold hex_spell. rewrite app_length, repeat_length. f_equal.
  generalize (hex_of_N n). intros l. revert up; induction l as [|c l IH]; intros up; [reflexivity|].
  destruct up; simpl; [reflexivity | now rewrite IH].
Qed.
