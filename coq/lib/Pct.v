(* Pct.v — percent-encoding as done by CPython 3.12 urllib.parse.

   Spec encoders (what a client does; used to STATE round trips):
     quote_gen safe s    urllib.parse.quote(s, safe=<ASCII set>)   (UTF-8, scalar text)
     quote s             quote(s, safe='')
     quote_plus s        quote_plus(s)
     urlencode_with q ps '&'.join(q(k) + '=' + q(v))               (urlencode, doseq=False)
     urlencode ps        urlencode(ps)                    (quote_via=quote_plus)
     urlencode_q ps      urlencode(ps, quote_via=quote)   (safe='')

   Model of the decoder (what the server runs; helpers.py imports it as urlunquote):
     unquote_to_bytes a  _unquote_impl on an ASCII str: split on '%', item[:2] looked up in
                         the table of the 22*22 hex pairs; no match -> '%' + item verbatim
     unquote s           unquote(s): '%' not in s -> s; otherwise every maximal ASCII run
                         (_asciire) is unquoted to bytes and decoded as UTF-8 with
                         errors='replace'; the non-ASCII characters between runs are kept

   Owned by cluster qslH. *)
From Verif Require Import lib.Base lib.Str lib.Utf8.
From Coq Require Import ZifyBool ZifyN.
Local Open Scope N_scope.

(* ------------------------------------------------------------------ *)
(* Encoders                                                            *)
(* ------------------------------------------------------------------ *)

(* _ALWAYS_SAFE = A-Z a-z 0-9 '_' '.' '-' '~' *)
Definition always_safe (b : N) : bool :=
  ((65 <=? b) && (b <=? 90)) || ((97 <=? b) && (b <=? 122)) || ((48 <=? b) && (b <=? 57))
  || (b =? 95) || (b =? 46) || (b =? 45) || (b =? 126).

(* '{:02X}' digit *)
Definition hex_upper (n : N) : N := if n <? 10 then 48 + n else 55 + n.

Definition pct_byte (b : N) : str := [37; hex_upper (b / 16); hex_upper (b mod 16)].

(* _Quoter.__missing__: chr(b) if b in safe else '%{:02X}'.  [safe] is the extra
   safe set; quote_from_bytes drops its non-ASCII members. *)
Definition quote_byte (safe : N -> bool) (b : N) : str :=
  if (b <? 128) && (always_safe b || safe b) then [b] else pct_byte b.

Definition quote_from_bytes (safe : N -> bool) (bs : list N) : str := flat_map (quote_byte safe) bs.

Definition quote_gen (safe : N -> bool) (s : str) : str := quote_from_bytes safe (utf8_enc_str s).

Definition no_safe : N -> bool := fun _ => false.
Definition quote (s : str) : str := quote_gen no_safe s.                 (* quote(s, safe='') *)

(* quote_plus(s): quote(s, ' ').replace(' ', '+')  (when s has no space this is quote(s, '')) *)
Definition space_safe : N -> bool := fun b => b =? 32.
Definition quote_plus (s : str) : str := replace_char N.eqb 32 [43] (quote_gen space_safe s).

Definition urlencode_with (q : str -> str) (ps : list (str * str)) : str :=
  join [38] (map (fun kv => q (fst kv) ++ [61] ++ q (snd kv)) ps).

Definition urlencode := urlencode_with quote_plus.
Definition urlencode_q := urlencode_with quote.

(* ------------------------------------------------------------------ *)
(* Decoder                                                             *)
(* ------------------------------------------------------------------ *)

(* _hexdig = '0123456789ABCDEFabcdef' *)
Definition hexval (c : N) : option N :=
  if (48 <=? c) && (c <=? 57) then Some (c - 48)
  else if (65 <=? c) && (c <=? 70) then Some (c - 55)
  else if (97 <=? c) && (c <=? 102) then Some (c - 87)
  else None.

(* _unquote_impl on (the UTF-8 bytes of) an ASCII string.  The code splits on
   '%' and examines the first two characters of each later item; since neither
   can be '%', that is the same as looking at the two characters that follow
   each '%' in place. *)
Fixpoint unquote_to_bytes (s : list N) : list N :=
  match s with
  | [] => []
  | c :: r =>
    if c =? 37 then
      match r with
      | h1 :: h2 :: r' =>
        match hexval h1, hexval h2 with
        | Some a, Some b => (16 * a + b) :: unquote_to_bytes r'
        | _, _ => 37 :: unquote_to_bytes r           (* KeyError: '%' + item *)
        end
      | _ => 37 :: unquote_to_bytes r
      end
    else c :: unquote_to_bytes r
  end.

(* one ASCII run (held reversed): _unquote_impl(run).decode('utf-8', 'replace') *)
Definition unquote_run (rrun : list N) : str := utf8_dec_replace (unquote_to_bytes (rev rrun)).

(* _generate_unquoted_parts: alternate non-ASCII stretches (kept) and ASCII runs *)
Fixpoint unquote_parts (rrun : list N) (s : str) : str :=
  match s with
  | [] => unquote_run rrun
  | c :: s' =>
    if c <? 128 then unquote_parts (c :: rrun) s'
    else unquote_run rrun ++ c :: unquote_parts [] s'
  end.

Definition unquote (s : str) : str :=
  if contains_char N.eqb 37 s then unquote_parts [] s else s.

(* ================================================================== *)
(* Lemmas                                                              *)
(* ================================================================== *)

Lemma hexval_hex_upper n : n < 16 -> hexval (hex_upper n) = Some n.
Proof.
  intros H. unfold hex_upper, hexval.
  destruct (N.ltb_spec n 10).
  - replace ((48 <=? 48 + n) && (48 + n <=? 57)) with true by lia. f_equal. lia.
  - replace ((48 <=? 55 + n) && (55 + n <=? 57)) with false by lia.
    replace ((65 <=? 55 + n) && (55 + n <=? 70)) with true by lia. f_equal. lia.
Qed.

Lemma hex_upper_safe n : n < 16 -> always_safe (hex_upper n) = true.
Proof. intros H. unfold hex_upper, always_safe. destruct (N.ltb_spec n 10); lia. Qed.

(* every character produced by quote is unreserved, '%', or in the extra safe set *)
Definition qchar (safe : N -> bool) (x : N) : bool := always_safe x || (x =? 37) || safe x.

Lemma quote_byte_chars safe b : b < 256 -> Forall (fun x => qchar safe x = true /\ x < 128) (quote_byte safe b).
Proof.
  intros Hb. unfold quote_byte.
  destruct ((b <? 128) && (always_safe b || safe b)) eqn:E.
  - repeat constructor; unfold qchar; lia.
  - unfold pct_byte.
    assert (H1 : b / 16 < 16) by lia. assert (H2 : b mod 16 < 16) by lia.
    pose proof (hex_upper_safe _ H1) as S1. pose proof (hex_upper_safe _ H2) as S2.
    repeat constructor; unfold qchar; try (rewrite ?S1, ?S2; reflexivity).
    + unfold hex_upper. destruct (b / 16 <? 10); lia.
    + unfold hex_upper. destruct (b mod 16 <? 10); lia.
Qed.

Lemma quote_from_bytes_chars safe bs :
  Forall (fun b => b < 256) bs ->
  Forall (fun x => qchar safe x = true /\ x < 128) (quote_from_bytes safe bs).
Proof.
  induction 1 as [|b bs Hb _ IH]; [constructor|].
  unfold quote_from_bytes in *. cbn [flat_map]. apply Forall_app. split; [apply quote_byte_chars; exact Hb | exact IH].
Qed.

Lemma quote_gen_chars safe s : Forall (fun x => qchar safe x = true /\ x < 128) (quote_gen safe s).
Proof. apply quote_from_bytes_chars, utf8_enc_str_bytes. Qed.

Lemma quote_byte_nonempty safe b : quote_byte safe b <> [].
Proof. unfold quote_byte, pct_byte. destruct ((b <? 128) && (always_safe b || safe b)); discriminate. Qed.

Lemma quote_gen_nonempty safe s : s <> [] -> quote_gen safe s <> [].
Proof.
  destruct s as [|c s]; [congruence|]. intros _.
  unfold quote_gen, quote_from_bytes, utf8_enc_str. cbn [flat_map].
  pose proof (utf8_enc_nonempty c) as Hc. destruct (utf8_enc c) as [|b r]; [congruence|].
  cbn [app flat_map]. pose proof (quote_byte_nonempty safe b) as Hq.
  destruct (quote_byte safe b); [congruence | discriminate].
Qed.

(* ---- unquote_to_bytes inverts quote_from_bytes ---- *)

Lemma unq_quote_byte safe b r :
  b < 256 -> safe 37 = false ->
  unquote_to_bytes (quote_byte safe b ++ r) = b :: unquote_to_bytes r.
Proof.
  intros Hb Hs. unfold quote_byte.
  destruct ((b <? 128) && (always_safe b || safe b)) eqn:E.
  - cbn [app unquote_to_bytes].
    destruct (N.eqb_spec b 37) as [->|Hn]; [|reflexivity].
    rewrite Hs in E. vm_compute in E. discriminate.
  - unfold pct_byte. cbn [app unquote_to_bytes]. cbn [N.eqb Pos.eqb].
    rewrite !hexval_hex_upper by lia. f_equal. lia.
Qed.

Lemma unquote_to_bytes_quote safe bs r :
  Forall (fun b => b < 256) bs -> safe 37 = false ->
  unquote_to_bytes (quote_from_bytes safe bs ++ r) = bs ++ unquote_to_bytes r.
Proof.
  intros H Hs. induction H as [|b bs Hb _ IH]; [reflexivity|].
  unfold quote_from_bytes in *. cbn [flat_map]. rewrite <- app_assoc.
  rewrite unq_quote_byte by assumption. rewrite IH. reflexivity.
Qed.

Lemma unquote_to_bytes_nopct a : contains_char N.eqb 37 a = false -> unquote_to_bytes a = a.
Proof.
  induction a as [|c a IH]; [reflexivity|].
  unfold contains_char in *. cbn [existsb unquote_to_bytes]. intros H.
  apply orb_false_iff in H. destruct H as [H1 H2]. rewrite H1. f_equal. apply IH, H2.
Qed.

(* ---- unquote on an all-ASCII string: one run ---- *)

Lemma unquote_parts_ascii rrun a :
  Forall (fun c => c < 128) a -> unquote_parts rrun a = unquote_run (rev a ++ rrun).
Proof.
  intros H. revert rrun. induction H as [|c a Hc _ IH]; intros rrun; [reflexivity|].
  cbn [unquote_parts rev]. replace (c <? 128) with true by lia.
  rewrite IH, <- app_assoc. reflexivity.
Qed.

Lemma ascii_scalar a : Forall (fun c => c < 128) a -> Forall scalar a.
Proof. apply Forall_impl. intros c Hc. left. lia. Qed.

Lemma utf8_dec_replace_ascii a : Forall (fun c => c < 128) a -> utf8_dec_replace a = a.
Proof.
  intros H. rewrite <- (utf8_enc_str_ascii a H) at 1.
  apply utf8_dec_replace_enc, ascii_scalar, H.
Qed.

Lemma unquote_ascii a :
  Forall (fun c => c < 128) a -> unquote a = utf8_dec_replace (unquote_to_bytes a).
Proof.
  intros H. unfold unquote. destruct (contains_char N.eqb 37 a) eqn:E.
  - rewrite unquote_parts_ascii by exact H. unfold unquote_run.
    rewrite app_nil_r, rev_involutive. reflexivity.
  - rewrite unquote_to_bytes_nopct by exact E. symmetry. apply utf8_dec_replace_ascii, H.
Qed.

(* ---- round trips ---- *)

Lemma unquote_quote_gen safe s :
  safe 37 = false -> Forall scalar s -> unquote (quote_gen safe s) = s.
Proof.
  intros Hs Hsc. rewrite unquote_ascii.
  - unfold quote_gen. rewrite <- (app_nil_r (quote_from_bytes _ _)).
    rewrite unquote_to_bytes_quote by (try apply utf8_enc_str_bytes; exact Hs).
    cbn [unquote_to_bytes]. rewrite app_nil_r. apply utf8_dec_replace_enc, Hsc.
  - eapply Forall_impl; [|apply (quote_gen_chars safe s)]. intros x [_ Hx]. exact Hx.
Qed.

(* MAIN: urllib.parse.unquote(urllib.parse.quote(s, safe='')) == s for scalar text *)
Theorem unquote_quote s : Forall scalar s -> unquote (quote s) = s.
Proof. apply unquote_quote_gen. reflexivity. Qed.

(* the same for any ASCII safe set that does not contain '%' (e.g. safe='/') *)
Theorem unquote_quote_safe safe s : safe 37 = false -> Forall scalar s -> unquote (quote_gen safe s) = s.
Proof. apply unquote_quote_gen. Qed.

(* ---- '+' ---- *)

Lemma replace_char_app c r (a b : str) :
  replace_char N.eqb c r (a ++ b) = replace_char N.eqb c r a ++ replace_char N.eqb c r b.
Proof. unfold replace_char. apply flat_map_app. Qed.

Lemma replace_char_absent c r (s : str) : Forall (fun x => x <> c) s -> replace_char N.eqb c r s = s.
Proof.
  induction 1 as [|x s Hx _ IH]; [reflexivity|].
  unfold replace_char in *. cbn [flat_map]. rewrite IH.
  destruct (N.eqb_spec x c); [contradiction | reflexivity].
Qed.

Lemma replace_back (s : str) :
  Forall (fun x => x <> 43) s ->
  replace_char N.eqb 43 [32] (replace_char N.eqb 32 [43] s) = s.
Proof.
  induction 1 as [|x s Hx _ IH]; [reflexivity|].
  unfold replace_char in *. cbn [flat_map]. rewrite flat_map_app, IH.
  destruct (N.eqb_spec x 32) as [->|Hn]; [reflexivity|].
  cbn [flat_map app]. destruct (N.eqb_spec x 43); [contradiction | reflexivity].
Qed.

Lemma quote_gen_no_char safe s c :
  qchar safe c = false -> Forall (fun x => x <> c) (quote_gen safe s).
Proof.
  intros Hc. eapply Forall_impl; [|apply (quote_gen_chars safe s)].
  intros x [Hx _] ->. congruence.
Qed.

(* parse_qsl undoes quote_plus with replace('+',' ') followed by unquote *)
Theorem unquote_plus_quote_plus s :
  Forall scalar s -> unquote (replace_char N.eqb 43 [32] (quote_plus s)) = s.
Proof.
  intros H. unfold quote_plus.
  rewrite replace_back by (apply quote_gen_no_char; reflexivity).
  apply unquote_quote_gen; [reflexivity | exact H].
Qed.

(* quote(safe='') never emits '+', so the replace('+',' ') of parse_qsl leaves it alone *)
Theorem unquote_plus_quote s :
  Forall scalar s -> unquote (replace_char N.eqb 43 [32] (quote s)) = s.
Proof.
  intros H. unfold quote.
  rewrite replace_char_absent by (apply quote_gen_no_char; reflexivity).
  apply unquote_quote_gen; [reflexivity | exact H].
Qed.

(* ================================================================== *)
(* _unquote_impl as the source spells it: split on '%', then item[:2]   *)
(* ================================================================== *)

(*  for item in bits[1:]:
        try:    append(_hextobyte[item[:2]]); append(item[2:])
        except KeyError: append(b'%'); append(item)                      *)
Definition unq_item (item : list N) : list N :=
  match item with
  | h1 :: h2 :: r =>
    match hexval h1, hexval h2 with
    | Some a, Some b => (16 * a + b) :: r
    | _, _ => 37 :: item
    end
  | _ => 37 :: item
  end.

(*  bits = string.split(b'%'); if len(bits) == 1: return string
    res = bytearray(bits[0]); for item in bits[1:]: ...                  *)
Definition unquote_to_bytes_split (s : list N) : list N :=
  match split_all N.eqb 37 s with
  | [] => s
  | b0 :: items => b0 ++ flat_map unq_item items
  end.

Lemma split_all_nonempty c (s : str) : split_all N.eqb c s <> [].
Proof.
  induction s as [|x s IH]; cbn [split_all]; [discriminate|].
  destruct (N.eqb x c); [discriminate|]. destruct (split_all N.eqb c s); [congruence | discriminate].
Qed.

Lemma hexval_not_pct : hexval 37 = None.
Proof. reflexivity. Qed.

Lemma hexval_some_not_pct h a : hexval h = Some a -> N.eqb h 37 = false.
Proof. intros H. destruct (N.eqb_spec h 37) as [->|]; [discriminate | reflexivity]. Qed.

(* the in-place recursion of [unquote_to_bytes] and the split formulation agree *)
Theorem unquote_to_bytes_split_eq s : unquote_to_bytes s = unquote_to_bytes_split s.
Proof.
  (* strong induction on the length, because an escape consumes three characters *)
  remember (length s) as n eqn:Hn. revert s Hn.
  induction n as [n IH] using lt_wf_ind. intros s Hn.
  destruct s as [|c r]; [reflexivity|].
  unfold unquote_to_bytes_split. cbn [unquote_to_bytes split_all].
  destruct (N.eqb_spec c 37) as [->|Hc].
  - (* '%' *)
    cbn [app].
    assert (Hr : unquote_to_bytes r = unquote_to_bytes_split r)
      by (apply (IH (length r)); [subst n; cbn; lia | reflexivity]).
    unfold unquote_to_bytes_split in Hr.
    pose proof (split_all_nonempty 37 r) as Hne.
    destruct r as [|h1 r1].
    + reflexivity.
    + destruct r1 as [|h2 r2].
      * (* one character behind '%' *)
        rewrite Hr. cbn [split_all].
        destruct (N.eqb h1 37); reflexivity.
      * destruct (hexval h1) as [a|] eqn:E1.
        -- destruct (hexval h2) as [b|] eqn:E2.
           ++ (* a valid escape *)
              assert (Hr2 : unquote_to_bytes r2 = unquote_to_bytes_split r2)
                by (apply (IH (length r2)); [subst n; cbn; lia | reflexivity]).
              unfold unquote_to_bytes_split in Hr2. rewrite Hr2.
              cbn [split_all]. rewrite (hexval_some_not_pct _ _ E1), (hexval_some_not_pct _ _ E2).
              pose proof (split_all_nonempty 37 r2) as Hne2.
              destruct (split_all N.eqb 37 r2) as [|h t]; [congruence|].
              cbn [flat_map unq_item]. rewrite E1, E2. reflexivity.
           ++ (* second character is not a hex digit *)
              rewrite Hr. cbn [split_all]. rewrite (hexval_some_not_pct _ _ E1).
              destruct (N.eqb_spec h2 37) as [->|H2].
              ** cbn [flat_map unq_item app]. reflexivity.
              ** pose proof (split_all_nonempty 37 r2) as Hne2.
                 destruct (split_all N.eqb 37 r2) as [|h t]; [congruence|].
                 cbn [flat_map unq_item]. rewrite E1, E2. reflexivity.
        -- (* first character is not a hex digit *)
           rewrite Hr. cbn [split_all].
           destruct (N.eqb_spec h1 37) as [->|H1].
           ++ cbn [flat_map unq_item app]. reflexivity.
           ++ destruct (N.eqb_spec h2 37) as [->|H2].
              ** cbn [flat_map unq_item app]. reflexivity.
              ** pose proof (split_all_nonempty 37 r2) as Hne2.
                 destruct (split_all N.eqb 37 r2) as [|h t]; [congruence|].
                 cbn [flat_map unq_item]. rewrite E1. reflexivity.
  - (* ordinary character *)
    assert (Hr : unquote_to_bytes r = unquote_to_bytes_split r)
      by (apply (IH (length r)); [subst n; cbn; lia | reflexivity]).
    unfold unquote_to_bytes_split in Hr. rewrite Hr.
    pose proof (split_all_nonempty 37 r) as Hne.
    destruct (split_all N.eqb 37 r) as [|h t]; [congruence | reflexivity].
Qed.
