(* Pct.v — percent-encoding as done by CPython 3.12 urllib.parse.

   Spec encoders (what a client does; used to STATE round trips):
     quote_gen safe s    urllib.parse.quote(s, safe=<ASCII set>)   (UTF-8, scalar text)
     quote s             quote(s, safe='')
     quote_plus s        quote_plus(s)
     urlencode_with q ps '&'.join(q(k) + '=' + q(v))               (urlencode, doseq=False)
     urlencode ps        urlencode(ps)                    (quote_via=quote_plus)
     urlencode_q ps      urlencode(ps, quote_via=quote)   (safe='')

   Model of the decoder (what the server runs; helpers.py imports it as urlunquote):
     unquote_to_bytes a  _unquote_impl on an ASCII str: split on '%', item[:2] looked up in
                         the table of the 22*22 hex pairs; no match -> '%' + item verbatim
     unquote s           unquote(s): '%' not in s -> s; otherwise every maximal ASCII run
                         (_asciire) is unquoted to bytes and decoded as UTF-8 with
                         errors='replace'; the non-ASCII characters between runs are kept

   Owned by cluster qslH. *)
From Verif Require Import lib.Base lib.Str lib.Utf8.
From Coq Require Import ZifyBool ZifyN.
Local Open Scope N_scope.

(* ------------------------------------------------------------------ *)
(* Encoders                                                            *)
(* ------------------------------------------------------------------ *)

(* _ALWAYS_SAFE = A-Z a-z 0-9 '_' '.' '-' '~' *)
Definition always_safe (b : N) : bool :=
  ((65 <=? b) && (b <=? 90)) || ((97 <=? b) && (b <=? 122)) || ((48 <=? b) && (b <=? 57))
  || (b =? 95) || (b =? 46) || (b =? 45) || (b =? 126).

(* '{:02X}' digit *)
Definition hex_upper (n : N) : N := if n <? 10 then 48 + n else 55 + n.

Definition pct_byte (b : N) : str := [37; hex_upper (b / 16); hex_upper (b mod 16)].

(* _Quoter.__missing__: chr(b) if b in safe else '%{:02X}'.  [safe] is the extra
   safe set; quote_from_bytes drops its non-ASCII members. *)
Definition quote_byte (safe : N -> bool) (b : N) : str :=
  if (b <? 128) && (always_safe b || safe b) then [b] else pct_byte b.

Definition quote_from_bytes (safe : N -> bool) (bs : list N) : str := flat_map (quote_byte safe) bs.

Definition quote_gen (safe : N -> bool) (s : str) : str := quote_from_bytes safe (utf8_enc_str s).

Definition no_safe : N -> bool := fun _ => false.
Definition quote (s : str) : str := quote_gen no_safe s.                 (* quote(s, safe='') *)

(* quote_plus(s): quote(s, ' ').replace(' ', '+')  (when s has no space this is quote(s, '')) *)
Definition space_safe : N -> bool := fun b => b =? 32.
Definition quote_plus (s : str) : str := replace_char N.eqb 32 [43] (quote_gen space_safe s).

Definition urlencode_with (q : str -> str) (ps : list (str * str)) : str :=
  join [38] (map (fun kv => q (fst kv) ++ [61] ++ q (snd kv)) ps).

Definition urlencode := urlencode_with quote_plus.
Definition urlencode_q := urlencode_with quote.

(* ------------------------------------------------------------------ *)
(* Decoder                                                             *)
(* ------------------------------------------------------------------ *)

(* _hexdig = '0123456789ABCDEFabcdef' *)
Definition hexval (c : N) : option N :=
  if (48 <=? c) && (c <=? 57) then Some (c - 48)
  else if (65 <=? c) && (c <=? 70) then Some (c - 55)
  else if (97 <=? c) && (c <=? 102) then Some (c - 87)
  else None.

(* _unquote_impl on (the UTF-8 bytes of) an ASCII string.  The code splits on
   '%' and examines the first two characters of each later item; since neither
   can be '%', that is the same as looking at the two characters that follow
   each '%' in place. *)
Fixpoint unquote_to_bytes (s : list N) : list N :=
  match s with
  | [] => []
  | c :: r =>
    if c =? 37 then
      match r with
      | h1 :: h2 :: r' =>
        match hexval h1, hexval h2 with
        | Some a, Some b => (16 * a + b) :: unquote_to_bytes r'
        | _, _ => 37 :: unquote_to_bytes r           (* KeyError: '%' + item *)
        end
      | _ => 37 :: unquote_to_bytes r
      end
    else c :: unquote_to_bytes r
  end.

(* one ASCII run (held reversed): _unquote_impl(run).decode('utf-8', 'replace') *)
Definition unquote_run (rrun : list N) : str := utf8_dec_replace (unquote_to_bytes (rev rrun)).

(* _generate_unquoted_parts: alternate non-ASCII stretches (kept) and ASCII runs *)
Fixpoint unquote_parts (rrun : list N) (s : str) : str :=
  match s with
  | [] => unquote_run rrun
  | c :: s' =>
    if c <? 128 then unquote_parts (c :: rrun) s'
    else unquote_run rrun ++ c :: unquote_parts [] s'
  end.

Definition unquote (s : str) : str :=
  if contains_char N.eqb 37 s then unquote_parts [] s else s.
