(* ListX.v — list lemmas missing from the 8.16 standard library. *)
From Coq Require Import List Arith Lia.
Import ListNotations.

Lemma skipn_skipn {A} (a b : nat) (l : list A) : skipn a (skipn b l) = skipn (b + a) l.
Proof.
  revert l; induction b as [|b IH]; intros l; simpl; [reflexivity|].
  destruct l; simpl; [now rewrite skipn_nil | apply IH].
Qed.

Lemma firstn_nil_inv {A} n (l : list A) : firstn n l = [] -> n = 0 \/ l = [].
Proof. destruct n, l; simpl; auto; discriminate. Qed.

Lemma firstn_firstn_skipn {A} (k c : nat) (l : list A) :
  k <= c -> firstn k l ++ firstn (c - k) (skipn k l) = firstn c l.
Proof.
  revert c l; induction k as [|k IH]; intros c l Hk; simpl.
  - now rewrite Nat.sub_0_r.
  - destruct c as [|c]; [lia|]. destruct l as [|x l]; simpl.
    + now rewrite firstn_nil.
    + f_equal. apply IH. lia.
Qed.

Lemma skipn_sub_skipn {A} (k c : nat) (l : list A) :
  k <= c -> skipn (c - k) (skipn k l) = skipn c l.
Proof. intros Hk. rewrite skipn_skipn. f_equal. lia. Qed.
