(* Str.v — Python str/bytes primitives over [list N] with characterising lemmas.
   Shared; owned by the coordinator.  Add new lemmas in your own file. *)
From Verif Require Import lib.Base lib.ListX.

Section Generic.
Context {A : Type} (eqb : A -> A -> bool).

Fixpoint is_prefix (p s : list A) : bool :=
  match p, s with
  | [], _ => true
  | x :: p', y :: s' => eqb x y && is_prefix p' s'
  | _ :: _, [] => false
  end.

(* index of the first occurrence of [t] in [s] (like s.find(t)), None = -1 *)
Fixpoint find_sub (t s : list A) : option nat :=
  if is_prefix t s then Some 0
  else match s with
       | [] => None
       | _ :: s' => option_map S (find_sub t s')
       end.

Fixpoint find_char (c : A) (s : list A) : option nat :=
  match s with
  | [] => None
  | x :: s' => if eqb x c then Some 0 else option_map S (find_char c s')
  end.

Definition contains_char (c : A) (s : list A) : bool := existsb (fun x => eqb x c) s.

(* s.split(sep, 1) for a one-character separator: (head, Some tail) or (s, None) *)
Fixpoint split_once (c : A) (s : list A) : list A * option (list A) :=
  match s with
  | [] => ([], None)
  | x :: s' => if eqb x c then ([], Some s')
               else let (h, t) := split_once c s' in (x :: h, t)
  end.

(* s.split(sep) for a one-character separator *)
Fixpoint split_all (c : A) (s : list A) : list (list A) :=
  match s with
  | [] => [[]]
  | x :: s' =>
    if eqb x c then [] :: split_all c s'
    else match split_all c s' with
         | [] => [[x]]           (* unreachable: split_all is never empty *)
         | h :: t => (x :: h) :: t
         end
  end.

Fixpoint lstrip_set (m : A -> bool) (s : list A) : list A :=
  match s with
  | [] => []
  | x :: s' => if m x then lstrip_set m s' else s
  end.

Definition rstrip_set (m : A -> bool) (s : list A) : list A := rev (lstrip_set m (rev s)).
Definition strip_set (m : A -> bool) (s : list A) : list A := rstrip_set m (lstrip_set m s).

Fixpoint join (sep : list A) (l : list (list A)) : list A :=
  match l with
  | [] => []
  | [x] => x
  | x :: r => x ++ sep ++ join sep r
  end.

Definition replace_char (c : A) (r : list A) (s : list A) : list A :=
  flat_map (fun x => if eqb x c then r else [x]) s.

End Generic.

(* ---- instances at N ---- *)
Definition prefixb := is_prefix N.eqb.
Definition findb := find_sub N.eqb.
Definition startswith (s p : str) : bool := prefixb p s.
Definition endswith (s p : str) : bool := prefixb (rev p) (rev s).

(* Python slice s[i:j] for 0 <= i, j (already clamped to non-negative) *)
Definition slice {A} (s : list A) (i j : nat) : list A := firstn (j - i) (skipn i s).

Definition ascii_upper (c : N) : N := if (97 <=? c)%N && (c <=? 122)%N then (c - 32)%N else c.
Definition ascii_lower (c : N) : N := if (65 <=? c)%N && (c <=? 90)%N then (c + 32)%N else c.
Definition upper (s : str) : str := map ascii_upper s.
Definition lower (s : str) : str := map ascii_lower s.

(* ---- lemmas ---- *)

Lemma prefixb_spec p s : prefixb p s = true <-> exists r, s = p ++ r.
Proof.
  unfold prefixb. revert s; induction p as [|x p IH]; intros s; simpl.
  - split; [intros _; now exists s | reflexivity].
  - destruct s as [|y s]; simpl.
    + split; [discriminate | intros [r Hr]; discriminate].
    + rewrite andb_true_iff, N.eqb_eq, IH. split.
      * intros [-> [r ->]]. now exists r.
      * intros [r Hr]. injection Hr as -> ->. split; [reflexivity | now exists r].
Qed.

Lemma prefixb_app p r : prefixb p (p ++ r) = true.
Proof. apply prefixb_spec. now exists r. Qed.

Lemma prefixb_firstn p s : prefixb p s = true <-> firstn (length p) s = p.
Proof.
  rewrite prefixb_spec. split.
  - intros [r ->]. rewrite firstn_app, Nat.sub_diag, firstn_all. simpl. now rewrite app_nil_r.
  - intros H. exists (skipn (length p) s). rewrite <- H at 1. symmetry. apply firstn_skipn.
Qed.

(* find_sub returns the FIRST occurrence *)
Lemma findb_some t s i :
  findb t s = Some i ->
  prefixb t (skipn i s) = true /\ forall j, j < i -> prefixb t (skipn j s) = false.
Proof.
  unfold findb, prefixb. revert i; induction s as [|x s IH]; intros i; simpl.
  - destruct (is_prefix N.eqb t []) eqn:E; [|discriminate].
    intros [= <-]. simpl. split; [exact E | intros j Hj; lia].
  - destruct (is_prefix N.eqb t (x :: s)) eqn:E.
    + intros [= <-]. simpl. split; [exact E | intros j Hj; lia].
    + destruct (find_sub N.eqb t s) as [k|] eqn:Ek; [|discriminate].
      intros [= <-]. destruct (IH k eq_refl) as [H1 H2]. split; [exact H1|].
      intros [|j] Hj; simpl; [exact E | apply H2; lia].
Qed.

Lemma findb_none t s : findb t s = None -> forall j, prefixb t (skipn j s) = false.
Proof.
  unfold findb, prefixb. induction s as [|x s IH]; simpl.
  - destruct (is_prefix N.eqb t []) eqn:E; [discriminate|].
    intros _ j. now rewrite skipn_nil.
  - destruct (is_prefix N.eqb t (x :: s)) eqn:E; [discriminate|].
    destruct (find_sub N.eqb t s) eqn:Ek; [discriminate|].
    intros _ [|j]; simpl; [exact E | now apply IH].
Qed.

Lemma findb_bound t s i : findb t s = Some i -> i + length t <= length s.
Proof.
  intros H0. destruct t as [|a t].
  - unfold findb in H0. destruct s; simpl in H0; injection H0 as <-; simpl; lia.
  - pose proof (findb_some _ _ _ H0) as [H _].
    apply prefixb_spec in H. destruct H as [r Hr].
    assert (L : length (skipn i s) = length (a :: t) + length r) by (rewrite Hr; apply app_length).
    rewrite skipn_length in L. simpl in *. lia.
Qed.

Lemma split_once_none c s h :
  split_once N.eqb c s = (h, None) -> h = s /\ contains_char N.eqb c s = false.
Proof.
  revert h; induction s as [|x s IH]; intros h; simpl.
  - intros [= <-]. auto.
  - destruct (N.eqb x c) eqn:E; [discriminate|].
    destruct (split_once N.eqb c s) as [h' t'] eqn:Es. intros [= <- ->].
    destruct (IH h' eq_refl) as [-> Hc]. simpl. auto.
Qed.

Lemma split_once_some c s h t :
  split_once N.eqb c s = (h, Some t) ->
  s = h ++ c :: t /\ contains_char N.eqb c h = false.
Proof.
  revert h; induction s as [|x s IH]; intros h; simpl.
  - discriminate.
  - destruct (N.eqb_spec x c) as [->|Hn].
    + intros [= <- <-]. auto.
    + destruct (split_once N.eqb c s) as [h' t'] eqn:Es. intros [= <- ->].
      destruct (IH h' eq_refl) as [-> Hc]. simpl. split; [reflexivity|].
      apply N.eqb_neq in Hn. now rewrite Hn.
Qed.
