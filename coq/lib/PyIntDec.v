(* PyIntDec.v — decimal text of Python ints over ASCII digits (owned by urlC19):
     dec_of_Z z      = str(z)
     Z_of_dec s      = int(s) for s of the shape -?[0-9]+   (total; junk is skipped)
     int_rx s        = re.match(r'-?\d+', s).end() restricted to the ASCII digits
   with the round trips used by C19_int.  Built on the standard library's
   Decimal / DecimalZ (Z.to_int, Z.of_int and their proofs), so there is no
   fuel and no division in this file.

   RESTRICTION: Python's \d also matches the non-ASCII decimal digits of
   Unicode category Nd and int() accepts them; here only 48..57 are digits. *)
From Coq Require Import Decimal DecimalFacts DecimalPos DecimalZ.
From Verif Require Import lib.Base.

Local Open Scope N_scope.

Definition is_digit (c : N) : bool := (48 <=? c) && (c <=? 57).
Definition MINUS : N := 45.

Fixpoint str_of_uint (u : uint) : str :=
  match u with
  | Nil => []
  | D0 l => 48 :: str_of_uint l
  | D1 l => 49 :: str_of_uint l
  | D2 l => 50 :: str_of_uint l
  | D3 l => 51 :: str_of_uint l
  | D4 l => 52 :: str_of_uint l
  | D5 l => 53 :: str_of_uint l
  | D6 l => 54 :: str_of_uint l
  | D7 l => 55 :: str_of_uint l
  | D8 l => 56 :: str_of_uint l
  | D9 l => 57 :: str_of_uint l
  end.

Definition str_of_int (d : Decimal.int) : str :=
  match d with
  | Pos u => str_of_uint u
  | Neg u => MINUS :: str_of_uint u
  end.

(* str(z) *)
Definition dec_of_Z (z : Z) : str := str_of_int (Z.to_int z).

Definition digit_cons (c : N) (u : uint) : uint :=
  match c - 48 with
  | 0 => if 48 <=? c then D0 u else u
  | 1 => D1 u
  | 2 => D2 u
  | 3 => D3 u
  | 4 => D4 u
  | 5 => D5 u
  | 6 => D6 u
  | 7 => D7 u
  | 8 => D8 u
  | 9 => D9 u
  | _ => u
  end.

Fixpoint uint_of_str (s : str) : uint :=
  match s with
  | [] => Nil
  | c :: r => digit_cons c (uint_of_str r)
  end.

(* int(s) for s = -?[0-9]+ (characters that are not digits are skipped, so the
   function is total; it is only ever applied to what int_rx matched) *)
Definition Z_of_dec (s : str) : Z :=
  match s with
  | c :: r => if c =? MINUS then Z.of_int (Neg (uint_of_str r)) else Z.of_int (Pos (uint_of_str s))
  | [] => 0%Z
  end.

Fixpoint count_digits (s : str) : nat :=
  match s with
  | [] => O
  | c :: r => if is_digit c then S (count_digits r) else O
  end.

(* re.match(r'-?\d+', s): None, or Some (m.end()) — the regex is greedy and has
   nothing after \d+, so it takes an optional '-' and the maximal digit run *)
Definition int_rx (s : str) : option nat :=
  match s with
  | [] => None
  | c :: r =>
    if c =? MINUS then
      match count_digits r with O => None | S n => Some (S (S n)) end
    else
      match count_digits s with O => None | S n => Some (S n) end
  end.

Definition starts_digit (s : str) : bool :=
  match s with c :: _ => is_digit c | [] => false end.

(* ------------------------------------------------------------------ *)
(* lemmas *)

Lemma digit_cons_str_of_uint_step c u :
  is_digit c = true ->
  str_of_uint (digit_cons c u) = c :: str_of_uint u.
Proof.
  unfold is_digit. intros H. apply andb_true_iff in H. destruct H as [H1 H2].
  apply N.leb_le in H1, H2.
  assert (E : exists k, (k <= 9)%nat /\ c = 48 + N.of_nat k).
  { exists (N.to_nat (c - 48)). split; lia. }
  destruct E as [k [Hk ->]].
  do 10 (destruct k as [|k]; [reflexivity|]). lia.
Qed.

Lemma uint_of_str_of_uint u : uint_of_str (str_of_uint u) = u.
Proof. induction u; simpl; try reflexivity; now rewrite IHu. Qed.

Lemma str_of_uint_digits u : forallb is_digit (str_of_uint u) = true.
Proof. induction u; simpl; auto. Qed.

Lemma count_digits_all s r :
  forallb is_digit s = true -> count_digits (s ++ r) = (length s + count_digits r)%nat.
Proof.
  induction s as [|c s IH]; simpl; [reflexivity|].
  intros H. apply andb_true_iff in H. destruct H as [Hc Hs]. now rewrite Hc, IH.
Qed.

Lemma str_of_uint_nonnil u : u <> Nil -> str_of_uint u <> [].
Proof. destruct u; simpl; congruence. Qed.

Lemma str_of_uint_not_minus u r : str_of_uint u = MINUS :: r -> False.
Proof. destruct u; simpl; unfold MINUS; intros H; inversion H. Qed.

Lemma Z_of_dec_str_of_int d :
  (match d with Pos u | Neg u => u <> Nil end) ->
  Z_of_dec (str_of_int d) = Z.of_int d.
Proof.
  destruct d as [u|u]; intros Hn; unfold str_of_int, Z_of_dec.
  - destruct (str_of_uint u) as [|c r] eqn:E.
    + exfalso. now apply (str_of_uint_nonnil u).
    + destruct (N.eqb_spec c MINUS) as [->|_].
      * exfalso. now apply (str_of_uint_not_minus u r).
      * now rewrite <- E, uint_of_str_of_uint.
  - rewrite N.eqb_refl. now rewrite uint_of_str_of_uint.
Qed.

Lemma to_int_nonnil z : match Z.to_int z with Pos u | Neg u => u <> Nil end.
Proof.
  destruct z; simpl; try apply Unsigned.to_uint_nonnil. discriminate.
Qed.

(* int(str(z)) = z *)
Lemma Z_of_dec_of_Z z : Z_of_dec (dec_of_Z z) = z.
Proof.
  unfold dec_of_Z. rewrite Z_of_dec_str_of_int by apply to_int_nonnil. apply DecimalZ.of_to.
Qed.

Lemma dec_of_Z_nonempty z : dec_of_Z z <> [].
Proof.
  unfold dec_of_Z. pose proof (to_int_nonnil z) as H.
  destruct (Z.to_int z); simpl; [now apply str_of_uint_nonnil | discriminate].
Qed.

(* the regex consumes the printed number and the digits that follow it *)
Lemma int_rx_dec_of_Z z r :
  int_rx (dec_of_Z z ++ r) = Some (length (dec_of_Z z) + count_digits r)%nat.
Proof.
  unfold dec_of_Z. pose proof (to_int_nonnil z) as H.
  destruct (Z.to_int z) as [u|u]; unfold str_of_int.
  - pose proof (str_of_uint_digits u) as Hd.
    destruct (str_of_uint u) as [|c s] eqn:E; [exfalso; now apply (str_of_uint_nonnil u)|].
    unfold int_rx. cbn [app].
    destruct (N.eqb_spec c MINUS) as [->|_]; [exfalso; now apply (str_of_uint_not_minus u s)|].
    change (c :: s ++ r) with ((c :: s) ++ r). rewrite count_digits_all by exact Hd.
    reflexivity.
  - unfold int_rx. cbn [app]. rewrite N.eqb_refl.
    rewrite count_digits_all by apply str_of_uint_digits.
    destruct (str_of_uint u) as [|c s] eqn:E; [exfalso; now apply (str_of_uint_nonnil u)|].
    reflexivity.
Qed.

Lemma int_rx_dec_of_Z_exact z r :
  starts_digit r = false -> int_rx (dec_of_Z z ++ r) = Some (length (dec_of_Z z)).
Proof.
  intros H. rewrite int_rx_dec_of_Z. f_equal.
  destruct r as [|c r]; simpl in *; [lia | rewrite H; lia].
Qed.

Lemma int_rx_dec_of_Z_pos z r : exists n, int_rx (dec_of_Z z ++ r) = Some (S n).
Proof.
  rewrite int_rx_dec_of_Z. pose proof (dec_of_Z_nonempty z).
  destruct (dec_of_Z z); [congruence|]. simpl. eauto.
Qed.

(* what a successful match looks like: positive length, within the string,
   maximal (the next character is not a digit), and the matched text starts
   with '-' or a digit *)
Lemma count_digits_le s : (count_digits s <= length s)%nat.
Proof. induction s as [|c s IH]; simpl; [lia|]. destruct (is_digit c); simpl; lia. Qed.

Lemma count_digits_skipn s : starts_digit (skipn (count_digits s) s) = false.
Proof.
  induction s as [|c s IH]; simpl; [reflexivity|].
  destruct (is_digit c) eqn:E; simpl; [exact IH | exact E].
Qed.

Lemma int_rx_some s n :
  int_rx s = Some n ->
  (0 < n <= length s)%nat /\ starts_digit (skipn n s) = false.
Proof.
  unfold int_rx. destruct s as [|c r]; [discriminate|].
  destruct (c =? MINUS).
  - destruct (count_digits r) as [|k] eqn:E; [discriminate|]. intros [= <-].
    pose proof (count_digits_le r). pose proof (count_digits_skipn r) as Hs.
    rewrite E in *. simpl length. split; [lia|]. exact Hs.
  - destruct (count_digits (c :: r)) as [|k] eqn:E; [discriminate|]. intros [= <-].
    pose proof (count_digits_le (c :: r)). pose proof (count_digits_skipn (c :: r)) as Hs.
    rewrite E in *. split; [lia|]. exact Hs.
Qed.

Definition int_start (c : N) : bool := is_digit c || (c =? MINUS).

Lemma int_rx_some_head s n :
  int_rx s = Some n -> exists c r, s = c :: r /\ int_start c = true.
Proof.
  unfold int_rx, int_start. destruct s as [|c r]; [discriminate|].
  intros H. exists c, r. split; [reflexivity|].
  destruct (c =? MINUS); [apply orb_true_r|].
  simpl in H. destruct (is_digit c); [reflexivity | discriminate].
Qed.

Lemma dec_of_Z_head z : exists c r, dec_of_Z z = c :: r /\ int_start c = true.
Proof.
  destruct (int_rx_dec_of_Z_pos z []) as [n Hn]. rewrite app_nil_r in Hn.
  eapply int_rx_some_head; eauto.
Qed.
