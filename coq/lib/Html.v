(* Html.v -- HTML escaping as the two implementations in play do it:
     html.escape(s)                 (CPython stdlib, quote=True), used by error_render.render
     common_helpers.html_escape(s)  (ombott), used by the last-resort page in Ombott.wsgi
   Both are chains of single-character str.replace calls.  The ombott chain is
   the one the translator read from the source (Gen.html_escape_chain); the
   stdlib chain is pinned here and tied by the correspondence check.  The
   lemmas about the ombott chain (which change when the source does) live in
   proofs/C20_escape.v so that this file always compiles.
   Main lemma: escape_safe -- the output contains no angle bracket and no single
   or double quote, and every ampersand in it begins one of the entities. *)
From Verif Require Import lib.Base lib.Str.
From Verif Require gen.Gen.
From Coq Require Import String Ascii.

(* string literals -> code point lists (evaluated at definition time) *)
Definition lit (s : string) : str := map N_of_ascii (list_ascii_of_string s).

(* ---- the replace chains ---- *)

(* s.replace(c1, r1).replace(c2, r2)... for one-character needles *)
Definition apply_chain (chain : list (N * str)) (s : str) : str :=
  fold_left (fun acc cr => replace_char N.eqb (fst cr) (snd cr) acc) chain s.

(* Lib/html/__init__.py: escape(s, quote=True) replaces, in this order,
   ampersand (must be done first), less-than, greater-than and, since quote is
   true, the double quote and the single quote (the latter by &#x27;) *)
Definition std_chain : list (N * str) := Eval compute in
  [(38%N, lit "&amp;"); (60%N, lit "&lt;"); (62%N, lit "&gt;"); (34%N, lit "&quot;"); (39%N, lit "&#x27;")].

Definition html_escape_std (s : str) : str := apply_chain std_chain s.
Definition html_escape_ombott (s : str) : str := apply_chain Gen.html_escape_chain s.

(* ---- what "safe" means ---- *)

(* text after the '&' of the entities either function can produce *)
Definition entity_tails : list str := Eval compute in
  [lit "amp;"; lit "lt;"; lit "gt;"; lit "quot;"; lit "#x27;"; lit "#039;"].

Definition starts_entity (r : str) : bool := existsb (fun t => prefixb t r) entity_tails.

(* every '&' begins an entity *)
Fixpoint amp_ok (s : str) : bool :=
  match s with
  | [] => true
  | c :: r => (if N.eqb c 38 then starts_entity r else true) && amp_ok r
  end.

Definition is_angle (c : N) : bool := N.eqb c 60 || N.eqb c 62.
Definition is_quote (c : N) : bool := N.eqb c 34 || N.eqb c 39.
Definition no_angle (s : str) : bool := forallb (fun c => negb (is_angle c)) s.
Definition no_quote (s : str) : bool := forallb (fun c => negb (is_quote c)) s.

(* text that cannot open or close a tag, nor start a character reference of its own *)
Definition markup_safe (s : str) : bool := no_angle s && amp_ok s.

(* stronger: plain text with none of the five special characters at all *)
Definition markup_free (s : str) : bool :=
  forallb (fun c => negb (is_angle c || is_quote c || N.eqb c 38)) s.

(* ---- a "piece" view: the output is a concatenation of closed pieces ---- *)

(* a piece is closed when it contains no angle bracket or quote and its
   ampersands are settled inside it, whatever follows *)
Definition closed_piece (p : str) : Prop :=
  no_angle p = true /\ no_quote p = true /\ forall r, amp_ok (p ++ r) = amp_ok r.

Lemma closed_nil : closed_piece [].
Proof. repeat split. Qed.

Lemma closed_plain c :
  is_angle c = false -> is_quote c = false -> N.eqb c 38 = false -> closed_piece [c].
Proof.
  intros Ha Hq Hc. unfold closed_piece, no_angle, no_quote. simpl. rewrite Ha, Hq, Hc. auto.
Qed.

Lemma closed_app p q : closed_piece p -> closed_piece q -> closed_piece (p ++ q).
Proof.
  intros (A1 & Q1 & R1) (A2 & Q2 & R2). unfold closed_piece, no_angle, no_quote in *.
  rewrite !forallb_app, A1, A2, Q1, Q2. repeat split.
  intros r. now rewrite <- app_assoc, R1, R2.
Qed.

Lemma closed_flat_map {A} (g : A -> str) (l : list A) :
  (forall x, closed_piece (g x)) -> closed_piece (flat_map g l).
Proof.
  intros H. induction l as [|x l IH]; simpl; [apply closed_nil | now apply closed_app].
Qed.

Lemma closed_markup_safe p : closed_piece p -> markup_safe p = true /\ no_quote p = true.
Proof.
  intros (A & Q & R). unfold markup_safe. rewrite A. split; [|exact Q].
  specialize (R []). rewrite app_nil_r in R. now rewrite R.
Qed.

(* the entities themselves are closed pieces *)
Lemma closed_entity t : In t entity_tails -> closed_piece (38%N :: t).
Proof.
  intros H. simpl in H.
  repeat (destruct H as [<- | H]; [repeat split|]); try contradiction.
Qed.

(* ---- the chains as one pass over the characters ---- *)

Lemma replace_char_flat_map {A} c r (g : A -> str) (l : list A) :
  replace_char N.eqb c r (flat_map g l) = flat_map (fun x => replace_char N.eqb c r (g x)) l.
Proof.
  unfold replace_char. induction l as [|x l IH]; simpl; [reflexivity|].
  now rewrite flat_map_app, IH.
Qed.

Lemma apply_chain_flat_map {A} chain (g : A -> str) (l : list A) :
  apply_chain chain (flat_map g l) = flat_map (fun x => apply_chain chain (g x)) l.
Proof.
  unfold apply_chain. revert g. induction chain as [|[c r] chain IH]; intros g; simpl.
  - reflexivity.
  - rewrite replace_char_flat_map. apply IH.
Qed.

Lemma flat_map_singleton (s : str) : flat_map (fun x => [x]) s = s.
Proof. induction s; simpl; congruence. Qed.

(* escaping is character-wise: escape s = concat (map (escape of the one-character string) s) *)
Lemma apply_chain_pointwise chain s :
  apply_chain chain s = flat_map (fun x => apply_chain chain [x]) s.
Proof. rewrite <- (flat_map_singleton s) at 1. apply apply_chain_flat_map. Qed.

(* one character through a chain whose needles are the five specials, '&' first *)
Definition esc1_std (c : N) : str :=
  if N.eqb c 38 then 38%N :: nth 0 entity_tails []
  else if N.eqb c 60 then 38%N :: nth 1 entity_tails []
  else if N.eqb c 62 then 38%N :: nth 2 entity_tails []
  else if N.eqb c 34 then 38%N :: nth 3 entity_tails []
  else if N.eqb c 39 then 38%N :: nth 4 entity_tails []
  else [c].

Definition esc1_ombott (c : N) : str :=
  if N.eqb c 38 then 38%N :: nth 0 entity_tails []
  else if N.eqb c 60 then 38%N :: nth 1 entity_tails []
  else if N.eqb c 62 then 38%N :: nth 2 entity_tails []
  else if N.eqb c 34 then 38%N :: nth 3 entity_tails []
  else if N.eqb c 39 then 38%N :: nth 5 entity_tails []
  else [c].

Ltac chain_one c :=
  unfold apply_chain; cbn [fold_left fst snd];
  destruct (N.eqb_spec c 38) as [->|?]; [reflexivity|];
  destruct (N.eqb_spec c 60) as [->|?]; [reflexivity|];
  destruct (N.eqb_spec c 62) as [->|?]; [reflexivity|];
  destruct (N.eqb_spec c 34) as [->|?]; [reflexivity|];
  destruct (N.eqb_spec c 39) as [->|?]; [reflexivity|];
  unfold replace_char; cbn [flat_map app];
  repeat match goal with
         | |- context [N.eqb c ?k] => let E := fresh in destruct (N.eqb_spec c k) as [E|E]; [congruence|]; cbn [flat_map app]
         end; reflexivity.

Lemma std_chain_one c : apply_chain std_chain [c] = esc1_std c.
Proof. unfold esc1_std, std_chain. chain_one c. Qed.

Lemma html_escape_std_pointwise s : html_escape_std s = flat_map esc1_std s.
Proof.
  unfold html_escape_std. rewrite apply_chain_pointwise.
  apply flat_map_ext. exact std_chain_one.
Qed.

Lemma esc1_std_closed c : closed_piece (esc1_std c).
Proof.
  unfold esc1_std.
  destruct (N.eqb c 38) eqn:E1; [apply closed_entity; simpl; tauto|].
  destruct (N.eqb c 60) eqn:E2; [apply closed_entity; simpl; tauto|].
  destruct (N.eqb c 62) eqn:E3; [apply closed_entity; simpl; tauto|].
  destruct (N.eqb c 34) eqn:E4; [apply closed_entity; simpl; tauto|].
  destruct (N.eqb c 39) eqn:E5; [apply closed_entity; simpl; tauto|].
  apply closed_plain; unfold is_angle, is_quote; now rewrite ?E2, ?E3, ?E4, ?E5.
Qed.

Lemma html_escape_std_closed s : closed_piece (html_escape_std s).
Proof. rewrite html_escape_std_pointwise. apply closed_flat_map, esc1_std_closed. Qed.

(* escape_safe: no angle bracket or quote in the output and every ampersand begins an entity *)
Theorem escape_safe_std s :
  no_angle (html_escape_std s) = true /\ no_quote (html_escape_std s) = true
  /\ amp_ok (html_escape_std s) = true.
Proof.
  destruct (closed_markup_safe _ (html_escape_std_closed s)) as [H Q].
  unfold markup_safe in H. apply andb_true_iff in H. tauto.
Qed.

(* plain text is left alone *)
Lemma markup_free_escape_std_id s : markup_free s = true -> html_escape_std s = s.
Proof.
  intros H. rewrite html_escape_std_pointwise.
  induction s as [|c s IH]; simpl; [auto|].
  simpl in H. apply andb_true_iff in H. destruct H as [Hc Hs].
  rewrite (IH Hs).
  unfold is_angle, is_quote in Hc. unfold esc1_std.
  destruct (N.eqb c 38), (N.eqb c 60), (N.eqb c 62), (N.eqb c 34), (N.eqb c 39);
    simpl in Hc; rewrite ?orb_true_r in Hc; simpl in Hc; try discriminate; auto.
Qed.

Lemma markup_free_safe s : markup_free s = true -> markup_safe s = true.
Proof.
  unfold markup_safe, no_angle. induction s as [|c s IH]; simpl; [reflexivity|].
  intros H. apply andb_true_iff in H. destruct H as [Hc Hs].
  apply IH in Hs. apply andb_true_iff in Hs. destruct Hs as [H1 H2].
  rewrite H1, H2. unfold is_angle, is_quote in *.
  destruct (N.eqb c 38), (N.eqb c 60), (N.eqb c 62); simpl in Hc; rewrite ?orb_true_r in Hc; simpl in Hc; try discriminate; reflexivity.
Qed.
