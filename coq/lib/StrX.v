(* StrX.v — further lemmas about the Str.v primitives (owned by cluster staticG). *)
From Verif Require Import lib.Base lib.ListX lib.Str.

Lemma contains_app c (a b : str) :
  contains_char N.eqb c (a ++ b) = contains_char N.eqb c a || contains_char N.eqb c b.
Proof. unfold contains_char. apply existsb_app. Qed.

Lemma split_once_app c h t :
  contains_char N.eqb c h = false -> split_once N.eqb c (h ++ c :: t) = (h, Some t).
Proof.
  induction h as [|x h IH]; simpl.
  - intros _. now rewrite N.eqb_refl.
  - intros H. apply orb_false_iff in H as [Hx Hh]. rewrite Hx, (IH Hh). reflexivity.
Qed.

Lemma split_once_nosep c h :
  contains_char N.eqb c h = false -> split_once N.eqb c h = (h, None).
Proof.
  induction h as [|x h IH]; simpl; [reflexivity|].
  intros H. apply orb_false_iff in H as [Hx Hh]. rewrite Hx, (IH Hh). reflexivity.
Qed.

Lemma split_all_app c h r :
  contains_char N.eqb c h = false -> split_all N.eqb c (h ++ c :: r) = h :: split_all N.eqb c r.
Proof.
  induction h as [|x h IH]; simpl.
  - intros _. now rewrite N.eqb_refl.
  - intros H. apply orb_false_iff in H as [Hx Hh]. rewrite Hx, (IH Hh). reflexivity.
Qed.

Lemma split_all_nosep c h :
  contains_char N.eqb c h = false -> split_all N.eqb c h = [h].
Proof.
  induction h as [|x h IH]; simpl; [reflexivity|].
  intros H. apply orb_false_iff in H as [Hx Hh]. rewrite Hx, (IH Hh). reflexivity.
Qed.

(* every piece of a split is free of the separator *)
Lemma split_all_sepfree c s :
  Forall (fun p => contains_char N.eqb c p = false) (split_all N.eqb c s).
Proof.
  induction s as [|x s IH]; simpl.
  - constructor; [reflexivity|constructor].
  - destruct (N.eqb x c) eqn:E.
    + constructor; [reflexivity|exact IH].
    + destruct (split_all N.eqb c s) as [|h t].
      * constructor; [simpl; now rewrite E|constructor].
      * inversion IH as [|? ? Hh Ht]; subst. constructor; [simpl; now rewrite E, Hh|exact Ht].
Qed.

Lemma findb_prefix t r : findb t (t ++ r) = Some 0%nat.
Proof.
  unfold findb. pose proof (prefixb_app t r) as P. unfold prefixb in P.
  destruct (t ++ r) as [|x l]; cbn [find_sub]; rewrite P; reflexivity.
Qed.

Lemma join_cons {A} (sep x : list A) r : r <> [] -> join sep (x :: r) = x ++ sep ++ join sep r.
Proof. destruct r; [congruence|reflexivity]. Qed.
