(* Utf8Dec.v — the other direction of lib/Utf8.v: the strict decoder accepts
   ONLY the canonical encodings of scalar values (no overlong forms, no
   surrogates, nothing above 10FFFF, no truncated or stray bytes), i.e.
       utf8_dec bs = Some s  ->  utf8_enc_str s = bs  /\  Forall scalar s
   so that  bytes.decode('utf-8')  followed by  str.encode('utf-8')  is the
   identity wherever the decode succeeds.  Owned by cluster qslH; kept in a
   separate file so that importers of Utf8.v are not rebuilt. *)
From Verif Require Import lib.Base lib.Utf8.
From Coq Require Import ZifyBool ZifyN.
Local Open Scope N_scope.

Local Ltac dl := zify; Z.div_mod_to_equations; lia.

Lemma enc2 b0 b1 :
  0xC2 <= b0 -> b0 < 0xE0 -> is_cont b1 = true ->
  let c := (b0 - 0xC0) * 64 + (b1 - 0x80) in utf8_enc c = [b0; b1] /\ scalar c.
Proof.
  intros H1 H2 H3 c. unfold is_cont in H3. subst c. split.
  - unfold utf8_enc.
    destruct (N.ltb_spec ((b0 - 192) * 64 + (b1 - 128)) 128); [dl|].
    destruct (N.ltb_spec ((b0 - 192) * 64 + (b1 - 128)) 2048); [|dl].
    f_equal; [dl | f_equal; dl].
  - left. dl.
Qed.

Lemma enc3 b0 b1 b2 :
  0xE0 <= b0 -> b0 < 0xF0 -> ok2_3 b0 b1 = true -> is_cont b2 = true ->
  let c := (b0 - 0xE0) * 4096 + (b1 - 0x80) * 64 + (b2 - 0x80) in utf8_enc c = [b0; b1; b2] /\ scalar c.
Proof.
  intros H1 H2 H3 H4 c. unfold ok2_3, is_cont in *. subst c. split.
  - unfold utf8_enc.
    destruct (N.ltb_spec ((b0 - 224) * 4096 + (b1 - 128) * 64 + (b2 - 128)) 128); [dl|].
    destruct (N.ltb_spec ((b0 - 224) * 4096 + (b1 - 128) * 64 + (b2 - 128)) 2048); [dl|].
    destruct (N.ltb_spec ((b0 - 224) * 4096 + (b1 - 128) * 64 + (b2 - 128)) 65536); [|dl].
    f_equal; [dl | f_equal; [dl | f_equal; dl]].
  - unfold scalar. dl.
Qed.

Lemma enc4 b0 b1 b2 b3 :
  0xF0 <= b0 -> b0 < 0xF5 -> ok2_4 b0 b1 = true -> is_cont b2 = true -> is_cont b3 = true ->
  let c := (b0 - 0xF0) * 262144 + (b1 - 0x80) * 4096 + (b2 - 0x80) * 64 + (b3 - 0x80) in
  utf8_enc c = [b0; b1; b2; b3] /\ scalar c.
Proof.
  intros H1 H2 H3 H4 H5 c. unfold ok2_4, is_cont in *. subst c. split.
  - unfold utf8_enc.
    destruct (N.ltb_spec ((b0 - 240) * 262144 + (b1 - 128) * 4096 + (b2 - 128) * 64 + (b3 - 128)) 128); [dl|].
    destruct (N.ltb_spec ((b0 - 240) * 262144 + (b1 - 128) * 4096 + (b2 - 128) * 64 + (b3 - 128)) 2048); [dl|].
    destruct (N.ltb_spec ((b0 - 240) * 262144 + (b1 - 128) * 4096 + (b2 - 128) * 64 + (b3 - 128)) 65536); [dl|].
    f_equal; [dl | f_equal; [dl | f_equal; [dl | f_equal; dl]]].
  - unfold scalar. dl.
Qed.

(* one successful step of the scanner consumed exactly the encoding of a scalar value *)
Lemma utf8_scan_step_inv bs c items :
  utf8_scan bs = Some c :: items ->
  exists r, bs = utf8_enc c ++ r /\ items = utf8_scan r /\ scalar c.
Proof.
  destruct bs as [|b0 r0]; [discriminate|]. cbn [utf8_scan].
  destruct (N.ltb_spec b0 0x80) as [A1|A1].
  { intros [= <- <-]. exists r0. rewrite utf8_enc_ascii by exact A1.
    repeat split. left. lia. }
  destruct (N.ltb_spec b0 0xC2) as [A2|A2]; [discriminate|].
  destruct (N.ltb_spec b0 0xE0) as [A3|A3].
  { destruct r0 as [|b1 r1]; [discriminate|].
    destruct (is_cont b1) eqn:C1; [|discriminate].
    intros [= <- <-]. destruct (enc2 b0 b1 A2 A3 C1) as [E S]. exists r1. rewrite E. auto. }
  destruct (N.ltb_spec b0 0xF0) as [A4|A4].
  { destruct r0 as [|b1 r1]; [discriminate|].
    destruct (ok2_3 b0 b1) eqn:C1; [|discriminate].
    destruct r1 as [|b2 r2]; [discriminate|].
    destruct (is_cont b2) eqn:C2; [|discriminate].
    intros [= <- <-]. destruct (enc3 b0 b1 b2 A3 A4 C1 C2) as [E S]. exists r2. rewrite E. auto. }
  destruct (N.ltb_spec b0 0xF5) as [A5|A5]; [|discriminate].
  destruct r0 as [|b1 r1]; [discriminate|].
  destruct (ok2_4 b0 b1) eqn:C1; [|discriminate].
  destruct r1 as [|b2 r2]; [discriminate|].
  destruct (is_cont b2) eqn:C2; [|discriminate].
  destruct r2 as [|b3 r3]; [discriminate|].
  destruct (is_cont b3) eqn:C3; [|discriminate].
  intros [= <- <-]. destruct (enc4 b0 b1 b2 b3 A4 A5 C1 C2 C3) as [E S]. exists r3. rewrite E. auto.
Qed.

Lemma utf8_scan_nil_inv bs : utf8_scan bs = [] -> bs = [].
Proof.
  destruct bs as [|b0 r0]; [reflexivity|]. cbn [utf8_scan].
  repeat match goal with
         | |- context [if ?b then _ else _] => destruct b
         | |- context [match ?l with [] => _ | _ :: _ => _ end] => destruct l
         end; discriminate.
Qed.

(* MAIN: the strict decoder is sound — it only accepts canonical encodings of scalar text *)
Theorem utf8_dec_some_inv bs s : utf8_dec bs = Some s -> utf8_enc_str s = bs /\ Forall scalar s.
Proof.
  unfold utf8_dec. remember (utf8_scan bs) as items eqn:E. revert bs s E.
  induction items as [|o items IH]; intros bs s E.
  - cbn [sequence_opt]. intros [= <-]. symmetry in E. apply utf8_scan_nil_inv in E. subst. split; constructor.
  - cbn [sequence_opt]. destruct o as [c|]; [|discriminate].
    destruct (sequence_opt items) as [s'|] eqn:Es; [|discriminate]. intros [= <-].
    symmetry in E. destruct (utf8_scan_step_inv _ _ _ E) as (r & -> & Hitems & Hc).
    destruct (IH r s' Hitems eq_refl) as [E' S'].
    split; [|constructor; assumption].
    unfold utf8_enc_str in *. cbn [flat_map]. rewrite E'. reflexivity.
Qed.

(* decode and encode are mutually inverse between valid UTF-8 and scalar text *)
Corollary utf8_dec_iff bs s : utf8_dec bs = Some s <-> (utf8_enc_str s = bs /\ Forall scalar s).
Proof.
  split; [apply utf8_dec_some_inv|]. intros [<- H]. apply utf8_dec_enc, H.
Qed.

(* on valid input, the lossy decoder agrees with the strict one *)
Lemma utf8_dec_replace_of_valid bs s : utf8_dec bs = Some s -> utf8_dec_replace bs = s.
Proof.
  intros H. apply utf8_dec_some_inv in H. destruct H as [<- H]. apply utf8_dec_replace_enc, H.
Qed.

(* whatever the bytes, every code point the scanner delivers is a scalar value;
   hence bytes.decode('utf-8','replace') always yields scalar text *)
Definition ok_item (o : option N) : Prop := match o with Some c => scalar c | None => True end.

Lemma utf8_scan_scalar bs : Forall ok_item (utf8_scan bs).
Proof.
  remember (length bs) as n eqn:Hn. revert bs Hn.
  induction n as [n IH] using lt_wf_ind. intros bs Hn.
  assert (R : forall r, (length r < length bs)%nat -> Forall ok_item (utf8_scan r))
    by (intros r Hr; apply (IH (length r)); [subst n; exact Hr | reflexivity]).
  clear IH Hn.
  destruct bs as [|b0 r0]; [constructor|]. cbn [utf8_scan].
  assert (N1 : Forall ok_item [None]) by (repeat constructor).
  destruct (N.ltb_spec b0 0x80) as [A1|A1].
  { constructor; [left; cbn; lia | apply R; cbn; lia]. }
  destruct (N.ltb_spec b0 0xC2) as [A2|A2]; [constructor; [exact I | apply R; cbn; lia]|].
  destruct (N.ltb_spec b0 0xE0) as [A3|A3].
  { destruct r0 as [|b1 r1]; [exact N1|].
    destruct (is_cont b1) eqn:C1; constructor; try exact I; try (apply R; cbn; lia).
    apply (enc2 b0 b1 A2 A3 C1). }
  destruct (N.ltb_spec b0 0xF0) as [A4|A4].
  { destruct r0 as [|b1 r1]; [exact N1|].
    destruct (ok2_3 b0 b1) eqn:C1; [|constructor; [exact I | apply R; cbn; lia]].
    destruct r1 as [|b2 r2]; [exact N1|].
    destruct (is_cont b2) eqn:C2; constructor; try exact I; try (apply R; cbn; lia).
    apply (enc3 b0 b1 b2 A3 A4 C1 C2). }
  destruct (N.ltb_spec b0 0xF5) as [A5|A5]; [|constructor; [exact I | apply R; cbn; lia]].
  destruct r0 as [|b1 r1]; [exact N1|].
  destruct (ok2_4 b0 b1) eqn:C1; [|constructor; [exact I | apply R; cbn; lia]].
  destruct r1 as [|b2 r2]; [exact N1|].
  destruct (is_cont b2) eqn:C2; [|constructor; [exact I | apply R; cbn; lia]].
  destruct r2 as [|b3 r3]; [exact N1|].
  destruct (is_cont b3) eqn:C3; constructor; try exact I; try (apply R; cbn; lia).
  apply (enc4 b0 b1 b2 b3 A4 A5 C1 C2 C3).
Qed.

Lemma utf8_dec_replace_scalar bs : Forall scalar (utf8_dec_replace bs).
Proof.
  unfold utf8_dec_replace. pose proof (utf8_scan_scalar bs) as H.
  induction H as [|o l Ho _ IH]; cbn [map]; constructor; [|exact IH].
  destruct o as [c|]; [exact Ho|]. unfold repl_char, scalar. right. lia.
Qed.
