(* HmacMd5.v — executable model of Python hashlib.md5(b).digest() and
   hmac.new(key, msg, digestmod=hashlib.md5).digest() over byte lists [list N]
   (every input byte is expected to be < 256).  RFC 1321 / RFC 2104.
   32-bit words are [N] values kept below 2^32; truncation is [w32]
   (= reduction modulo 4294967296, lemma [w32_mod]).  No proofs beyond sanity Examples;
   validated against CPython on 150+ vectors (all boundary lengths) by vm_compute. *)
From Verif Require Import lib.Base.

Local Open Scope N_scope.

(* ---- 32-bit word arithmetic ---- *)

Definition mask32 : N := 4294967295.            (* 0xFFFFFFFF *)

Definition w32 (x : N) : N := N.land x mask32.

Lemma w32_mod x : w32 x = x mod 4294967296.
Proof.
  unfold w32, mask32. change 4294967295 with (N.ones 32).
  rewrite N.land_ones. reflexivity.
Qed.

Definition add32 (a b : N) : N := w32 (a + b).

Definition not32 (w : N) : N := N.lxor w mask32.

(* rotate left by s, 0 < s < 32, for x < 2^32 *)
Definition rotl32 (x s : N) : N :=
  N.lor (w32 (N.shiftl x s)) (N.shiftr x (32 - s)).

(* ---- tables: (K[i], s[i], g(i)) for the four groups of 16 rounds ----
   K[i] = floor(2^32 * abs(sin(i+1))); g = i, (5i+1) mod 16, (3i+5) mod 16, 7i mod 16 *)

Definition md5_tab1 : list (N * N * nat) :=
  [(3614090360, 7, 0%nat); (3905402710, 12, 1%nat); (606105819, 17, 2%nat); (3250441966, 22, 3%nat);
   (4118548399, 7, 4%nat); (1200080426, 12, 5%nat); (2821735955, 17, 6%nat); (4249261313, 22, 7%nat);
   (1770035416, 7, 8%nat); (2336552879, 12, 9%nat); (4294925233, 17, 10%nat); (2304563134, 22, 11%nat);
   (1804603682, 7, 12%nat); (4254626195, 12, 13%nat); (2792965006, 17, 14%nat); (1236535329, 22, 15%nat)].
Definition md5_tab2 : list (N * N * nat) :=
  [(4129170786, 5, 1%nat); (3225465664, 9, 6%nat); (643717713, 14, 11%nat); (3921069994, 20, 0%nat);
   (3593408605, 5, 5%nat); (38016083, 9, 10%nat); (3634488961, 14, 15%nat); (3889429448, 20, 4%nat);
   (568446438, 5, 9%nat); (3275163606, 9, 14%nat); (4107603335, 14, 3%nat); (1163531501, 20, 8%nat);
   (2850285829, 5, 13%nat); (4243563512, 9, 2%nat); (1735328473, 14, 7%nat); (2368359562, 20, 12%nat)].
Definition md5_tab3 : list (N * N * nat) :=
  [(4294588738, 4, 5%nat); (2272392833, 11, 8%nat); (1839030562, 16, 11%nat); (4259657740, 23, 14%nat);
   (2763975236, 4, 1%nat); (1272893353, 11, 4%nat); (4139469664, 16, 7%nat); (3200236656, 23, 10%nat);
   (681279174, 4, 13%nat); (3936430074, 11, 0%nat); (3572445317, 16, 3%nat); (76029189, 23, 6%nat);
   (3654602809, 4, 9%nat); (3873151461, 11, 12%nat); (530742520, 16, 15%nat); (3299628645, 23, 2%nat)].
Definition md5_tab4 : list (N * N * nat) :=
  [(4096336452, 6, 0%nat); (1126891415, 10, 7%nat); (2878612391, 15, 14%nat); (4237533241, 21, 5%nat);
   (1700485571, 6, 12%nat); (2399980690, 10, 3%nat); (4293915773, 15, 10%nat); (2240044497, 21, 1%nat);
   (1873313359, 6, 8%nat); (4264355552, 10, 15%nat); (2734768916, 15, 6%nat); (1309151649, 21, 13%nat);
   (4149444226, 6, 4%nat); (3174756917, 10, 11%nat); (718787259, 15, 2%nat); (3951481745, 21, 9%nat)].

(* ---- the round functions ---- *)

Definition md5_F (b c d : N) : N := N.lor (N.land b c) (N.land (not32 b) d).
Definition md5_G (b c d : N) : N := N.lor (N.land d b) (N.land (not32 d) c).
Definition md5_H (b c d : N) : N := N.lxor (N.lxor b c) d.
Definition md5_I (b c d : N) : N := N.lxor c (N.lor b (not32 d)).

(* state (A, B, C, D) *)
Definition md5_state : Type := (N * N * N * N)%type.

Definition md5_init : md5_state := (1732584193, 4023233417, 2562383102, 271733878).
  (* 0x67452301, 0xefcdab89, 0x98badcfe, 0x10325476 *)

(* one round: F := f(B,C,D) + A + K + M[g];  (A,B,C,D) := (D, B + rotl(F,s), B, C) *)
Definition md5_round (f : N -> N -> N -> N) (m : list N)
    (st : md5_state) (e : N * N * nat) : md5_state :=
  let '(a, b, c, d) := st in
  let '(k, s, g) := e in
  let x := w32 (f b c d + a + k + nth g m 0) in
  (d, add32 b (rotl32 x s), b, c).

(* one 16-word block: 64 rounds, then add to the running state *)
Definition md5_block (st : md5_state) (m : list N) : md5_state :=
  let st1 := fold_left (md5_round md5_F m) md5_tab1 st in
  let st2 := fold_left (md5_round md5_G m) md5_tab2 st1 in
  let st3 := fold_left (md5_round md5_H m) md5_tab3 st2 in
  let st4 := fold_left (md5_round md5_I m) md5_tab4 st3 in
  let '(a0, b0, c0, d0) := st in
  let '(a, b, c, d) := st4 in
  (add32 a0 a, add32 b0 b, add32 c0 c, add32 d0 d).

(* ---- bytes <-> little-endian words ---- *)

Fixpoint words_le (bs : list N) : list N :=
  match bs with
  | b0 :: b1 :: b2 :: b3 :: r =>
      (b0 + N.shiftl b1 8 + N.shiftl b2 16 + N.shiftl b3 24) :: words_le r
  | _ => []
  end.

Definition bytes_le4 (w : N) : list N :=
  [N.land w 255; N.land (N.shiftr w 8) 255; N.land (N.shiftr w 16) 255; N.land (N.shiftr w 24) 255].

(* ---- padding: 0x80, zeros up to 56 mod 64, 64-bit little-endian BIT length ---- *)

Definition md5_pad (msg : list N) : list N :=
  let n := N.of_nat (length msg) in
  let zeros := N.to_nat ((119 - n mod 64) mod 64) in
  let bits := N.shiftl n 3 in
  msg ++ 128 :: repeat 0 zeros
      ++ bytes_le4 bits ++ bytes_le4 (N.shiftr bits 32).

(* consume [fuel] blocks of 16 words *)
Fixpoint md5_blocks (fuel : nat) (ws : list N) (st : md5_state) : md5_state :=
  match fuel with
  | O => st
  | S fuel' => md5_blocks fuel' (skipn 16 ws) (md5_block st (firstn 16 ws))
  end.

Definition md5 (msg : list N) : list N :=
  let ws := words_le (md5_pad msg) in
  let '(a, b, c, d) := md5_blocks (Nat.div (length ws) 16) ws md5_init in
  bytes_le4 a ++ bytes_le4 b ++ bytes_le4 c ++ bytes_le4 d.

(* ---- HMAC (RFC 2104), block size 64 ---- *)

Definition hmac_block_key (key : list N) : list N :=
  let k := if Nat.ltb 64 (length key) then md5 key else key in
  k ++ repeat 0 (64 - length k)%nat.

Definition hmac_md5 (key msg : list N) : list N :=
  let k := hmac_block_key key in
  let ipad := map (fun b => N.lxor b 54) k in       (* 0x36 *)
  let opad := map (fun b => N.lxor b 92) k in       (* 0x5c *)
  md5 (opad ++ md5 (ipad ++ msg)).

(* ---- sanity ---- *)

(* md5(b"") = d41d8cd98f00b204e9800998ecf8427e *)
Example md5_empty :
  md5 [] = [212; 29; 140; 217; 143; 0; 178; 4; 233; 128; 9; 152; 236; 248; 66; 126].
Proof. vm_compute; reflexivity. Qed.

(* md5(b"abc") = 900150983cd24fb0d6963f7d28e17f72 *)
Example md5_abc :
  md5 [97; 98; 99] = [144; 1; 80; 152; 60; 210; 79; 176; 214; 150; 63; 125; 40; 225; 127; 114].
Proof. vm_compute; reflexivity. Qed.

(* hmac.new(b"key", b"The quick brown fox jumps over the lazy dog", md5)
   = 80070713463e7749b90c2dc24911e275 *)
Example hmac_md5_fox :
  hmac_md5 [107; 101; 121]
    [84; 104; 101; 32; 113; 117; 105; 99; 107; 32; 98; 114; 111; 119; 110; 32; 102; 111; 120;
     32; 106; 117; 109; 112; 115; 32; 111; 118; 101; 114; 32; 116; 104; 101; 32; 108; 97; 122;
     121; 32; 100; 111; 103]
  = [128; 7; 7; 19; 70; 62; 119; 73; 185; 12; 45; 194; 73; 17; 226; 117].
Proof. vm_compute; reflexivity. Qed.
