From Coq Require Extraction ExtrOcamlBasic.
From Verif Require Import model.TsProps.
Extraction Language OCaml.
Extraction "../ocaml/build/mC10.ml" corr_C10.
