From Coq Require Extraction ExtrOcamlBasic.
From Verif Require Import model.Static.
Extraction Language OCaml.
Extraction "../ocaml/build/mC16.ml" corr_C16.
