From Coq Require Extraction ExtrOcamlBasic.
From Verif Require Import model.App.
Extraction Language OCaml.
Extraction "../ocaml/build/mC03a.ml" corr_C03a.
