From Coq Require Extraction ExtrOcamlBasic.
From Verif Require Import model.Cookie.
Extraction Language OCaml.
Extraction "../ocaml/build/mC15.ml" corr_C15.
