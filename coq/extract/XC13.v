From Coq Require Extraction ExtrOcamlBasic.
From Verif Require Import model.BodyLimits.
Extraction Language OCaml.
Extraction "../ocaml/build/mC13.ml" corr_C13.
