From Coq Require Extraction ExtrOcamlBasic.
From Verif Require Import model.MultipartFeed.
Extraction Language OCaml.
Extraction "../ocaml/build/mC06.ml" corr_C06.
