From Coq Require Extraction ExtrOcamlBasic.
From Verif Require Import model.Headers.
Extraction Language OCaml.
Extraction "../ocaml/build/mC14.ml" corr_C14.
