From Coq Require Extraction ExtrOcamlBasic.
From Verif Require Import model.Router.
Extraction Language OCaml.
Extraction "../ocaml/build/mC11.ml" corr_C11.
