From Coq Require Extraction ExtrOcamlBasic.
From Verif Require Import model.History.
Extraction Language OCaml.
Extraction "../ocaml/build/mC09.ml" corr_C09.
