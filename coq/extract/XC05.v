From Coq Require Extraction ExtrOcamlBasic.
From Verif Require Import model.Chunked.
Extraction Language OCaml.
Extraction "../ocaml/build/mC05.ml" corr_C05.
