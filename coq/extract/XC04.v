From Coq Require Extraction ExtrOcamlBasic.
From Verif Require Import model.ReqBody.
Extraction Language OCaml.
Extraction "../ocaml/build/mC04.ml" corr_C04_all.
