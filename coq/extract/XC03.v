From Coq Require Extraction ExtrOcamlBasic.
From Verif Require Import model.Wsgi.
Extraction Language OCaml.
Extraction "../ocaml/build/mC03.ml" corr_C03.
