From Coq Require Extraction ExtrOcamlBasic.
From Verif Require Import model.Range.
Extraction Language OCaml.
Extraction "../ocaml/build/mC17.ml" corr_C17.
