From Coq Require Extraction ExtrOcamlBasic.
From Verif Require Import model.QslBody.
Extraction Language OCaml.
Extraction "../ocaml/build/mC18.ml" corr_C18.
