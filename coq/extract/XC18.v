From Coq Require Extraction ExtrOcamlBasic.
From Verif Require Import model.Qsl.
Extraction Language OCaml.
Extraction "../ocaml/build/mC18.ml" corr_C18.
