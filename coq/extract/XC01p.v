From Coq Require Extraction ExtrOcamlBasic.
From Verif Require Import model.RuleParser model.ParseRule.
Extraction Language OCaml.
Extraction "../ocaml/build/mC01p.ml" corr_C01p_all.
