From Coq Require Extraction ExtrOcamlBasic.
From Verif Require Import model.ErrPage.
Extraction Language OCaml.
Extraction "../ocaml/build/mC20.ml" corr_C20.
