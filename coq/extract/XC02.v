From Coq Require Extraction ExtrOcamlBasic.
From Verif Require Import model.Router.
Extraction Language OCaml.
Extraction "../ocaml/build/mC02.ml" corr_C02.
