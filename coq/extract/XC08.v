From Coq Require Extraction ExtrOcamlBasic.
From Verif Require Import model.TsProps.
Extraction Language OCaml.
Extraction "../ocaml/build/mC08.ml" corr_C08.
