From Coq Require Extraction ExtrOcamlBasic.
From Verif Require Import model.BodyPipeline.
Extraction Language OCaml.
Extraction "../ocaml/build/mC12.ml" corr_C12.
