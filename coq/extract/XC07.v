From Coq Require Extraction ExtrOcamlBasic.
From Verif Require Import model.Fields.
Extraction Language OCaml.
Extraction "../ocaml/build/mC07.ml" corr_C07.
