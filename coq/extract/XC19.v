From Coq Require Extraction ExtrOcamlBasic.
From Verif Require Import model.RouteUrl.
Extraction Language OCaml.
Extraction "../ocaml/build/mC19.ml" corr_C19.
