(* C11 — the router after any edit history equals a freshly built router.
   Only statements; proofs in proofs/C11_proofs.v (on top of the C01
   development).  filt is universally quantified as in C01.

   What is proved here, for ALL histories (no depth bound):
   * the exact effect of RadiDict.remove — exact, prefix "*" and hooks-only
     mode, with upward pruning and _try_merge — on what the tree holds, and that
     it keeps the tree well-formed (C11_remove_exact_effect);
   * installing / updating / removing hooks never changes the routes held;
   * after any history the tree holds exactly the routes the `routes` index
     lists (C11_history_tree_matches_index), hence — by C01's get_dfs_spec, which
     makes the answer independent of the tree's shape — every path is resolved
     as the rule-by-rule spec resolves it on the surviving index
     (C11_history_eq_fresh_partial).  A freshly built router satisfies the same
     equation (C01_resolve_eq_spec), so both sides of the property equal one
     spec value.

   NOT YET PROVED (the model, the correspondence after every operation and the
   fresh-router oracle cover them; see tools/props/C11.py):

   (* FULL STATEMENT, NOT YET PROVED:
      Theorem C11_history_eq_fresh : forall filt ops path cds,
        Forall hist_cmd ops -> admissible ops ->
        let R := exec_cmds router0 ops in
        resolve filt R path cds = resolve filt (fresh R) path cds      (* incl. the hook list *)
        /\ by_name R = by_name (fresh R) /\ by_rule R = by_rule (fresh R) /\ listing R = listing (fresh R)
      where fresh R = the empty router + the routes of (routes R) inserted in index
      order + the hooks of (hooks_idx R); admissible = a prefix removal "P*" only
      when no installed hook pattern properly extends P.
      Missing: (1) the analogue of insert_paths / C11_remove_exact_effect for the
      hook slots (hook_paths (tree R) = hooks_idx R), (2) that re-inserting the
      surviving routes into an empty tree never fails (needs: two patterns held
      by one well-formed tree never conflict), (3) the index-level equalities. *)

   (* FULL STATEMENT, NOT YET PROVED:
      Theorem C11_hooks_fire_exactly : forall filt ops path cds d m h kw hs,
        Forall hist_cmd ops -> admissible ops ->
        let R := exec_cmds router0 ops in
        resolve filt R path cds = ROk d m h kw hs ->
        exists qs, hs = map (fun q => (consumed filt (fst q) (strip_sep path), snd q)) qs /\
                   StronglySorted (fun a b => length (fst a) < length (fst b)) qs /\
                   forall q hp, In (q, hp) qs <->
                     (exists p fl, al_get (hooks_idx R) p = Some hp /\ q = fpat p fl) /\
                     is_prefix q (pattern selected for d)
      (Ombott.handler then calls the SIMPLE hooks in that order with path[:1+pos],
       which is Router.fired_simple — part of the model and of the correspondence.) *) *)
From Verif Require Import lib.Base lib.Str gen.Gen model.RouteSpec model.Dispatch model.Router
     proofs.C01_get proofs.C01_insert proofs.C01_router proofs.C11_proofs.

(* RadiDict.remove(pattern, hooks_only, exact): the tree stays well-formed and
   holds afterwards exactly the entries it held before, minus — unless
   hooks_only — those whose route string equals the pattern (exact removal) or
   starts with the pattern without its trailing '*' (prefix removal).  This
   covers the upward pruning (nodes holding neither data, children nor hooks, fix
   F14) and the merging of a node with its only child. *)
Theorem C11_remove_exact_effect : forall root pattern ho exact root',
  wf root -> rd_remove root pattern ho exact = Some root' ->
  wf root' /\
  forall e, In e (paths root') <->
            In e (paths root) /\
            keepP (ends_star pattern && negb exact) ho
                  (if ends_star pattern && negb exact then removelast pattern else pattern) (fst e).
Proof. exact remove_lemma. Qed.
Print Assumptions C11_remove_exact_effect.

(* Installing a route hook (node splits / new nodes included) never changes
   which (pattern, route) pairs the tree holds. *)
Theorem C11_hook_install_keeps_routes : forall root route fl hp nm root',
  wf root -> ntok route <= length fl -> set_at root route fl 0 (IHooks hp) nm = SOk root' ->
  wf root' /\ forall e, In e (paths root') <-> In e (paths root).
Proof. exact hook_install_lemma. Qed.
Print Assumptions C11_hook_install_keeps_routes.

(* After ANY history — registrations (accepted or rejected, incl. the name
   conflict that has already inserted its route), removals by rule / by name /
   by prefix, hook installations and removals, method removals — the tree is
   well-formed and holds exactly the routes the `routes` index lists, each under
   its own pattern, filters and names. *)
Theorem C11_history_tree_matches_index : forall (cs : list cmd),
  Forall hist_cmd cs ->
  let R := exec_cmds router0 cs in
  wf (tree R) /\
  (forall e, In e (paths (tree R)) <->
             exists p d rt, al_get (routes R) p = Some d /\ nth_error (heap R) d = Some rt /\
                            e = (fpat p (r_filters rt), (d, r_names rt))) /\
  NoDup (map fst (routes R)).
Proof. exact history_invariant_lemma. Qed.
Print Assumptions C11_history_tree_matches_index.

(* The route part of "equals a freshly built router": after ANY history every
   path is resolved exactly as the rule-by-rule spec resolves it on the
   surviving routes (removed routes are gone, survivors intact, whatever
   splits, prunings and merges the tree went through).  PARTIAL: the hook list
   [hs] is existentially quantified and the by-name / by-rule / listing
   equalities are not part of this statement (see the comment above). *)
Theorem C11_history_eq_fresh_partial : forall filt (cs : list cmd) (path : str) (cds : list str),
  Forall hist_cmd cs ->
  let R := exec_cmds router0 cs in
  match spec filt (rules_of R) (strip_sep path) with
  | None => exists vs hs i, resolve filt R path cds = R404 vs hs i
  | Some (q, d, vs) =>
    exists rt hs,
      nth_error (heap R) d = Some rt /\ In (r_pattern rt, d) (routes R) /\
      q = pat_of (r_pattern rt) (r_filters rt) /\
      resolve filt R path cds =
      match dispatch_on (r_methods rt) cds with
      | DCall m (h, mn) => ROk d m h (make_params (match mn with [] => r_names rt | _ :: _ => mn end) vs) hs
      | D405 a => R405 a
      end
  end.
Proof. exact history_route_eq_spec_lemma. Qed.
Print Assumptions C11_history_eq_fresh_partial.

(* non-vacuity: the witnesses of the repaired defects F14, F15, F33 and a
   prefix-removal / prune / merge history, evaluated on the model *)
Example C11_nonvacuous :
  (let R := exec_cmds router0 [CAddHook s_ab [] [] 50 false; CAdd 0 s_abc [] [] [s_get] 1 None false;
                               CRemovePattern s_abc; CAdd 0 s_abc [] [] [s_get] 2 None false] in
   resolve nofilt R (47%N :: s_abc) [s_get] = ROk 1 s_get 2 [] [(3, (Some 50, None))]) /\
  (let R := exec_cmds router0 [CAddHook s_ab [] [] 50 false; CAdd 0 s_abc [] [] [s_get] 1 None false;
                               CRemoveHook s_ab] in
   resolve nofilt R (47%N :: s_abc) [s_get] = ROk 0 s_get 1 [] []) /\
  (let R := exec_cmds router0 [CAdd 0 s_a [] [] [s_get] 1 (Some [110; 49]%N) false;
                               CAdd 0 s_a [] [] [[80; 79; 83; 84]%N] 2 (Some [110; 50]%N) false;
                               CRemoveName [110; 49]%N] in
   named R = [] /\ routes R = []) /\
  (let p_star := [112; 47; 42]%N in let p_q := [112; 47; 113]%N in
   let R := exec_cmds router0 [CAdd 0 p_q [] [] [s_get] 1 None false;
                               CAdd 1 p_star [] [] [s_get] 2 (Some [110]%N) false; CRemoveName [110]%N] in
   map fst (routes R) = [p_q] /\ resolve nofilt R (47%N :: p_q) [s_get] = ROk 0 s_get 1 [] []) /\
  (let R := exec_cmds router0 [CAdd 0 s_abc [] [] [s_get] 1 None false; CAdd 1 s_ab [] [] [s_get] 2 None false;
                               CAdd 2 s_a [] [] [s_get] 3 None false; CRemovePattern s_ab;
                               CRemovePattern [97; 47; 42]%N] in
   map fst (routes R) = [s_a] /\ resolve nofilt R (47%N :: s_a) [s_get] = ROk 2 s_get 3 [] [] /\
   exists vs hs i, resolve nofilt R (47%N :: s_abc) [s_get] = R404 vs hs i).
Proof. exact c11_nonvacuous_lemma. Qed.
