(* C11 — the router after any edit history equals a freshly built router.
   Only statements; proofs in proofs/C11_proofs.v, C11_hooks.v, C11_fresh.v (on
   top of the C01 development).  filt is universally quantified as in C01.

   Proved, for ALL histories (no depth bound):
   * C11_remove_exact_effect — RadiDict.remove (exact, prefix "*", hooks-only;
     upward pruning, _try_merge) keeps the tree well-formed and removes exactly
     the named routes;  C11_hook_install_keeps_routes;
   * C11_history_tree_matches_index, C11_history_eq_fresh_partial — after any
     history the tree holds exactly the routes of the index, and every path is
     resolved as the rule-by-rule spec resolves it on the surviving index.
   Proved for the hook slots:
   * C11_lookup_collects_held_hooks (any well-formed tree): a lookup collects
     exactly the hooks held under the pattern-prefixes of the selected route,
     outermost first, with the position reached after each prefix;
   * C11_hook_slots_insert (registrations never touch a hook; a hook
     installation adds exactly one),  C11_remove_keeps_hooks (a route removal with
     all its pruning and merging keeps every hook — the repaired F14 —, and
     remove_hook removes exactly its hook);
   * C11_hooks_fire_exactly_partial and C11_same_survivors_same_answers_partial:
     for all histories WITHOUT prefix-"*" removals, the hooks collected are
     exactly those of the hooks index whose pattern is a prefix of the matched
     route's pattern, and two routers with the same surviving routes and hooks
     answer every request identically (route, handler, kwargs, hook list) — a
     freshly built router with the same survivors is one of them.

   (* FULL STATEMENT, NOT YET PROVED:
      Theorem C11_hooks_fire_exactly : the statement of C11_hooks_fire_exactly_partial for
        all ADMISSIBLE histories, i.e. also with prefix removals "P*" applied when
        no installed hook pattern properly extends P.
      Missing: the hook-slot view of the prefix cut (remove_hpaths for wild = true:
      under admissibility no hook lies below the cut node, so hpaths is unchanged). *)

   (* FULL STATEMENT, NOT YET PROVED:
      Theorem C11_history_eq_fresh : forall filt ops path cds,
        Forall hist_cmd ops -> admissible ops ->
        let R := exec_cmds router0 ops in
        answer R (resolve filt R path cds) = answer (fresh R) (resolve filt (fresh R) path cds)
        /\ by_name R = by_name (fresh R) /\ by_rule R = by_rule (fresh R) /\ listing R = listing (fresh R)
      where fresh R = exec_cmds router0 (replay R), replay R = one registration per
      surviving route and method (index order) + one hook installation per hook.
      By C11_same_survivors_same_answers_partial what is missing is only:
      (1) that replay R is accepted and reproduces content R and hooks_idx R
          (re-inserting patterns that one well-formed tree already holds never
          fails; replaying a method table reproduces it),
      (2) the prefix-removal case above, (3) the by_rule equality (RadiRouter._match
          finds exactly the indexed routes); by_name and listing are the indexes
          themselves. *) *)
From Coq Require Import Sorting.Sorted.
From Verif Require Import lib.Base lib.Str gen.Gen model.RouteSpec model.Dispatch model.Router
     proofs.C01_get proofs.C01_insert proofs.C01_router proofs.C11_proofs proofs.C11_hooks proofs.C11_fresh.

(* RadiDict.remove(pattern, hooks_only, exact): the tree stays well-formed and
   holds afterwards exactly the entries it held before, minus — unless
   hooks_only — those whose route string equals the pattern (exact removal) or
   starts with the pattern without its trailing '*' (prefix removal).  This
   covers the upward pruning (nodes holding neither data, children nor hooks, fix
   F14) and the merging of a node with its only child. *)
Theorem C11_remove_exact_effect : forall root pattern ho exact root',
  wf root -> rd_remove root pattern ho exact = Some root' ->
  wf root' /\
  forall e, In e (paths root') <->
            In e (paths root) /\
            keepP (ends_star pattern && negb exact) ho
                  (if ends_star pattern && negb exact then removelast pattern else pattern) (fst e).
Proof. exact remove_lemma. Qed.
Print Assumptions C11_remove_exact_effect.

(* Installing a route hook (node splits / new nodes included) never changes
   which (pattern, route) pairs the tree holds. *)
Theorem C11_hook_install_keeps_routes : forall root route fl hp nm root',
  wf root -> ntok route <= length fl -> set_at root route fl 0 (IHooks hp) nm = SOk root' ->
  wf root' /\ forall e, In e (paths root') <-> In e (paths root).
Proof. exact hook_install_lemma. Qed.
Print Assumptions C11_hook_install_keeps_routes.

(* After ANY history — registrations (accepted or rejected, incl. the name
   conflict that has already inserted its route), removals by rule / by name /
   by prefix, hook installations and removals, method removals — the tree is
   well-formed and holds exactly the routes the `routes` index lists, each under
   its own pattern, filters and names. *)
Theorem C11_history_tree_matches_index : forall (cs : list cmd),
  Forall hist_cmd cs ->
  let R := exec_cmds router0 cs in
  wf (tree R) /\
  (forall e, In e (paths (tree R)) <->
             exists p d rt, al_get (routes R) p = Some d /\ nth_error (heap R) d = Some rt /\
                            e = (fpat p (r_filters rt), (d, r_names rt))) /\
  NoDup (map fst (routes R)).
Proof. exact history_invariant_lemma. Qed.
Print Assumptions C11_history_tree_matches_index.

(* The route part of "equals a freshly built router": after ANY history every
   path is resolved exactly as the rule-by-rule spec resolves it on the
   surviving routes (removed routes are gone, survivors intact, whatever
   splits, prunings and merges the tree went through).  PARTIAL: the hook list
   [hs] is existentially quantified and the by-name / by-rule / listing
   equalities are not part of this statement (see the comment above). *)
Theorem C11_history_eq_fresh_partial : forall filt (cs : list cmd) (path : str) (cds : list str),
  Forall hist_cmd cs ->
  let R := exec_cmds router0 cs in
  match spec filt (rules_of R) (strip_sep path) with
  | None => exists vs hs i, resolve filt R path cds = R404 vs hs i
  | Some (q, d, vs) =>
    exists rt hs,
      nth_error (heap R) d = Some rt /\ In (r_pattern rt, d) (routes R) /\
      q = pat_of (r_pattern rt) (r_filters rt) /\
      resolve filt R path cds =
      match dispatch_on (r_methods rt) cds with
      | DCall m (h, mn) => ROk d m h (make_params (match mn with [] => r_names rt | _ :: _ => mn end) vs) hs
      | D405 a => R405 a
      end
  end.
Proof. exact history_route_eq_spec_lemma. Qed.
Print Assumptions C11_history_eq_fresh_partial.

(* ---- the hook slots ---- *)

(* On ANY well-formed tree a successful lookup returns a held pattern p that
   matches, and its hook list is exactly: the hook entries the tree holds whose
   pattern is a prefix of p, in order of increasing pattern length (outermost
   first), each with the position the path has reached after matching that
   prefix (Ombott.handler cuts the path there: Router.fired_simple). *)
Theorem C11_lookup_collects_held_hooks : forall filt root path d nm vs hs,
  wf root -> get filt true root path = GFound d nm vs hs ->
  exists p, In (p, (d, nm)) (paths root) /\ matchf filt p path = Some vs /\
            hooks_ok filt (hpaths root) p path 0 hs.
Proof. exact get_trace_root. Qed.
Print Assumptions C11_lookup_collects_held_hooks.

(* _set seen from the hook slots: a route registration (node splits included)
   leaves every hook where it is; a hook installation adds exactly its pair. *)
Theorem C11_hook_slots_insert : forall root route fl it nm root',
  wf root -> ntok route <= length fl -> set_at root route fl 0 it nm = SOk root' ->
  forall e, In e (hpaths root') <->
            In e (map (hpre (fpat route fl)) (hitem_entries it nm)) \/ In e (hpaths root).
Proof. exact insert_hpaths. Qed.
Print Assumptions C11_hook_slots_insert.

(* remove seen from the hook slots (exact patterns): removing a route — with
   the upward pruning and merging it triggers — keeps EVERY hook (fix F14);
   remove(hooks_only) removes exactly the hook of that pattern. *)
Theorem C11_remove_keeps_hooks : forall root pattern ho exact root',
  wf root -> ends_star pattern && negb exact = false ->
  rd_remove root pattern ho exact = Some root' ->
  forall e, In e (hpaths root') <-> In e (hpaths root) /\ (ho = false \/ rstr (fst e) <> pattern).
Proof. exact remove_hpaths_exact. Qed.
Print Assumptions C11_remove_keeps_hooks.

(* PARTIAL (histories without prefix-"*" removals): a route hook fires for
   exactly those matched routes whose pattern extends the hook's pattern,
   outermost first, at the position reached after matching the hook's prefix:
   qs lists (hook pattern, hook pair) by increasing length, hs is qs with
   positions (hrel), every member of qs is an entry of the hooks index whose
   pattern is a prefix of the matched route's, and every such index entry is
   in qs. *)
Theorem C11_hooks_fire_exactly_partial : forall filt (cs : list cmd) path cds d m h kw hs,
  Forall noprefix_cmd cs ->
  let R := exec_cmds router0 cs in
  resolve filt R path cds = ROk d m h kw hs ->
  exists rt qs,
    nth_error (heap R) d = Some rt /\
    Forall2 (hrel filt 0 (strip_sep path)) qs hs /\
    StronglySorted (fun a b : hentry => length (fst a) < length (fst b)) qs /\
    (forall q hp, In (q, hp) qs ->
       al_get (hooks_idx R) (rstr q) = Some hp /\ pprefix q (fpat (r_pattern rt) (r_filters rt))) /\
    (forall ph hp, al_get (hooks_idx R) ph = Some hp -> prefixb ph (r_pattern rt) = true ->
       exists q, rstr q = ph /\ In (q, hp) qs).
Proof. exact hooks_fire_lemma. Qed.
Print Assumptions C11_hooks_fire_exactly_partial.

(* PARTIAL (histories without prefix-"*" removals): the answer to a request —
   404 / 405+Allow / (rule, method, handler, kwargs, hook list) — depends only
   on what survived: two reachable routers with the same surviving routes
   (pattern -> Route contents, in index order) and the same hooks index answer
   identically, whatever splits, prunings and merges their trees went through.
   A router freshly built from the surviving indexes is such a router. *)
Theorem C11_same_survivors_same_answers_partial :
  forall filt (cs cs' : list cmd) (path : str) (cds : list str),
  Forall noprefix_cmd cs -> Forall noprefix_cmd cs' ->
  let R := exec_cmds router0 cs in let R' := exec_cmds router0 cs' in
  content R = content R' -> hooks_idx R = hooks_idx R' ->
  answer R (resolve filt R path cds) = answer R' (resolve filt R' path cds).
Proof. exact same_survivors_lemma. Qed.
Print Assumptions C11_same_survivors_same_answers_partial.

(* non-vacuity: the witnesses of the repaired defects F14, F15, F33 and a
   prefix-removal / prune / merge history, evaluated on the model *)
Example C11_nonvacuous :
  (let R := exec_cmds router0 [CAddHook s_ab [] [] 50 false; CAdd 0 s_abc [] [] [s_get] 1 None false;
                               CRemovePattern s_abc; CAdd 0 s_abc [] [] [s_get] 2 None false] in
   resolve nofilt R (47%N :: s_abc) [s_get] = ROk 1 s_get 2 [] [(3, (Some 50, None))]) /\
  (let R := exec_cmds router0 [CAddHook s_ab [] [] 50 false; CAdd 0 s_abc [] [] [s_get] 1 None false;
                               CRemoveHook s_ab] in
   resolve nofilt R (47%N :: s_abc) [s_get] = ROk 0 s_get 1 [] []) /\
  (let R := exec_cmds router0 [CAdd 0 s_a [] [] [s_get] 1 (Some [110; 49]%N) false;
                               CAdd 0 s_a [] [] [[80; 79; 83; 84]%N] 2 (Some [110; 50]%N) false;
                               CRemoveName [110; 49]%N] in
   named R = [] /\ routes R = []) /\
  (let p_star := [112; 47; 42]%N in let p_q := [112; 47; 113]%N in
   let R := exec_cmds router0 [CAdd 0 p_q [] [] [s_get] 1 None false;
                               CAdd 1 p_star [] [] [s_get] 2 (Some [110]%N) false; CRemoveName [110]%N] in
   map fst (routes R) = [p_q] /\ resolve nofilt R (47%N :: p_q) [s_get] = ROk 0 s_get 1 [] []) /\
  (let R := exec_cmds router0 [CAdd 0 s_abc [] [] [s_get] 1 None false; CAdd 1 s_ab [] [] [s_get] 2 None false;
                               CAdd 2 s_a [] [] [s_get] 3 None false; CRemovePattern s_ab;
                               CRemovePattern [97; 47; 42]%N] in
   map fst (routes R) = [s_a] /\ resolve nofilt R (47%N :: s_a) [s_get] = ROk 2 s_get 3 [] [] /\
   exists vs hs i, resolve nofilt R (47%N :: s_abc) [s_get] = R404 vs hs i).
Proof. exact c11_nonvacuous_lemma. Qed.

Example C11_same_survivors_nonvacuous :
  let cs := [CAddHook s_ab [] [] 50 false; CAdd 0 s_abc [] [] [s_get] 1 None false;
             CAdd 1 s_ab [] [] [s_get] 2 None false; CRemovePattern s_ab] in
  let cs' := [CAdd 0 s_abc [] [] [s_get] 1 None false; CAddHook s_ab [] [] 50 false] in
  Forall noprefix_cmd cs /\ Forall noprefix_cmd cs' /\
  content (exec_cmds router0 cs) = content (exec_cmds router0 cs') /\
  hooks_idx (exec_cmds router0 cs) = hooks_idx (exec_cmds router0 cs') /\
  answer (exec_cmds router0 cs) (resolve nofilt (exec_cmds router0 cs) (47%N :: s_abc) [s_get])
  = AOk 0 s_get 1 [] [(3, (Some 50, None))].
Proof. exact same_survivors_nonvacuous_lemma. Qed.
