(* C11 — the router after any edit history equals a freshly built router.
   Only statements; proofs in proofs/C11_proofs.v (and the C01 development). *)
From Verif Require Import lib.Base lib.Str gen.Gen model.RouteSpec model.Dispatch model.Router
     proofs.C01_get proofs.C01_insert proofs.C01_router proofs.C11_proofs.

(* Installing a route hook never changes which (pattern, route) pairs the tree
   holds and keeps the tree well-formed (nodes may be split or created). *)
Theorem C11_hook_install_keeps_routes : forall root route fl hp nm root',
  wf root -> ntok route <= length fl -> set_at root route fl 0 (IHooks hp) nm = SOk root' ->
  wf root' /\ forall e, In e (paths root') <-> In e (paths root).
Proof. exact hook_install_lemma. Qed.
Print Assumptions C11_hook_install_keeps_routes.
