(* C11 — the router after any edit history equals a freshly built router.
   Only statements; proofs in proofs/C11_proofs.v, C11_hooks.v, C11_fresh.v,
   C11_more.v, C11_replay.v (on top of the C01 development).  filt is
   universally quantified as in C01.

   ADMISSIBLE histories = every operation of the router in any order (add /
   overwrite / rejected add incl. the name conflict that has already inserted
   its route / remove by rule, by name, by prefix "*" / add and remove hook /
   remove_method), a prefix removal "P*" only when no installed hook pattern
   properly extends P — the property text restricts prefix removal to routes —
   and one filter per wildcard in every rule (what the code needs itself).

   FULL, for all admissible histories, no depth bound:
   * C11_history_eq_fresh — the freshly built router (empty tree + the surviving
     routes in index order + the surviving hooks, same Route objects and indexes)
     EXISTS (every re-insertion is accepted) and answers every request exactly as
     the edited router: 404 / 405+Allow / rule, method, handler, kwargs and hook
     list; the listings and router[name] are the same indexes; router[{rule}]
     gives the same result.
   * C11_hooks_fire_exactly — a route hook fires for exactly those matched routes
     whose pattern extends the hook's pattern, outermost first, at the position
     reached after matching the hook's prefix.
   * C11_same_survivors_same_answers, C11_by_rule_is_index_lookup.
   For ALL histories (admissible or not): C11_remove_exact_effect,
   C11_hook_install_keeps_routes, C11_history_tree_matches_index,
   C11_history_eq_fresh_partial (the route part: resolve = rule-by-rule spec on the
   surviving index; "partial" because the hook list is not part of it — for
   admissible histories it is superseded by C11_history_eq_fresh).
   Tree-level building blocks: C11_lookup_collects_held_hooks, C11_hook_slots_insert,
   C11_remove_keeps_hooks, C11_prefix_cut_keeps_hooks, C11_rebuild_accepted.

   What is NOT covered by a theorem (only by the model/implementation
   correspondence after every operation and by the fresh-real-router oracle):
   * the 404 branch of Ombott.handler (PARTIAL slot of the last collected hook,
     called with path[:1+pos] and param_values): the model computes it
     (Router.fired_partial, R404's payload) and the correspondence compares it,
     but [answer] maps every 404 to A404;
   * "freshly built" is formalised as rebuilding the TREE from the indexes with
     the same Route objects (Router heap) — re-running RadiRouter.add for every
     surviving route/method/name is what the oracle does on the real code. *)
From Coq Require Import Sorting.Sorted.
From Verif Require Import lib.Base lib.Str gen.Gen model.RouteSpec model.Dispatch model.Router
     proofs.C01_get proofs.C01_insert proofs.C01_router proofs.C11_proofs proofs.C11_hooks proofs.C11_fresh
     proofs.C11_more proofs.C11_replay.

(* RadiDict.remove(pattern, hooks_only, exact): the tree stays well-formed and
   holds afterwards exactly the entries it held before, minus — unless
   hooks_only — those whose route string equals the pattern (exact removal) or
   starts with the pattern without its trailing '*' (prefix removal).  This
   covers the upward pruning (nodes holding neither data, children nor hooks, fix
   F14) and the merging of a node with its only child. *)
Theorem C11_remove_exact_effect : forall root pattern ho exact root',
  wf root -> rd_remove root pattern ho exact = Some root' ->
  wf root' /\
  forall e, In e (paths root') <->
            In e (paths root) /\
            keepP (ends_star pattern && negb exact) ho
                  (if ends_star pattern && negb exact then removelast pattern else pattern) (fst e).
Proof. exact remove_lemma. Qed.
Print Assumptions C11_remove_exact_effect.

(* Installing a route hook (node splits / new nodes included) never changes
   which (pattern, route) pairs the tree holds. *)
Theorem C11_hook_install_keeps_routes : forall root route fl hp nm root',
  wf root -> ntok route <= length fl -> set_at root route fl 0 (IHooks hp) nm = SOk root' ->
  wf root' /\ forall e, In e (paths root') <-> In e (paths root).
Proof. exact hook_install_lemma. Qed.
Print Assumptions C11_hook_install_keeps_routes.

(* After ANY history — registrations (accepted or rejected, incl. the name
   conflict that has already inserted its route), removals by rule / by name /
   by prefix, hook installations and removals, method removals — the tree is
   well-formed and holds exactly the routes the `routes` index lists, each under
   its own pattern, filters and names. *)
Theorem C11_history_tree_matches_index : forall (cs : list cmd),
  Forall hist_cmd cs ->
  let R := exec_cmds router0 cs in
  wf (tree R) /\
  (forall e, In e (paths (tree R)) <->
             exists p d rt, al_get (routes R) p = Some d /\ nth_error (heap R) d = Some rt /\
                            e = (fpat p (r_filters rt), (d, r_names rt))) /\
  NoDup (map fst (routes R)).
Proof. exact history_invariant_lemma. Qed.
Print Assumptions C11_history_tree_matches_index.

(* The route part of "equals a freshly built router": after ANY history every
   path is resolved exactly as the rule-by-rule spec resolves it on the
   surviving routes (removed routes are gone, survivors intact, whatever
   splits, prunings and merges the tree went through).  PARTIAL: the hook list
   [hs] is existentially quantified and the by-name / by-rule / listing
   equalities are not part of this statement (see the comment above). *)
Theorem C11_history_eq_fresh_partial : forall filt (cs : list cmd) (path : str) (cds : list str),
  Forall hist_cmd cs ->
  let R := exec_cmds router0 cs in
  match spec filt (rules_of R) (strip_sep path) with
  | None => exists vs hs i, resolve filt R path cds = R404 vs hs i
  | Some (q, d, vs) =>
    exists rt hs,
      nth_error (heap R) d = Some rt /\ In (r_pattern rt, d) (routes R) /\
      q = pat_of (r_pattern rt) (r_filters rt) /\
      resolve filt R path cds =
      match dispatch_on (r_methods rt) cds with
      | DCall m (h, mn) => ROk d m h (make_params (match mn with [] => r_names rt | _ :: _ => mn end) vs) hs
      | D405 a => R405 a
      end
  end.
Proof. exact history_route_eq_spec_lemma. Qed.
Print Assumptions C11_history_eq_fresh_partial.

(* ---- the hook slots ---- *)

(* On ANY well-formed tree a successful lookup returns a held pattern p that
   matches, and its hook list is exactly: the hook entries the tree holds whose
   pattern is a prefix of p, in order of increasing pattern length (outermost
   first), each with the position the path has reached after matching that
   prefix (Ombott.handler cuts the path there: Router.fired_simple). *)
Theorem C11_lookup_collects_held_hooks : forall filt root path d nm vs hs,
  wf root -> get filt true root path = GFound d nm vs hs ->
  exists p, In (p, (d, nm)) (paths root) /\ matchf filt p path = Some vs /\
            hooks_ok filt (hpaths root) p path 0 hs.
Proof. exact get_trace_root. Qed.
Print Assumptions C11_lookup_collects_held_hooks.

(* _set seen from the hook slots: a route registration (node splits included)
   leaves every hook where it is; a hook installation adds exactly its pair. *)
Theorem C11_hook_slots_insert : forall root route fl it nm root',
  wf root -> ntok route <= length fl -> set_at root route fl 0 it nm = SOk root' ->
  forall e, In e (hpaths root') <->
            In e (map (hpre (fpat route fl)) (hitem_entries it nm)) \/ In e (hpaths root).
Proof. exact insert_hpaths. Qed.
Print Assumptions C11_hook_slots_insert.

(* remove seen from the hook slots (exact patterns): removing a route — with
   the upward pruning and merging it triggers — keeps EVERY hook (fix F14);
   remove(hooks_only) removes exactly the hook of that pattern. *)
Theorem C11_remove_keeps_hooks : forall root pattern ho exact root',
  wf root -> ends_star pattern && negb exact = false ->
  rd_remove root pattern ho exact = Some root' ->
  forall e, In e (hpaths root') <-> In e (hpaths root) /\ (ho = false \/ rstr (fst e) <> pattern).
Proof. exact remove_hpaths_exact. Qed.
Print Assumptions C11_remove_keeps_hooks.

(* ADMISSIBLE histories: every operation of the router, a prefix removal "P*"
   only when no installed hook pattern properly extends P (the property text
   restricts prefix removal to routes); the only other guard is the one the
   code needs itself (one filter per wildcard in a rule).  [admissible] is
   checked against the state each operation is applied to. *)

(* remove("P*") seen from the hook slots: provided no hook lies strictly under
   P, the cut (with its pruning and merging) keeps every hook. *)
Theorem C11_prefix_cut_keeps_hooks : forall root pattern root',
  wf root -> ends_star pattern = true ->
  (forall e, In e (hpaths root) -> prefixb (removelast pattern) (rstr (fst e)) = true ->
             rstr (fst e) = removelast pattern) ->
  rd_remove root pattern false false = Some root' ->
  forall e, In e (hpaths root') <-> In e (hpaths root).
Proof. exact remove_hpaths_prefix. Qed.
Print Assumptions C11_prefix_cut_keeps_hooks.

(* FULL: for every admissible history, a route hook fires for exactly those
   matched routes whose pattern extends the hook's pattern, outermost first, at
   the position reached after matching the hook's prefix: qs lists (hook
   pattern, hook pair) by increasing length, hs is qs with positions (hrel:
   position = characters consumed by matching that prefix; Ombott.handler
   passes path[:1+pos], Router.fired_simple), every member of qs is an entry of
   the hooks index whose pattern is a prefix of the matched route's, and every
   such index entry is in qs. *)
Theorem C11_hooks_fire_exactly : forall filt (cs : list cmd) path cds d m h kw hs,
  admissible router0 cs ->
  let R := exec_cmds router0 cs in
  resolve filt R path cds = ROk d m h kw hs ->
  exists rt qs,
    nth_error (heap R) d = Some rt /\
    Forall2 (hrel filt 0 (strip_sep path)) qs hs /\
    StronglySorted (fun a b : hentry => length (fst a) < length (fst b)) qs /\
    (forall q hp, In (q, hp) qs ->
       al_get (hooks_idx R) (rstr q) = Some hp /\ pprefix q (fpat (r_pattern rt) (r_filters rt))) /\
    (forall ph hp, al_get (hooks_idx R) ph = Some hp -> prefixb ph (r_pattern rt) = true ->
       exists q, rstr q = ph /\ In (q, hp) qs).
Proof. exact hooks_fire_adm_lemma. Qed.
Print Assumptions C11_hooks_fire_exactly.

(* For all admissible histories: the answer to a request — 404 / 405+Allow /
   (rule, method, handler, kwargs, hook list) — depends only on what survived:
   two reachable routers with the same surviving routes (pattern -> Route
   contents, in index order) and the same hooks index answer identically,
   whatever splits, prunings and merges their trees went through. *)
Theorem C11_same_survivors_same_answers :
  forall filt (cs cs' : list cmd) (path : str) (cds : list str),
  admissible router0 cs -> admissible router0 cs' ->
  let R := exec_cmds router0 cs in let R' := exec_cmds router0 cs' in
  content R = content R' -> hooks_idx R = hooks_idx R' ->
  answer R (resolve filt R path cds) = answer R' (resolve filt R' path cds).
Proof. exact same_survivors_adm_lemma. Qed.
Print Assumptions C11_same_survivors_same_answers.

(* every history without prefix removals is admissible *)
Theorem C11_noprefix_is_admissible : forall cs R, Forall noprefix_cmd cs -> admissible R cs.
Proof. exact noprefix_admissible. Qed.
Print Assumptions C11_noprefix_is_admissible.

(* router[{rule}] = RadiRouter._match with the rule's filters: after any
   history it finds exactly the route indexed under that pattern whose filters
   are the rule's (names are not compared) — a function of the indexes only. *)
Theorem C11_by_rule_is_index_lookup : forall (cs : list cmd) p fl d,
  Forall hist_cmd cs -> ntok p = length fl ->
  let R := exec_cmds router0 cs in
  (rt_match R p fl = Some d <->
   al_get (routes R) p = Some d /\ exists rt, nth_error (heap R) d = Some rt /\ r_filters rt = fl).
Proof. exact by_rule_lemma. Qed.
Print Assumptions C11_by_rule_is_index_lookup.

(* The tree rebuilt from the surviving indexes: every insertion is accepted
   (no filter conflict, no occupied slot — because one well-formed tree already
   holds all these patterns together), and the result is in step with the same
   heap and indexes. *)
Theorem C11_rebuild_accepted : forall R, Inv R -> HInv R ->
  exists F, rebuild R = Some F /\ Inv F /\ HInv F /\
            heap F = heap R /\ routes F = routes R /\ named F = named R /\ hooks_idx F = hooks_idx R.
Proof. exact rebuild_ok. Qed.
Print Assumptions C11_rebuild_accepted.

(* FULL: the router after any admissible history equals the freshly built one. *)
Theorem C11_history_eq_fresh : forall (cs : list cmd),
  admissible router0 cs ->
  let R := exec_cmds router0 cs in
  exists F,
    rebuild R = Some F /\
    heap F = heap R /\ routes F = routes R /\ named F = named R /\ hooks_idx F = hooks_idx R /\
    (forall filt path cds, answer R (resolve filt R path cds) = answer F (resolve filt F path cds)) /\
    (forall p fl, ntok p = length fl -> rt_match F p fl = rt_match R p fl).
Proof. exact history_eq_fresh_lemma. Qed.
Print Assumptions C11_history_eq_fresh.

Example C11_eq_fresh_nonvacuous :
  let cs := [CAdd 0 s_abc [] [] [s_get] 1 None false; CAddHook s_ab [] [] 50 false; CRemoveHook s_ab;
             CAddHook s_a [] [] 51 false] in
  let R := exec_cmds router0 cs in
  admissible router0 cs /\
  exists F, rebuild R = Some F /\ tree F <> tree R /\
            answer R (resolve nofilt R (47%N :: s_abc) [s_get]) = AOk 0 s_get 1 [] [(1, (Some 51, None))] /\
            answer F (resolve nofilt F (47%N :: s_abc) [s_get]) = AOk 0 s_get 1 [] [(1, (Some 51, None))].
Proof. exact eq_fresh_nonvacuous_lemma. Qed.

(* non-vacuity: the witnesses of the repaired defects F14, F15, F33 and a
   prefix-removal / prune / merge history, evaluated on the model *)
Example C11_nonvacuous :
  (let R := exec_cmds router0 [CAddHook s_ab [] [] 50 false; CAdd 0 s_abc [] [] [s_get] 1 None false;
                               CRemovePattern s_abc; CAdd 0 s_abc [] [] [s_get] 2 None false] in
   resolve nofilt R (47%N :: s_abc) [s_get] = ROk 1 s_get 2 [] [(3, (Some 50, None))]) /\
  (let R := exec_cmds router0 [CAddHook s_ab [] [] 50 false; CAdd 0 s_abc [] [] [s_get] 1 None false;
                               CRemoveHook s_ab] in
   resolve nofilt R (47%N :: s_abc) [s_get] = ROk 0 s_get 1 [] []) /\
  (let R := exec_cmds router0 [CAdd 0 s_a [] [] [s_get] 1 (Some [110; 49]%N) false;
                               CAdd 0 s_a [] [] [[80; 79; 83; 84]%N] 2 (Some [110; 50]%N) false;
                               CRemoveName [110; 49]%N] in
   named R = [] /\ routes R = []) /\
  (let p_star := [112; 47; 42]%N in let p_q := [112; 47; 113]%N in
   let R := exec_cmds router0 [CAdd 0 p_q [] [] [s_get] 1 None false;
                               CAdd 1 p_star [] [] [s_get] 2 (Some [110]%N) false; CRemoveName [110]%N] in
   map fst (routes R) = [p_q] /\ resolve nofilt R (47%N :: p_q) [s_get] = ROk 0 s_get 1 [] []) /\
  (let R := exec_cmds router0 [CAdd 0 s_abc [] [] [s_get] 1 None false; CAdd 1 s_ab [] [] [s_get] 2 None false;
                               CAdd 2 s_a [] [] [s_get] 3 None false; CRemovePattern s_ab;
                               CRemovePattern [97; 47; 42]%N] in
   map fst (routes R) = [s_a] /\ resolve nofilt R (47%N :: s_a) [s_get] = ROk 2 s_get 3 [] [] /\
   exists vs hs i, resolve nofilt R (47%N :: s_abc) [s_get] = R404 vs hs i).
Proof. exact c11_nonvacuous_lemma. Qed.

Example C11_same_survivors_nonvacuous :
  let cs := [CAddHook s_ab [] [] 50 false; CAdd 0 s_abc [] [] [s_get] 1 None false;
             CAdd 1 s_ab [] [] [s_get] 2 None false; CRemovePattern s_ab] in
  let cs' := [CAdd 0 s_abc [] [] [s_get] 1 None false; CAddHook s_ab [] [] 50 false] in
  Forall noprefix_cmd cs /\ Forall noprefix_cmd cs' /\
  content (exec_cmds router0 cs) = content (exec_cmds router0 cs') /\
  hooks_idx (exec_cmds router0 cs) = hooks_idx (exec_cmds router0 cs') /\
  answer (exec_cmds router0 cs) (resolve nofilt (exec_cmds router0 cs) (47%N :: s_abc) [s_get])
  = AOk 0 s_get 1 [] [(3, (Some 50, None))].
Proof. exact same_survivors_nonvacuous_lemma. Qed.

(* RadiDict._routes_iter over the whole tree (audit round): after any history
   it yields a data node under route string s holding Route d exactly when the
   routes index maps s to d — a function of the index, not of the tree's shape. *)
Theorem C11_routes_iter_lists_index : forall (cs : list cmd) yh s d,
  Forall hist_cmd cs ->
  let R := exec_cmds router0 cs in
  (exists h, In (s, (Some d, h)) (routes_iter (tree R) [] yh)) <-> al_get (routes R) s = Some d.
Proof. exact routes_iter_lemma. Qed.
Print Assumptions C11_routes_iter_lists_index.
