(* C15 — cookies round-trip; forged signed cookies are never deserialised.
   Only statements; proofs are in proofs/C15_proofs.v, C15_quote.v, C15_roundtrip.v.
   All theorems are universally quantified over the MAC, pickle.dumps and
   pickle.loads (Section variables of model/Cookie.v): [mac k m] stands for
   hmac.new(k, m, md5).digest(), [dumps name v] for pickle.dumps((name, v), -1),
   [loads] for what cookie_decode/get_cookie make of pickle.loads.
   Vocabulary: good_name name = the name consists of legal cookie-token characters,
   is not a reserved attribute name (path, expires, ...) and does not start with '$';
   signed_text k name v = "!" ++ b64(mac k msg) ++ "?" ++ msg with msg = b64(dumps name v). *)
From Coq Require Import String Ascii.
From Verif Require Import lib.Base lib.Str lib.Utf8 lib.Base64 lib.HmacMd5 model.Cookie
                          proofs.C15_proofs proofs.C15_quote proofs.C15_roundtrip.
Local Open Scope N_scope.

(* cookie_decode reaches the unpickler ONLY IF the transmitted signature equals
   base64(mac(key, msg)) for the message after the first '?', and then the
   unpickler receives exactly base64-decode(msg).  No assumption on the MAC. *)
Theorem C15_loader_guarded :
  forall (val : Type) (mac : list N -> list N -> list N) (loads : list N -> @lres val)
         (data secret : str) (arg : list N) (r : @lres val),
    cookie_decode val mac loads data secret = DLoaded arg r ->
    exists d k sig msg,
      utf8_encode data = Some d /\ utf8_encode secret = Some k
      /\ d = 33 :: sig ++ 63 :: msg /\ ~ In 63 sig
      /\ sig = b64encode (mac k msg)
      /\ b64decode msg = Some arg /\ r = loads arg.
Proof. exact loader_guarded. Qed.
Print Assumptions C15_loader_guarded.

(* The same at the level of Request.get_cookie, for ANY Cookie header: the
   unpickler is called only on base64-decode(msg) of a cookie value "!sig?msg" of
   that name whose signature is base64(mac(key, msg)). *)
Theorem C15_request_loader_guarded :
  forall (val : Type) (mac : list N -> list N -> list N) (loads : list N -> @lres val)
         (hdr key : str) (secret : option str) (arg : list N),
    snd (get_cookie val mac loads hdr key secret) = Some arg ->
    exists sec value d k sig msg,
      secret = Some sec /\ parse_cookies hdr = PCookies d /\ assoc_get key d = Some value
      /\ utf8_encode value = Some (33 :: sig ++ 63 :: msg) /\ utf8_encode sec = Some k
      /\ ~ In 63 sig /\ sig = b64encode (mac k msg) /\ b64decode msg = Some arg.
Proof. exact request_loader_guarded. Qed.
Print Assumptions C15_request_loader_guarded.

(* Several get_cookie calls on ONE request: every read returns (and unpickles)
   exactly what a single read of that (name, secret) returns — no read depends on
   the reads made before it (no memo keyed by the name alone, no state). *)
Theorem C15_reads_independent :
  forall (val : Type) (mac : list N -> list N -> list N) (loads : list N -> @lres val)
         (hdr : str) (reads : list (str * option str)),
    get_cookie_seq val mac loads hdr reads
    = List.map (fun r => get_cookie val mac loads hdr (fst r) (snd r)) reads.
Proof. exact reads_independent. Qed.
Print Assumptions C15_reads_independent.

(* Every read path of a request (get_cookie, cookies[name], attribute access /
   getunicode, decode(), headers['Cookie']) is a function of the Cookie header in
   force: after request['HTTP_COOKIE'] = h' (or del, or __init__ on a new environ)
   the following reads are exactly the reads of a request that carries h'. *)
Theorem C15_reads_follow_updates :
  forall (val : Type) (mac : list N -> list N -> list N) (loads : list N -> @lres val)
         (h h' : option str) (a b : list qop),
    request_run val mac loads h (a ++ QSetHeader h' :: b)
    = request_run val mac loads h a ++ request_run val mac loads h' b.
Proof. exact reads_follow_updates. Qed.
Print Assumptions C15_reads_follow_updates.

(* FINDING F18d: request.cookies.<name> / getunicode re-read the value as UTF-8:
   Latin-1 text reads as absent or altered, text above U+00FF comes back intact *)
Theorem C15_attribute_read_latin1_refuted :
  attr_rt [97] [99; 97; 102; 233] = Some (QRStr None)
  /\ attr_rt [97] [1103] = Some (QRStr (Some [1103]))
  /\ attr_rt [97] [194; 163] = Some (QRStr (Some [163])).
Proof. exact attr_read_witnesses. Qed.
Print Assumptions C15_attribute_read_latin1_refuted.

(* HTTPResponse.apply and cookies: a raised / returned HTTPResponse that carries
   cookies replaces the jar of the application's response with its own (so for a
   name set on both, the raised one is emitted); one without cookies leaves it. *)
Theorem C15_apply_cookies_replace :
  forall (val : Type) (mac : list N -> list N -> list N) (dumps : str -> @cval val -> list N)
         (r : mjar) (c : option mjar) (cs : list (str * @cval val * option str)) (hj : mjar),
    mjar_set_all val mac dumps [] cs = inl hj ->
    fst (fst (rstep val mac dumps (r, c) (RApply cs))) = (match hj with [] => r | _ => hj end, c).
Proof. intros val mac dumps r c cs hj H. simpl. rewrite H. destruct hj; reflexivity. Qed.
Print Assumptions C15_apply_cookies_replace.

(* BaseResponse.copy: afterwards set_cookie / delete_cookie on the copy leave the
   cookies of the original exactly as they were and vice versa, and at the moment of
   the copy the copy holds the same morsels (key, value, coded value, delete
   attributes) as the original, as new objects (in sorted key order). *)
Theorem C15_copy_independent :
  forall (val : Type) (mac : list N -> list N -> list N) (dumps : str -> @cval val -> list N)
         (st : rpair) (o : @rop val),
    let st' := fst (fst (rstep val mac dumps st o)) in
    match o with
    | RSet true _ _ _ | RDel true _ => fst st' = fst st
    | RSet false _ _ _ | RDel false _ => snd st' = snd st
    | RCopy => fst st' = fst st /\ exists c, snd st' = Some c /\ Permutation.Permutation c (fst st)
    | RApply _ => snd st' = snd st
    end.
Proof. exact copy_independent. Qed.
Print Assumptions C15_copy_independent.

(* Any signature part that is not exactly base64(mac(key, msg)) — a substituted,
   deleted, inserted or truncated byte, another cookie's signature — is rejected
   and nothing is unpickled.  No assumption on the MAC.  (A '?' put into the
   signature moves the split point, i.e. also changes the message: that case is
   covered by C15_loader_guarded / C15_payload_tamper.) *)
Theorem C15_signature_tamper :
  forall (val : Type) (mac : list N -> list N -> list N) (loads : list N -> @lres val)
         (data secret : str) (k sig' msg : list N),
    utf8_encode data = Some (33 :: sig' ++ 63 :: msg) ->
    utf8_encode secret = Some k ->
    ~ In 63 sig' ->
    sig' <> b64encode (mac k msg) ->
    cookie_decode val mac loads data secret = DNone.
Proof. exact signature_tamper. Qed.
Print Assumptions C15_signature_tamper.

(* Reduction to unforgeability: if a cookie with the signature of [msg] but another
   payload [msg'] is accepted, then mac k msg' = mac k msg — a MAC collision.
   (That HMAC-MD5 admits no feasible collision is not provable here; trusted base.) *)
Theorem C15_payload_tamper :
  forall (val : Type) (mac : list N -> list N -> list N) (loads : list N -> @lres val),
    (forall k m, bytes_ok (mac k m)) ->
    forall (data secret : str) (k msg msg' arg : list N) (r : @lres val),
      utf8_encode data = Some (33 :: b64encode (mac k msg) ++ 63 :: msg') ->
      utf8_encode secret = Some k ->
      cookie_decode val mac loads data secret = DLoaded arg r ->
      mac k msg' = mac k msg.
Proof. exact payload_tamper. Qed.
Print Assumptions C15_payload_tamper.

(* Reading a cookie signed with key k under another key k': acceptance yields
   mac k' msg = mac k msg. *)
Theorem C15_other_secret :
  forall (val : Type) (mac : list N -> list N -> list N) (loads : list N -> @lres val),
    (forall k m, bytes_ok (mac k m)) ->
    forall (data secret' : str) (k k' msg arg : list N) (r : @lres val),
      utf8_encode data = Some (33 :: b64encode (mac k msg) ++ 63 :: msg) ->
      utf8_encode secret' = Some k' ->
      cookie_decode val mac loads data secret' = DLoaded arg r ->
      mac k' msg = mac k msg.
Proof. exact other_secret. Qed.
Print Assumptions C15_other_secret.

(* A signed cookie set on a response, emitted as Set-Cookie and returned as the
   Cookie header reads back as the value that was set, and the unpickler sees the
   original pickle.  Guards = what the code really requires: good name, non-empty
   encodable secret, encoded text at most 4096 long; pickle assumed to round-trip. *)
Theorem C15_signed_roundtrip :
  forall (val : Type) (mac : list N -> list N -> list N)
         (dumps : str -> @cval val -> list N) (loads : list N -> @lres val)
         (name : str) (v : @cval val) (secret : str) (k : list N),
    good_name name ->
    nonempty secret = true -> utf8_encode secret = Some k ->
    (length (signed_text val mac dumps k name v) <= 4096)%nat ->
    bytes_ok (dumps name v) ->
    loads (dumps name v) = LPair name v ->
    exists j w,
      set_cookie val mac dumps [] name v (Some secret) = inl j
      /\ emit_cookies j = Some [w]
      /\ get_cookie val mac loads w name (Some secret) = (GVal v, Some (dumps name v)).
Proof. exact signed_roundtrip. Qed.
Print Assumptions C15_signed_roundtrip.

(* A plain cookie round-trips for every good name and every NON-EMPTY value whose
   code points are all below 256 (any separators, quotes, backslashes, controls,
   Latin-1 letters), of length at most 4096. *)
Theorem C15_plain_roundtrip :
  forall (val : Type) (mac : list N -> list N -> list N)
         (dumps : str -> @cval val -> list N) (loads : list N -> @lres val)
         (name v : str),
    good_name name -> v <> [] -> Forall (fun c => c < 256) v -> (length v <= 4096)%nat ->
    exists j w,
      set_cookie val mac dumps [] name (CStr v) None = inl j
      /\ emit_cookies j = Some [w]
      /\ get_cookie val mac loads w name None = (GStr v, None).
Proof. exact plain_roundtrip. Qed.
Print Assumptions C15_plain_roundtrip.

(* _lscmp is equality of byte strings (length included) *)
Theorem C15_lscmp_correct : forall a b : list N, lscmp a b = true <-> a = b.
Proof. exact lscmp_correct. Qed.
Print Assumptions C15_lscmp_correct.

(* FINDING F18a: above U+00FF the plain round trip fails ('я' reads back as 'Ñ\x8f') *)
Theorem C15_plain_above_255_refuted :
  exists name v, good_name name /\ v <> [] /\ plain_rt name v = Some (GStr [209; 143]) /\ v = [1103].
Proof.
  exists [97], [1103]. split; [vm_compute; repeat split; discriminate|].
  split; [discriminate|]. split; [exact plain_above_255_witness | reflexivity].
Qed.
Print Assumptions C15_plain_above_255_refuted.

(* FINDING F18b: the empty value reads as absent *)
Theorem C15_plain_empty_refuted :
  exists name, good_name name /\ plain_rt name [] = Some GDefault.
Proof. exists [97]. split; [vm_compute; repeat split; discriminate | exact plain_empty_witness]. Qed.
Print Assumptions C15_plain_empty_refuted.

(* FINDING F18c: a legal, non-reserved name starting with '$' is accepted by
   set_cookie but dropped by the request-side parser *)
Theorem C15_dollar_name_refuted :
  exists name v, is_legal_key name = true /\ is_reserved name = false /\ v <> []
                 /\ plain_rt name v = Some GDefault.
Proof.
  exists [36; 97], [98]. destruct dollar_name_witness as [A [B C]].
  repeat split; try assumption. discriminate.
Qed.
Print Assumptions C15_dollar_name_refuted.

(* non-vacuity: the hypotheses of the round-trip theorems are met by HMAC-MD5 and a
   table-driven pickle; a forged signature byte is rejected without unpickling *)
Example C15_nonvacuous :
  let pk := [128; 5; 75; 1; 46] in
  let name := [115; 105; 100] in
  let sec := [107] in
  good_name name /\
  match set_cookie (list N) hmac_md5 cdumps [] name (CObj pk) (Some sec) with
  | inl j =>
    match emit_cookies j with
    | Some [w] =>
      get_cookie (list N) hmac_md5 (cloads [(pk, name)]) w name (Some sec) = (GVal (CObj pk), Some pk)
      /\ get_cookie (list N) hmac_md5 (cloads [(pk, name)])
                    (firstn 6 w ++ [88] ++ skipn 7 w) name (Some sec) = (GDefault, None)
    | _ => False
    end
  | inr _ => False
  end.
Proof. vm_compute. repeat split; discriminate. Qed.
