(* C13 — body size limits and disk spooling bound what a request can consume.
   Statements only; proofs in proofs/C13_proofs.v (on top of C04/C05).

   Vocabulary:
     body_read_cl / body_read_chunked   _body_read under the two framings (model/Body.v, model/Chunked.v)
     body_read s buf maxb cl chunked    the framing choice of _body_read (model/BodyLimits.v)
     request_body                       Request._body: body_read + BaseRequest._raise with the errors_map
                                        regenerated from /repo (gen/Gen.v): BodySizeError -> 413
     form_text                          the text handed to parse_qsl / json.loads: _body then _get_body_string
     mp_budget items max_read 0         the in-memory budget arithmetic of FieldStorage.read / iter_items over
                                        parts (header bytes, data bytes, is_file)
     reqs_within buf lim (reqs s')      every read request asked for <= buf bytes and position + size <= lim
     buf = max_memfile_size (read buffer, spool threshold, text cap);  m = max_body_size. *)
From Verif Require Import lib.Base lib.Str lib.Utf8 lib.PyIntHex model.Stream model.Body model.Chunked
     model.MultipartRef model.Multipart model.Fields model.BodyLimits
     gen.Gen proofs.C04_proofs proofs.C05_scan proofs.C05_proofs proofs.C13_proofs.
From Verif Require model.BodyPipeline.
From Verif Require Import proofs.C07_fields proofs.C07_spec proofs.C07_ref proofs.C07_pipeline proofs.C13_multipart.

(* Content-Length framing, every data / declared length / buffer / limit / read
   fragmentation.  payload = min(CL, bytes that arrive).
   payload > limit : 413, the stream was consumed to at most limit + buf and no
                     read request ever reached past byte limit + buf;
   payload <= limit: accepted unchanged (the first CL bytes), spilled iff > buf. *)
Theorem C13_content_length_limit :
  forall (data : list N) (sc : list nat) (buf m : nat) (cl : Z),
    0 < buf ->
    let payload := Nat.min (Z.to_nat cl) (length data) in
    if Nat.ltb m payload then
      exists s',
        body_read_cl (stream_init data sc) buf (Some m) cl = BTooLarge s'
        /\ request_body (stream_init data sc) buf (Some m) cl false = RStatus 413 s'
        /\ pos s' <= m + buf
        /\ reqs_within buf (m + buf) (reqs s')
    else
      exists s',
        body_read_cl (stream_init data sc) buf (Some m) cl
        = BDone (firstn (Z.to_nat cl) data) (Nat.ltb buf payload) s'
        /\ request_body (stream_init data sc) buf (Some m) cl false
           = RBody (firstn (Z.to_nat cl) data) (Nat.ltb buf payload) s'
        /\ rest s' = skipn (Z.to_nat cl) data
        /\ reqs_within buf (m + buf) (reqs s').
Proof. exact C13_cl_lemma. Qed.
Print Assumptions C13_content_length_limit.

(* Chunked framing, every legal encoding (C05 vocabulary), buffer holding the
   size lines, limit, read fragmentation.
   payload > limit : 413.  k = number of chunks completely accepted before the
                     one that crosses the limit (their payload is within the
                     limit, one more chunk is not).  The stream was consumed to
                     at most (limit + buf) payload bytes plus the framing that
                     had to be read to get there: the size lines of chunks
                     0..k and the k terminators in between — at most
                     (k+1)*(buf+2) bytes.  Chunk framing is not payload, so it
                     is accounted separately.
   payload <= limit: accepted, exactly the concatenated payloads. *)
Theorem C13_chunked_limit :
  forall (cs : list chunk) (last : chunk) (tail : list N) (buf m : nat) (sc : list nat),
    Forall chunk_ok cs -> last_ok last ->
    Forall (fun c => line_len c <= buf) cs -> line_len last <= buf ->
    let s := stream_init (enc_chunked cs last tail) sc in
    if Nat.ltb m (length (payload_of cs)) then
      exists s' k,
        body_read_chunked s buf (Some m) = BTooLarge s'
        /\ request_body s buf (Some m) (-1) true = RStatus 413 s'
        /\ k < length cs
        /\ length (payload_of (firstn k cs)) <= m < length (payload_of (firstn (S k) cs))
        /\ pos s' <= (m + buf) + lines_len (firstn (S k) cs) + 2 * k
        /\ lines_len (firstn (S k) cs) + 2 * k <= S k * (buf + 2)
    else
      exists s',
        body_read_chunked s buf (Some m)
        = BDone (payload_of cs) (Nat.ltb buf (length (payload_of cs))) s'
        /\ request_body s buf (Some m) (-1) true
           = RBody (payload_of cs) (Nat.ltb buf (length (payload_of cs))) s'
        /\ rest s' = tail.
Proof. exact C13_chunked_lemma. Qed.
Print Assumptions C13_chunked_limit.

(* For EVERY input (legal or not), both framings: a body that is accepted is
   never larger than the limit ... *)
Theorem C13_accepted_within_limit :
  forall (data : list N) (sc : list nat) (buf m : nat) (cl : Z) (chunked : bool) b sp s',
    body_read (stream_init data sc) buf (Some m) cl chunked = BDone b sp s' ->
    length b <= m.
Proof. exact C13_never_above_limit_lemma. Qed.
Print Assumptions C13_accepted_within_limit.

(* ... and it is on disk iff it is larger than max_memfile_size (its content
   is the same either way: C04_exact / C05_exact do not depend on the flag). *)
Theorem C13_spill_iff :
  forall (data : list N) (sc : list nat) (buf : nat) (maxb : option nat) (cl : Z) (chunked : bool) b sp s',
    body_read (stream_init data sc) buf maxb cl chunked = BDone b sp s' ->
    sp = Nat.ltb buf (length b).
Proof. exact C13_spill_lemma. Qed.
Print Assumptions C13_spill_iff.

(* Form text (urlencoded / JSON).  For EVERY input: text handed to the parser
   is never longer than max_memfile_size. *)
Theorem C13_form_text_capped :
  forall (data : list N) (sc : list nat) (buf : nat) (maxb : option nat) (cl : Z) (chunked : bool) d s',
    form_text (stream_init data sc) buf maxb cl chunked = TText d s' -> length d <= buf.
Proof. exact C13_form_text_capped_lemma. Qed.
Print Assumptions C13_form_text_capped.

(* ... and a text body longer than the threshold is answered 413, under both
   framings, whatever max_body_size is. *)
Theorem C13_form_text_refused :
  (forall (data : list N) (sc : list nat) (buf : nat) (maxb : option nat) (cl : Z),
      0 < buf -> (0 <= cl)%Z ->
      buf < Nat.min (Z.to_nat cl) (length data) ->
      exists s', form_text (stream_init data sc) buf maxb cl false = TStatus 413 s')
  /\
  (forall (cs : list chunk) (last : chunk) (tail : list N) (buf : nat) (maxb : option nat) (sc : list nat),
      Forall chunk_ok cs -> last_ok last ->
      Forall (fun c => line_len c <= buf) cs -> line_len last <= buf ->
      buf < length (payload_of cs) ->
      exists s', form_text (stream_init (enc_chunked cs last tail) sc) buf maxb (-1) true = TStatus 413 s').
Proof. exact C13_form_text_refused_lemma. Qed.
Print Assumptions C13_form_text_refused.

(* After fix F37 (ca2ec78): under a chunked transfer coding the text handed to the
   parser — and whether it is refused — does not depend on a Content-Length sent
   next to it (absent, 0, small, larger than the body, larger than the threshold):
   _body reads the chunked decoder whatever it says and _get_body_string uses -1.
   So the chunked half of C13_form_text_refused holds for every Content-Length. *)
Theorem C13_form_text_chunked_ignores_content_length :
  forall (s : stream) (buf : nat) (maxb : option nat) (cl cl' : Z),
    form_text s buf maxb cl true = form_text s buf maxb cl' true.
Proof. exact C13_form_text_chunked_ignores_cl_lemma. Qed.
Print Assumptions C13_form_text_chunked_ignores_content_length.

(* _get_body_string in closed form (threshold >= 0): what it returns and when it refuses
   ([cl] is the value the function works with: -1 for a chunked request, else content_length) *)
Theorem C13_get_body_string_spec :
  forall (body : list N) (cl maxm : Z),
    (0 <= maxm)%Z ->
    get_body_string body cl maxm =
    if (cl <? 0)%Z then (if (Z.of_nat (length body) >? maxm)%Z then GTooLarge else GData body)
    else if (Z.of_nat (Nat.min (Z.to_nat cl) (length body)) >? maxm)%Z || (cl >? maxm)%Z then GTooLarge
         else GData (firstn (Z.to_nat cl) body).
Proof. exact get_body_string_spec. Qed.
Print Assumptions C13_get_body_string_spec.

(* Multipart in-memory budget.  need = header bytes of every part + data bytes
   of the TEXT parts; the data of file parts does not count at all.  The form
   is read iff need <= max_read; otherwise part i is refused, i being the
   first part with which the running need exceeds the budget. *)
Theorem C13_multipart_budget :
  forall (items : list mp_item) (max_read : Z),
    Forall item_nonneg items -> (0 <= max_read)%Z ->
    ((need items <= max_read)%Z -> mp_budget items max_read 0 = BudgetOk (max_read - need items)%Z)
    /\ ((need items > max_read)%Z ->
        exists i, mp_budget items max_read 0 = BudgetExceeded i /\ i < length items
                  /\ (need (firstn i items) <= max_read < need (firstn (S i) items))%Z).
Proof. exact C13_multipart_budget_lemma. Qed.
Print Assumptions C13_multipart_budget.

(* REFINEMENT to the real field layer (model/Fields.v, cluster mpB2: iter_items /
   field_read = FieldStorage.iter_items / read).  For EVERY body and EVERY markup
   list  Data(s0,e0<=0) :: m  whose parts have a budget view
   (BodyLimits.triples_of body m = Some items: m alternates Headers/Data; each
   triple is (e-s of the Headers section, e-s of the Data section, a filename is
   present after header parsing); every part could fail for no reason other than
   its size), iter_items behaves exactly as mp_budget on those triples:
   it succeeds with one field per part iff the budget admits all of them, and
   otherwise raises BodySizeError, precisely at part i (the first i parts alone
   are read successfully), i being the index mp_budget names. *)
Theorem C13_multipart_budget_is_iter_items :
  forall (body : bytes) (s0 e0 : Z) (m : list section) (max_read : Z) (items : list mp_item),
    (e0 <= 0)%Z ->
    triples_of body m = Some items ->
    match mp_budget items max_read 0 with
    | BudgetOk _ =>
      exists fs, iter_items body ((Data, s0, e0) :: m) max_read = IOk fs /\ length fs = length items
    | BudgetExceeded i =>
      iter_items body ((Data, s0, e0) :: m) max_read = IErr ESize
      /\ i < length items
      /\ exists fs, iter_items body ((Data, s0, e0) :: firstn (2 * i) m) max_read = IOk fs /\ length fs = i
    end.
Proof. exact C13_budget_is_iter_items_lemma. Qed.
Print Assumptions C13_multipart_budget_is_iter_items.

(* ... and the bodies a browser sends have that view: for every boundary and
   every field list within C07's guards the triples of the scanner's sections are
   (header-block bytes, data bytes, is upload) of the submitted fields, and their
   need is C07's total_cost. *)
Theorem C13_encoded_form_triples :
  forall (B : bytes) (fs : list fld),
    parts_ok B fs ->
    triples_of (enc_form B fs) (tl (fst (ref_obs B (enc_form B fs)))) = Some (map item_of fs)
    /\ need (map item_of fs) = total_cost fs.
Proof. exact encoded_form_triples. Qed.
Print Assumptions C13_encoded_form_triples.

(* THROUGH THE WHOLE PIPELINE (model/BodyPipeline.v: process; CONTENT_TYPE regex,
   framing, read loops under any schedule, streaming multipart parser, field
   layer, _raise with the errors_map of the current source).  For the body a
   browser sends for ANY field list within C07's guards, whole body within
   max_body_size (if any): Request.forms / files / POST answer 413 EXACTLY when
   the header blocks plus the TEXT values exceed max_memfile_size — the sizes of
   the file parts play no role (total_cost does not contain them) — and
   otherwise succeed with exactly the submitted fields. *)
Theorem C13_form_text_capped_multipart :
  forall (jk : bytes -> option BodyPipeline.jkind) (cfg : BodyPipeline.config) (b : str) (fs : list fld)
         (sc : list nat) (a : BodyPipeline.access) (clraw : option str) (te : str),
    form_access a ->
    b <> [] -> lacks SEMI b -> lacks 10 b -> lacks 13 b -> scalars b ->
    parts_ok (utf8_enc_str b) fs ->
    (0 < BodyPipeline.c_memfile cfg)%nat ->
    let body := enc_form (utf8_enc_str b) fs in
    (forall m, BodyPipeline.c_maxbody cfg = Some m -> (length body <= m)%nat) ->
    te_chunked te = false ->
    BodyPipeline.content_length (BodyPipeline.mkFraming clraw te) = Some (Z.of_nat (length body)) ->
    let out := BodyPipeline.process jk cfg (mp_ctype b) (BodyPipeline.mkFraming clraw te) (stream_init body sc) a in
    ((total_cost fs > Z.of_nat (BodyPipeline.c_memfile cfg))%Z -> out = BodyPipeline.Client 413)
    /\ ((total_cost fs <= Z.of_nat (BodyPipeline.c_memfile cfg))%Z ->
        exists d, out = BodyPipeline.Ok (BodyPipeline.VMultipart d) /\ view body d = Some (expected fs)).
Proof. exact C13_capped_multipart_lemma. Qed.
Print Assumptions C13_form_text_capped_multipart.

(* the same under chunked framing: every legal chunked encoding of the form *)
Theorem C13_form_text_capped_multipart_chunked :
  forall (jk : bytes -> option BodyPipeline.jkind) (cfg : BodyPipeline.config) (b : str) (fs : list fld)
         (cs : list chunk) (last : chunk) (tail : list N) (sc : list nat) (a : BodyPipeline.access)
         (clraw : option str) (te : str),
    form_access a ->
    b <> [] -> lacks SEMI b -> lacks 10 b -> lacks 13 b -> scalars b ->
    parts_ok (utf8_enc_str b) fs ->
    let body := enc_form (utf8_enc_str b) fs in
    (forall m, BodyPipeline.c_maxbody cfg = Some m -> (length body <= m)%nat) ->
    te_chunked te = true ->
    BodyPipeline.content_length (BodyPipeline.mkFraming clraw te) <> None ->
    Forall chunk_ok cs -> last_ok last -> payload_of cs = body ->
    Forall (fun c => (line_len c <= BodyPipeline.c_memfile cfg)%nat) cs ->
    (line_len last <= BodyPipeline.c_memfile cfg)%nat ->
    let out := BodyPipeline.process jk cfg (mp_ctype b) (BodyPipeline.mkFraming clraw te)
                                    (stream_init (enc_chunked cs last tail) sc) a in
    ((total_cost fs > Z.of_nat (BodyPipeline.c_memfile cfg))%Z -> out = BodyPipeline.Client 413)
    /\ ((total_cost fs <= Z.of_nat (BodyPipeline.c_memfile cfg))%Z ->
        exists d, out = BodyPipeline.Ok (BodyPipeline.VMultipart d) /\ view body d = Some (expected fs)).
Proof. exact C13_capped_multipart_chunked_lemma. Qed.
Print Assumptions C13_form_text_capped_multipart_chunked.

(* Object reuse: in a sequence of requests (one application object or several
   with different limits, shared HTTPError instances) every response is the
   function corr_C13_one of its own request and its application's config. *)
Theorem C13_response_function_of_request :
  forall (pre post : list (list Z)) (x : list Z),
    nth (length pre) (run_seq13 (pre ++ x :: post)) [] = corr_C13_one x.
Proof. exact C13_seq_lemma. Qed.
Print Assumptions C13_response_function_of_request.

(* A Request built on a configuration WITHOUT errors_map (RequestConfig's
   default {}: Request(environ, config={...}) outside an application) never
   answers with a mapped status: the bare BodySizeError / BodyParsingError
   escapes — the size limit is still enforced, only the mapping is absent. *)
Theorem C13_unmapped_errors_escape :
  forall s buf maxb cl chunked,
    match request_body_with [] s buf maxb cl chunked with
    | RStatus _ _ => False
    | _ => True
    end
    /\ (forall s', body_read s buf maxb cl chunked = BTooLarge s' ->
                   request_body_with [] s buf maxb cl chunked = REscape s').
Proof. exact C13_unmapped_lemma. Qed.
Print Assumptions C13_unmapped_errors_escape.

(* the statuses come from the errors_map of the current source *)
Example C13_status_of_size_error :
  raise_status Gen.errors_map cls_BodySizeError cls_RequestError = Some 413%Z
  /\ raise_status Gen.errors_map cls_BodyParsingError cls_RequestError = Some 400%Z.
Proof. split; reflexivity. Qed.

(* non-vacuity *)
Example C13_nonvacuous_cl :
  match body_read_cl (stream_init [1;2;3;4;5;6;7;8;9;10;11;12]%N [0; 1; 0]) 4 (Some 5) 12 with
  | BTooLarge s => pos s = 8 /\ reqs s = [(4, 4); (4, 3); (4, 1); (4, 0)]
  | _ => False
  end.
Proof. vm_compute. split; reflexivity. Qed.

Definition ex13_c1 : chunk := mkChunk [51]%N [] [97; 98; 99]%N.
Definition ex13_c2 : chunk := mkChunk [48; 52]%N [59; 120]%N [100; 101; 102; 103]%N.
Definition ex13_last : chunk := mkChunk [48]%N [] [].

Example C13_nonvacuous_chunked_hyps :
  Forall chunk_ok [ex13_c1; ex13_c2] /\ last_ok ex13_last /\
  Forall (fun c => line_len c <= 6) [ex13_c1; ex13_c2] /\ line_len ex13_last <= 6.
Proof. repeat split; try discriminate; repeat constructor; try discriminate; simpl; lia. Qed.

Example C13_nonvacuous_chunked :
  match body_read_chunked (stream_init (enc_chunked [ex13_c1; ex13_c2] ex13_last [13; 10]%N) [0; 0; 0; 1]) 6 (Some 4) with
  | BTooLarge s => pos s = 18
  | _ => False
  end
  /\
  match body_read_chunked (stream_init (enc_chunked [ex13_c1; ex13_c2] ex13_last [13; 10]%N) [0; 0; 0; 1]) 6 (Some 7) with
  | BDone b sp s => b = [97; 98; 99; 100; 101; 102; 103]%N /\ sp = true
  | _ => False
  end.
Proof. vm_compute. repeat split. Qed.

Example C13_nonvacuous_budget :
  mp_budget [(40, 5, false); (98, 5000, true); (40, 0, false)]%Z 183 0 = BudgetOk 0
  /\ mp_budget [(40, 5, false); (98, 5000, true); (40, 0, false)]%Z 182 0 = BudgetExceeded 2
  /\ mp_budget [(40, 5, false)]%Z 44 0 = BudgetExceeded 0.
Proof. vm_compute. repeat split. Qed.

(* For EVERY input, both framings, with or without a limit, whatever the
   outcome: no single read ever asked the stream for more than one buffer
   (max_memfile_size bytes) — the memory held per read is bounded. *)
Theorem C13_reads_at_most_one_buffer :
  forall (data : list N) (sc : list nat) (buf : nat) (maxb : option nat) (cl : Z) (chunked : bool),
    0 < buf -> bres_small buf (body_read (stream_init data sc) buf maxb cl chunked).
Proof. exact C13_reads_small_lemma. Qed.
Print Assumptions C13_reads_at_most_one_buffer.

(* non-vacuity of the refinement on a real body: boundary "BnD", a 5-byte text
   field, a 60-byte upload, an empty text field; need = 40 + 5 + 98 + 40 = 183 *)
Definition ex13_form : list fld :=
  [FText [97]%N [100; 100; 100; 100; 100]%N;
   FFile [102]%N [120; 46; 98; 105; 110]%N
         [97; 112; 112; 108; 105; 99; 97; 116; 105; 111; 110; 47; 111; 99; 116; 101; 116; 45; 115; 116; 114; 101; 97; 109]%N
         (repeat 70%N 60);
   FText [101]%N []].

Example C13_nonvacuous_multipart :
  total_cost ex13_form = 183%Z
  /\ mp_run [66; 110; 68]%N (enc_form [66; 110; 68]%N ex13_form) 183 = [0; 3]%Z
  /\ mp_run [66; 110; 68]%N (enc_form [66; 110; 68]%N ex13_form) 182 = [1; 2; 413]%Z
  /\ mp_run [66; 110; 68]%N (enc_form [66; 110; 68]%N ex13_form) 44 = [1; 0; 413]%Z.
Proof. vm_compute. repeat split. Qed.
