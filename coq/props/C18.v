(* C18 — query strings and urlencoded forms decode to exactly what was sent.
   This file contains only statements, each closed by [exact] of a lemma from
   proofs/C18_proofs.v (or lib/Utf8.v, lib/Pct.v), followed by Print Assumptions.

   Vocabulary (definitions: proofs/C18_spec.v, lib/Pct.v, model/Qsl.v):
     urlencode ps / urlencode_q ps   urllib.parse.urlencode(ps) with quote_plus / quote(safe='')
     query qs                        Request.query for QUERY_STRING qs (FormsDict in insertion order)
     forms_urlencoded body           Request.forms for an urlencoded body (bytes -> touni(.,'latin1') -> parse_qsl)
     params qs body                  Request.params
     parse_qsl_pairs qs              parse_qsl(qs) (list of pairs)
     group ps                        keys in first-occurrence order; a key submitted once maps to its
                                     value (VStr), a repeated key to the list of its values in
                                     submission order (VList)
     scalar c                        c is a Unicode scalar value (not a surrogate, <= 10FFFF): exactly
                                     the text urllib.parse.quote can encode (lone surrogates raise
                                     UnicodeEncodeError on the client and cannot be sent) *)
From Verif Require Import lib.Base lib.Str lib.Utf8 lib.Utf8Dec lib.Pct lib.PyIntHex
     model.Stream model.Body model.Chunked model.BodyLimits model.Qsl model.QslBody gen.Gen
     proofs.C13_proofs proofs.C18_spec proofs.C18_proofs proofs.C18_scan proofs.C18_framing.

(* For EVERY list of pairs with non-empty keys and scalar text — any characters,
   including '=', '&', '+', '%', space, controls, Latin-1, non-BMP; any repetition
   of keys — url-encoding (either spelling) and parsing gives back exactly the
   pairs: grouped for query/forms, verbatim for parse_qsl. *)
Theorem C18_roundtrip :
  forall ps : list (str * str),
    (forall k v, In (k, v) ps -> k <> [] /\ Forall scalar k /\ Forall scalar v) ->
    query (urlencode ps) = QDone (group ps)
    /\ forms_urlencoded (urlencode ps) = QDone (group ps)
    /\ parse_qsl_pairs (urlencode ps) = QDone ps
    /\ query (urlencode_q ps) = QDone (group ps)
    /\ forms_urlencoded (urlencode_q ps) = QDone (group ps)
    /\ parse_qsl_pairs (urlencode_q ps) = QDone ps.
Proof. exact C18_roundtrip_lemma. Qed.
Print Assumptions C18_roundtrip.

(* The body path decodes the bytes as latin1 first.  The url-encoded text is
   pure ASCII, so its bytes are the same numbers and the latin1 step changes
   nothing (this is what lets C18_roundtrip feed [urlencode ps] to
   [forms_urlencoded] directly). *)
Theorem C18_body_latin1_step_is_identity_on_encoded_text :
  forall ps,
    Forall (fun x => (x < 128)%N) (urlencode ps) /\ Forall (fun x => (x < 128)%N) (urlencode_q ps)
    /\ latin1_enc (urlencode ps) = Some (urlencode ps) /\ latin1_dec (urlencode ps) = urlencode ps
    /\ latin1_enc (urlencode_q ps) = Some (urlencode_q ps) /\ latin1_dec (urlencode_q ps) = urlencode_q ps.
Proof. exact C18_body_ascii_lemma. Qed.
Print Assumptions C18_body_latin1_step_is_identity_on_encoded_text.

(* Request.params: query first, then the form values (a form key replaces a
   query key in place, new form keys are appended). *)
Theorem C18_params :
  forall ps1 ps2,
    (forall k v, In (k, v) (ps1 ++ ps2) -> k <> [] /\ Forall scalar k /\ Forall scalar v) ->
    params (urlencode ps1) (urlencode ps2) = QDone (dict_update (group ps1) (group ps2)).
Proof. exact C18_params_lemma. Qed.
Print Assumptions C18_params.

(* One request, query string AND urlencoded body, read through query / forms /
   params any number of times in any order: every read returns what its accessor
   returns on a fresh request (reads do not influence each other), and on encoded
   pairs every read is the grouping / the merge, whatever the order. *)
Theorem C18_access_order_independent :
  forall (qs : str) (body : list N) (order : list accessor),
    (forall i, nth_error (read_seq qs body order) i = option_map (read_one qs body) (nth_error order i))
    /\ (forall order' i j a, nth_error order i = Some a -> nth_error order' j = Some a ->
          nth_error (read_seq qs body order) i = nth_error (read_seq qs body order') j).
Proof. exact C18_access_order_lemma. Qed.
Print Assumptions C18_access_order_independent.

Theorem C18_access_roundtrip :
  forall ps1 ps2 order,
    (forall k v, In (k, v) (ps1 ++ ps2) -> k <> [] /\ Forall scalar k /\ Forall scalar v) ->
    read_seq (urlencode ps1) (urlencode ps2) order
    = map (fun a => QDone match a with
                          | AQuery => group ps1
                          | AForms => group ps2
                          | AParams => dict_update (group ps1) (group ps2)
                          end) order.
Proof. exact C18_access_roundtrip_lemma. Qed.
Print Assumptions C18_access_roundtrip.

(* One request that is read (query / forms / params), copied (FormsDict.copy), read by
   attribute (FormsDict.__getattr__) and UPDATED through the item API in between
   (request[key] = value for QUERY_STRING, wsgi.input + CONTENT_LENGTH, CONTENT_TYPE, other
   keys; del request['QUERY_STRING']; optionally on a read-only environ; raw reads of
   request.body).  [run_ops ro st ops] = the observations in order; [state_after ro st pre] =
   (query string, body, content type) the request carries after the updates in [pre].
   Every observation is the view of what the request carries at that moment. *)
Theorem C18_reads_follow_updates :
  forall (ro : bool) (st : rstate) (pre post : list op) (o : op) (x : rout),
    (out_of (state_after ro st pre) o = Some x ->
     run_ops ro st (pre ++ o :: post)
     = run_ops ro st pre ++ x :: run_ops ro (state_after ro st pre) post)
    /\ state_after true st pre = st
    /\ (forall ps1 ps2 a,
          (forall k v, In (k, v) (ps1 ++ ps2) -> k <> [] /\ Forall scalar k /\ Forall scalar v) ->
          r_qs (state_after ro st pre) = urlencode ps1 ->
          r_body (state_after ro st pre) = urlencode ps2 ->
          selects_urlencoded (r_ct (state_after ro st pre)) = true ->
          view (state_after ro st pre) a = RO (QDone (expected_read ps1 ps2 a))).
Proof. exact C18_reads_follow_updates_lemma. Qed.
Print Assumptions C18_reads_follow_updates.

(* parse_qsl(qs, setitem=d.__setitem__) on a dict d0 that already holds entries: the grouped
   pairs are merged into it like dict.update (existing keys replaced in place, new keys behind). *)
Theorem C18_setitem_into_existing :
  forall (d0 : fdict) (ps : list (str * str)),
    (forall k v, In (k, v) ps -> k <> [] /\ Forall scalar k /\ Forall scalar v) ->
    parse_qsl_into d0 (urlencode ps) = QDone (dict_update d0 (group ps))
    /\ parse_qsl_into d0 (urlencode_q ps) = QDone (dict_update d0 (group ps)).
Proof. exact C18_setitem_into_lemma. Qed.
Print Assumptions C18_setitem_into_existing.

(* parse_qsl(qs, append=acc.append): the pairs are appended behind whatever the list holds. *)
Theorem C18_append_mode :
  forall (l0 : list (str * str)),
    (forall qs, qsl_run add_pair qs l0 = Some (l0 ++ qsl_spec qs))
    /\ (forall ps, (forall k v, In (k, v) ps -> k <> [] /\ Forall scalar k /\ Forall scalar v) ->
                   qsl_run add_pair (urlencode ps) l0 = Some (l0 ++ ps)
                   /\ qsl_run add_pair (urlencode_q ps) l0 = Some (l0 ++ ps)).
Proof. exact C18_append_mode_lemma. Qed.
Print Assumptions C18_append_mode.

(* One application object serving several requests: response i is a function of request i. *)
Theorem C18_requests_independent :
  forall (reqs : list (str * list N)) i,
    nth_error (serve_all reqs) i
    = option_map (fun qb => [query (fst qb); forms_urlencoded (snd qb); params (fst qb) (snd qb)])
                 (nth_error reqs i).
Proof. exact C18_requests_independent_lemma. Qed.
Print Assumptions C18_requests_independent.

(* cache_in (the memoising property behind query / forms / params / content_length). *)
Theorem C18_cache_in_memoises :
  forall (ro gf : bool) (base : Z) (st : cstate),
    (forall v st', cache_step ro gf base st CGet = (CVal v, st') ->
                   cache_step ro gf base st' CGet = (CVal v, st'))
    /\ (forall st', cache_step ro gf base st CGet = (CGetterErr, st') -> c_cached st' = None)
    /\ (ro = true -> forall v, cache_step ro gf base st (CSet v) = (CReadOnly, st)
                               /\ cache_step ro gf base st CDel = (CReadOnly, st))
    /\ (ro = false -> forall st', cache_step ro gf base st CDel = (COk, st') -> c_cached st' = None).
Proof. exact C18_cache_in_lemma. Qed.
Print Assumptions C18_cache_in_memoises.

(* END TO END through the body pipeline (composition with C04, C05, C13; models
   model/Stream.v, Body.v, Chunked.v, BodyLimits.v are imported, not restated).
     forms_through s buf maxb cl chunked = Request.forms on a request whose wsgi.input is the
        stream s (data fragmented by an arbitrary schedule), max_memfile_size = buf,
        max_body_size = maxb, Content-Length cl / Transfer-Encoding chunked
     encoding_of ps text  =  text = urlencode ps \/ text = urlencode_q ps
     within maxb n        =  the body is within max_body_size when there is one
   For all pairs (non-empty keys, scalar text), EVERY read-fragmentation schedule, every
   buffer/threshold, anything behind the body on the stream; Content-Length = |text|, or
   EVERY legal chunking of the text whose size lines fit the buffer:
     |text| <= max_memfile_size : forms = group ps, the stream is left right behind the body;
     |text| >  max_memfile_size : the 413 of C13 — never a parse of a truncated text. *)
Theorem C18_forms_through_framing :
  forall (ps : list (str * str)) (text : list N),
    (forall k v, In (k, v) ps -> k <> [] /\ Forall scalar k /\ Forall scalar v) ->
    encoding_of ps text ->
    (forall (tail : list N) (sc : list nat) (buf : nat) (maxb : option nat),
        0 < buf ->
        let s := stream_init (text ++ tail) sc in
        let cl := Z.of_nat (length text) in
        (length text <= buf -> within maxb (length text) ->
           exists s', forms_through s buf maxb cl false = FForms (group ps) s' /\ rest s' = tail)
        /\ (buf < length text -> exists s', forms_through s buf maxb cl false = FStatus 413 s'))
    /\
    (forall (cs : list chunk) (last : chunk) (tail : list N) (sc : list nat) (buf : nat) (maxb : option nat),
        payload_of cs = text ->
        Forall chunk_ok cs -> last_ok last ->
        Forall (fun c => line_len c <= buf) cs -> line_len last <= buf ->
        let s := stream_init (enc_chunked cs last tail) sc in
        (length text <= buf -> within maxb (length text) ->
           exists s', forms_through s buf maxb (-1) true = FForms (group ps) s' /\ rest s' = tail)
        /\ (buf < length text -> exists s', forms_through s buf maxb (-1) true = FStatus 413 s')).
Proof. exact C18_forms_through_framing_lemma. Qed.
Print Assumptions C18_forms_through_framing.

(* For EVERY stream content (legal or not), framing and limits: forms that are delivered
   are the parse of the complete text that _get_body_string returned, and that text is
   at most max_memfile_size long. *)
Theorem C18_forms_through_capped :
  forall (data : list N) (sc : list nat) (buf : nat) (maxb : option nat) (cl : Z) (chunked : bool) d s',
    forms_through (stream_init data sc) buf maxb cl chunked = FForms d s' ->
    exists text, form_text (stream_init data sc) buf maxb cl chunked = TText text s'
                 /\ length text <= buf /\ forms_urlencoded text = QDone d.
Proof. exact C18_forms_through_capped_lemma. Qed.
Print Assumptions C18_forms_through_capped.

(* Parsing ANY string (any code points, any bytes for the body) yields a value:
   the model has no error constructor on this path and fuel is never exhausted. *)
Theorem C18_total :
  forall (qs : str) (body : list N) (d0 : fdict),
    (exists d, query qs = QDone d)
    /\ (exists d, forms_urlencoded body = QDone d)
    /\ (exists d, params qs body = QDone d)
    /\ (exists l, parse_qsl_pairs qs = QDone l)
    /\ (exists d, parse_qsl_into d0 qs = QDone d).
Proof. exact C18_total_lemma. Qed.
Print Assumptions C18_total.

(* Termination half: i strictly increases in every iteration, for every mode of
   parse_qsl (any [add]), so fuel [length qs + 1] suffices. *)
Theorem C18_fuel_suffices :
  forall (St : Type) (add : str -> str -> St -> St) (qs : str) (st : St),
    (forall fuel i st', length qs < fuel + i -> 0 < fuel -> qsl_loop add fuel qs i st' <> None)
    /\ qsl_run add qs st <> None.
Proof. exact C18_fuel_lemma. Qed.
Print Assumptions C18_fuel_suffices.

(* The index arithmetic of the hand-written scanner, on EVERY string (stray '%',
   '&&', '==', '=v', trailing separators, anything): it computes exactly the
   declarative splitting [qsl_spec] (proofs/C18_spec.v) — split on '&'; in each
   segment drop leading '='; nothing left: no pair; otherwise split at the first
   '=' (none: blank value) and percent-decode both sides — and query/forms are
   the grouping of that list. *)
Theorem C18_scanner_refines_split_spec :
  forall qs : str,
    parse_qsl_pairs qs = QDone (qsl_spec qs)
    /\ query qs = QDone (group (qsl_spec qs))
    /\ forms_urlencoded qs = QDone (group (qsl_spec qs)).
Proof. exact C18_scanner_lemma. Qed.
Print Assumptions C18_scanner_refines_split_spec.

(* ---- the shared primitives (lib/Utf8.v, lib/Pct.v) ---- *)

Theorem C18_utf8_dec_enc :
  forall s, Forall scalar s -> utf8_dec (utf8_enc_str s) = Some s.
Proof. exact utf8_dec_enc. Qed.
Print Assumptions C18_utf8_dec_enc.

Theorem C18_utf8_enc_high :
  forall c, (128 <= c)%N -> Forall (fun b => (128 <= b < 256)%N) (utf8_enc c).
Proof. exact utf8_enc_high. Qed.
Print Assumptions C18_utf8_enc_high.

Theorem C18_unquote_quote :
  forall s, Forall scalar s ->
    unquote (quote s) = s
    /\ unquote (replace_char N.eqb 43%N [32%N] (quote_plus s)) = s
    /\ unquote (replace_char N.eqb 43%N [32%N] (quote s)) = s.
Proof.
  exact (fun s H => conj (unquote_quote s H) (conj (unquote_plus_quote_plus s H) (unquote_plus_quote s H))).
Qed.
Print Assumptions C18_unquote_quote.

(* the strict decoder accepts only canonical encodings of scalar values (no overlongs,
   surrogates, > 10FFFF, truncated or stray bytes), and the lossy decoder only ever
   produces scalar text *)
Theorem C18_utf8_dec_sound :
  forall bs s, utf8_dec bs = Some s <-> (utf8_enc_str s = bs /\ Forall scalar s).
Proof. exact utf8_dec_iff. Qed.
Print Assumptions C18_utf8_dec_sound.

Theorem C18_utf8_replace_scalar :
  forall bs, Forall scalar (utf8_dec_replace bs).
Proof. exact utf8_dec_replace_scalar. Qed.
Print Assumptions C18_utf8_replace_scalar.

(* the in-place recursion used by the model of _unquote_impl equals the source's
   formulation: split on '%', look item[:2] up in the table of hex pairs *)
Theorem C18_unquote_impl_split_form :
  forall s, unquote_to_bytes s = unquote_to_bytes_split s.
Proof. exact unquote_to_bytes_split_eq. Qed.
Print Assumptions C18_unquote_impl_split_form.

(* ---- non-vacuity and what [group] means on a concrete submission ---- *)

(* k=&+% é / U+1F600, a repeated key, an empty value *)
Definition ex_pairs : list (str * str) :=
  [ ([107; 61; 38; 43; 37; 32; 233], [128512; 61; 38]);
    ([97], [49]);
    ([107; 61; 38; 43; 37; 32; 233], []);
    ([97], [43; 32]);
    ([97], [49]) ]%N.

Example C18_nonvacuous_hyp :
  forall k v, In (k, v) ex_pairs -> k <> [] /\ Forall scalar k /\ Forall scalar v.
Proof.
  intros k v H. cbn in H.
  repeat (destruct H as [H|H]; [injection H as <- <-; split; [discriminate|]; split;
    repeat constructor; unfold scalar; lia|]).
  contradiction.
Qed.

Example C18_nonvacuous :
  query (urlencode ex_pairs)
  = QDone [ ([107; 61; 38; 43; 37; 32; 233]%N, VList [[128512; 61; 38]%N; []]);
            ([97]%N, VList [[49]%N; [43; 32]%N; [49]%N]) ]
  /\ group ex_pairs
  = [ ([107; 61; 38; 43; 37; 32; 233]%N, VList [[128512; 61; 38]%N; []]);
      ([97]%N, VList [[49]%N; [43; 32]%N; [49]%N]) ]
  /\ group [([98], [50]); ([97], [49])]%N = [([98]%N, VStr [50]%N); ([97]%N, VStr [49]%N)].
Proof. vm_compute. repeat split. Qed.

(* inputs outside the hypothesis behave differently, so the hypothesis is not decorative:
   an empty key is dropped ('=v' is then read as key 'v'), and raw text that was not
   produced by quote is decoded leniently *)
Example C18_outside_hypothesis :
  parse_qsl_pairs (urlencode [([], [118])])%N = QDone [([118], [])]%N
  /\ parse_qsl_pairs [37; 101; 57; 61; 37; 122; 122]%N = QDone [([65533], [37; 122; 122])]%N.
Proof. vm_compute. repeat split. Qed.

(* the splitting spec on a ragged string:  "=v&&a==b=&c&%zz=%e9&"  *)
Example C18_spec_example :
  qsl_spec [61;118;38;38;97;61;61;98;61;38;99;38;37;122;122;61;37;101;57;38]%N
  = [([118], []); ([97], [61;98;61]); ([99], []); ([37;122;122], [65533])]%N.
Proof. vm_compute. reflexivity. Qed.

(* the body  a=1&a=%2B  sent chunked as "3;x\r\na=1\r\n06\r\n&a=%2B\r\n0\r\n\r\n", one byte per read,
   threshold 9 = its length (accepted) and 8 (413) *)
Definition ex_chunks : list chunk :=
  [ mkChunk [51]%N [59; 120]%N [97; 61; 49]%N; mkChunk [48; 54]%N [] [38; 97; 61; 37; 50; 66]%N ].
Definition ex_last : chunk := mkChunk [48]%N [] [].

Example C18_framing_nonvacuous :
  payload_of ex_chunks = urlencode [([97], [49]); ([97], [43])]%N
  /\ match forms_through (stream_init (enc_chunked ex_chunks ex_last [13; 10]%N) (repeat 0 40)) 9 (Some 9) (-1) true with
     | FForms d s => d = [([97]%N, VList [[49]%N; [43]%N])] /\ rest s = [13; 10]%N
     | _ => False
     end
  /\ match forms_through (stream_init (enc_chunked ex_chunks ex_last [13; 10]%N) (repeat 0 40)) 8 None (-1) true with
     | FStatus c _ => c = 413%Z
     | _ => False
     end
  /\ match forms_through (stream_init [97; 61; 49; 38; 97; 61; 37; 50; 66; 88; 88]%N [2; 0; 1]) 9 None 9 false with
     | FForms d s => d = [([97]%N, VList [[49]%N; [43]%N])] /\ rest s = [88; 88]%N
     | _ => False
     end.
Proof. vm_compute. repeat split. Qed.

(* query read, query string replaced, query and params read again; body replaced; the
   content type switched to JSON (another parser) and back, upper case, with a parameter *)
Example C18_updates_nonvacuous :
  run_ops false (mkR [97; 61; 49]%N [120; 61; 49]%N [])
          [ORead AQuery; OSetQs [98; 61; 50]%N; ORead AQuery; OCopy AParams;
           OSetBody [121; 61; 50; 38; 98; 61; 51]%N; OReadBody 3; ORead AForms; OAttr AParams [98]%N;
           OSetCtype [65;112;112;108;105;99;97;116;105;111;110;47;74;83;79;78]%N; ORead AForms; ORead AQuery;
           OSetCtype [84;69;88;84;47;80;76;65;73;78;59;32;99;104;97;114;115;101;116;61;120]%N; ODelQs; ORead AParams]
  = [ RO (QDone [([97]%N, VStr [49]%N)]);
      RO (QDone [([98]%N, VStr [50]%N)]);
      RO (QDone [([98]%N, VStr [50]%N); ([120]%N, VStr [49]%N)]);
      RO (QDone [([121]%N, VStr [50]%N); ([98]%N, VStr [51]%N)]);
      RO (QDone [([98]%N, VStr [51]%N)]);
      ROther;
      RO (QDone [([98]%N, VStr [50]%N)]);
      RO (QDone [([121]%N, VStr [50]%N); ([98]%N, VStr [51]%N)]) ]
  /\ run_ops true (mkR [97; 61; 49]%N [] []) [ORead AQuery; OSetQs [98; 61; 50]%N; ODelQs; ORead AQuery]
     = [RO (QDone [([97]%N, VStr [49]%N)]); RO (QDone [([97]%N, VStr [49]%N)])].
Proof. vm_compute. split; reflexivity. Qed.

(* cache_in: get, get (memo), del, get (recomputed: the getter was called a second time), set, get *)
Example C18_cache_in_example :
  cache_run false false 10 (mkC None 0) [CGet; CGet; CDel; CDel; CGet; CSet 7; CGet]
  = [CVal 10; CVal 10; COk; CMissing; CVal 11; COk; CVal 7]
  /\ cache_run true false 10 (mkC None 0) [CGet; CSet 7; CDel; CGet] = [CVal 10; CReadOnly; CReadOnly; CVal 10]
  /\ cache_run false true 10 (mkC None 0) [CGet; CGet] = [CGetterErr; CGetterErr].
Proof. vm_compute. repeat split. Qed.
