(* C06 — multipart parsing is independent of how the body is split into reads.
   Only statements; proofs are in proofs/C06_*.v. *)
From Verif Require Import lib.Base lib.Str gen.Gen model.MultipartRef model.Multipart proofs.C06_model_pins.

(* the regular expression re-implemented by Multipart.hsearch is the one in the source *)
Theorem C06_end_headers_regex_pinned :
  Gen.end_headers_patt_src =
  [40; 92; 114; 92; 110; 92; 114; 92; 110; 41; 124;
   40; 92; 114; 40; 92; 110; 92; 114; 63; 41; 63; 41; 36]%N.
Proof. exact end_headers_patt_pinned. Qed.
Print Assumptions C06_end_headers_regex_pinned.
