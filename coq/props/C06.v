(* C06 — multipart parsing is independent of how the body is split into reads.
   Only statements; proofs are in proofs/C06_*.v.  Model: model/Multipart.v
   (streaming parser, fixes F6+F7 applied), spec: model/MultipartRef.v ([ref],
   the one-piece scanner built on [findb] only, and [wf_prefix]). *)
From Verif Require Import lib.Base lib.Str gen.Gen model.Stream model.MultipartRef model.Multipart model.MultipartFeed
  proofs.C06_pattern proofs.C06_model_pins proofs.C06_core proofs.C06_global proofs.C06_wf proofs.C06_arbitrary proofs.C06_feed.

(* the regular expression re-implemented by Multipart.hsearch is the one in the source *)
Theorem C06_end_headers_regex_pinned :
  Gen.end_headers_patt_src =
  [40; 92; 114; 92; 110; 92; 114; 92; 110; 41; 124;
   40; 92; 114; 40; 92; 110; 92; 114; 63; 41; 63; 41; 36]%N.
Proof. exact end_headers_patt_pinned. Qed.
Print Assumptions C06_end_headers_regex_pinned.

(* ---- search core ---- *)

(* [ends_with_prefix t s k]: the last k bytes of s are the first k bytes of t.
   Because CR occurs once in CRLF--B, a window ends with at most one prefix of
   the delimiter: the candidate carried across a block/chunk border is unique. *)
Theorem C06_match_tail_unique :
  forall (B w : bytes) (i j : nat),
    contains_char N.eqb CR B = false ->
    0 < i -> 0 < j -> i <= length (token B) -> j <= length (token B) ->
    ends_with_prefix (token B) w i -> ends_with_prefix (token B) w j -> i = j.
Proof. exact match_tail_unique_lemma. Qed.
Print Assumptions C06_match_tail_unique.

(* MatchTail.match_tail on a non-empty window not longer than the delimiter
   returns that unique length, or None when there is none. *)
Theorem C06_match_tail_spec :
  forall (B s : bytes) (start end_ : nat),
    contains_char N.eqb CR B = false ->
    start < end_ -> end_ <= length s -> end_ - start <= length (token B) ->
    let w := slice s start end_ in
    match match_tail (token B) s start end_ with
    | Some i => 0 < i /\ ends_with_prefix (token B) w i
    | None => forall i, 0 < i -> i <= length (token B) -> ~ ends_with_prefix (token B) w i
    end.
Proof. exact match_tail_spec_lemma. Qed.
Print Assumptions C06_match_tail_spec.

(* BodyMarkuper._eat_data: the block-wise search with a carried remainder
   (trest = token[m:], m = 0: nothing carried) returns the FIRST occurrence of
   the delimiter in  token[:m] ++ chunk[base:]  (position relative to the chunk,
   hence possibly negative), and otherwise leaves in trest the remainder owed by
   the LONGEST partial match at the end ([carry_len], characterised by
   carry_len_some / carry_len_none below).  Every chunk, every base, every m. *)
Theorem C06_eat_data_spec :
  forall (B chunk : bytes) (base m : nat),
    contains_char N.eqb CR B = false ->
    m < length (token B) ->
    let tok := token B in
    let D := firstn m tok ++ skipn base chunk in
    eat_data tok chunk base (tr_of_len tok m) =
    match findb tok D with
    | Some q => (EFound (Z.of_nat base + Z.of_nat q - Z.of_nat m)%Z, None)
    | None => (ENone, trest_of tok (carry_len tok D))
    end.
Proof. exact eat_data_spec_lemma. Qed.
Print Assumptions C06_eat_data_spec.

Theorem C06_carry_is_longest_partial_match :
  forall (t s : bytes) (k : nat),
    carry_len t s = Some k ->
    0 < k /\ k < length t /\ ends_with_prefix t s k /\
    forall k', k < k' -> k' <= length t -> ~ ends_with_prefix t s k'.
Proof. exact carry_len_some. Qed.
Print Assumptions C06_carry_is_longest_partial_match.

Theorem C06_no_carry_means_no_partial_match :
  forall (t s : bytes),
    t <> [] -> findb t s = None -> carry_len t s = None ->
    forall k, 0 < k -> k <= length t -> ~ ends_with_prefix t s k.
Proof. exact carry_len_none. Qed.
Print Assumptions C06_no_carry_means_no_partial_match.

(* HeadersEaeter._eat_headers: regex scanner + carried suffix of CRLFCRLF
   (headers_end_expected = CRLFCRLF[k:], k = 0: none; the code only ever calls it
   with base = 0 when something is expected) finds the first CRLFCRLF in
   CRLFCRLF[:k] ++ chunk[base:], else carries the longest partial match — provided
   that text is [hdr_clean] (no "CR LF LF", "CR LF CR" only before LF or the end);
   otherwise the code is knowingly split dependent (see MultipartRef.v). *)
Theorem C06_eat_headers_spec :
  forall (chunk : bytes) (base k : nat),
    k < 4 -> (0 < k -> base = 0) ->
    let D := firstn k H4 ++ skipn base chunk in
    hdr_clean D = true ->
    eat_headers chunk base (tr_of_len H4 k) =
    match findb H4 D with
    | Some e => (EFound (Z.of_nat base + Z.of_nat e - Z.of_nat k)%Z, None)
    | None => (ENone, trest_of H4 (carry_len H4 D))
    end.
Proof. exact eat_headers_spec_lemma. Qed.
Print Assumptions C06_eat_headers_spec.

(* non-vacuity: boundary "abab" (self-overlapping), carried "\r\n--ab", the chunk
   continues with "ab" and the delimiter is found at chunk position -6 *)
Example C06_eat_data_nonvacuous :
  eat_data (token [97;98;97;98]%N) [97;98;13;10;120]%N 0 (tr_of_len (token [97;98;97;98]%N) 6)
  = (EFound (-6)%Z, None).
Proof. vm_compute. reflexivity. Qed.

Example C06_eat_headers_nonvacuous :
  eat_headers [10;13;10;120]%N 0 (tr_of_len H4 1) = (EFound (-1)%Z, None)
  /\ hdr_clean (firstn 1 H4 ++ [10;13;10;120]%N) = true.
Proof. vm_compute. split; reflexivity. Qed.

(* ---- the property ---- *)

(* For every boundary and every division of a well-formed body prefix
   ([wf_prefix], model/MultipartRef.v — in particular CR does not occur in the
   boundary) into chunks — any number of chunks, empty ones included — the
   streaming parser ends with exactly the sections and the error (none) that the
   one-piece reference scanner [ref] computes on the concatenation. *)
Theorem C06_stream_eq_ref :
  forall (B : bytes) (chunks : list bytes),
    wf_prefix B (concat chunks) ->
    markup_chunks B chunks = ref_obs B (concat chunks).
Proof. exact stream_eq_ref. Qed.
Print Assumptions C06_stream_eq_ref.

(* Corollary: the result does not depend on how the bytes were divided. *)
Theorem C06_split_independent :
  forall (B : bytes) (chunks : list bytes),
    wf_prefix B (concat chunks) ->
    markup_chunks B chunks = markup_chunks B [concat chunks].
Proof. exact split_independent. Qed.
Print Assumptions C06_split_independent.

Theorem C06_split_independent_pairwise :
  forall (B : bytes) (chunks chunks' : list bytes),
    concat chunks = concat chunks' ->
    wf_prefix B (concat chunks) ->
    markup_chunks B chunks = markup_chunks B chunks'.
Proof. exact split_independent_pairwise. Qed.
Print Assumptions C06_split_independent_pairwise.

(* ---- the division into read buffers as the server produces it ---- *)

(* _body_read feeds the parser with the parts _iter_body yields (model/MultipartFeed.v
   over model/Stream.v: every read may return fewer bytes than asked).  For EVERY
   fragmentation schedule, every buffer size (max_memfile_size) > 0 and every declared
   Content-Length the parse result is the reference result on the first
   Content-Length bytes of the stream: it does not depend on the schedule or on the
   buffer size, in particular not on whether the body fits into one buffer. *)
Theorem C06_result_independent_of_reads :
  forall (B data : bytes) (sc : list nat) (buf : nat) (cl : Z),
    0 < buf ->
    wf_prefix B (firstn (Z.to_nat cl) data) ->
    markup_stream B data sc buf cl = Some (ref_obs B (firstn (Z.to_nat cl) data)).
Proof. exact reads_independent. Qed.
Print Assumptions C06_result_independent_of_reads.

(* ---- arbitrary input: data sections are closed by a real, first delimiter ---- *)

(* For EVERY boundary without CR, ANY bytes and ANY division into chunks (no
   wf_prefix): every Data section (s, e) the streaming parser reports after the
   first (preamble) section satisfies 0 <= s <= e, the delimiter CRLF--B occurs in
   the concatenated body at offset e and fits into it (no invented delimiter, no
   truncated part), and it is the FIRST occurrence at or after s (no delimiter is
   swallowed into a part's data). *)
Theorem C06_data_sections_closed_any_input :
  forall (B : bytes) (chunks : list bytes) (first : section) (rest : list section) (s e : Z),
    contains_char N.eqb CR B = false ->
    fst (markup_chunks B chunks) = first :: rest ->
    In (Data, s, e) rest ->
    let body := concat chunks in
    let tok := token B in
    exists ds q,
      s = Z.of_nat ds /\ e = Z.of_nat (ds + q) /\
      ds + q + length tok <= length body /\
      prefixb tok (skipn (ds + q) body) = true /\
      (forall j, j < q -> prefixb tok (skipn (ds + j) body) = false) /\
      findb tok (skipn ds body) = Some q.
Proof. exact data_sections_closed_any_input. Qed.
Print Assumptions C06_data_sections_closed_any_input.

(* ---- the hypothesis: which bodies are well-formed prefixes ---- *)

(* wf_prefix is closed under taking prefixes ("... and all their prefixes"). *)
Theorem C06_wf_prefix_closed :
  forall (B p c : bytes), wf_prefix B (p ++ c) -> wf_prefix B p.
Proof. exact wf_prefix_closed. Qed.
Print Assumptions C06_wf_prefix_closed.

(* Every prefix of every body of the multipart grammar is a wf_prefix.
   (proofs/C06_wf.v)  mp_body B lead parts epilogue =
       [CRLF if lead] -- B ( CRLF join(CRLF, lines) CRLFCRLF data CRLF -- B )* -- epilogue
   part_ok: at least one header line, every line non-empty and free of CR and LF,
   the data does not contain CRLF--B; nothing is asked of the boundary beyond
   "no CR", of the data beyond that, or of the epilogue. *)
Theorem C06_grammar_bodies_are_wf :
  forall (B : bytes) (lead : bool) (parts : list part) (epilogue : bytes) (k : nat),
    contains_char N.eqb CR B = false ->
    Forall (part_ok (token B)) parts ->
    wf_prefix B (firstn k (mp_body B lead parts epilogue)).
Proof. exact grammar_prefix_wf. Qed.
Print Assumptions C06_grammar_bodies_are_wf.

(* The property in its generative form: however a prefix of a grammar body is cut
   into chunks, the parser delivers the reference result, and no error. *)
Theorem C06_grammar_split_independent :
  forall (B : bytes) (lead : bool) (parts : list part) (epilogue : bytes) (k : nat) (chunks : list bytes),
    contains_char N.eqb CR B = false ->
    Forall (part_ok (token B)) parts ->
    concat chunks = firstn k (mp_body B lead parts epilogue) ->
    markup_chunks B chunks = ref_obs B (firstn k (mp_body B lead parts epilogue))
    /\ snd (markup_chunks B chunks) = None.
Proof. exact grammar_split_independent. Qed.
Print Assumptions C06_grammar_split_independent.

(* ---- records of the repaired defects F6, F7 ---- *)

(* F6: the old _eat_last_hyphen (slice of two bytes compared with one hyphen)
   rejects the final hyphen whenever a byte follows it in the same chunk. *)
Theorem C06_F6_two_byte_slice_variant_refuted :
  exists h chunk,
    snd (eat_last_hyphen_F6 h chunk 0) = EErr EUnexpectedBodyEnd /\
    snd (eat_last_hyphen h chunk 0) = EFound 1%Z.
Proof. exact F6_variant_rejects_final_hyphen. Qed.
Print Assumptions C06_F6_two_byte_slice_variant_refuted.

(* F7 as repaired: after the closing delimiter every further chunk (the epilogue,
   an empty read) leaves the result unchanged; a recorded error sticks. *)
Theorem C06_chunks_after_the_end_are_ignored :
  forall s c, stopped s = true -> feed s c = s.
Proof. exact stopped_absorbs. Qed.
Print Assumptions C06_chunks_after_the_end_are_ignored.

Theorem C06_first_error_sticks :
  forall s c e, error s = Some e -> feed s c = s.
Proof. exact error_sticks. Qed.
Print Assumptions C06_first_error_sticks.

(* ---- non-vacuity: concrete well-formed bodies, cut inside the closing delimiter
   (the F6 and F7 positions), with three sections and no error ---- *)
Example C06_nonvacuous_simple :
  wf_prefix [66]%N (concat [[45;45;66;13;10;65;58;32;98;13;10;13;10;100;97;116;97;13;10;45;45;66;45]%N; [45]%N; [13;10]%N])
  /\ markup_chunks [66]%N [[45;45;66;13;10;65;58;32;98;13;10;13;10;100;97;116;97;13;10;45;45;66;45]%N; [45]%N; [13;10]%N]
     = ([(Data, 0, 0); (Headers, 5, 9); (Data, 13, 17)]%Z, None).
Proof. vm_compute. split; reflexivity. Qed.

(* self-overlapping boundary "abab", data full of delimiter look-alikes, byte at a time *)
Example C06_nonvacuous_abab :
  let body := [45;45;97;98;97;98;13;10;107;58;32;118;13;10;13;10;13;10;45;45;97;98;13;10;45;45;97;98;97;13;10;45;45;113;13;10;45;45;97;13;10;45;45;97;98;97;98;13;10;13;13;10;13;10;13;10;45;45;97;98;97;13;10;45;45;97;98;97;98;45;45]%N in
  wf_prefix [97;98;97;98]%N body
  /\ markup_chunks [97;98;97;98]%N (map (fun x => [x]) body) = ref_obs [97;98;97;98]%N body
  /\ length (fst (ref_obs [97;98;97;98]%N body)) = 5.
Proof. vm_compute. repeat split; reflexivity. Qed.

(* boundary "-" *)
Example C06_nonvacuous_dash :
  let body := [45;45;45;13;10;97;58;32;49;13;10;13;10;45;45;13;10;45;13;10;45;45;120;13;13;10;45;45;45;13;10;45;13;10;13;10;13;10;45;45;45;45;45;45]%N in
  wf_prefix [45]%N body
  /\ markup_chunks [45]%N (map (fun x => [x]) body) = ref_obs [45]%N body
  /\ length (fst (ref_obs [45]%N body)) = 5.
Proof. vm_compute. repeat split; reflexivity. Qed.

(* the body of the repository's test suite, 7 bytes at a time *)
Example C06_nonvacuous_suite_body :
  wf_prefix [45;45;45;45;87;101;98;75;105;116;70;111;114;109;66;111;117;110;100;97;114;121;101;80;107;112;70;70;55;116;106;66;65;113;120;50;57;76]%N (concat [[45;45;45;45;45;45;87]%N; [101;98;75;105;116;70;111]%N; [114;109;66;111;117;110;100]%N; [97;114;121;101;80;107;112]%N; [70;70;55;116;106;66;65]%N; [113;120;50;57;76;13;10]%N; [67;111;110;116;101;110;116]%N; [45;68;105;115;112;111;115]%N; [105;116;105;111;110;58;32]%N; [102;111;114;109;45;100;97]%N; [116;97;59;32;110;97;109]%N; [101;61;34;116;101;120;116]%N; [49;34;13;10;13;10;97]%N; [98;99;13;10;45;45;45]%N; [45;45;45;87;101;98;75]%N; [105;116;70;111;114;109;66]%N; [111;117;110;100;97;114;121]%N; [101;80;107;112;70;70;55]%N; [116;106;66;65;113;120;50]%N; [57;76;13;10;67;111;110]%N; [116;101;110;116;45;68;105]%N; [115;112;111;115;105;116;105]%N; [111;110;58;32;102;111;114]%N; [109;45;100;97;116;97;59]%N; [32;110;97;109;101;61;34]%N; [102;105;108;101;49;34;59]%N; [32;102;105;108;101;110;97]%N; [109;101;61;34;97;46;116]%N; [120;116;34;13;10;67;111]%N; [110;116;101;110;116;45;84]%N; [121;112;101;58;32;116;101]%N; [120;116;47;112;108;97;105]%N; [110;13;10;13;10;60;33]%N; [68;79;67;84;89;80;69]%N; [32;104;116;109;108;62;60]%N; [116;105;116;108;101;62;67]%N; [111;110;116;101;110;116;32]%N; [111;102;32;97;46;116;120]%N; [116;46;60;47;116;105;116]%N; [108;101;62;13;10;13;10]%N; [45;45;45;45;45;45;87]%N; [101;98;75;105;116;70;111]%N; [114;109;66;111;117;110;100]%N; [97;114;121;101;80;107;112]%N; [70;70;55;116;106;66;65]%N; [113;120;50;57;76;45;45]%N; [13;10]%N]) /\ length (fst (markup_chunks [45;45;45;45;87;101;98;75;105;116;70;111;114;109;66;111;117;110;100;97;114;121;101;80;107;112;70;70;55;116;106;66;65;113;120;50;57;76]%N [[45;45;45;45;45;45;87]%N; [101;98;75;105;116;70;111]%N; [114;109;66;111;117;110;100]%N; [97;114;121;101;80;107;112]%N; [70;70;55;116;106;66;65]%N; [113;120;50;57;76;13;10]%N; [67;111;110;116;101;110;116]%N; [45;68;105;115;112;111;115]%N; [105;116;105;111;110;58;32]%N; [102;111;114;109;45;100;97]%N; [116;97;59;32;110;97;109]%N; [101;61;34;116;101;120;116]%N; [49;34;13;10;13;10;97]%N; [98;99;13;10;45;45;45]%N; [45;45;45;87;101;98;75]%N; [105;116;70;111;114;109;66]%N; [111;117;110;100;97;114;121]%N; [101;80;107;112;70;70;55]%N; [116;106;66;65;113;120;50]%N; [57;76;13;10;67;111;110]%N; [116;101;110;116;45;68;105]%N; [115;112;111;115;105;116;105]%N; [111;110;58;32;102;111;114]%N; [109;45;100;97;116;97;59]%N; [32;110;97;109;101;61;34]%N; [102;105;108;101;49;34;59]%N; [32;102;105;108;101;110;97]%N; [109;101;61;34;97;46;116]%N; [120;116;34;13;10;67;111]%N; [110;116;101;110;116;45;84]%N; [121;112;101;58;32;116;101]%N; [120;116;47;112;108;97;105]%N; [110;13;10;13;10;60;33]%N; [68;79;67;84;89;80;69]%N; [32;104;116;109;108;62;60]%N; [116;105;116;108;101;62;67]%N; [111;110;116;101;110;116;32]%N; [111;102;32;97;46;116;120]%N; [116;46;60;47;116;105;116]%N; [108;101;62;13;10;13;10]%N; [45;45;45;45;45;45;87]%N; [101;98;75;105;116;70;111]%N; [114;109;66;111;117;110;100]%N; [97;114;121;101;80;107;112]%N; [70;70;55;116;106;66;65]%N; [113;120;50;57;76;45;45]%N; [13;10]%N])) = 5.
Proof. vm_compute. split; reflexivity. Qed.

(* the grammar hypotheses are satisfiable: two parts, data full of look-alikes *)
Example C06_grammar_nonvacuous :
  let B := [97;98;97;98]%N in
  let parts := [([[107;58;32;118]], [13;10;45;45;97;98;13;10;45;45;97;98;97]);
                ([[97]; [98;99]], [13])]%N in
  Forall (part_ok (token B)) parts
  /\ length (fst (ref_obs B (mp_body B true parts [13;10]%N))) = 5.
Proof.
  cbv zeta. split; [|vm_compute; reflexivity].
  repeat constructor; cbn; try discriminate; try (intros H; repeat destruct H as [H|H]; try discriminate H; exact H).
Qed.

(* arbitrary input, non-vacuous: a malformed body (header block with "CR LF LF" at a
   chunk end, which the header-end regex mistakes for CRLF) still yields a Data
   section, and it is closed by the real delimiter at offset 14 *)
Example C06_any_input_nonvacuous :
  markup_chunks [66]%N [[45;45;66;13;10;97;13;10;10]; [13;10;100;100;100;13;10;45;45;66;45;45]]%N
  = ([(Data, 0, 0); (Headers, 5, 7); (Data, 11, 14)]%Z, None)
  /\ wf_prefixb [66]%N [45;45;66;13;10;97;13;10;10;13;10;100;100;100;13;10;45;45;66;45;45]%N = false.
Proof. vm_compute. split; reflexivity. Qed.

(* short reads, a buffer larger than the body, Content-Length beyond the data (early EOF) *)
Example C06_reads_nonvacuous :
  let data := [45;45;66;13;10;65;58;32;98;13;10;13;10;100;97;116;97;13;10;45;45;66;45;45;13;10]%N in
  body_parts data [2;0;6] 1000 40 =
    Some [[45;45;66]; [13]; [10;65;58;32;98;13;10]; [13;10;100;97;116;97;13;10;45;45;66;45;45;13;10]]%N
  /\ markup_stream [66]%N data [2;0;6] 1000 40 = Some ([(Data, 0, 0); (Headers, 5, 9); (Data, 13, 17)]%Z, None).
Proof. vm_compute. split; reflexivity. Qed.
