(* C09 — each response depends on its own request only; retained state is bounded.
   Only statements; each is closed by a lemma of proofs/C09_proofs.v.

   Reading guide (model/History.v).  [serve app ts r] serves request r on a
   worker thread whose cells (app.request, app.response) and whose shared
   errors_map error objects are in state ts, and returns the events a WSGI
   server observes (status, headers, body chunks, close calls — the model of
   C03) together with the state left behind.  [app] holds what hooks, routing,
   handlers and route hooks do as an ARBITRARY function [a_beh] of what they can
   legitimately read: the current request and the response object as the
   framework hands it over; [a_eh] are arbitrary custom error handlers.
   Requests are arbitrary: decodable or undecodable PATH_INFO, no PATH_INFO key at all, any method, any
   handler outcome of the C03 grammar (success, 404/405, crash, malformed or
   oversized body = a raise of a shared errors_map entry, ...). *)
From Coq Require Import String.
From Verif Require Import lib.Base lib.Html model.Wsgi model.History proofs.C09_proofs.

(* The response to a request does not depend on the state earlier requests left
   on the thread: for ANY two states (hence for the state after ANY history and
   the state of a fresh application). *)
Theorem C09_history_independent :
  forall app ts ts' r, fst (serve app ts r) = fst (serve app ts' r).
Proof. exact history_independent. Qed.
Print Assumptions C09_history_independent.

(* Corollary: in any history, from any starting state, every response equals
   the response a fresh application gives to the same request. *)
Theorem C09_history_equals_fresh :
  forall app h ts, fst (run app ts h) = map (fun r => fst (serve app (ts_fresh app) r)) h.
Proof. intros app h ts. apply history_as_fresh. Qed.
Print Assumptions C09_history_equals_fresh.

(* After any history the requests some of whose objects (environ, input stream,
   buffered body) may still be reachable from the application number at most
   1 + 2 x |errors_map|, whatever the length of the history: the request in the
   thread's request cell (the last one) and, per shared error object, the request
   whose frames are in its __traceback__ (the last one that made it raise, F12)
   and the request whose exception is its __context__ (the last one that made it
   raise from inside an except block: "raise" outside an except block leaves
   __context__ as it is).  The request cell holds the last request that had a
   PATH_INFO key: one without it fails before request.__init__ and changes
   nothing on the thread. *)
Theorem C09_retention_bounded :
  forall app h,
    length (alive (snd (run app (ts_fresh app) h))) <= 1 + 2 * a_shared app
    /\ (forall r, q_nopath r = false -> t_req (snd (run app (ts_fresh app) (h ++ [r]))) = Some r)
    /\ (forall r, q_nopath r = true ->
          snd (run app (ts_fresh app) (h ++ [r])) = snd (run app (ts_fresh app) h)).
Proof.
  intros app h. split; [apply retention_bounded|split].
  - intros r. apply alive_req_last.
  - intros r. apply no_path_keeps_state.
Qed.
Print Assumptions C09_retention_bounded.

(* Record of the repaired defect F11: with the early return placed before the
   re-initialisation, the 400 for an undecodable path carries the previous
   request's Set-Cookie, and differs from what a fresh application answers. *)
Theorem C09_F11_bad_path_carryover_refuted :
  exists app ts r,
    In (n_set_cookie, lit "sid=secret123")
       (match fst (serve_F11 app ts r) with EvStart _ hl _ :: _ => hl | _ => [] end)
    /\ fst (serve_F11 app ts r) <> fst (serve_F11 app (ts_fresh app) r).
Proof. exists leak_app, leak_ts, leak_req. exact F11_variant_leaks. Qed.
Print Assumptions C09_F11_bad_path_carryover_refuted.

(* Record of the repaired defect F12: when re-raising a shared error prepends the
   new frames to its traceback, the number of requests kept alive is unbounded. *)
Theorem C09_F12_retention_refuted :
  forall n, exists app h,
    length h = n /\ n <= length (alive (snd (run_F12 app (ts_fresh app) h))).
Proof. intros n. exists grow_app. exact (F12_variant_unbounded n). Qed.
Print Assumptions C09_F12_retention_refuted.

(* non-vacuity: a history cookie-setter / undecodable path / oversized body on one thread.
   The 400 for the bad path has no Set-Cookie; the shared 413 error keeps request 2 alive (traceback and context). *)
Definition demo_app : app_static :=
  mkApp (fun rq _ =>
           if Nat.eqb (q_id rq) 0
           then (mkProg [] [] (ROk [] (mkH [MSetCookie (lit "sid") (lit "sid=secret123")] (HRet (OStr (lit "ok"))))), [])
           else (mkProg [] [] (ROk [] (mkH [] (HRaiseHttp true
                   (mkResp 413 (lit "413 Request Entity Too Large") [] [] (OStr (lit "Request entity too large"))
                           (lit "Request entity too large") None (lit """None""") false)))), [(1, true)]))
        (fun _ => None) 3.
Example C09_nonvacuous :
  let h := [mkReq 0 (lit "/a") false false false [] [] false false;
            mkReq 1 [47; 255]%N false false false [] [] false false;
            mkReq 2 (lit "/b") false false false [] [] false false] in
  let '(rs, ts) := run demo_app (ts_fresh demo_app) h in
  match rs with
  | [r0; r1; r2] =>
      In (EvStart (lit "200 OK") [(lit "Content-Length", lit "2"); (lit "Content-Type", lit "text/html; charset=UTF-8");
                                  (lit "Set-Cookie", lit "sid=secret123")] false) r0
      /\ (exists hl, hd EvRouted r1 = EvStart (lit "400 Bad Request") hl false /\ ~ In (lit "Set-Cookie") (map fst hl))
      /\ alive ts = [2; 2; 2] /\ t_tb ts = [([], None); ([2], Some 2); ([], None)]
  | _ => False
  end.
Proof.
  vm_compute. split; [right; right; left; reflexivity|]. split.
  - eexists. split; [reflexivity|]. intros [H|[H|[]]]; discriminate H.
  - split; reflexivity.
Qed.

(* a request without PATH_INFO after a HEAD request for /secret: the last-resort page names "/", has
   its body (the request is a GET), and the request cell still holds request 0 *)
Example C09_no_path_nonvacuous :
  let h := [mkReq 0 (lit "/secret") true false false [] [] false false;
            mkReq 1 [] false false false [] [] false true] in
  let '(rs, ts) := run demo_app (ts_fresh demo_app) h in
  nth 1 rs [] = [EvStart l_catchall catchall_headers true;
                 EvBody [CBytes (lit "<h1>Critical error while processing request: /</h1>")]]
  /\ option_map q_id (t_req ts) = Some 0.
Proof. vm_compute. split; reflexivity. Qed.
