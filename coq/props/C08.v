(* C08 — concurrent requests on one application never see each other.
   This file contains only statements, each closed by [exact] of a lemma from
   proofs/C08_proofs.v, followed by Print Assumptions.

   What is proved is the LOGIC of the isolation: every per-request attribute
   of the shared request/response objects lives in a cell keyed by (object,
   thread), HeaderDict's dict pointer likewise, and the dicts a request
   creates are private to its thread; so under ANY interleaving of ops a
   thread observes exactly what it observes when it runs alone.  What is NOT
   proved, and is named as the remainder (C08 is claimed partial): that the
   interpreter really executes each op of the vocabulary as one indivisible
   step (GIL; bytecode-level atomicity of getattr/setattr on threading.local;
   C-level dict thread-safety), that threading.local behaves as modelled, and
   that handlers share nothing mutable outside this vocabulary (module
   globals, objects captured in closures).

   Vocabulary: see model/TsProps.v.  [events_of t tr] are the events of thread
   t in the global trace, [solo t sched] is the schedule in which only t runs,
   as often as in [sched].  [calm sl p]: program p never runs the HeaderDict
   constructor ([OHNew], done by Response.__new__ only) and runs __init__
   ([OPro o]) only on objects whose store exists already ([sl o = true]) — what
   serving threads do on the objects of an application built before they
   started. *)
From Verif Require Import lib.Base model.TsProps proofs.C10_proofs proofs.C08_proofs.

(* For every schedule (any number of threads, any interleaving, any length),
   every pool of thread programs and every initial world: if every OTHER
   thread is calm, the events of thread t — every op it issues and every
   result it gets, hence everything it computes from them — are exactly the
   events of t running alone, as far as the schedule lets t advance. *)
Theorem C08_noninterference :
  forall (sched : list tid) (pl : pool) (w0 : world) (t : tid),
    (forall u, u <> t -> calm (slot w0) (pl u)) ->
    events_of t (fst (run_fixed sched pl w0)) = fst (run_fixed (solo t sched) pl w0).
Proof. exact C08_noninterference_lemma. Qed.
Print Assumptions C08_noninterference.

(* The frame behind it: a calm step of another thread u changes nothing that t
   can observe (no slot, no HeaderDict, none of t's cells, header-dict
   pointers or private dicts). *)
Theorem C08_frame :
  forall sl t u p w w' r,
    u <> t -> below sl w -> op_calm sl p ->
    step u p w = (w', r) ->
    veq t w w'.
Proof. exact step_veq_other. Qed.
Print Assumptions C08_frame.

(* One request through Ombott.wsgi/_handle/_cast on the application whose
   shared objects are request rq and response rs — [lifecycle]: the server's
   fresh environ, request.__init__(environ), response.__init__(), then ANY
   handler/hook/routing activity [handler u] that stays in the calm
   vocabulary, then the Content-Length default and the reads of status line
   and headerlist — stays in the calm vocabulary, provided the application was
   constructed before (its two stores exist).  Hence, for any number of
   serving threads and any interleaving, what thread t hands back ([OOut]
   events: status code, status line, header items, cookies) and everything it
   saw on the way equals what it produces alone. *)
Theorem C08_request_lifecycle :
  forall (sched : list tid) (w0 : world) (rq rs : nat)
         (path : tid -> val) (handler : tid -> frag) (clen : tid -> val) (t : tid),
    slot w0 (CReq, rq) = true -> slot w0 (CResp, rs) = true ->
    (forall u, frag_calm (slot w0) (handler u)) ->
    let pl := fun u => lifecycle rq rs (path u) (handler u) (clen u) in
    events_of t (fst (run_fixed sched pl w0)) = fst (run_fixed (solo t sched) pl w0).
Proof. exact C08_request_lifecycle_lemma. Qed.
Print Assumptions C08_request_lifecycle.

(* The hypothesis is needed, and the model is not trivially frame-respecting:
   the HeaderDict constructor run by another thread on a shared response
   object (what a second Response.__new__ on that object would do) takes t's
   header dict away. *)
Theorem C08_headerdict_constructor_refuted :
  exists sched pl w0 t,
    (forall u, u <> t -> match pl u with Do (OHNew _) _ => True | _ => False end) /\
    events_of t (fst (run_fixed sched pl w0)) <> fst (run_fixed (solo t sched) pl w0).
Proof. exact hnew_breaks_the_frame. Qed.
Print Assumptions C08_headerdict_constructor_refuted.

(* non-vacuity: an application (request 0, response 0) built on thread 0;
   threads 1 and 2 then serve "/a" and "/b" with handlers that set a header
   and a status, interleaved op by op; each hands back its own status and its
   own headers, and the hypotheses of C08_request_lifecycle hold
   (ex_w0, ex_handler, ex_pool, outs: end of proofs/C08_proofs.v). *)
Example C08_nonvacuous :
  slot ex_w0 (CReq, 0) = true /\ slot ex_w0 (CResp, 0) = true /\
  (forall u, frag_calm (slot ex_w0) (ex_handler u)) /\
  let tr := fst (run_fixed (flat_map (fun _ => [1; 2; 2; 1]) (seq 0 30)) ex_pool ex_w0) in
  outs (events_of 1 tr)
  = [(1, RVal (VInt 201)); (1, RVal (VStr s_200_OK));
     (1, RItems [(4, VInt 1); (k_content_length, VInt 1)]); (1, RVal VNone)] /\
  outs (events_of 2 tr)
  = [(2, RVal (VInt 202)); (2, RVal (VStr s_200_OK));
     (2, RItems [(4, VInt 2); (k_content_length, VInt 2)]); (2, RVal VNone)].
Proof.
  split; [vm_compute; reflexivity|]. split; [vm_compute; reflexivity|]. split.
  - intros u k Hk. unfold ex_handler, cmd_frag, with_cval.
    repeat (calm_step; auto).
  - vm_compute. split; reflexivity.
Qed.
