(* C01 — route resolution equals the plain rule-by-rule semantics.
   Only statements; proofs are in proofs/C01_get.v (stage 1: the depth-first
   lookup on a well-formed tree), proofs/C01_insert.v (stage 2: insertion) and
   proofs/C01_router.v (stage 3: the router).  The spec (match1, better, spec)
   is model/RouteSpec.v; the model of the code is model/Router.v.

   filt : fid -> str -> option (value * nat) is universally quantified in every
   theorem: the compiled filter (Python `re` + converter) as a function of the
   remaining path; `rex` selectors are outside the model. *)
From Verif Require Import lib.Base lib.Str gen.Gen model.RouteSpec model.Dispatch model.Router
     proofs.C01_get proofs.C01_insert proofs.C01_router.

(* Stage 1 (get_dfs_spec).  On every well-formed tree the lookup RadiDict.get
   (literal child first, wildcard child on failure, with the look-back stack)
   returns data d / names nm / values vs  iff  the tree holds a pattern p with
   that data which matches the WHOLE path left to right with exactly those
   values, and every other held pattern that matches is worse (first difference:
   p has text, the other a wildcard); it fails iff no held pattern matches.
   The answer depends only on the set [paths n], not on the tree's shape. *)
Theorem C01_get_dfs_spec :
  forall filt (n : node), wf n -> forall (path : str) (i : nat),
    match get_at filt true n path i with
    | GFound d nm vs _ =>
      exists p, In (p, (d, nm)) (paths n) /\ matchf filt p path = Some vs /\
                forall p' e', In (p', e') (paths n) -> matchf filt p' path <> None ->
                              p' = p \/ betterb p p' = true
    | GFail _ _ _ => forall p' e', In (p', e') (paths n) -> matchf filt p' path = None
    end.
Proof. exact get_dfs_spec_lemma. Qed.
Print Assumptions C01_get_dfs_spec.

(* matchf on the character-level pattern is match1 on the segment-level rule *)
Theorem C01_matchf_is_match1 : forall filt (p : pat) (path : str),
  matchf filt (flat p) path = match1 filt p path.
Proof. exact matchf_flat. Qed.
Print Assumptions C01_matchf_is_match1.

(* Stage 2.  RadiDict._set (descent = _match, PARTIAL => _split, then
   _make_route/_mount) keeps the tree well-formed and adds exactly the new
   (pattern, data) pair; splitting a node changes nothing that is held.
   Guard = the input the code accepts without raising: one filter per
   wildcard. *)
Theorem C01_wf_insert : forall root route fl it nm root',
  wf root -> ntok route <= length fl -> set_at root route fl 0 it nm = SOk root' -> wf root'.
Proof. exact wf_insert. Qed.
Print Assumptions C01_wf_insert.

Theorem C01_insert_paths : forall root route fl it nm root',
  wf root -> ntok route <= length fl -> set_at root route fl 0 it nm = SOk root' ->
  forall e, In e (paths root') <->
            In e (map (pre (fpat route fl)) (item_entries it nm)) \/ In e (paths root).
Proof. exact insert_paths. Qed.
Print Assumptions C01_insert_paths.

(* Stage 3.  For EVERY script of registrations (any order, duplicates,
   overwrite, conflicting filters => rejected adds, several rules on one
   pattern, names) and method removals, the router resolves every path exactly
   as the rule-by-rule spec does on the rules its `routes` index lists:
   spec = None  <=> 404;  spec = the best matching rule => that route's method
   table is dispatched and the kwargs are built from the spec's values. *)
Theorem C01_resolve_eq_spec : forall filt (cs : list cmd) (path : str) (cds : list str),
  Forall add_cmd cs ->
  let R := exec_cmds router0 cs in
  match spec filt (rules_of R) (strip_sep path) with
  | None => exists vs hs i, resolve filt R path cds = R404 vs hs i
  | Some (q, d, vs) =>
    exists rt hs,
      nth_error (heap R) d = Some rt /\ In (r_pattern rt, d) (routes R) /\
      q = pat_of (r_pattern rt) (r_filters rt) /\
      resolve filt R path cds =
      match dispatch_on (r_methods rt) cds with
      | DCall m (h, mn) => ROk d m h (make_params (match mn with [] => r_names rt | _ :: _ => mn end) vs) hs
      | D405 a => R405 a
      end
  end.
Proof. exact resolve_eq_spec_script_lemma. Qed.
Print Assumptions C01_resolve_eq_spec.

(* which rules are registered: a registration the tree does not refuse is,
   afterwards, one of the rules — under the pattern and the filters it was made
   with; a refused one (filter conflict) changes nothing at all *)
Theorem C01_accepted_rule_is_registered :
  forall (cs : list cmd) rule pattern nm flts ms h name ow,
    Forall add_cmd cs -> ntok pattern = length flts ->
    let R := exec_cmds router0 cs in
    (forall e, snd (rt_add R rule pattern nm flts ms h name ow) <> Some (AKeyError e)) ->
    exists d, In (pat_of pattern flts, d) (rules_of (fst (rt_add R rule pattern nm flts ms h name ow))).
Proof. exact accepted_registered_lemma. Qed.
Print Assumptions C01_accepted_rule_is_registered.

Theorem C01_rejected_rule_changes_nothing : forall R rule pattern nm flts ms h name ow e,
  snd (rt_add R rule pattern nm flts ms h name ow) = Some (AKeyError e) ->
  fst (rt_add R rule pattern nm flts ms h name ow) = R.
Proof. exact add_rejected_unchanged. Qed.
Print Assumptions C01_rejected_rule_changes_nothing.

(* The handler is called with exactly the named wildcards of the rule IT was
   registered under (the registration CAdd … mn … h … for method m on this
   pattern, fix F2), each bound to the value the rule-by-rule matcher extracted;
   every value of a filtered wildcard is the first component of a successful
   answer of that wildcard's own filter (so a value the filter would reject
   never reaches a handler), and there is exactly one value per wildcard. *)
Theorem C01_params_exact : forall filt cs path cds d m h kw hs,
  Forall add_cmd cs ->
  resolve filt (exec_cmds router0 cs) path cds = ROk d m h kw hs ->
  exists rt mn vs rule fl ms name ow,
    nth_error (heap (exec_cmds router0 cs)) d = Some rt /\
    In (CAdd rule (r_pattern rt) mn fl ms h name ow) cs /\ In m (norm_methods ms) /\
    match1 filt (pat_of (r_pattern rt) (r_filters rt)) (strip_sep path) = Some vs /\
    Forall2 (value_from filt) (filters_of (pat_of (r_pattern rt) (r_filters rt))) vs /\
    kw = make_params (match mn with [] => r_names rt | _ :: _ => mn end) vs.
Proof. exact params_exact_lemma. Qed.
Print Assumptions C01_params_exact.

Theorem C01_no_rejected_value : forall filt (q : pat) (path : str) (vs : list value),
  match1 filt q path = Some vs -> Forall2 (value_from filt) (filters_of q) vs.
Proof. exact match1_values. Qed.
Print Assumptions C01_no_rejected_value.

(* Record of the repaired defect F1: WITHOUT the guard `c != TOKEN` in the
   literal-child lookup, a CR in the path steps into the wildcard node as text:
   on the tree of "/foo/:x/bar" the path "foo/<CR>/bar" is answered with a value
   list that no held pattern produces (the route is selected with no value for
   its wildcard; a filter would not have been run). *)
Theorem C01_F1_unguarded_variant_refuted :
  exists filt n path,
    wf n /\
    match get_at filt false n path 0 with
    | GFound d nm vs hs => forall p e, In (p, e) (paths n) -> matchf filt p path <> Some vs
    | GFail _ _ _ => False
    end.
Proof. exact f1_unguarded_lemma. Qed.
Print Assumptions C01_F1_unguarded_variant_refuted.

(* non-vacuity: three registrations ("a/b", "a/<x>", "a/<x>/c" with an int
   filter 0 on a second rule rejected), literal beats wildcard, backtracking
   into the wildcard, and the guarded lookup treats CR as wildcard text *)
Example C01_nonvacuous :
  let a := 97%N in let b := 98%N in let c := 99%N in let s := 47%N in let x := [120%N] in
  let cs := [CAdd 0 [a; s; b] [] [] [[71; 69; 84]%N] 1 None false;
             CAdd 1 [a; s; 13%N] [x] [None] [[71; 69; 84]%N] 2 None false;
             CAdd 2 [a; s; 13%N; s; c] [x] [None] [[71; 69; 84]%N] 3 None false;
             CAdd 3 [a; s; 13%N; s; b] [x] [Some 0] [[71; 69; 84]%N] 4 None false] in
  let R := exec_cmds router0 cs in
  let filt := fun (_ : fid) (_ : str) => @None (value * nat) in
  let G := [[71; 69; 84]%N] in
  Forall add_cmd cs /\
  length (rules_of R) = 3 /\
  resolve filt R [s; a; s; b] G = ROk 0 [71; 69; 84]%N 1 [] [] /\
  resolve filt R [s; a; s; c] G = ROk 1 [71; 69; 84]%N 2 [(x, [c])] [] /\
  resolve filt R [s; a; s; b; s; c] G = ROk 2 [71; 69; 84]%N 3 [(x, [b])] [] /\
  resolve filt R [s; a; s; 13%N; s; c] G = ROk 2 [71; 69; 84]%N 3 [(x, [13%N])] [] /\
  (exists vs hs i, resolve filt R [s; a; s; b; s; b] G = R404 vs hs i).
Proof. exact c01_nonvacuous_lemma. Qed.
