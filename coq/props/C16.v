(* C16 — static_file never serves a file outside its root.
   Statements only; each is closed by [exact] of a lemma from proofs/C16_proofs.v.
   Model: coq/model/Static.v (posixpath.join/normpath/abspath, strip('/\\'),
   the startswith(root + sep) test, the 403/404/403 gate) and
   coq/model/Range.static_file (gate + the rest of the function).
     clean c     := c <> [] /\ c <> "." /\ c contains no '/'
     components  := the non-empty pieces of a path between '/'
     s_dotdot    := ".."                                                  *)
From Verif Require Import lib.Base lib.Str model.Static model.Range proofs.C16_proofs.
Local Open Scope N_scope.

(* posixpath.normpath: every result is "." or  k slashes (k <= 2) followed by
   clean components joined by single '/' (so: no empty or "." component, no
   repeated or trailing separator), and an absolute result (k > 0) has no ".."
   component at all. *)
Theorem normpath_normal :
  forall p : str,
    normpath p = s_dot
    \/ exists (k : nat) (comps : list str),
         normpath p = repeat SEP k ++ join [SEP] comps
         /\ (k <= 2)%nat /\ (k <> 0%nat \/ comps <> [])
         /\ Forall clean comps
         /\ (k <> 0%nat -> ~ In s_dotdot comps).
Proof. exact normpath_normal_lemma. Qed.
Print Assumptions normpath_normal.

(* For every working directory (absolute, as os.getcwd() is), root and name:
   if the prefix test of static_stream.py:79 passes, the normalised target is
   lexically inside the normalised root: its components are the root's
   components followed by further components cs, none of which is "..", "." or
   empty — and cs is non-empty (the target is not the root itself) except when
   the root is "/" (then abspath(root)+sep = "//", and names that normalise to
   nothing give the target "//" = the root directory; it is a directory, so
   the isfile test answers 404; everything is inside "/" anyway). *)
Theorem C16_contained :
  forall cwd root name : str,
    isabs cwd = true ->
    passes_check cwd root name = true ->
    exists cs : list str,
      components (sf_filename cwd root name) = components (abspath cwd root) ++ cs
      /\ Forall clean cs /\ ~ In s_dotdot cs
      /\ (cs <> [] \/ abspath cwd root = [SEP]).
Proof. exact contained_lemma. Qed.
Print Assumptions C16_contained.

(* The reason for the trailing separator: a target whose component at the
   root's last position merely STARTS with the root's last component (root
   /a/www, target /a/www2/x) is refused. *)
Theorem C16_sibling_prefix_rejected :
  forall cwd root name (A : list str) (d x : str) (rest : list str),
    isabs cwd = true ->
    components (abspath cwd root) = A ++ [d] ->
    components (sf_filename cwd root name) = A ++ [d ++ x] ++ rest ->
    x <> [] ->
    passes_check cwd root name = false.
Proof. exact sibling_lemma. Qed.
Print Assumptions C16_sibling_prefix_rejected.

(* The whole function, for ANY int parser, date parser and filesystem oracles
   (exists / isfile / access / content / mtime are arbitrary functions):
   failed prefix test => 403, nothing opened; passed but not an existing
   regular file => 404, nothing opened; not readable => 403, nothing opened;
   open() is reached only when all tests passed, the request is not a HEAD and
   the answer is not 304; the status is always one of 200 206 304 403 404 416. *)
Theorem C16_status :
  forall (pint parse_date : str -> option Z) (fs_exists fs_isfile fs_access : str -> bool)
         (content : str -> list N) (mtime_of : str -> Z)
         cwd root name ims_hdr head range_hdr,
    let t := sf_filename cwd root name in
    let r := static_file pint parse_date fs_exists fs_isfile fs_access content mtime_of
                         cwd root name ims_hdr head range_hdr in
    (passes_check cwd root name = false -> r_status r = 403%Z /\ r_opened r = false)
    /\ (passes_check cwd root name = true -> fs_exists t = false \/ fs_isfile t = false ->
        r_status r = 404%Z /\ r_opened r = false)
    /\ (passes_check cwd root name = true -> fs_exists t = true -> fs_isfile t = true ->
        fs_access t = false -> r_status r = 403%Z /\ r_opened r = false)
    /\ (r_opened r = true ->
        passes_check cwd root name = true /\ fs_exists t = true /\ fs_isfile t = true /\ fs_access t = true
        /\ head = false /\ r_status r <> 304%Z)
    /\ (r_status r = 200 \/ r_status r = 206 \/ r_status r = 304 \/ r_status r = 403
        \/ r_status r = 404 \/ r_status r = 416)%Z.
Proof. exact status_lemma. Qed.
Print Assumptions C16_status.

(* The property in one statement: whenever static_file reaches open(), the
   path it opens (sf_filename) lies below the root. *)
Theorem C16_never_opens_outside_root :
  forall (pint parse_date : str -> option Z) (fs_exists fs_isfile fs_access : str -> bool)
         (content : str -> list N) (mtime_of : str -> Z)
         cwd root name ims_hdr head range_hdr,
    isabs cwd = true ->
    r_opened (static_file pint parse_date fs_exists fs_isfile fs_access content mtime_of
                          cwd root name ims_hdr head range_hdr) = true ->
    exists cs : list str,
      components (sf_filename cwd root name) = components (abspath cwd root) ++ cs
      /\ Forall clean cs /\ ~ In s_dotdot cs
      /\ (cs <> [] \/ abspath cwd root = [SEP]).
Proof. exact never_outside_lemma. Qed.
Print Assumptions C16_never_opens_outside_root.

(* the list of opened paths of Static.sf_opened (what the correspondence
   observes) is the r_opened flag of the response model *)
Theorem C16_opened_views_agree :
  forall pint parse_date fs_exists fs_isfile fs_access content mtime_of cwd root name ims_hdr head range_hdr,
    let g := sf_gate fs_exists fs_isfile fs_access cwd root name in
    let r := static_file pint parse_date fs_exists fs_isfile fs_access content mtime_of
                         cwd root name ims_hdr head range_hdr in
    sf_opened g head (Z.eqb (r_status r) 304)
    = if r_opened r then [sf_filename cwd root name] else [].
Proof. exact opened_agree. Qed.
Print Assumptions C16_opened_views_agree.

(* ---- concrete instances (non-vacuity and the corner cases) ---- *)
Definition p_a_www : str := [47; 97; 47; 119; 119; 119].              (* "/a/www" *)
Definition p_cwd : str := [47; 104].                                   (* "/h" *)

Example C16_contained_nonvacuous :
  (* name "s/../i.txt" under root "/a/www": passes, target /a/www/i.txt *)
  passes_check p_cwd p_a_www [115; 47; 46; 46; 47; 105; 46; 116; 120; 116] = true
  /\ components (sf_filename p_cwd p_a_www [115; 47; 46; 46; 47; 105; 46; 116; 120; 116])
     = [[97]; [119; 119; 119]; [105; 46; 116; 120; 116]].
Proof. vm_compute. split; reflexivity. Qed.

Example C16_sibling_nonvacuous :
  (* name "../www2/x" under root "/a/www": target /a/www2/x, refused *)
  sf_filename p_cwd p_a_www [46; 46; 47; 119; 119; 119; 50; 47; 120] = [47; 97; 47; 119; 119; 119; 50; 47; 120]
  /\ passes_check p_cwd p_a_www [46; 46; 47; 119; 119; 119; 50; 47; 120] = false
  (* the same with a relative root "www/" and cwd "/a" *)
  /\ passes_check [47; 97] [119; 119; 119; 47] [46; 46; 47; 119; 119; 119; 50; 47; 120] = false
  (* a name that normalises to the root itself is refused too *)
  /\ passes_check p_cwd p_a_www [] = false
  /\ passes_check p_cwd p_a_www [115; 47; 46; 46] = false
  (* an absolute name loses its leading slashes and stays inside: /a/www/etc/passwd *)
  /\ sf_filename p_cwd p_a_www [47; 47; 101; 116; 99] = [47; 97; 47; 119; 119; 119; 47; 101; 116; 99].
Proof. vm_compute. repeat split. Qed.

Example C16_root_slash :
  (* root "/": root+sep = "//"; the target keeps two slashes and passes *)
  sf_root p_cwd [47] = [47; 47]
  /\ sf_filename p_cwd [47] [101; 116; 99] = [47; 47; 101; 116; 99]            (* "etc" -> "//etc" *)
  /\ passes_check p_cwd [47] [101; 116; 99] = true
  /\ sf_filename p_cwd [47] [] = [47; 47]                                       (* "" -> "//": the root itself *)
  /\ passes_check p_cwd [47] [] = true
  /\ passes_check p_cwd [47] [46; 46; 47; 46; 46] = true                        (* "../.." -> "//" *)
  (* root "//" (and "///"): root+sep = "///", every target collapses to one slash: always 403 *)
  /\ passes_check p_cwd [47; 47] [101; 116; 99] = false.
Proof. vm_compute. repeat split. Qed.
