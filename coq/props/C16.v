(* C16 — static_file never serves a file outside its root.  (statements only) *)
From Verif Require Import lib.Base lib.Str model.Static.

Example C16_model_smoke :
  passes_check [47;97]%N [47;97;47;119]%N [46;46;47;119;50;47;120]%N = false.
Proof. vm_compute. reflexivity. Qed.
