(* C19 — building a URL from matched parameters leads back to the same match.
   (work in progress: statements are added as they are proved) *)
From Verif Require Import lib.Base lib.Str lib.PyIntDec model.RouteSpec model.RouteUrl proofs.C19_witness.
Local Open Scope N_scope.

Theorem C19_int_adjacent_minus_zero_refuted :
  let filt := handler k_int no_rx no_fconv in
  let p := [49; 50; 45; 48] in
  exists vs u,
    match1 filt pat_int_int p = Some vs /\
    url_of_match k_int no_rx no_fconv pat_int_int names_xy vs = UOk u /\
    u = [49; 50; 48] /\
    match1 filt pat_int_int u = None.
Proof. exact int_adjacent_witness. Qed.
Print Assumptions C19_int_adjacent_minus_zero_refuted.
