(* C19 — building a URL from matched parameters leads back to the same match.

   Only statements, each closed by [exact] of a lemma, + Print Assumptions.
   Vocabulary:
     model/RouteSpec.v (C01)   pat = list (Lit s | Wild filter?), match1 filt pat path,
                               pattern_of / filters_of = Route.pattern_out / Route.filters
     model/RouteUrl.v          Route.url as written (url, url_of_pat, url_of_match),
                               make_filter's handler, make_params_dict, pyval, ures
     proofs/C19_spec.v         url_spec (segment-wise builder), fill, next_lit, validates,
                               lits_ok, names_ok, identity_fmt, int_or_plain, no_adjacent_int
   kind / rx / fconv (which table entry a compiled filter is, the regex engine,
   float conversion+printing) are universally quantified: nothing about Python's
   re or float is assumed.  The int filter is concrete (lib/PyIntDec.v). *)
From Verif Require Import lib.Base lib.Str lib.PyIntDec gen.Gen model.RouteSpec model.RouteUrl
     proofs.C19_spec proofs.C19_pins proofs.C19_shape proofs.C19_identity proofs.C19_int proofs.C19_witness proofs.C19_calls.
Local Open Scope N_scope.

(* ------------------------------------------------------------------ *)
(* the constants of the source the model relies on *)

Theorem C19_filter_table_pinned :
  Gen.filter_table =
  [([114; 101], ([], [97; 46; 98], [110; 111; 110; 101], [110; 111; 110; 101]));
   ([105; 110; 116], ([45; 63; 92; 100; 43], [45; 63; 92; 100; 43], [105; 110; 116], [53; 124; 55; 124; 50; 124; 45; 51; 124; 49; 48]));
   ([102; 108; 111; 97; 116], ([45; 63; 92; 100; 43; 40; 92; 46; 92; 100; 43; 41; 63], [45; 63; 92; 100; 43; 40; 92; 46; 92; 100; 43; 41; 63], [102; 108; 111; 97; 116], [53; 46; 48; 124; 55; 46; 48; 124; 50; 46; 53; 124; 45; 51; 46; 48; 124; 49; 48; 46; 48]));
   ([112; 97; 116; 104], ([46; 43; 36], [46; 43; 40; 63; 61; 97; 92; 46; 98; 41], [110; 111; 110; 101], [110; 111; 110; 101]))]
  /\ Gen.param_token = CR /\ Gen.path_sep = SLASH.
Proof. exact (conj filter_table_pinned tokens_pinned). Qed.
Print Assumptions C19_filter_table_pinned.

(* the same table read through the model's own functions: every row is one of
   the model's four kinds, its converter and formatter are what f_out_of says,
   and the formatter samples the model covers are what apply_fmt prints *)
Theorem C19_filter_table_agrees_with_model :
  forallb row_agrees Gen.filter_table = true /\
  map fst Gen.filter_table = [s_re; s_int; s_float; s_path].
Proof. exact table_agrees_with_model. Qed.
Print Assumptions C19_filter_table_agrees_with_model.

(* ------------------------------------------------------------------ *)
(* C19_url_shape: the slice bookkeeping of Route.url (cidx / clen / end over
   pattern_out) computes the segment-wise builder [url_spec] — for every rule
   (adjacent wildcards, adjacent / empty / leading / trailing literal chunks),
   every list of names, all arguments, and every outcome including each error. *)
Theorem C19_url_shape :
  forall kind rx fconv (p : pat) (names : list str) (args : list pyval) (kw : list (str * pyval)),
    lits_ok p = true ->
    url_of_pat kind rx fconv p names args kw = url_spec kind rx fconv kw p names args.
Proof. exact url_shape_lemma. Qed.
Print Assumptions C19_url_shape.

(* in the words of the property: a built URL is the rule's literal chunks,
   verbatim and in order, with one text per wildcard in between *)
Theorem C19_url_shape_literals :
  forall kind rx fconv (p : pat) names args kw u,
    lits_ok p = true ->
    names <> [] ->
    url_of_pat kind rx fconv p names args kw = UOk u ->
    exists texts, length texts = nwild p /\ u = fill p texts.
Proof. exact url_shape_literals_lemma. Qed.
Print Assumptions C19_url_shape_literals.

Example C19_url_shape_nonvacuous :
  lits_ok pat_adj = true /\
  url_of_pat k_int no_rx id_fconv pat_adj names_xy [] [([120], PStr [88]); ([121], PInt (-7)%Z)]
  = UOk [97; 98; 88; 45; 55; 99; 100] /\
  url_of_pat k_int no_rx id_fconv pat_adj names_xy [] [([120], PStr [88])] = UKeyError.
Proof. exact shape_nonvacuous_lemma. Qed.

(* ------------------------------------------------------------------ *)
(* C19_identity_formatters: plain, re and path wildcards (no formatter).  For
   EVERY regex engine: if the rule matches [path] with values [vs], the builder
   run on those values (anonymous ones positionally, the others through
   make_params_dict) returns [path] itself — unless one of its assertions
   fails, and [validates] says exactly when: each filtered value, in front of
   the literal text that follows it, must be matched by its own filter with a
   positive length. *)
Theorem C19_identity_formatters :
  forall kind rx fconv (p : pat) (names : list str) (path : str) (vs : list value),
    lits_ok p = true ->
    identity_fmt kind p = true ->
    names_ok p names ->
    valid_str path ->
    match1 (handler kind rx fconv) p path = Some vs ->
    url_of_match kind rx fconv p names vs
    = if validates kind rx fconv p vs then UOk path else UAssertionError.
Proof. exact identity_formatters_lemma. Qed.
Print Assumptions C19_identity_formatters.

(* hence: whatever is built is matched again, with the same values *)
Theorem C19_identity_roundtrip :
  forall kind rx fconv (p : pat) names path vs u,
    lits_ok p = true ->
    identity_fmt kind p = true ->
    names_ok p names ->
    valid_str path ->
    match1 (handler kind rx fconv) p path = Some vs ->
    url_of_match kind rx fconv p names vs = UOk u ->
    u = path /\ match1 (handler kind rx fconv) p u = Some vs.
Proof. exact identity_roundtrip_lemma. Qed.
Print Assumptions C19_identity_roundtrip.

(* the same at the level of RadiRouter.resolve, which strips '/' from both ends
   of the request path and of the url that is fed back *)
Theorem C19_identity_roundtrip_resolve :
  forall kind rx fconv (p : pat) names path0 vs u,
    lits_ok p = true ->
    identity_fmt kind p = true ->
    names_ok p names ->
    valid_str path0 ->
    match1 (handler kind rx fconv) p (strip_slash path0) = Some vs ->
    url_of_match kind rx fconv p names vs = UOk u ->
    match1 (handler kind rx fconv) p (strip_slash u) = Some vs.
Proof. exact identity_resolve_lemma. Qed.
Print Assumptions C19_identity_roundtrip_resolve.

(* rules with plain wildcards only: the builder cannot fail *)
Theorem C19_plain_total :
  forall kind rx fconv (p : pat) names path vs,
    lits_ok p = true ->
    plain_only p = true ->
    names_ok p names ->
    valid_str path ->
    match1 (handler kind rx fconv) p path = Some vs ->
    url_of_match kind rx fconv p names vs = UOk path.
Proof. exact plain_total_lemma. Qed.
Print Assumptions C19_plain_total.

Example C19_identity_nonvacuous :
  lits_ok pat_mixed = true /\
  identity_fmt k_re pat_mixed = true /\
  names_ok pat_mixed names_mixed /\
  valid_str path_mixed /\
  match1 (handler k_re lower_rx id_fconv) pat_mixed path_mixed = Some [[88]; [113]; [90]] /\
  validates k_re lower_rx id_fconv pat_mixed [[88]; [113]; [90]] = true /\
  url_of_match k_re lower_rx id_fconv pat_mixed names_mixed [[88]; [113]; [90]] = UOk path_mixed.
Proof. exact identity_nonvacuous_lemma. Qed.

(* ------------------------------------------------------------------ *)
(* C19_int: the concrete int filter (mask -?\d+ over the ASCII digits, int,
   str.int).  Rules made of literal text, plain wildcards and int wildcards in
   which no int wildcard is directly followed by another int wildcard: the
   builder never fails on matched values, prints the canonical decimal of each
   int, and the rule matches the result with the same values.
   (Python's \d and int() also accept non-ASCII decimal digits; the model's
   int filter does not — TRUSTED.) *)
Theorem C19_int :
  forall kind rx fconv (p : pat) (names : list str) (path : str) (vs : list value),
    lits_ok p = true ->
    int_or_plain kind p = true ->
    no_adjacent_int kind p = true ->
    names_ok p names ->
    valid_str path ->
    match1 (handler kind rx fconv) p path = Some vs ->
    exists u,
      url_of_match kind rx fconv p names vs = UOk u /\
      u = fill p (map text_of vs) /\
      match1 (handler kind rx fconv) p u = Some vs.
Proof. exact int_lemma. Qed.
Print Assumptions C19_int.

Example C19_int_nonvacuous :
  lits_ok pat_ints = true /\
  int_or_plain k_int pat_ints = true /\
  no_adjacent_int k_int pat_ints = true /\
  names_ok pat_ints names_ints /\
  valid_str path_ints /\
  match1 (handler k_int no_rx id_fconv) pat_ints path_ints = Some vs_ints /\
  url_of_match k_int no_rx id_fconv pat_ints names_ints vs_ints = UOk url_ints /\
  url_ints <> path_ints /\
  match1 (handler k_int no_rx id_fconv) pat_ints url_ints = Some vs_ints.
Proof. exact int_nonvacuous_lemma. Qed.

(* ------------------------------------------------------------------ *)
(* what is false of the code (findings F19-float, F19-empty, F19-minus-zero), with witnesses *)

(* the guard of C19_int is needed: /<x:int><y:int> on "12-0" builds "120",
   which the rule does not match *)
Theorem C19_int_adjacent_minus_zero_refuted :
  let filt := handler k_int no_rx id_fconv in
  let p := [49; 50; 45; 48] in
  exists vs u,
    match1 filt pat_int_int p = Some vs /\
    url_of_match k_int no_rx id_fconv pat_int_int names_xy vs = UOk u /\
    u = [49; 50; 48] /\
    match1 filt pat_int_int u = None.
Proof. exact int_adjacent_witness. Qed.
Print Assumptions C19_int_adjacent_minus_zero_refuted.

(* float: with a regex engine for -?\d+(\.\d+)? and any float printer that
   maps "0.00001" to "1e-05" (as Python's does), /f/<x:float> on "f/0.00001"
   builds "f/1e-05", which the rule does not match *)
Theorem C19_float_refuted :
  let filt := handler k_float float_rx py_fconv in
  let p := [102; 47] ++ s_0_00001 in
  exists vs u,
    match1 filt pat_f p = Some vs /\
    url_of_match k_float float_rx py_fconv pat_f names_x vs = UOk u /\
    u = [102; 47] ++ s_1e_05 /\
    match1 filt pat_f u = None.
Proof. exact float_exponent_witness. Qed.
Print Assumptions C19_float_refuted.

(* float: a printer that answers "inf" makes the builder assert *)
Theorem C19_float_inf_refuted :
  let filt := handler k_float float_rx py_fconv in
  let p := [102; 47] ++ s_big in
  exists vs,
    match1 filt pat_f p = Some vs /\
    url_of_match k_float float_rx py_fconv pat_f names_x vs = UAssertionError.
Proof. exact float_inf_witness. Qed.
Print Assumptions C19_float_inf_refuted.

(* a re filter that matches the empty string: /<x.re(a-star)>z matches "z" with
   x = "", and the builder rejects that value *)
Theorem C19_empty_match_refuted :
  let filt := handler k_re a_star_rx id_fconv in
  exists vs,
    match1 filt pat_az [122] = Some vs /\
    vs = [[]] /\
    url_of_match k_re a_star_rx id_fconv pat_az names_x vs = UAssertionError.
Proof. exact empty_match_witness. Qed.
Print Assumptions C19_empty_match_refuted.

(* record of the repaired defect F19path: /p/<x:path>/e on "p/a/b/e".  With a
   look-ahead mask .+(?=/e) the builder (which validates the value in front of
   the literal that follows) returns the path; the value standing alone — what
   the assertion looked at before the repair — is rejected by the filter. *)
Theorem C19_F19path_value_alone_refuted :
  let filt := handler k_path path_rx id_fconv in
  exists vs,
    match1 filt pat_p p_a_b_e = Some vs /\
    vs = [[97; 47; 98]] /\
    url_of_match k_path path_rx id_fconv pat_p names_x vs = UOk p_a_b_e /\
    validate k_path path_rx id_fconv 0%nat (PStr [97; 47; 98]) [] = Some UAssertionError.
Proof. exact path_lookahead_witness. Qed.
Print Assumptions C19_F19path_value_alone_refuted.

(* ------------------------------------------------------------------ *)
(* several Route objects in one process, repeated url() calls on one Route:
   the model of Route.url is a function of the rule and the arguments, so in a
   sequence of calls the i-th observation depends on the i-th call only (the
   correspondence runs such sequences against shared Route objects, one
   router holding several rules, and a fresh-process baseline) *)
Theorem C19_calls_independent :
  forall (calls : list (list Z)) (i : nat),
    nth_error (url_calls calls) i = option_map corr_C19_one (nth_error calls i).
Proof. exact calls_independent_lemma. Qed.
Print Assumptions C19_calls_independent.

(* and the correspondence entry point in its several-calls mode is url_calls *)
Theorem C19_corr_calls_is_url_calls :
  forall calls : list (list Z),
    corr_C19 ((-2)%Z :: enc_list enc_zlist calls) = enc_list enc_zlist (url_calls calls).
Proof. exact corr_multi_lemma. Qed.
Print Assumptions C19_corr_calls_is_url_calls.
