(* C04 — Content-Length bodies arrive byte-exact under any read fragmentation.
   This file contains only statements, each closed by [exact] of a lemma from
   proofs/C04_proofs.v, followed by Print Assumptions. *)
From Verif Require Import lib.Base model.Stream model.Body proofs.C04_proofs.

(* For every data, declared length (any integer), buffer size > 0 and read
   fragmentation schedule: the body is exactly the first Content-Length bytes
   of the stream, the spill flag depends on the size only, the stream is left
   positioned exactly after those bytes, and every read request was positive,
   at most one buffer and never reached past byte Content-Length. *)
Theorem C04_exact_and_never_beyond :
  forall (data : list N) (sc : list nat) (buf : nat) (cl : Z),
    0 < buf ->
    exists s',
      body_read_cl (stream_init data sc) buf None cl
        = BDone (firstn (Z.to_nat cl) data) (Nat.ltb buf (Nat.min (Z.to_nat cl) (length data))) s'
      /\ rest s' = skipn (Z.to_nat cl) data
      /\ pos s' = Nat.min (Z.to_nat cl) (length data)
      /\ reqs_ok buf (Z.to_nat cl) (reqs s').
Proof. exact C04_exact_lemma. Qed.
Print Assumptions C04_exact_and_never_beyond.

(* The delivered bytes are independent of buffer size (hence of memory/disk
   spooling) and of the fragmentation. *)
Theorem C04_fragmentation_and_buffer_independent :
  forall data sc sc' buf buf' cl,
    0 < buf -> 0 < buf' ->
    match body_read_cl (stream_init data sc) buf None cl,
          body_read_cl (stream_init data sc') buf' None cl with
    | BDone b _ _, BDone b' _ _ => b = b'
    | _, _ => False
    end.
Proof. exact C04_independent_lemma. Qed.
Print Assumptions C04_fragmentation_and_buffer_independent.

(* Record of the repaired defect F4: the variant that subtracts the requested
   size truncates a 20-byte body read 3 bytes at a time with an 8-byte buffer. *)
Theorem C04_F4_requested_size_variant_refuted :
  exists data sc buf cl,
    0 < buf /\
    cl_loop_prefix (S (length data)) (stream_init data sc) buf cl [] <> Some (firstn cl data).
Proof. exact F4_prefix_variant_truncates. Qed.
Print Assumptions C04_F4_requested_size_variant_refuted.

(* non-vacuity: a concrete fragmented, spilled read *)
Example C04_nonvacuous :
  match body_read_cl (stream_init [1;2;3;4;5;6;7]%N [0;1;0]) 3 None 5 with
  | BDone b sp s => b = [1;2;3;4;5]%N /\ sp = true /\ rest s = [6;7]%N
  | _ => False
  end.
Proof. vm_compute. repeat split. Qed.
