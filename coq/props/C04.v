(* C04 — Content-Length bodies arrive byte-exact under any read fragmentation.
   This file contains only statements, each closed by [exact] of a lemma from
   proofs/C04_proofs.v, followed by Print Assumptions. *)
From Verif Require Import lib.Base gen.Gen gen.GenLoops model.Stream model.Body model.ReqBody proofs.C04_proofs proofs.C04_request proofs.C04_translated.

(* For every data, declared length (any integer), buffer size > 0 and read
   fragmentation schedule: the body is exactly the first Content-Length bytes
   of the stream, the spill flag depends on the size only, the stream is left
   positioned exactly after those bytes, and every read request was positive,
   at most one buffer and never reached past byte Content-Length. *)
Theorem C04_exact_and_never_beyond :
  forall (data : list N) (sc : list nat) (buf : nat) (cl : Z),
    0 < buf ->
    exists s',
      body_read_cl (stream_init data sc) buf None cl
        = BDone (firstn (Z.to_nat cl) data) (Nat.ltb buf (Nat.min (Z.to_nat cl) (length data))) s'
      /\ rest s' = skipn (Z.to_nat cl) data
      /\ pos s' = Nat.min (Z.to_nat cl) (length data)
      /\ reqs_ok buf (Z.to_nat cl) (reqs s').
Proof. exact C04_exact_lemma. Qed.
Print Assumptions C04_exact_and_never_beyond.

(* The delivered bytes are independent of buffer size (hence of memory/disk
   spooling) and of the fragmentation. *)
Theorem C04_fragmentation_and_buffer_independent :
  forall data sc sc' buf buf' cl,
    0 < buf -> 0 < buf' ->
    match body_read_cl (stream_init data sc) buf None cl,
          body_read_cl (stream_init data sc') buf' None cl with
    | BDone b _ _, BDone b' _ _ => b = b'
    | _, _ => False
    end.
Proof. exact C04_independent_lemma. Qed.
Print Assumptions C04_fragmentation_and_buffer_independent.

(* Record of the repaired defect F4: the variant that subtracts the requested
   size truncates a 20-byte body read 3 bytes at a time with an 8-byte buffer. *)
Theorem C04_F4_requested_size_variant_refuted :
  exists data sc buf cl,
    0 < buf /\
    cl_loop_prefix (S (length data)) (stream_init data sc) buf cl [] <> Some (firstn cl data).
Proof. exact F4_prefix_variant_truncates. Qed.
Print Assumptions C04_F4_requested_size_variant_refuted.

(* ---- the loop as translated from the current source ----
   GenLoops.iter_body is generated from body_mixin.py:_iter_body on every run
   (tools/gen_loops.py: statement-by-statement translation of the generator).
   For every data, fragmentation, buffer > 0 and Content-Length (any integer):
   the parts it yields are non-empty, concatenate to exactly the first
   Content-Length bytes, the stream is left exactly behind them and no read
   reached beyond them. *)
(* @requires-gen loops.iter_body *)
Theorem C04_translated_loop_exact :
  forall data sc buf cl,
    0 < buf ->
    exists parts s',
      iter_body (S (length data)) (stream_init data sc) (Z.of_nat buf) cl = Some (parts, s')
      /\ concat parts = firstn (Z.to_nat cl) data
      /\ Forall nonempty parts
      /\ rest s' = skipn (Z.to_nat cl) data
      /\ pos s' = Nat.min (Z.to_nat cl) (length data)
      /\ reqs_ok buf (Z.to_nat cl) (reqs s').
Proof. exact translated_loop_exact_lemma. Qed.
Print Assumptions C04_translated_loop_exact.

(* ---- the Request-level glue (BodyMixin._body / body, Request.copy, Request.__setitem__) ----
   A world (model/ReqBody.v) is the family of request objects descending from one
   request by copy(), with the streams they refer to. *)

(* After any history of copies and header rewrites, the FIRST access to
   request.body on any object of the family returns exactly the first
   Content-Length bytes of the server stream (Content-Length as that object
   carries it then), leaves the stream exactly behind them, never asked for a
   byte beyond them, and caches the body on the object. *)
Theorem C04_first_access_exact :
  forall buf, 0 < buf ->
  forall data sc cl0 pre r rq k,
    forallb passive pre = true ->
    let w := fst (run buf None (world_init data sc cl0) pre) in
    nth_error (w_reqs w) r = Some rq ->
    exists w',
      step buf None w (OBody r k) = (w', OutBytes (take_opt k (firstn (Z.to_nat (r_cl rq)) data)))
      /\ cached w' r (firstn (Z.to_nat (r_cl rq)) data)
      /\ exists s', w_streams w' = [s']
           /\ rest s' = skipn (Z.to_nat (r_cl rq)) data
           /\ pos s' = Nat.min (Z.to_nat (r_cl rq)) (length data)
           /\ reqs_ok buf (Z.to_nat (r_cl rq)) (reqs s').
Proof. exact first_access_lemma. Qed.
Print Assumptions C04_first_access_exact.

(* Once a request object presents body c, it presents c (rewound: every access
   returns a prefix of the whole c) after ANY further operations on the whole
   family — further accesses and partial reads on any object, copies, rewrites of
   Content-Length / Content-Type / any other header on any object, new input
   streams on OTHER objects — and the access itself changes nothing (in
   particular it reads no stream).  Holds under any configured size limit. *)
Theorem C04_cached_body_stable :
  forall buf maxb w r c ops k,
    cached w r c ->
    forallb (fun o => negb (sets_input r o)) ops = true ->
    let w' := fst (run buf maxb w ops) in
    step buf maxb w' (OBody r k) = (w', OutBytes (take_opt k c)).
Proof. exact stable_lemma. Qed.
Print Assumptions C04_cached_body_stable.

(* A copy of a request that already presents body c presents the same c and
   touches no stream. *)
Theorem C04_copy_presents_same_body :
  forall buf maxb w r c,
    cached w r c ->
    exists w', step buf maxb w (OCopy r) = (w', OutNew (length (w_reqs w)))
               /\ cached w' (length (w_reqs w)) c /\ w_streams w' = w_streams w.
Proof. exact cached_copy. Qed.
Print Assumptions C04_copy_presents_same_body.

(* A failed read is final (defect F43, repaired in /repo b382a2c: before the repair the
   second access started a fresh read from the partly consumed stream and ran past
   Content-Length).  The access that reports the refusal leaves the request marked, and a
   marked request answers every later access — after any further operations on the whole
   family that do not assign a new wsgi.input to it, and likewise on copies taken afterwards —
   with the same refusal and WITHOUT touching any stream (the world is returned unchanged). *)
Theorem C04_refusal_marks_request :
  forall buf maxb w r k w',
    step buf maxb w (OBody r k) = (w', OutErr) -> failed w' r.
Proof. exact refusal_marks. Qed.
Print Assumptions C04_refusal_marks_request.

Theorem C04_failed_read_is_final :
  forall buf maxb w r ops k,
    failed w r ->
    forallb (fun o => negb (sets_input r o)) ops = true ->
    let w' := fst (run buf maxb w ops) in
    step buf maxb w' (OBody r k) = (w', OutErr).
Proof. exact failed_final_lemma. Qed.
Print Assumptions C04_failed_read_is_final.

(* The model's header-rewrite steps (OSetCL, OSetOther) keep the buffered body.
   That is what the code's own invalidation table says — the table is extracted
   from BaseRequest._on_env_changed on every run (Gen.env_changed_table): the
   only environ key whose assignment drops the cached view 'body' is
   'wsgi.input' (the model's OSetInput) ... *)
Theorem C04_only_new_input_drops_buffered_body :
  forall key, drops_body Gen.env_changed_table key = true -> key = s_wsgi_input.
Proof. exact only_new_input_drops_body_lemma. Qed.
Print Assumptions C04_only_new_input_drops_buffered_body.

(* ... and that view is the one BodyMixin._body is cached under, which
   BodyMixin.body returns rewound (shape extracted from the source). *)
Theorem C04_body_view_is_cache_key :
  Gen.body_cache_key = Gen.env_cache_prefix ++ s_body_view /\ Gen.body_property_rewinds_cached = true.
Proof. exact body_view_is_cache_key. Qed.
Print Assumptions C04_body_view_is_cache_key.

(* What _body leaves in environ['wsgi.input'] — the buffered copy — presents the same body again to the next consumer
   of the environ (a mounted WSGI application, a second Request without the cache keys) under the same Content-Length,
   for every buffer size and read fragmentation of that consumer, and ends there: nothing of the server's stream beyond
   Content-Length can be reached through it. *)
Theorem C04_buffered_copy_presents_same_body_to_next_consumer :
  forall (data : list N) (sc sc' : list nat) (buf buf' : nat) (cl : Z),
    0 < buf -> 0 < buf' ->
    forall body sp s1,
      body_read_cl (stream_init data sc) buf None cl = BDone body sp s1 ->
      exists sp' s2,
        body_read_cl (stream_init body sc') buf' None cl = BDone body sp' s2
        /\ pos s2 = length body /\ rest s2 = [].
Proof. exact buffered_copy_rereads_same_body. Qed.
Print Assumptions C04_buffered_copy_presents_same_body_to_next_consumer.

(* The same at the level of request objects (operation OHandOn of model/ReqBody.v: the environ without the cache keys
   is handed to a second Request, which reads its body at once).  The consumer is presented the first Content-Length
   bytes of the buffered body, keeps them as its own body; the original goes on presenting its body; no stream that
   existed before is touched; the copy is not read past byte Content-Length. *)
Theorem C04_hand_on_presents_buffered_body :
  forall buf, 0 < buf ->
  forall w r rq c k,
    nth_error (w_reqs w) r = Some rq -> r_failed rq = false -> r_cache rq = Some c ->
    let body := firstn (Z.to_nat (r_cl rq)) c in
    exists w' s',
      step buf None w (OHandOn r k) = (w', OutBytes (take_opt k body))
      /\ cached w' (length (w_reqs w)) body
      /\ cached w' r c
      /\ w_streams w' = w_streams w ++ [s']
      /\ pos s' = Nat.min (Z.to_nat (r_cl rq)) (length c)
      /\ reqs_ok buf (Z.to_nat (r_cl rq)) (reqs s').
Proof. exact hand_on_lemma. Qed.
Print Assumptions C04_hand_on_presents_buffered_body.

(* ... and both stay that way under every further operation sequence on the family that does not assign a new
   wsgi.input to one of the two: the original keeps presenting its body, the consumer what it was given. *)
Theorem C04_hand_on_then_both_stable :
  forall buf, 0 < buf ->
  forall w r rq c k ops k1 k2,
    nth_error (w_reqs w) r = Some rq -> r_failed rq = false -> r_cache rq = Some c ->
    let n := length (w_reqs w) in
    forallb (fun o => negb (sets_input r o) && negb (sets_input n o)) ops = true ->
    let w2 := fst (run buf None (fst (step buf None w (OHandOn r k))) ops) in
    step buf None w2 (OBody r k1) = (w2, OutBytes (take_opt k1 c))
    /\ step buf None w2 (OBody n k2) = (w2, OutBytes (take_opt k2 (firstn (Z.to_nat (r_cl rq)) c))).
Proof. exact hand_on_then_stable. Qed.
Print Assumptions C04_hand_on_then_both_stable.

(* After any passive history: first access, then the environ handed on — both are presented the first Content-Length
   bytes of the server stream. *)
Theorem C04_next_consumer_after_first_access :
  forall buf, 0 < buf ->
  forall data sc cl0 pre r rq k k',
    forallb passive pre = true ->
    let w := fst (run buf None (world_init data sc cl0) pre) in
    nth_error (w_reqs w) r = Some rq ->
    let body := firstn (Z.to_nat (r_cl rq)) data in
    snd (run buf None w [OBody r k; OHandOn r k']) = [OutBytes (take_opt k body); OutBytes (take_opt k' body)].
Proof. exact hand_on_after_first_access. Qed.
Print Assumptions C04_next_consumer_after_first_access.

(* Record (documented behaviour, DESIGN 0.6): a copy taken BEFORE the first
   access shares the one unread server stream with the original, so the object
   that reads second is presented the bytes that follow the body. *)
Theorem C04_copy_before_first_access_shares_stream_observation :
  exists data sc cl buf,
    0 < buf /\
    snd (run buf None (world_init data sc cl) [OCopy 0; OBody 0 None; OBody 1 None])
    = [OutNew 1; OutBytes (firstn (Z.to_nat cl) data);
       OutBytes (firstn (Z.to_nat cl) (skipn (Z.to_nat cl) data))]
    /\ firstn (Z.to_nat cl) (skipn (Z.to_nat cl) data) <> firstn (Z.to_nat cl) data.
Proof. exact copy_before_first_access_shares_stream. Qed.
Print Assumptions C04_copy_before_first_access_shares_stream_observation.

(* non-vacuity: a concrete fragmented, spilled read *)
Example C04_nonvacuous :
  match body_read_cl (stream_init [1;2;3;4;5;6;7]%N [0;1;0]) 3 None 5 with
  | BDone b sp s => b = [1;2;3;4;5]%N /\ sp = true /\ rest s = [6;7]%N
  | _ => False
  end.
Proof. vm_compute. repeat split. Qed.
