(* C17 — range and conditional requests describe exactly the bytes delivered.
   Statements only; each is closed by [exact] of a lemma from proofs/C17_*.v.
   Model: coq/model/Range.v (get_first_range, _file_iter_range, static_file
   after the path checks) — faithful to /repo with fix F20 (empty
   If-Modified-Since header). *)
From Verif Require Import lib.Base lib.Str lib.PyIntParse model.Static model.Range
     proofs.C17_range proofs.C17_serve proofs.C17_dec.
Local Open Scope Z_scope.

(* Whatever Python's int() does (any function [pint]): a range returned by
   get_first_range for a representation of [len] bytes is a non-empty
   half-open interval inside it. *)
Theorem C17_range_sound :
  forall (pint : str -> option Z) (hdr : str) (len s e : Z),
    get_first_range pint hdr len = Some (s, e) -> 0 <= s /\ s < e /\ e <= len.
Proof. exact range_sound_lemma. Qed.
Print Assumptions C17_range_sound.

(* With the concrete decimal parser: for every header of the RFC 7233 grammar
     "bytes=" first-spec [ "," anything ]
   with first-spec = 1*DIGIT "-" 1*DIGIT | 1*DIGIT "-" | "-" 1*DIGIT
   (each numeral at most 4300 digits — Python's int() refuses longer ones and
   the code then answers 416) the result is the first spec clipped to the
   representation; [rfc_range] is None exactly when the spec selects no byte
   (C17_rfc_none_iff_unsatisfiable).  A reversed spec "5-2" is syntactically
   invalid in the RFC (which says: ignore the header); it selects nothing here
   and the code answers 416.
     digit_str d := d <> [] /\ forallb is_digit d = true /\ length d <= 4300
     tail_ok t   := t = [] \/ exists t', t = "," :: t'                     *)
Theorem C17_range_rfc :
  forall (da db t : str) (len : Z), tail_ok t -> 0 <= len ->
    (digit_str da -> digit_str db ->
       get_first_range py_int_dec (s_bytes_eq ++ da ++ DASH :: db ++ t) len
       = rfc_range (SFromTo (dval da) (dval db)) len)
    /\ (digit_str da ->
       get_first_range py_int_dec (s_bytes_eq ++ da ++ DASH :: t) len
       = rfc_range (SFrom (dval da)) len)
    /\ (digit_str db ->
       get_first_range py_int_dec (s_bytes_eq ++ DASH :: db ++ t) len
       = rfc_range (SSuffix (dval db)) len).
Proof. exact range_rfc_lemma. Qed.
Print Assumptions C17_range_rfc.

Theorem C17_rfc_none_iff_unsatisfiable :
  forall sp len, rfc_range sp len = None <-> ~ selects sp len.
Proof. exact rfc_range_none_iff. Qed.
Print Assumptions C17_rfc_none_iff_unsatisfiable.

(* KNOWN FINDING C17-int-digit-limit: the guard "at most 4300 digits" above is
   needed.  "bytes=0-99...9" with 4301 nines on a 10-byte representation selects
   bytes 0-9 by the RFC; Python's int() raises ValueError (default int/str digit
   limit) and get_first_range answers None, i.e. 416. *)
Theorem C17_range_rfc_digit_limit_refuted :
  exists (da db : str) (len : Z),
    da <> [] /\ db <> [] /\ forallb is_digit da = true /\ forallb is_digit db = true /\ 0 <= len
    /\ length db = 4301%nat
    /\ get_first_range py_int_dec (s_bytes_eq ++ da ++ DASH :: db) len = None
    /\ rfc_range (SFromTo (dval da) (dval db)) len = Some (0, 10).
Proof. exact digit_limit_witness. Qed.
Print Assumptions C17_range_rfc_digit_limit_refuted.

(* The decimal texts put into Content-Length and Content-Range (dec_of_Z = the
   model of str(int) / f-string formatting) are digit strings that denote the
   number, and Python's own int() reads them back (any z < 2^4299). *)
Theorem C17_decimal_text_denotes :
  forall z : Z, 0 <= z -> (N.log2 (Z.to_N z) < 4299)%N ->
    py_int_dec (dec_of_Z z) = Some z
    /\ forallb is_digit (dec_of_Z z) = true /\ dval (dec_of_Z z) = Z.to_N z.
Proof. exact decimal_text_lemma. Qed.
Print Assumptions C17_decimal_text_denotes.

(* _file_iter_range(fp, offset, n, maxread) on a regular file, offset >= 0,
   n >= 0, maxread > 0: terminates within the model's fuel, delivers exactly
   file[offset : offset+n], every chunk non-empty and at most maxread bytes. *)
Theorem C17_iter_exact_and_bounded :
  forall (file : list N) (offset n maxread : Z),
    0 <= offset -> 0 <= n -> 0 < maxread ->
    exists cs, file_iter_range file offset n maxread = IterOk cs
               /\ concat cs = slice file (Z.to_nat offset) (Z.to_nat (offset + n))
               /\ Forall (chunk_ok maxread) cs.
Proof. exact file_iter_range_spec. Qed.
Print Assumptions C17_iter_exact_and_bounded.

(* A GET with a non-empty Range header that is not answered 304 is answered
   416 (no file bytes) or 206 whose Content-Range, Content-Length and delivered
   chunks all describe the same slice [s, e), 0 <= s < e <= len, for ANY int
   parser, date parser, file and streaming buffer > 0.
     not_modified mtime ims_hdr := match ims_value parse_date ims_hdr with Some t => mtime <=? t | None => false end
     range_given  range_hdr     := the header if present and non-empty
     content_range s e len      := "bytes " ++ str(s) ++ "-" ++ str(e-1) ++ "/" ++ str(len)
     chunk_ok maxread c         := 0 < length c /\ length c <= maxread *)
Theorem C17_consistent :
  forall (pint parse_date : str -> option Z) file mtime ims_hdr range_hdr maxread h,
    0 < maxread ->
    not_modified parse_date mtime ims_hdr = false ->
    range_given range_hdr = Some h ->
    let len := Z.of_nat (length file) in
    let r := sf_serve pint parse_date file mtime ims_hdr false range_hdr maxread in
    match get_first_range pint h len with
    | None => r_status r = 416 /\ body_bytes file (r_body r) = []
    | Some (s, e) =>
      0 <= s /\ s < e /\ e <= len
      /\ r_status r = 206
      /\ r_crange r = Some (content_range s e len)
      /\ r_clen r = Some (dec_of_Z (e - s))
      /\ exists cs, r_body r = BIter (IterOk cs)
                    /\ concat cs = slice file (Z.to_nat s) (Z.to_nat e)
                    /\ Z.of_nat (length (concat cs)) = e - s
                    /\ Forall (chunk_ok maxread) cs
    end.
Proof. exact consistent_206_lemma. Qed.
Print Assumptions C17_consistent.

(* Without a Range header (absent or empty) the whole file is delivered with
   its true length. *)
Theorem C17_whole_file :
  forall (pint parse_date : str -> option Z) file mtime ims_hdr range_hdr maxread,
    not_modified parse_date mtime ims_hdr = false ->
    range_given range_hdr = None ->
    let r := sf_serve pint parse_date file mtime ims_hdr false range_hdr maxread in
    r_status r = 200 /\ r_clen r = Some (dec_of_Z (Z.of_nat (length file))) /\ r_crange r = None
    /\ r_body r = BFile /\ body_bytes file (r_body r) = file.
Proof. exact whole_200_lemma. Qed.
Print Assumptions C17_whole_file.

(* If-Modified-Since: a parsed date not older than the file (whole seconds)
   gives 304, no body, the file is not even opened; no parsed date or an older
   one gives 200/206/416.  An absent or EMPTY header yields no date (F20). *)
Theorem C17_conditional :
  forall (pint parse_date : str -> option Z) file mtime ims_hdr head range_hdr maxread,
    let r := sf_serve pint parse_date file mtime ims_hdr head range_hdr maxread in
    (forall t, ims_value parse_date ims_hdr = Some t -> mtime <= t ->
       r_status r = 304 /\ r_body r = BText /\ body_bytes file (r_body r) = [] /\ r_opened r = false
       /\ r_crange r = None)
    /\ ((ims_value parse_date ims_hdr = None \/ exists t, ims_value parse_date ims_hdr = Some t /\ t < mtime) ->
       r_status r = 200 \/ r_status r = 206 \/ r_status r = 416).
Proof. exact conditional_lemma. Qed.
Print Assumptions C17_conditional.

Theorem C17_ims_absent_or_empty :
  forall (parse_date : str -> option Z) ims_hdr,
    ims_hdr = None \/ ims_hdr = Some [] -> ims_value parse_date ims_hdr = None.
Proof. exact ims_absent_lemma. Qed.
Print Assumptions C17_ims_absent_or_empty.

(* HEAD: status and headers of the corresponding GET, no body, file not opened *)
Theorem C17_head :
  forall (pint parse_date : str -> option Z) file mtime ims_hdr range_hdr maxread,
    let g := sf_serve pint parse_date file mtime ims_hdr false range_hdr maxread in
    let h := sf_serve pint parse_date file mtime ims_hdr true range_hdr maxread in
    r_status h = r_status g /\ r_clen h = r_clen g /\ r_crange h = r_crange g
    /\ r_accept h = r_accept g /\ r_lastmod h = r_lastmod g /\ r_date h = r_date g
    /\ r_body h = BText /\ body_bytes file (r_body h) = [] /\ r_opened h = false.
Proof. exact head_lemma. Qed.
Print Assumptions C17_head.

(* Presentation arguments (mimetype= / charset= / download=, static_file l.86-98;
   mimetypes.guess_type is an oracle): every accepted Content-Encoding /
   Content-Type / Content-Disposition value is free of CR, LF and NUL (otherwise
   the call raises ValueError before anything is opened), and the file name
   offered for download is a base name without '/'.  sf_serve (status, lengths,
   ranges, body) does not take these arguments at all; the correspondence runs
   them as riders on every kind of request. *)
Theorem C17_presentation_headers :
  forall filename guess mimetype charset download e t d,
    sf_present filename guess mimetype charset download = Some (e, t, d) ->
    (forall v, e = Some v \/ t = Some v \/ d = Some v -> has_ctl v = false)
    /\ match download with
       | DNo => d = None
       | DTrue => d = Some (s_attach ++ basename filename ++ [34%N])
                  /\ contains_char N.eqb SEP (basename filename) = false
       | DName n => d = Some (s_attach ++ basename n ++ [34%N])
                    /\ contains_char N.eqb SEP (basename n) = false
       end.
Proof. exact present_lemma. Qed.
Print Assumptions C17_presentation_headers.

(* ---- non-vacuity ---- *)
Local Open Scope N_scope.
Definition ex_file : list N := [48; 49; 50; 51; 52; 53; 54; 55; 56; 57].
(* "bytes=2-7,0-1" *)
Definition ex_hdr : str := [98; 121; 116; 101; 115; 61; 50; 45; 55; 44; 48; 45; 49].

Example C17_consistent_nonvacuous :
  let r := sf_serve py_int_dec (fun _ => None) ex_file 1000 None false (Some ex_hdr) 4 in
  r_status r = 206%Z
  /\ r_crange r = Some [98; 121; 116; 101; 115; 32; 50; 45; 55; 47; 49; 48]      (* "bytes 2-7/10" *)
  /\ r_clen r = Some [54]                                                         (* "6" *)
  /\ r_body r = BIter (IterOk [[50; 51; 52; 53]; [54; 55]]).
Proof. vm_compute. repeat split. Qed.

Example C17_range_rfc_nonvacuous :
  digit_str [50] /\ digit_str [55] /\ tail_ok [44; 48; 45; 49]
  /\ get_first_range py_int_dec ex_hdr 10 = Some (2, 8)%Z
  /\ get_first_range py_int_dec ex_hdr 5 = Some (2, 5)%Z
  /\ get_first_range py_int_dec ex_hdr 2 = None.
Proof.
  repeat split; try (vm_compute; congruence); try (vm_compute; lia).
  right. eexists. reflexivity.
Qed.

Example C17_conditional_nonvacuous :
  let pd := fun _ : str => Some 1000%Z in
  r_status (sf_serve py_int_dec pd ex_file 1000 (Some [120]) false (Some ex_hdr) 4) = 304%Z
  /\ r_status (sf_serve py_int_dec pd ex_file 1001 (Some [120]) false (Some ex_hdr) 4) = 206%Z
  /\ r_status (sf_serve py_int_dec pd ex_file 1000 (Some []) false None 4) = 200%Z.
Proof. vm_compute. repeat split. Qed.

(* leniencies of the parser that stay inside "206 ... consistent" (not RFC grammar) *)
Example C17_lenient_headers :
  (* "xbytes=1-2" *) get_first_range py_int_dec [120; 98; 121; 116; 101; 115; 61; 49; 45; 50] 10 = Some (1, 3)%Z
  (* "bytes=1_0-2_0" *) /\ get_first_range py_int_dec [98; 121; 116; 101; 115; 61; 49; 95; 48; 45; 50; 95; 48] 100 = Some (10, 21)%Z
  (* "bytes= 1 -+5 " *) /\ get_first_range py_int_dec [98; 121; 116; 101; 115; 61; 32; 49; 32; 45; 43; 53; 32] 100 = Some (1, 6)%Z
  (* "bytes=-0" *) /\ get_first_range py_int_dec [98; 121; 116; 101; 115; 61; 45; 48] 100 = None
  (* "bytes=5-2" *) /\ get_first_range py_int_dec [98; 121; 116; 101; 115; 61; 53; 45; 50] 100 = None.
Proof. vm_compute. repeat split. Qed.
