(* C17 — range and conditional requests describe exactly the bytes delivered.  (statements only) *)
From Verif Require Import lib.Base lib.Str model.Range.
