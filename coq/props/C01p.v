(* C01p — sub-check of C01: the rule parser.  Statements only. *)
From Verif Require Import lib.Base model.RuleParser proofs.C01_parser.

(* "in every rule syntax flavour": for every abstract rule (literal segments and
   wildcards written in any of the ten flavours with either delimiter pair,
   names and filter names being Python identifiers, parenthesised arguments
   balanced, a `:name` followed by '/' or the end, a path filter followed by
   literal text or the end) the parser returns exactly its segments — for every
   interpretation [wordc] of the regex class \w that excludes the delimiters. *)
Theorem C01_parser_print_parse_roundtrip :
  forall (wordc : N -> bool),
    (forall c, In c [ch_slash; ch_gt; ch_rbrace; ch_dot; ch_colon; ch_lpar] -> wordc c = false) ->
    forall l : list seg, segs_ok wordc l -> parse wordc (print l) = inr (items_of l).
Proof. exact parse_print. Qed.
Print Assumptions C01_parser_print_parse_roundtrip.

(* non-vacuity: foo/<id:int>/{p.path()}end/<re((a)|(b))[1]>/:x is well formed *)
Example C01_parser_nonvacuous :
  segs_ok ascii_wordc demo_rule /\
  (forall c, In c [ch_slash; ch_gt; ch_rbrace; ch_dot; ch_colon; ch_lpar] -> ascii_wordc c = false).
Proof. split; [exact demo_rule_ok | exact ascii_wordc_delims]. Qed.

(* The parser never hangs: for every text and every interpretation of \w the
   explicit fuel of the model (length + 1 iterations) is never exhausted, i.e.
   each iteration of Parser._iter_parse consumes at least one character. *)
From Verif Require Import proofs.C01_parser_total.
Theorem C01_parser_terminates :
  forall (wordc : N -> bool) (s : str), parse wordc s <> inl EFuel.
Proof. exact parse_total. Qed.
Print Assumptions C01_parser_terminates.
