(* C01p — sub-check of C01: the rule parser.  Statements only. *)
From Verif Require Import lib.Base model.RuleParser proofs.C01_parser.

(* "in every rule syntax flavour": for every abstract rule (literal segments and
   wildcards written in any of the ten flavours with either delimiter pair,
   names and filter names being Python identifiers, parenthesised arguments
   balanced, a `:name` followed by '/' or the end, a path filter followed by
   literal text or the end) the parser returns exactly its segments — for every
   interpretation [wordc] of the regex class \w that excludes the delimiters. *)
Theorem C01_parser_print_parse_roundtrip :
  forall (wordc : N -> bool),
    (forall c, In c [ch_slash; ch_gt; ch_rbrace; ch_dot; ch_colon; ch_lpar] -> wordc c = false) ->
    forall l : list seg, segs_ok wordc l -> parse wordc (print l) = inr (items_of l).
Proof. exact parse_print. Qed.
Print Assumptions C01_parser_print_parse_roundtrip.

(* non-vacuity: foo/<id:int>/{p.path()}end/<re((a)|(b))[1]>/:x is well formed *)
Example C01_parser_nonvacuous :
  segs_ok ascii_wordc demo_rule /\
  (forall c, In c [ch_slash; ch_gt; ch_rbrace; ch_dot; ch_colon; ch_lpar] -> ascii_wordc c = false).
Proof. split; [exact demo_rule_ok | exact ascii_wordc_delims]. Qed.

(* The parser never hangs: for every text and every interpretation of \w the
   explicit fuel of the model (length + 1 iterations) is never exhausted, i.e.
   each iteration of Parser._iter_parse consumes at least one character. *)
From Verif Require Import proofs.C01_parser_total.
Theorem C01_parser_terminates :
  forall (wordc : N -> bool) (s : str), parse wordc s <> inl EFuel.
Proof. exact parse_total. Qed.
Print Assumptions C01_parser_terminates.

(* Route.parse_rule on a printed well-formed rule returns the fold of the
   ABSTRACT segments (literal text; wildcard name / filter key / selector) —
   hence two spellings of one abstract rule in different syntax flavours
   ("every rule syntax flavour") give the same pattern, the same parameter
   names and the same filters, for every interpretation of \w that excludes
   the delimiters. *)
From Verif Require Import model.ParseRule proofs.C01_parse_rule.
Theorem C01_parse_rule_of_printed_rule :
  forall (wordc : N -> bool),
    (forall c, In c [ch_slash; ch_gt; ch_rbrace; ch_dot; ch_colon; ch_lpar] -> wordc c = false) ->
    forall l : list seg, segs_ok wordc l ->
      parse_rule wordc (ch_slash :: print l)
      = inr (fold_items (items_abs (map abs_of_seg l)) 0 (mkParsed [] [] [] [])).
Proof. exact parse_rule_print. Qed.
Print Assumptions C01_parse_rule_of_printed_rule.

Theorem C01_parse_rule_flavour_independent :
  forall (wordc : N -> bool),
    (forall c, In c [ch_slash; ch_gt; ch_rbrace; ch_dot; ch_colon; ch_lpar] -> wordc c = false) ->
    forall l l' : list seg,
      segs_ok wordc l -> segs_ok wordc l' -> map abs_of_seg l = map abs_of_seg l' ->
      parse_rule wordc (ch_slash :: print l) = parse_rule wordc (ch_slash :: print l').
Proof. exact parse_rule_flavour_independent. Qed.
Print Assumptions C01_parse_rule_flavour_independent.

(* non-vacuity: u/<id:int>/{n} and u/{id.int}/:n are different texts of one abstract rule *)
Example C01_flavours_nonvacuous :
  segs_ok ascii_wordc rule_a /\ segs_ok ascii_wordc rule_b
  /\ map abs_of_seg rule_a = map abs_of_seg rule_b /\ print rule_a <> print rule_b.
Proof. exact rules_ab_ok. Qed.

(* From rule TEXT to the spec's [pat]: for a printed well-formed rule whose
   literals contain no CR and which uses no rex selector, Route.parse_rule
   succeeds and RouteSpec.pat_of of its (pattern, filters) is the abstract rule:
   literals verbatim, one Wild per wildcard carrying its filter key (numbered by
   ANY function [num], as the harness numbers the cached filter objects).  With
   C01_resolve_eq_spec (which speaks about [pat]s) this covers routing from the
   rule text a developer writes, in every syntax flavour. *)
From Verif Require Import model.RouteSpec proofs.C01_text_to_pat.
Theorem C01_rule_text_to_pat :
  forall (wordc : N -> bool),
    (forall c, In c [ch_slash; ch_gt; ch_rbrace; ch_dot; ch_colon; ch_lpar] -> wordc c = false) ->
    forall (num : str -> fid) (l : list C01_parser.seg),
      segs_ok wordc l -> abs_ok (map abs_of_seg l) ->
      exists p,
        parse_rule wordc (ch_slash :: print l) = inr p /\
        pat_of (p_pattern p) (map (option_map num) (p_filters p)) = abs_pat num (map abs_of_seg l).
Proof. exact text_to_pat. Qed.
Print Assumptions C01_rule_text_to_pat.

Example C01_text_to_pat_nonvacuous : abs_ok (map abs_of_seg rule_a).
Proof. exact rule_a_abs_ok. Qed.
