(* C03 — every request gets exactly one well-formed WSGI response.
   Only statements; each is closed by [exact]/[apply] of lemmas of
   proofs/C03_proofs.v and proofs/C03_wf.v.

   Reading guide.  [wsgi env eh p] is the model (model/Wsgi.v) of Ombott.wsgi
   serving one request:
     env = facts taken from the environ (HEAD?, wsgi.file_wrapper?, JSON error
           pages?, URL text, decoded path);
     eh  = the custom error handlers: ANY function from status codes to handlers;
     p   = the before/after hooks in registration order and what routing and the
           handler do: ANY program of the grammar out/item/resp/hres/routing,
           nesting included.
   [all_events r] = everything a WSGI server observes, in order: hook / handler
   calls, close() calls, the start_response call, and what iterating and closing
   the returned object yields.  No theorem below restricts env, eh or p except
   by the hypotheses written in its statement.

   [wf_program Pst Pn Pv Ptail Pesc p] says that every response object, response
   mutation and iterable occurring anywhere in p (at any nesting depth)
   satisfies: status pairs Pst, header names Pn, header values and cookie
   renderings Pv, and the items after the first chunk of a bytes iterable Ptail;
   and that Pesc holds if anything in p raises an exception that the code lets
   through (Pesc = True: allowed, Pesc = False: p has no such raise).
   The hypothesis on eh says that custom error handlers map well-formed errors
   to well-formed values. *)
From Coq Require Import String.
From Verif Require Import lib.Base lib.Str lib.Utf8 lib.Html model.Wsgi proofs.C03_proofs proofs.C03_wf.
From Verif Require gen.Gen.

(* ---- termination ---- *)

(* The casting loop never runs out of fuel: the code's own guard ends it at
   pass 1001, and that path is itself a 500 (or the catch-all). *)
Theorem C03_cast_terminates :
  forall env eh o st p,
    cast env eh cast_fuel 1 o st <> COutOfFuel
    /\ wsgi env eh p <> WsOutOfFuel
    /\ trace env eh p = Some (all_events (wsgi env eh p))
    /\ (forall cnt, 1000 < cnt -> eh 500%Z = None ->
          match step env eh cnt o st with
          | SDone _ st' _ => s_code st' = 500%Z /\ s_line st' = l500
          | SCont _ _ => False
          | SRaise => True
          end).
Proof.
  intros. split; [apply cast_terminates|split; [apply wsgi_terminates|split; [apply trace_all_events|]]].
  intros cnt Hc _. exact (step_guard_500 env eh cnt o st Hc).
Qed.
Print Assumptions C03_cast_terminates.

(* ---- exactly one start_response ---- *)

(* Whatever hooks, routing, handler, nested responses and error handlers do —
   also when the catch-all answers, and even when the catch-all itself fails.
   The one exception, by design of the code: an exception that its
   `except (KeyboardInterrupt, SystemExit, MemoryError): raise` clauses let
   through, or one that is not an Exception at all, goes to the server
   ([passed]); then start_response is not called.  C03_passthrough_by_class
   says exactly which programs and classes that concerns. *)
Theorem C03_one_start_response :
  forall env eh p,
    count is_start (all_events (wsgi env eh p)) = if passed (wsgi env eh p) then 0 else 1.
Proof. exact one_start_response. Qed.
Print Assumptions C03_one_start_response.

(* ---- status line ---- *)

(* If every status pair in the program is one the status setter produces for a
   code 100..999 ([status_ok c l]: l = decimal c, a space, a reason), the line
   passed to start_response is three digits (first not 0), a space, a reason;
   and on the regular path it is the response object's line and its digits are
   the response object's code. *)
Theorem C03_status_wf :
  forall env eh p,
    wf_program status_ok Tr Tr TrI True p ->
    (forall c h r o, eh c = Some h -> wf_resp status_ok Tr Tr TrI True r -> h r = ERet o ->
                     wf_out status_ok Tr Tr TrI True o) ->
    forall line hl x, In (EvStart line hl x) (all_events (wsgi env eh p)) ->
      status_line_wf line
      /\ (x = false -> forall ev w st b, wsgi env eh p = WsOk ev w st b ->
            line = s_line st /\ Z.of_nat (status_line_code line) = s_code st).
Proof. exact status_wf. Qed.
Print Assumptions C03_status_wf.

(* The status setter produces such pairs: for every integer it accepts, and for
   every custom line "NNN reason" without surrounding blanks (any phrase table). *)
Theorem C03_status_setter_wf :
  forall reason,
    (forall c c' l, set_status reason (SCode c) = SOk c' l -> status_ok c' l)
    /\ (forall s c l, sline_guard s -> set_status reason (SLine s) = SOk c l -> status_ok c l /\ l = s).
Proof. intros reason. split; [apply set_status_code|apply set_status_line]. Qed.
Print Assumptions C03_status_setter_wf.

(* FINDING C03-status-line-shape: outside that guard the setter stores lines that
   are not "NNN reason" ('+404 plus'). *)
Theorem C03_status_setter_shape_refuted :
  exists reason a c l, set_status reason a = SOk c l /\ ~ status_line_wf l.
Proof. exact status_setter_shape_refuted. Qed.
Print Assumptions C03_status_setter_shape_refuted.

(* ---- header list ---- *)

(* If the names the application uses are header tokens and its values / cookie
   renderings contain no LF, CR, NUL (what _hval enforces; C14), every (name,
   value) passed to start_response has a token name and a Latin-1 value without
   LF, CR, NUL — including what the framework adds (Content-Length, Content-Type,
   Allow, Set-Cookie, the catch-all's header). *)
Theorem C03_headers_wf :
  forall env eh p,
    wf_program Tst name_ok hval_ok TrI True p ->
    (forall c h r o, eh c = Some h -> wf_resp Tst name_ok hval_ok TrI True r -> h r = ERet o ->
                     wf_out Tst name_ok hval_ok TrI True o) ->
    forall line hl x, In (EvStart line hl x) (all_events (wsgi env eh p)) ->
      Forall (fun kv => name_ok (fst kv) /\ wire_ok (snd kv)) hl.
Proof. exact headers_wf. Qed.
Print Assumptions C03_headers_wf.

(* ---- body chunks are byte strings ---- *)

(* If in every bytes iterable of the program the items after the first chunk are
   bytes (up to the first one that raises), every chunk the server gets from the
   returned object is a byte string.  (str iterables need no hypothesis: the
   framework encodes them, or the iteration stops with an exception.) *)
Theorem C03_body_bytes :
  forall env eh p,
    wf_program Tst Tr Tr bytes_tail_ok True p ->
    (forall c h r o, eh c = Some h -> wf_resp Tst Tr Tr bytes_tail_ok True r -> h r = ERet o ->
                     wf_out Tst Tr Tr bytes_tail_ok True o) ->
    forall cs, In (EvBody cs) (all_events (wsgi env eh p)) -> forallb is_cbytes cs = true.
Proof. exact body_bytes. Qed.
Print Assumptions C03_body_bytes.

(* ---- Content-Length written by the framework ---- *)

(* [wsgi ... = WsOk ev w st true]: the last flag says the framework's
   setdefault('Content-Length') stored its value (no Content-Length was there).
   Then, unless the body is suppressed, the returned object is a list of byte
   strings and every Content-Length header passed to start_response is the
   decimal total length of those byte strings. *)
Theorem C03_content_length_exact :
  forall env eh p ev w st line hl v,
    wsgi env eh p = WsOk ev w st true ->
    In (EvStart line hl false) ev ->
    e_head env = false -> nobody (s_code st) = false ->
    In (n_content_length, v) hl ->
    exists cs, w = WList cs /\ consume w st = [EvBody (map CBytes cs)]
               /\ v = dec_str_of_nat (length (concat cs)).
Proof. exact content_length_exact. Qed.
Print Assumptions C03_content_length_exact.

(* ---- no body ---- *)

(* HEAD (on the regular path and in the catch-all), every 1xx, 204, 304: the
   returned object is the empty list.  The no-body test is the one read from
   the source (Gen.nobody_codes / Gen.nobody_ranges). *)
Theorem C03_no_body :
  forall env eh p ev w st b,
    wsgi env eh p = WsOk ev w st b ->
    (e_head env = true -> w = WList [] /\ consume w st = [EvBody []])
    /\ (forall line hl,
          In (EvStart line hl false) ev ->
          (100 <= s_code st < 200 \/ s_code st = 204 \/ s_code st = 304)%Z ->
          w = WList [] /\ consume w st = [EvBody []] /\ line = s_line st).
Proof.
  intros env eh p ev w st b H. split.
  - intros Hh. rewrite (no_body_head env eh p ev w st b H Hh). split; reflexivity.
  - intros line hl Hin Hc.
    destruct (no_body_status env eh p ev w st b line hl H Hin (nobody_spec _ Hc)) as [-> ->].
    repeat split; reflexivity.
Qed.
Print Assumptions C03_no_body.

(* Record of the repaired defect F3: the set the code used to test lets 102 through. *)
Theorem C03_F3_old_status_set_refuted :
  exists c, (100 <= c < 200)%Z /\ existsb (Z.eqb c) [100; 101; 204; 304]%Z = false.
Proof. exists 102%Z. split; [lia|reflexivity]. Qed.
Print Assumptions C03_F3_old_status_set_refuted.

(* ---- close ---- *)

(* Never more than one close() call in the whole request; and the object that
   became the response body (a file-like handed to a wrapper, or the iterable
   whose first non-empty item is a str/bytes chunk: [closer w0 = Some id]) is
   closed exactly once — by the framework when the body is suppressed, by the
   server otherwise, never both. *)
Theorem C03_close_once :
  forall env eh p,
    count is_close (all_events (wsgi env eh p)) <= 1
    /\ forall evH st0 o w0 st wrote id,
         handle p = (evH, st0, o) ->
         cast env eh cast_fuel 1 o st0 = CDone w0 st wrote ->
         headerlist st <> None ->
         closer w0 = Some id ->
         count (is_close_of id) (all_events (wsgi env eh p)) = 1.
Proof.
  intros env eh p. split; [apply close_at_most_once|].
  intros. eapply close_exactly_once; eassumption.
Qed.
Print Assumptions C03_close_once.

(* The stronger reading in DESIGN (every iterable from which an item was taken is
   closed) is false of the code: an iterable whose first item is a response
   object is abandoned by _cast and never closed. *)
Theorem C03_close_every_touched_iterable_refuted :
  exists env eh p, trace env eh p <> None /\
    match trace env eh p with
    | Some ev => count is_close ev = 0
    | None => False
    end
    /\ exists id items ty, p_routing p = ROk [] (mkH [] (HRet (OIter id true items ty))) /\ items <> [].
Proof. exact abandoned_iterable_not_closed. Qed.
Print Assumptions C03_close_every_touched_iterable_refuted.

(* ---- failures become a 500, nothing escapes ---- *)

(* (1) With a decoded path (scalar values) or under HEAD no exception leaves
       Ombott.wsgi.
   (2) Without a custom 500 handler, a crash of a hook / route hook / handler
       ([handle] built the 500 error object) and (3) a crash of iter(out) or of
       the first next() that would deliver an item are answered with status
       "500 Internal Server Error" (or the catch-all's "500 INTERNAL SERVER ERROR"). *)
Theorem C03_500_not_escape :
  forall env eh p,
    (Forall scalar (e_path env) \/ e_head env = true -> forall ev, wsgi env eh p <> WsEscaped ev)
    /\ (eh 500%Z = None ->
        forall evH st0 o, handle p = (evH, st0, o) ->
          (exists j, o = OHttp true (err_handle500 j)) \/ crashes_at_first_next o ->
          forall line hl x, In (EvStart line hl x) (all_events (wsgi env eh p)) ->
            line = l500 \/ line = l_catchall).
Proof.
  intros env eh p. split; [apply never_escapes|].
  intros H5 evH st0 o Hh [[j ->]|Hc].
  - exact (crash_in_handle_500 env eh H5 p evH st0 j Hh).
  - exact (crash_at_first_next_500 env eh H5 p evH st0 o Hh Hc).
Qed.
Print Assumptions C03_500_not_escape.

(* Exceptions that pass through.  An exception class is the list of class names in its
   __mro__.  Gen.passthrough_handle / _cast / _wsgi are the class tuples of the three
   `except (...): raise` clauses, read from the source.
   (1) They are KeyboardInterrupt, SystemExit, MemoryError — nothing else.
   (2) A raise of an Exception subclass that matches none of them is, for the model, an
       ordinary crash: in a hook / handler the program element HRaiseExc (answered 500 by
       C03_500_not_escape), at the first next() IRaiseExc; and should it reach wsgi() it
       goes to the catch-all.  Any other class is let through.
   (3) A program in which nobody raises a let-through exception is always answered.
   (4) When one is let through the server has seen what _handle did and nothing else:
       no close(), no start_response, no body. *)
Theorem C03_passthrough_by_class :
  let three := [lit "KeyboardInterrupt"; lit "SystemExit"; lit "MemoryError"] in
  (Gen.passthrough_handle = three /\ Gen.passthrough_cast = three /\ Gen.passthrough_wsgi = three)
  /\ (forall mro j,
        is_exception mro = true ->
        (mro_in Gen.passthrough_handle mro = false -> hres_of_raise mro j = HRaiseExc j)
        /\ (mro_in Gen.passthrough_cast mro = false -> item_of_raise mro j = IRaiseExc j)
        /\ (mro_in Gen.passthrough_wsgi mro = false -> to_catchall mro = true))
  /\ (forall mro j,
        (is_exception mro = false \/ mro_in Gen.passthrough_handle mro = true ->
           hres_of_raise mro j = HRaiseEsc (to_catchall mro))
        /\ (is_exception mro = false \/ mro_in Gen.passthrough_cast mro = true ->
           item_of_raise mro j = IRaiseEsc (to_catchall mro))
        /\ (is_exception mro = false \/ mro_in Gen.passthrough_wsgi mro = true -> to_catchall mro = false))
  /\ (forall env eh p,
        wf_program Tst Tr Tr TrI False p ->
        (forall c h r o, eh c = Some h -> wf_resp Tst Tr Tr TrI False r -> h r = ERet o ->
                         wf_out Tst Tr Tr TrI False o) ->
        (forall c h r, eh c = Some h -> wf_resp Tst Tr Tr TrI False r -> h r <> ERaise false) ->
        passed (wsgi env eh p) = false)
  /\ (forall env eh p ev,
        wsgi env eh p = WsPassed ev -> ev = fst (fst (handle p)) /\ count is_start ev = 0).
Proof.
  split; [split; [reflexivity|split; reflexivity]|].
  split; [|split; [|split; [exact no_escape_not_passed|exact passed_events]]].
  - intros mro j E. split; [|split].
    + intros H. unfold hres_of_raise. now rewrite fate_handle_ordinary.
    + intros H. unfold item_of_raise. now rewrite fate_cast_ordinary.
    + intros H. now apply to_catchall_spec.
  - intros mro j. split; [|split].
    + intros H. unfold hres_of_raise. now rewrite fate_handle_escape.
    + intros H. unfold item_of_raise. now rewrite fate_cast_escape.
    + intros [H|H]; unfold to_catchall; rewrite H; [reflexivity|apply Bool.andb_false_r].
Qed.
Print Assumptions C03_passthrough_by_class.

(* With config.catchall = False the except clause of wsgi() re-raises: a request that
   never reaches it is answered exactly as with catchall = True; otherwise the exception
   leaves Ombott.wsgi and start_response has not been called at all (the server answers). *)
Theorem C03_catchall_off :
  forall env eh p,
    wsgi_nocatch env eh p = wsgi env eh p
    \/ exists ev, wsgi_nocatch env eh p = WsEscaped ev /\ count is_start ev = 0.
Proof. exact wsgi_nocatch_cases. Qed.
Print Assumptions C03_catchall_off.

(* ---- hooks ---- *)

(* [ran hs] = number of hooks of hs (in call order) that get called: up to and
   including the first failing one.  Before hooks: registration order, once each,
   that prefix, all before routing; routing and at most one handler call only if
   no before hook failed.  After hooks: the after_request list as it is when its
   emit starts ([after_call_list p]), once each, after everything else, for every
   outcome (404, 405, failing before hook, crash); all of them unless an after
   hook itself fails.  That list is the reverse registration order unless a hook
   or the handler of this request called add_hook / remove_hook on it before;
   edits made DURING an emit never change that emit (the model iterates a copy,
   as the code does), and edits of the before_request list show from the next
   request on. *)
Theorem C03_hooks_lifecycle :
  forall p,
    exists evM,
      fst (fst (handle p))
      = map EvHookB (firstn (ran (p_before p)) (seq 0 (length (p_before p))))
        ++ evM
        ++ map EvHookA (map fst (firstn (ran (map snd (after_call_list p))) (after_call_list p)))
      /\ (all_ret (p_before p) = false -> evM = [])
      /\ (all_ret (p_before p) = true ->
           exists evR, evM = EvRouted :: evR /\ forallb mid_event evR = true /\ count is_handler evR <= 1)
      /\ (all_ret (p_before p) = true -> ran (p_before p) = length (p_before p))
      /\ (all_ret (map snd (after_call_list p)) = true ->
           ran (map snd (after_call_list p)) = length (after_call_list p))
      /\ (no_hook_edits p ->
           map fst (after_call_list p) = rev (seq 0 (length (p_after p)))
           /\ map snd (after_call_list p) = rev (p_after p)).
Proof.
  intros p. destruct (hooks_lifecycle p) as [evM [A [B C]]]. exists evM.
  split; [exact A|split; [exact B|split; [exact C|split; [|split]]]].
  - apply ran_all_ok.
  - intros H. rewrite (ran_all_ok _ H). apply map_length.
  - apply after_call_list_plain.
Qed.
Print Assumptions C03_hooks_lifecycle.

(* ---- non-vacuity ---- *)

(* a closable iterator under GET (closed by the server) and under HEAD (closed by the framework) *)
Example C03_close_once_nonvacuous :
  let it := OIter 7 true [IYield (OStr []); IYield (OStr [104;105]%N); IYield (OStr [33]%N)] [] in
  let p := mkProg [] [] (ROk [] (mkH [] (HRet it))) in
  trace (mkEnv false false false [] []) (fun _ => None) p
  = Some [EvRouted; EvHandler;
          EvStart (lit "200 OK") [(lit "Content-Type", lit "text/html; charset=UTF-8")] false;
          EvBody [CBytes [104;105]%N; CBytes [33]%N]; EvClose 7]
  /\ trace (mkEnv true false false [] []) (fun _ => None) p
  = Some [EvRouted; EvHandler; EvClose 7;
          EvStart (lit "200 OK") [(lit "Content-Type", lit "text/html; charset=UTF-8")] false;
          EvBody []].
Proof. vm_compute. split; reflexivity. Qed.

(* a program meeting the hypotheses of the status / header / chunk theorems: a
   response object with a custom line, a header, a cookie and a bytes iterator,
   raised by the handler, one before and one after hook, a 102 error page *)
Definition demo_resp : resp :=
  mkResp 299 (lit "299 Fine") [(lit "X-A", [lit "v"])] [(lit "sid", lit "sid=1")]
         (OIter 3 true [IYield OFalsy; IYield (OBytes [1;2]%N); IYield (OBytes [3]%N)] []) [] None [] false.
Definition demo_prog : program :=
  mkProg [mkH [MSetHeader (lit "X-B") (lit "w")] (HRet OFalsy)] [mkH [] (HRet OFalsy)]
         (ROk [] (mkH [MStatus 102 (lit "102 Processing")] (HRaiseHttp false demo_resp))).
Ltac wf_crush S102 S299 :=
  repeat match goal with
         | |- _ /\ _ => split
         | |- True => exact I
         | |- Forall _ [] => constructor
         | |- Forall _ (_ :: _) => constructor
         | |- name_ok _ => reflexivity
         | |- hval_ok _ => reflexivity
         | |- Tr _ => exact I
         | |- Tst _ _ => exact I
         | |- TrI _ => exact I
         | |- wf_hprog _ _ _ _ _ _ => unfold wf_hprog
         | |- wf_hres _ _ _ _ _ _ => unfold wf_hres
         | |- wf_mut _ _ _ _ => unfold wf_mut
         | |- hs_ok _ _ _ => unfold hs_ok
         | |- cs_ok _ _ => unfold cs_ok
         | |- status_ok 102 _ => exact S102
         | |- status_ok 299 _ => exact S299
         | _ => progress cbn
         end.

Example C03_wf_nonvacuous :
  wf_program status_ok Tr Tr TrI True demo_prog
  /\ wf_program Tst name_ok hval_ok TrI True demo_prog
  /\ wf_program Tst Tr Tr bytes_tail_ok True demo_prog
  /\ trace (mkEnv false false false [] []) (fun _ => None) demo_prog
     = Some [EvHookB 0; EvRouted; EvHandler; EvHookA 0;
             EvStart (lit "299 Fine") [(lit "X-A", lit "v"); (lit "Content-Type", lit "text/html; charset=UTF-8");
                                       (lit "Set-Cookie", lit "sid=1")] false;
             EvBody [CBytes [1;2]%N; CBytes [3]%N]; EvClose 3].
Proof.
  assert (S299 : status_ok 299 (lit "299 Fine")) by (split; [lia|exists (lit "Fine"); reflexivity]).
  assert (S102 : status_ok 102 (lit "102 Processing")) by (split; [lia|exists (lit "Processing"); reflexivity]).
  split; [|split; [|split; [|vm_compute; reflexivity]]];
    unfold demo_prog, demo_resp, wf_program, wf_hprog, wf_routing, wf_hres, wf_mut, hs_ok, cs_ok; wf_crush S102 S299.
Qed.

(* the 1000-iteration guard is reachable and ends in a 500 page *)
Example C03_guard_nonvacuous :
  let e := mkResp 500 l500 [] [] (OStr (lit "x")) (lit "x") (Some (lit """x""")) (lit """None""") false in
  match wsgi (mkEnv false false true [] []) (fun c => if Z.eqb c 500 then Some (fun r => ERet (OHttp true r)) else None)
             (mkProg [] [] (ROk [] (mkH [] (HRet (OHttp true e))))) with
  | WsOk ev (WList [b]) st _ => s_code st = 500%Z /\ In (EvStart l500 [(n_content_type, v_app_json); (n_content_length, lit "71")] false) ev
  | _ => False
  end.
Proof. vm_compute. split; [reflexivity|]. right. right. left. reflexivity. Qed.

(* hook lists edited while the request runs: before hook 0 removes itself (no effect on
   this emit: hook 1 still runs), the handler removes after hook 0 and adds a new after
   hook 14: the after emit calls 14, 2, 1 *)
Example C03_hook_edits_nonvacuous :
  let ok := HRet OFalsy in
  let p := mkProg [mkH [MHook (HERemove false 0)] ok; mkH [] ok]
                  [mkH [] ok; mkH [] ok; mkH [] ok]
                  (ROk [] (mkH [MHook (HERemove true 0); MHook (HEAdd true 14)] (HRet (OStr (lit "x"))))) in
  fst (fst (handle p))
  = [EvHookB 0; EvHookB 1; EvRouted; EvHandler; EvHookA 14; EvHookA 2; EvHookA 1].
Proof. vm_compute. reflexivity. Qed.

(* exception classes: a handler raising ConnectionResetError is answered 500; KeyboardInterrupt
   and GeneratorExit (not an Exception) go to the server after the after_request hooks, and
   start_response is not called; a generator raising MemoryError at the first next() likewise *)
Example C03_passthrough_nonvacuous :
  let env := mkEnv false false false [] [] in
  let eh := fun _ : Z => @None (resp -> ehres) in
  let prog := fun h => mkProg [] [mkH [] (HRet OFalsy)] (ROk [] (mkH [] h)) in
  let cre := [lit "ConnectionResetError"; lit "ConnectionError"; lit "OSError"; lit "Exception";
              lit "BaseException"; lit "object"] in
  let ki := [lit "KeyboardInterrupt"; lit "BaseException"; lit "object"] in
  let ge := [lit "GeneratorExit"; lit "BaseException"; lit "object"] in
  let me := [lit "MemoryError"; lit "Exception"; lit "BaseException"; lit "object"] in
  (match wsgi env eh (prog (hres_of_raise cre [])) with
   | WsOk ev _ st _ => s_code st = 500%Z /\ count is_start ev = 1
   | _ => False
   end)
  /\ wsgi env eh (prog (hres_of_raise ki [])) = WsPassed [EvRouted; EvHandler; EvHookA 0]
  /\ wsgi env eh (prog (hres_of_raise ge [])) = WsPassed [EvRouted; EvHandler; EvHookA 0]
  /\ wsgi env eh (prog (HRet (OIter 1 true [IYield OFalsy; item_of_raise me []] [])))
     = WsPassed [EvRouted; EvHandler; EvHookA 0]
  /\ wf_program Tst Tr Tr TrI False (prog (hres_of_raise cre []))
  /\ ~ wf_program Tst Tr Tr TrI False (prog (hres_of_raise ki [])).
Proof.
  cbv zeta. split; [vm_compute; split; reflexivity|].
  split; [vm_compute; reflexivity|]. split; [vm_compute; reflexivity|]. split; [vm_compute; reflexivity|].
  split.
  - unfold wf_program. cbn. repeat split; repeat constructor.
  - unfold wf_program. cbn. intros [_ [_ [_ [_ H]]]]. exact H.
Qed.
