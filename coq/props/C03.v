(* C03 — every request gets exactly one well-formed WSGI response.
   Only statements; each is closed by [exact] of a lemma of proofs/C03_proofs.v.

   Reading guide.  [wsgi env eh p] is the model of Ombott.wsgi serving one
   request: [env] = the facts taken from the environ (HEAD?, wsgi.file_wrapper?,
   JSON error pages?, URL, path), [eh] = the custom error handlers (ANY function
   from status codes to handlers), [p] = the registered before/after hooks and
   what routing + the handler do (ANY program of the grammar of model/Wsgi.v,
   nesting included).  [all_events r] = everything a WSGI server observes:
   the hook/handler calls, close() calls, the start_response call, and what
   iterating and closing the returned object yields. *)
From Coq Require Import String.
From Verif Require Import lib.Base lib.Html model.Wsgi proofs.C03_proofs.

(* The response-casting loop never runs out of fuel: 1001 passes always
   suffice (the code's own guard ends the loop at pass 1001). *)
Theorem C03_cast_terminates :
  forall env eh o st p,
    cast env eh cast_fuel 1 o st <> COutOfFuel /\ wsgi env eh p <> WsOutOfFuel
    /\ trace env eh p = Some (all_events (wsgi env eh p)).
Proof. intros. split; [apply cast_terminates|split; [apply wsgi_terminates|apply trace_all_events]]. Qed.
Print Assumptions C03_cast_terminates.

(* start_response is called exactly once, whatever hooks, routing, handler,
   nested responses and error handlers do — also when the catch-all answers
   and even when the catch-all itself fails. *)
Theorem C03_one_start_response :
  forall env eh p, count is_start (all_events (wsgi env eh p)) = 1.
Proof. exact one_start_response. Qed.
Print Assumptions C03_one_start_response.

(* HEAD, every 1xx, 204 and 304: the returned object is the empty list, and
   iterating it yields no chunk.  (The status is the one passed to
   start_response: [line = s_line st], and C03_status_wf ties the digits of
   the line to [s_code st].) *)
Theorem C03_no_body :
  forall env eh p ev w st b,
    wsgi env eh p = WsOk ev w st b ->
    (e_head env = true -> w = WList [] /\ consume w st = [EvBody []])
    /\ (forall line hl,
          In (EvStart line hl false) ev ->
          (100 <= s_code st < 200 \/ s_code st = 204 \/ s_code st = 304)%Z ->
          w = WList [] /\ consume w st = [EvBody []] /\ line = s_line st).
Proof.
  intros env eh p ev w st b H. split.
  - intros Hh. rewrite (no_body_head env eh p ev w st b H Hh). split; reflexivity.
  - intros line hl Hin Hc.
    destruct (no_body_status env eh p ev w st b line hl H Hin (nobody_spec _ Hc)) as [-> ->].
    repeat split; reflexivity.
Qed.
Print Assumptions C03_no_body.

(* close(): never more than one close() call in the whole request, and the
   object that became the response body (a file-like handed to a wrapper, or
   the iterable whose first non-empty item is a str/bytes chunk) is closed
   exactly once — by the framework when the body is suppressed, by the server
   otherwise, never both. *)
Theorem C03_close_once :
  forall env eh p,
    count is_close (all_events (wsgi env eh p)) <= 1
    /\ forall evH st0 o w0 st wrote id,
         handle p = (evH, st0, o) ->
         cast env eh cast_fuel 1 o st0 = CDone w0 st wrote ->
         headerlist st <> None ->
         closer w0 = Some id ->
         count (is_close_of id) (all_events (wsgi env eh p)) = 1.
Proof.
  intros env eh p. split; [apply close_at_most_once|].
  intros. eapply close_exactly_once; eassumption.
Qed.
Print Assumptions C03_close_once.

(* non-vacuity: a closable iterator under GET (closed by the server) and under HEAD (closed by the framework) *)
Example C03_close_once_nonvacuous :
  let it := OIter 7 true [IYield (OStr []); IYield (OStr [104;105]%N); IYield (OStr [33]%N)] [] in
  let p := mkProg [] [] (ROk [] (mkH [] (HRet it))) in
  trace (mkEnv false false false [] []) (fun _ => None) p
  = Some [EvRouted; EvHandler;
          EvStart (lit "200 OK") [(lit "Content-Type", lit "text/html; charset=UTF-8")] false;
          EvBody [CBytes [104;105]%N; CBytes [33]%N]; EvClose 7]
  /\ trace (mkEnv true false false [] []) (fun _ => None) p
  = Some [EvRouted; EvHandler; EvClose 7;
          EvStart (lit "200 OK") [(lit "Content-Type", lit "text/html; charset=UTF-8")] false;
          EvBody []].
Proof. vm_compute. split; reflexivity. Qed.
