(* C14 — response header values cannot split the response and are wire-safe.
   Only statements; proofs are in proofs/C14_proofs.v and proofs/C14_emit.v.
   Vocabulary (defined in those files, next to the model model/Headers.v):
     has_ctl t      : t contains LF (10), CR (13) or NUL (0)          clean t : it contains none of them
     text_of v      : Some (str v) when _hval accepts the type of v (None, str, int, float, bool), else None
     refused v      : text_of v = None, or has_ctl of the text
     offered o      : the values operation o offers through a guarded single-value entry point
     guarded_op o   : o is any operation except headers.update(..) and headers.setdefault(name, [list])
     store_ok d     : every stored cell is clean text, or a list of clean texts
     expected cs s  : (name, text) once per stored value of the visible store — store order, then list
                      order — then the default Content-Type when needed, then one Set-Cookie per cookie
     enc1 (n, t)    : (n, utf8_enc_str t)            wire_safe v : all code points < 256 and clean v
     guarded_op (OSetCookie ..) additionally asks that set_cookie checks its options (F35) and that the
                      fragment http.cookies renders for an option value that passed _hval is clean (external)
     inv s          : store_ok (st_store s) and every cookie has a legal name, value quoted by _quote, clean fragments
     emitted_safe s : the conclusion of C14_emitted_safe for state s                                          *)
From Coq Require Import String Ascii.
From Verif Require Import lib.Base lib.Str lib.Utf8 gen.Gen model.Cookie model.Headers
                          proofs.C14_proofs proofs.C14_emit.
Local Open Scope N_scope.

(* Every guarded single-value setter — item assignment, append, setdefault, the
   content_type / content_length / expires attributes (expires: after its writer),
   the constructor with dict / pair-list / keyword headers, HTTPResponse(...).apply —
   raises when one offered value is of a refused type or its text contains CR, LF
   or NUL, and leaves the response unchanged (the constructor, which resets the
   response first, raises; what it leaves behind is covered by the invariant). *)
Theorem C14_guarded_setters_reject :
  forall (s : rstate) (o : op),
    Exists refused (offered o) ->
    match o with
    | OInit _ _ _ | OSetCookie _ _ _ _ => exists e, snd (step s o) = Some e
    | _ => exists e, step s o = (s, Some e)
    end.
Proof. exact step_rejects. Qed.
Print Assumptions C14_guarded_setters_reject.

(* After ANY sequence of guarded operations on a fresh response (successful or
   raising, in any order, including re-initialisation and apply) every stored
   header value is CR/LF/NUL-free text or a list of such texts. *)
Theorem C14_store_invariant :
  forall ops : list op, Forall guarded_op ops -> store_ok (st_store (run init_state ops)).
Proof. exact C14_store_invariant_lemma. Qed.
Print Assumptions C14_store_invariant.

(* After any sequence of guarded operations headerlist never fails on a value
   without .encode, and when it returns, entry i of the list is (name, v) where v
   has only code points < 256, no CR/LF/NUL, and decodes as UTF-8 to the text of
   entry i of [expected] — stored values, default Content-Type and Set-Cookie alike.
   (headerlist can still raise UnicodeEncodeError for a lone surrogate.) *)
Theorem C14_emitted_safe :
  forall ops : list op, Forall guarded_op ops ->
  let s := run init_state ops in
  headerlist s <> HLAttrError /\
  forall l, headerlist s = HLOk l ->
    exists srcs, srcs = expected Gen.headerlist_blacklist_case_sensitive s
      /\ length l = length srcs
      /\ forall i n v, nth_error l i = Some (n, v) ->
           exists orig, nth_error srcs i = Some (n, orig)
             /\ wire_safe v /\ utf8_dec v = Some orig.
Proof. exact C14_emitted_safe_lemma. Qed.
Print Assumptions C14_emitted_safe.

(* The same for a response AND its copy (BaseResponse.copy, as redirect() makes it),
   after any interleaving of guarded operations on either object and of copy():
   both stores hold only CR/LF/NUL-free text, both jars only legal names, quoted
   values and clean option fragments; hence both header lists are wire-safe. *)
Theorem C14_pair_invariant :
  forall ps : list pop, Forall guarded_pop ps -> pinv (prun (init_state, None) ps).
Proof. exact C14_pair_invariant_lemma. Qed.
Print Assumptions C14_pair_invariant.

Theorem C14_pair_emitted_safe :
  forall ps : list pop, Forall guarded_pop ps ->
  let st := prun (init_state, None) ps in
  emitted_safe (fst st) /\ forall c, snd st = Some c -> emitted_safe c.
Proof. exact C14_pair_emitted_safe_lemma. Qed.
Print Assumptions C14_pair_emitted_safe.

(* An operation on the copy leaves the original exactly as it was, and vice versa. *)
Theorem C14_copy_independent :
  forall (st : pstate) (on_copy : bool) (o : op),
    let st' := fst (fst (pstep st (POn on_copy o))) in
    if on_copy then fst st' = fst st else snd st' = snd st.
Proof. exact copy_independent. Qed.
Print Assumptions C14_copy_independent.

(* For EVERY response state (guarded or not): when headerlist returns, it is
   exactly the transcoding of [expected]: multi-valued headers once per value, in
   order; default Content-Type only when no blacklist applies and none is stored;
   cookies last. *)
Theorem C14_multi_in_order :
  forall (s : rstate) (l : list (str * str)),
    headerlist s = HLOk l ->
    l = List.map enc1 (expected Gen.headerlist_blacklist_case_sensitive s).
Proof. intros s l H. exact (proj1 (headerlist_expected _ s l H)). Qed.
Print Assumptions C14_multi_in_order.

(* On a status with a blacklist (204, 304) no emitted name equals a blacklisted
   name in any ASCII-case spelling; in particular Content-Type is not defaulted.
   Needs fix F17: the proof term checks that Gen.v (regenerated from /repo) says
   the comparison is not case-sensitive. *)
Theorem C14_blacklist :
  forall (s : rstate) (l : list (str * str)) (n v b : str),
    headerlist s = HLOk l ->
    In b (lookup_bad (st_code s) Gen.bad_headers) ->
    In (n, v) l ->
    lower n <> lower b.
Proof. exact (C14_blacklist_lemma eq_refl). Qed.
Print Assumptions C14_blacklist.

(* Record of defect F17 (repaired): with the verbatim comparison a lower-case
   content-length is emitted on a 304. *)
Theorem C14_F17_case_sensitive_variant_refuted :
  exists s l,
    st_code s = 304%Z /\ headerlist_cs true s = HLOk l
    /\ In (L "content-length", L "5") l /\ In (L "Content-Length") (lookup_bad 304 Gen.bad_headers).
Proof. exact F17_case_sensitive_variant_emits. Qed.
Print Assumptions C14_F17_case_sensitive_variant_refuted.

(* Record of defect F35 (repaired): while set_cookie did not check its options, a
   CR LF in path= reached the Set-Cookie value. *)
Theorem C14_F35_unchecked_cookie_option_refuted :
  exists l v,
    headerlist (run init_state
                  [OSetCookie [97] [98] false
                     [mkO (L "path") (Some (VAtom (AStr [47; 13; 10; 88]))) (L "Path=/" ++ [13; 10; 88])]])
    = HLOk l /\ In (L "Set-Cookie", v) l /\ In 13 v /\ In 10 v.
Proof.
  eexists. eexists. split; [vm_compute; reflexivity|]. split; [right; left; reflexivity|].
  split; vm_compute; tauto.
Qed.
Print Assumptions C14_F35_unchecked_cookie_option_refuted.

(* Outside the statement, recorded: the two unchecked entry points do store CR LF. *)
Theorem C14_store_invariant_unchecked_paths_refuted :
  ~ store_ok (st_store (run init_state [OUpdate [(L "X", VAtom (AStr [97; 13; 10; 98]))]]))
  /\ ~ store_ok (st_store (run init_state [OSetDefault (L "X") (VList [AStr [97; 10]])])).
Proof. exact unchecked_paths_witness. Qed.
Print Assumptions C14_store_invariant_unchecked_paths_refuted.

(* non-vacuity: a guarded history with a rejected injection, a multi-valued and a
   non-ASCII header, on a 304 with entity headers in odd spellings *)
Example C14_nonvacuous :
  let ops := [OSet (L "X") (VAtom (AStr [97]));
              OAppend (L "X") (VAtom (AStr [98; 13; 10; 83]));       (* rejected *)
              OAppend (L "X") (VAtom (AInt 3));
              OSet (L "Y") (VAtom (AStr [233; 8364]));
              OSet (L "content-length") (VAtom (AInt 5));
              OStatus 304] in
  Forall guarded_op ops
  /\ snd (step (run init_state [OSet (L "X") (VAtom (AStr [97]))]) (OAppend (L "X") (VAtom (AStr [98; 13; 10; 83]))))
     = Some EValueError
  /\ headerlist (run init_state ops)
     = HLOk [(L "X", [97]); (L "X", [51]); (L "Y", [195; 169; 226; 130; 172])].
Proof. vm_compute. repeat split; repeat constructor. Qed.
