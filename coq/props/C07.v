(* C07 — multipart forms and uploads round-trip exactly.
   Statements only; proofs in proofs/C07_*.v.  Model: model/Fields.v (field
   layer, after fixes F8 F9 F16) on top of model/MultipartRef.v (one-piece
   scanner; C06 relates it to the streaming parser).  Spec side (encoder
   enc_form, guards, expected dictionaries): proofs/C07_spec.v. *)
From Verif Require Import lib.Base lib.Str lib.Utf8 gen.Gen.
From Verif Require Import model.Stream model.Body model.MultipartRef model.Multipart model.Fields model.BodyPipeline.
From Verif Require model.Chunked.
From Verif Require Import lib.PyIntHex.
From Verif Require Import proofs.C07_fields proofs.C07_spec proofs.C07_ref proofs.C07_roundtrip proofs.C07_collect
  proofs.C07_full proofs.C07_streaming proofs.C07_pipeline proofs.C07_proxy proofs.C07_pins.

(* The regular expression re-implemented by Fields.scan_key/scan_value/opt_matches
   is the one in /repo today (text regenerated into Gen.v on every run). *)
Theorem C07_option_regex_pinned :
  Gen.field_opt_patt_src
  = [40;46;43;63;41;40;61;40;34;91;94;34;93;42;34;124;46;43;63;41;41;63;40;59;124;36;41]%N.
Proof. exact field_opt_patt_pinned. Qed.
Print Assumptions C07_option_regex_pinned.

(* Header parsing: for every name / file name free of double quotes (they may
   contain ; = : spaces, backslashes, any Unicode) the Content-Disposition line a
   browser sends is parsed back to exactly that name and file name. *)
Theorem C07_header_parsing :
  forall n fn : str,
    lacks QUOTE n -> lacks QUOTE fn ->
    parse_header (cd_line n)
      = Some (mkHeader s_content_disposition s_form_data [(s_name, Some n)]) /\
    parse_header (cd_line_file n fn)
      = Some (mkHeader s_content_disposition s_form_data [(s_name, Some n); (s_filename, Some fn)]).
Proof. intros n fn H H'. split; [now apply parse_header_cd | now apply parse_header_cd_file]. Qed.
Print Assumptions C07_header_parsing.

(* Sections: for EVERY boundary and field list within the guards the scanner
   reports exactly one header and one data section per part, at the offsets
   where the encoder put them, and then the closing delimiter. *)
Theorem C07_sections :
  forall (B : bytes) (fs : list fld),
    parts_ok B fs ->
    ref B (enc_form B fs) = (sec Data 0 0 :: secs_from B (length (dash_boundary B)) fs, FStopped).
Proof. exact ref_enc_form. Qed.
Print Assumptions C07_sections.

(* ROUND TRIP.  For EVERY boundary B (any bytes), every list of fields within the
   guards [parts_ok] (names and file names free of double quotes and of the
   str.splitlines breaks — they may contain ; = : spaces, backslashes, any other
   Unicode scalar —; plain content types; any text values; any file bytes; the
   delimiter CRLF--B not inside a value or content; file names non-empty) and
   every in-memory threshold that the header blocks and text values fit in:
   Request.POST succeeds on the body a browser sends, and what the handler sees in
   POST, forms and files (uploads through raw_filename, content_type.value and
   file.read()) is exactly the submitted fields: every distinct name once in order
   of first appearance, bound to its only value or to the list of all its values
   in submission order; text fields in forms, uploads in files. *)
Theorem C07_roundtrip :
  forall (B : bytes) (fs : list fld) (mem : Z),
    parts_ok B fs -> (total_cost fs <= mem)%Z ->
    exists d, post B (enc_form B fs) mem = POk d
              /\ view (enc_form B fs) d = Some (expected fs).
Proof. exact roundtrip. Qed.
Print Assumptions C07_roundtrip.

(* The collection with list promotion (BodyMixin.POST after F9) is the grouping:
   folding the insertion over the fields gives, for each distinct name in order
   of first appearance, its values in submission order. *)
Theorem C07_promotion_is_grouping :
  forall l : list (str * vitem), fold_left vadd1 l [] = grouped l.
Proof. exact fold_vadd_grouped. Qed.
Print Assumptions C07_promotion_is_grouping.

(* NO BYTE OF ONE PART IN ANOTHER.  In the body, every header section and data
   section reported by the scanner (C07_sections) is exactly the window of its own
   part — slice body ds de = the submitted data — and the sections are ordered and
   pairwise disjoint.  (With C07_roundtrip: every delivered value / file content is
   the slice of its own data section.) *)
Theorem C07_no_cross_part_bytes :
  forall (B : bytes) (fs : list fld),
    windows_ok (enc_form B fs) B (length (dash_boundary B)) fs
    /\ ordered_from 0 (sec Data 0 0 :: secs_from B (length (dash_boundary B)) fs).
Proof. exact no_cross_part_bytes. Qed.
Print Assumptions C07_no_cross_part_bytes.

(* STREAMING, ANY CHUNKING.  When CR does not occur in the boundary, the encoded
   form is a well-formed body in the sense of C06 (wf_prefix), hence (C06:
   stream_eq_ref) the streaming parser fed the body in ANY chunks — whatever
   max_memfile_size and framing cut it into — reports the same sections, and the
   round trip holds for Request.POST computed from the streaming markup. *)
Theorem C07_encoded_form_well_formed :
  forall (B : bytes) (fs : list fld), lacks 13 B -> parts_ok B fs -> wf_prefix B (enc_form B fs).
Proof. exact enc_form_wf. Qed.
Print Assumptions C07_encoded_form_well_formed.

Theorem C07_roundtrip_streaming :
  forall (B : bytes) (fs : list fld) (mem : Z) (chunks : list bytes),
    lacks 13 B -> parts_ok B fs -> (total_cost fs <= mem)%Z ->
    concat chunks = enc_form B fs ->
    exists d, post_of_markup (enc_form B fs) (markup_chunks B chunks) mem = POk d
              /\ view (enc_form B fs) d = Some (expected fs).
Proof. exact roundtrip_streaming. Qed.
Print Assumptions C07_roundtrip_streaming.

(* THROUGH THE WHOLE PIPELINE MODEL (model/BodyPipeline.v: process), CONTENT-LENGTH
   FRAMING.  With CONTENT_TYPE = multipart/form-data; boundary=b (b non-empty,
   without ; CR LF), a CONTENT_LENGTH header that int() reads as the exact length
   (any spelling), a Transfer-Encoding that does not contain "chunked", ANY
   fragmentation schedule of the input stream, ANY max_memfile_size > 0 that the
   header blocks and text values fit in (the body may be larger and spill to
   disk), no max_body_size, and ANY json oracle: Request.forms / files / POST
   succeed and show exactly the submitted fields. *)
Theorem C07_roundtrip_through_pipeline :
  forall (jk : bytes -> option jkind) (cfg : config) (b : str) (fs : list fld) (sc : list nat) (a : access)
         (clraw : option str) (te : str),
    form_access a ->
    b <> [] -> lacks SEMI b -> lacks 10 b -> lacks 13 b -> scalars b ->
    parts_ok (utf8_enc_str b) fs ->
    (0 < c_memfile cfg)%nat -> c_maxbody cfg = None ->
    (total_cost fs <= Z.of_nat (c_memfile cfg))%Z ->
    let body := enc_form (utf8_enc_str b) fs in
    Chunked.te_chunked te = false ->
    content_length (mkFraming clraw te) = Some (Z.of_nat (length body)) ->
    exists d,
      process jk cfg (mp_ctype b) (mkFraming clraw te) (stream_init body sc) a = Ok (VMultipart d)
      /\ view body d = Some (expected fs).
Proof. exact roundtrip_pipeline. Qed.
Print Assumptions C07_roundtrip_through_pipeline.

(* ... AND CHUNKED FRAMING.  For EVERY legal chunked encoding of the encoded form
   (Chunked.enc_chunked: any partition into chunks, any hex spelling of the sizes
   — case, leading zeros —, any chunk extensions, any trailer section), a
   Transfer-Encoding containing "chunked", whatever Content-Length says (absent,
   or any int), ANY read schedule, every max_memfile_size that holds the longest
   size line and the in-memory budget: the same result.  Composition of C05_exact
   (bodyA), the refinement proofs/C12_refine.v, C06 stream_eq_ref (mpB1) and
   C07_roundtrip. *)
Theorem C07_roundtrip_through_pipeline_chunked :
  forall (jk : bytes -> option jkind) (cfg : config) (b : str) (fs : list fld)
         (cs : list Chunked.chunk) (last : Chunked.chunk) (tail : list N) (sc : list nat) (a : access)
         (clraw : option str) (te : str),
    form_access a ->
    b <> [] -> lacks SEMI b -> lacks 10 b -> lacks 13 b -> scalars b ->
    parts_ok (utf8_enc_str b) fs ->
    c_maxbody cfg = None ->
    (total_cost fs <= Z.of_nat (c_memfile cfg))%Z ->
    let body := enc_form (utf8_enc_str b) fs in
    Chunked.te_chunked te = true ->
    content_length (mkFraming clraw te) <> None ->
    Forall Chunked.chunk_ok cs -> Chunked.last_ok last -> Chunked.payload_of cs = body ->
    Forall (fun c => (Chunked.line_len c <= c_memfile cfg)%nat) cs -> (Chunked.line_len last <= c_memfile cfg)%nat ->
    exists d,
      process jk cfg (mp_ctype b) (mkFraming clraw te) (stream_init (Chunked.enc_chunked cs last tail) sc) a
        = Ok (VMultipart d)
      /\ view body d = Some (expected fs).
Proof. exact roundtrip_pipeline_chunked. Qed.
Print Assumptions C07_roundtrip_through_pipeline_chunked.

(* READS ARE A FUNCTION OF THE WINDOW POSITION.  For ANY sequence of seek (all
   three whences, any offset) and read(n) on an upload whose window is [st, end]:
   the position never leaves the window, and every read returns exactly the bytes
   of the buffered body between the old and the new position — BytesIOProxy.read
   positions the shared source itself, so reads through several uploads, or through
   Request.body, may be interleaved freely (seeded change C07-5). *)
Theorem C07_proxy_reads_stay_in_window :
  (forall w, (fst w <= snd w)%Z -> pinv (proxy_open w)) /\
  (forall p pos wh p', pinv p -> proxy_seek p pos wh = Some p' ->
     pinv p' /\ p_st p' = p_st p /\ p_end p' = p_end p) /\
  (forall body p sz b p', pinv p -> proxy_read body p sz = (b, p') ->
     pinv p' /\ p_st p' = p_st p /\ p_end p' = p_end p /\ (p_pos p <= p_pos p')%Z /\
     b = (if (p_pos p' =? p_pos p)%Z then [] else read_at body (p_pos p) (p_pos p' - p_pos p)%Z)).
Proof. exact (conj proxy_open_inv (conj proxy_seek_inv proxy_read_window)). Qed.
Print Assumptions C07_proxy_reads_stay_in_window.

(* Finding F10 (not repaired): an upload whose file name is empty is delivered in
   forms with value None; the round trip therefore requires fn <> [] (in fld_ok). *)
Theorem C07_empty_filename_refuted :
  exists B f, (match f with FFile _ fn _ _ => fn = [] | _ => False end) /\
    match post B (enc_form B [f]) 1000 with
    | POk d => d_files d = [] /\ d_forms d = [(fld_name f, Single (IText None))]
    | _ => False
    end.
Proof. exact F10_empty_filename. Qed.
Print Assumptions C07_empty_filename_refuted.

(* non-vacuity: a text field named a;b with a non-ASCII value, an upload named
   na;me.txt whose content resembles the delimiter, and a repeated name meet the
   guards, and on them the handler's view is exactly the expected dictionaries *)
Example C07_nonvacuous :
  parts_ok ex_B ex_fields /\ (total_cost ex_fields <= 1000)%Z /\
  match post ex_B (enc_form ex_B ex_fields) 1000 with
  | POk d => view (enc_form ex_B ex_fields) d = Some (expected ex_fields)
  | _ => False
  end.
Proof. split; [apply ex_parts_ok|]. split; [apply ex_parts_ok | exact ex_view]. Qed.

(* non-vacuity of the chunked theorem: the example form cut into a 10-byte chunk
   (size spelled "00a") and the rest (upper-case hex, an extension), a trailer,
   Transfer-Encoding "gzip, Chunked", a bogus Content-Length 7, 1-3 byte reads *)
Definition ex_body : bytes := enc_form ex_B ex_fields.
Definition ex_cs : list Chunked.chunk :=
  [ Chunked.mkChunk [48; 48; 97]%N [] (firstn 10 ex_body);
    Chunked.mkChunk (hex_spell 0 [true; true; true] (N.of_nat (length ex_body - 10))) [59; 120; 61; 49]%N
                    (skipn 10 ex_body) ].
Definition ex_last : Chunked.chunk := Chunked.mkChunk [48]%N [] [].

Example C07_chunked_nonvacuous :
  Forall Chunked.chunk_ok ex_cs /\ Chunked.last_ok ex_last /\ Chunked.payload_of ex_cs = ex_body /\
  match process (fun _ => None) (mkCfg 400 None) (mp_ctype ex_B)
                (mkFraming (Some [55]%N) [103; 122; 105; 112; 44; 32; 67; 104; 117; 110; 107; 101; 100]%N)
                (stream_init (Chunked.enc_chunked ex_cs ex_last [88; 58; 121; 13; 10; 13; 10]%N) [0; 2; 1; 0; 2; 2; 0; 1])
                AFiles with
  | Ok (VMultipart d) => view ex_body d = Some (expected ex_fields)
  | _ => False
  end.
Proof.
  split; [|split; [|split]].
  - repeat constructor; try (vm_compute; discriminate); vm_compute; reflexivity.
  - repeat split; vm_compute; reflexivity.
  - vm_compute. reflexivity.
  - vm_compute. reflexivity.
Qed.
