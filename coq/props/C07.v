(* C07 — multipart forms and uploads round-trip exactly.
   Statements only; proofs in proofs/C07_*.v.  Model: model/Fields.v (field
   layer, after fixes F8 F9 F16) on top of model/MultipartRef.v (one-piece
   scanner; C06 relates it to the streaming parser).  Spec side (encoder
   enc_form, guards, expected dictionaries): proofs/C07_spec.v. *)
From Verif Require Import lib.Base lib.Str lib.Utf8 gen.Gen model.MultipartRef model.Fields.
From Verif Require Import proofs.C07_fields proofs.C07_spec proofs.C07_ref proofs.C07_roundtrip proofs.C07_collect
  proofs.C07_full proofs.C07_pins.

(* The regular expression re-implemented by Fields.scan_key/scan_value/opt_matches
   is the one in /repo today (text regenerated into Gen.v on every run). *)
Theorem C07_option_regex_pinned :
  Gen.field_opt_patt_src
  = [40;46;43;63;41;40;61;40;34;91;94;34;93;42;34;124;46;43;63;41;41;63;40;59;124;36;41]%N.
Proof. exact field_opt_patt_pinned. Qed.
Print Assumptions C07_option_regex_pinned.

(* Header parsing: for every name / file name free of double quotes (they may
   contain ; = : spaces, backslashes, any Unicode) the Content-Disposition line a
   browser sends is parsed back to exactly that name and file name. *)
Theorem C07_header_parsing :
  forall n fn : str,
    lacks QUOTE n -> lacks QUOTE fn ->
    parse_header (cd_line n)
      = Some (mkHeader s_content_disposition s_form_data [(s_name, Some n)]) /\
    parse_header (cd_line_file n fn)
      = Some (mkHeader s_content_disposition s_form_data [(s_name, Some n); (s_filename, Some fn)]).
Proof. intros n fn H H'. split; [now apply parse_header_cd | now apply parse_header_cd_file]. Qed.
Print Assumptions C07_header_parsing.

(* Sections: for EVERY boundary and field list within the guards the scanner
   reports exactly one header and one data section per part, at the offsets
   where the encoder put them, and then the closing delimiter. *)
Theorem C07_sections :
  forall (B : bytes) (fs : list fld),
    parts_ok B fs ->
    ref B (enc_form B fs) = (sec Data 0 0 :: secs_from B (length (dash_boundary B)) fs, FStopped).
Proof. exact ref_enc_form. Qed.
Print Assumptions C07_sections.

(* ROUND TRIP.  For EVERY boundary B (any bytes), every list of fields within the
   guards [parts_ok] (names and file names free of double quotes and of the
   str.splitlines breaks — they may contain ; = : spaces, backslashes, any other
   Unicode scalar —; plain content types; any text values; any file bytes; the
   delimiter CRLF--B not inside a value or content; file names non-empty) and
   every in-memory threshold that the header blocks and text values fit in:
   Request.POST succeeds on the body a browser sends, and what the handler sees in
   POST, forms and files (uploads through raw_filename, content_type.value and
   file.read()) is exactly the submitted fields: every distinct name once in order
   of first appearance, bound to its only value or to the list of all its values
   in submission order; text fields in forms, uploads in files. *)
Theorem C07_roundtrip :
  forall (B : bytes) (fs : list fld) (mem : Z),
    parts_ok B fs -> (total_cost fs <= mem)%Z ->
    exists d, post B (enc_form B fs) mem = POk d
              /\ view (enc_form B fs) d = Some (expected fs).
Proof. exact roundtrip. Qed.
Print Assumptions C07_roundtrip.

(* The collection with list promotion (BodyMixin.POST after F9) is the grouping:
   folding the insertion over the fields gives, for each distinct name in order
   of first appearance, its values in submission order. *)
Theorem C07_promotion_is_grouping :
  forall l : list (str * vitem), fold_left vadd1 l [] = grouped l.
Proof. exact fold_vadd_grouped. Qed.
Print Assumptions C07_promotion_is_grouping.

(* NO BYTE OF ONE PART IN ANOTHER.  In the body, every header section and data
   section reported by the scanner (C07_sections) is exactly the window of its own
   part — slice body ds de = the submitted data — and the sections are ordered and
   pairwise disjoint.  (With C07_roundtrip: every delivered value / file content is
   the slice of its own data section.) *)
Theorem C07_no_cross_part_bytes :
  forall (B : bytes) (fs : list fld),
    windows_ok (enc_form B fs) B (length (dash_boundary B)) fs
    /\ ordered_from 0 (sec Data 0 0 :: secs_from B (length (dash_boundary B)) fs).
Proof. exact no_cross_part_bytes. Qed.
Print Assumptions C07_no_cross_part_bytes.

(* Not covered by these theorems (see C06): the body is parsed here by the
   one-piece scanner [ref]; the streaming parser equals it on well-formed bodies
   (proofs/C06_global.v: stream_eq_ref) when CR does not occur in the boundary. *)

(* Finding F10 (not repaired): an upload whose file name is empty is delivered in
   forms with value None; the round trip therefore requires fn <> [] (in fld_ok). *)
Theorem C07_empty_filename_refuted :
  exists B f, (match f with FFile _ fn _ _ => fn = [] | _ => False end) /\
    match post B (enc_form B [f]) 1000 with
    | POk d => d_files d = [] /\ d_forms d = [(fld_name f, Single (IText None))]
    | _ => False
    end.
Proof. exact F10_empty_filename. Qed.
Print Assumptions C07_empty_filename_refuted.

(* non-vacuity: a text field named a;b with a non-ASCII value, an upload named
   na;me.txt whose content resembles the delimiter, and a repeated name meet the
   guards, and on them the handler's view is exactly the expected dictionaries *)
Example C07_nonvacuous :
  parts_ok ex_B ex_fields /\ (total_cost ex_fields <= 1000)%Z /\
  match post ex_B (enc_form ex_B ex_fields) 1000 with
  | POk d => view (enc_form ex_B ex_fields) d = Some (expected ex_fields)
  | _ => False
  end.
Proof. split; [apply ex_parts_ok|]. split; [apply ex_parts_ok | exact ex_view]. Qed.
