(* C20 -- framework error pages never reflect request data unescaped.
   Only statements, each closed by [exact] of a lemma from proofs/C20_html.v,
   followed by Print Assumptions.

   Vocabulary (lib/Html.v, model/ErrPage.v):
     render isp e url debug     error_render.render over error.html (Gen.error_template)
     url_text isp url           what render puts into the {url} field: repr(html.escape(url))
     html_pre e, html_post e    the page text before / after that field: functions of the
                                error object alone (they have no url argument)
     no_angle s                 s contains neither < nor >
     no_quote s                 s contains neither the double nor the single quote
     amp_ok s                   every ampersand in s begins one of &amp; &lt; &gt; &quot; &#x27; &#039;
     markup_free s              s contains none of < > & and no quote
     isp                        the Unicode table behind str.isprintable: arbitrary *)
From Verif Require Import lib.Base lib.Str lib.Html lib.PyRepr model.ErrPage proofs.C20_escape proofs.C20_html proofs.C20_json proofs.C20_pins.

(* For every error object (whatever its status line and body), every url string
   and every printability table: with debug off the page is
   pre ++ field ++ post where pre and post do not depend on the url, and the
   field has no angle bracket, no double quote, no ampersand other than the
   start of an entity, and no single quote other than the two repr puts around it. *)
Theorem C20_html_safe :
  forall (isp : N -> bool) (e : err) (url : str),
    render isp e url false = Some (html_pre e ++ url_text isp url ++ html_post e)
    /\ no_angle (url_text isp url) = true
    /\ amp_ok (url_text isp url) = true
    /\ exists inner, url_text isp url = 39%N :: inner ++ [39%N] /\ no_quote inner = true.
Proof. exact html_safe_lemma. Qed.
Print Assumptions C20_html_safe.

(* If moreover status line and body are plain text, the whole page has exactly
   the angle brackets and double quotes of error.html's static text, in the
   same order, and no bare ampersand: the request added no markup. *)
Theorem C20_html_markup_is_the_templates :
  forall (isp : N -> bool) (e : err) (url : str),
    markup_free (e_status e) = true -> markup_free (e_body e) = true ->
    exists page,
      render isp e url false = Some page
      /\ angles page = angles (literals Gen.error_template)
      /\ dquotes page = dquotes (literals Gen.error_template)
      /\ amp_ok page = true.
Proof. exact page_markup_is_templates. Qed.
Print Assumptions C20_html_markup_is_the_templates.

(* Every literal text of the model that stands for a text of the source equals
   what the translator read from /repo on this build: the list of the framework's
   own HTTPError bodies (ombott.py: _handle, _cast, handler; RadiRouter.resolve),
   the unsupported-type prefix, the two format strings, the status line and the
   header of the last-resort page, the keys of the JSON body.  (Status lines,
   JSON content type, last-resort status line, error.html, the escape chain and
   errors_map are used from Gen directly.)  An added, removed or reworded
   framework error breaks this obligation. *)
Theorem C20_texts_pinned :
  Gen.framework_errors = modelled_framework_errors
  /\ Gen.unsupported_type_error = (500%Z, body_500_type_prefix)
  /\ Gen.critical_page_fmt = crit_head ++ pct_s ++ crit_head_end
  /\ Gen.critical_debug_fmt = crit_err_open ++ pct_s ++ crit_tb_open ++ pct_s ++ crit_close
  /\ Gen.critical_headers = [(h_content_type, crit_ctype)]
  /\ Gen.json_error_keys = [k_body; f_exception; f_traceback].
Proof. exact texts_pinned_lemma. Qed.
Print Assumptions C20_texts_pinned.

(* Instances, over the translator's own lists (so an error added to the source is
   covered without touching the model): every HTTPError the framework creates
   itself -- Gen.framework_errors and DefaultConfig.errors_map -- has a plain
   body and a status code whose status line is plain ... *)
Theorem C20_framework_errors_are_plain :
  forall (w : str) (code : Z) (body : str),
    In (w, (code, body)) Gen.framework_errors \/ In (w, (code, body)) Gen.errors_map ->
    markup_free body = true
    /\ exists line, assocZ code Gen.status_lines = Some line /\ markup_free line = true.
Proof. exact framework_errors_plain_lemma. Qed.
Print Assumptions C20_framework_errors_are_plain.

(* ... every error object the model builds (other than the unsupported-type one)
   carries a body and status line from those lists ... *)
Theorem C20_modelled_errors_come_from_the_source :
  forall (k : kind) (x : exc) (tb : option str) (e : err),
    not_type_kind k = true -> err_of_kind k x tb = Some e ->
    exists w code,
      (In (w, (code, e_body e)) Gen.framework_errors \/ In (w, (code, e_body e)) Gen.errors_map)
      /\ assocZ code Gen.status_lines = Some (e_status e).
Proof. exact modelled_errors_from_source. Qed.
Print Assumptions C20_modelled_errors_come_from_the_source.

(* ... hence C20_html_markup_is_the_templates applies to each of them. *)
Theorem C20_modelled_errors_are_plain :
  forall (k : kind) (x : exc) (tb : option str) (e : err),
    not_type_kind k = true -> err_of_kind k x tb = Some e ->
    markup_free (e_status e) = true /\ markup_free (e_body e) = true.
Proof. exact framework_errors_plain. Qed.
Print Assumptions C20_modelled_errors_are_plain.

(* ... with one exception: the body of the "Unsupported response type" error
   shows str(type(x)), which contains angle brackets.  The text is chosen by the
   application's return value, not by the request; C20_html_safe still applies. *)
Theorem C20_unsupported_type_body_plain_refuted :
  exists ty e, err_of_kind (K500_type ty) ExcNone None = Some e /\ markup_free (e_body e) = false.
Proof. exact type_body_has_markup. Qed.
Print Assumptions C20_unsupported_type_body_plain_refuted.

(* With debug off the page does not depend on the exception or the traceback. *)
Theorem C20_no_debug_leak :
  forall (isp : N -> bool) (e : err) (url : str) (x : exc) (tb : option str),
    render isp (mkErr (e_status e) (e_body e) x tb) url false = render isp e url false.
Proof. exact render_nodebug_ignores_exception. Qed.
Print Assumptions C20_no_debug_leak.

(* The last-resort page: fixed text around html_escape(PATH_INFO) and, with
   debug on, around html_escape(repr(exception)) and html_escape(traceback);
   every escaped text is free of angle brackets, quotes and bare ampersands. *)
Theorem C20_critical_page_safe :
  forall (isp : N -> bool) (path_info : option str) (debug : bool) (x : exc) (tb : str),
    critical_page isp path_info debug x tb
    = crit_head
      ++ html_escape_ombott (match path_info with Some p => p | None => crit_default_path end)
      ++ crit_head_end
      ++ (if debug then crit_err_open ++ html_escape_ombott (repr_exc isp x) ++ crit_tb_open
                        ++ html_escape_ombott tb ++ crit_close
          else [])
    /\ forall s, no_angle (html_escape_ombott s) = true /\ no_quote (html_escape_ombott s) = true
                 /\ amp_ok (html_escape_ombott s) = true.
Proof. exact critical_page_safe_lemma. Qed.
Print Assumptions C20_critical_page_safe.

(* JSON rendering.  parse_json_obj is the JSON reader of model/ErrPage.v (RFC 8259
   objects whose values are strings or null; string literals in full).  For ALL
   body / exception / traceback strings the JSON error body is accepted by it
   and has exactly the members body, exception, traceback; jdec s is what the
   reader makes of the literal the encoder wrote for s ... *)
Theorem C20_json_valid :
  forall (isp : N -> bool) (e : err),
    parse_json_obj (error_json isp e)
    = JOk [(k_body, Some (jdec (e_body e)));
           (f_exception, Some (jdec (repr_exc isp (e_exc e))));
           (f_traceback, option_map jdec (e_tb e))].
Proof. exact error_json_valid. Qed.
Print Assumptions C20_json_valid.

(* ... and that is s itself whenever s consists of Unicode scalar values (below
   0x110000, no surrogate code points; a lone surrogate next to another one is
   the only thing json.loads would read back differently). *)
Theorem C20_json_reads_back :
  forall s : str, forallb is_scalar s = true -> jdec s = s.
Proof. exact join_scalar. Qed.
Print Assumptions C20_json_reads_back.

(* The whole response of a framework error with debug off: JSON when the Accept
   header starts with application/json (the url is not part of it at all),
   otherwise the HTML page of C20_html_safe with the default Content-Type. *)
Theorem C20_error_response_shape :
  forall (isp : N -> bool) (k : kind) (x : exc) (tb : option str) (url : str) (accept : option str) (e : err),
    err_of_kind k x tb = Some e ->
    respond_error isp k x tb url accept false
    = if is_json_requested accept
      then Resp (e_status e) ctype_json (error_json isp e)
      else Resp (e_status e) Gen.default_content_type (html_pre e ++ url_text isp url ++ html_post e).
Proof. exact error_response_shape. Qed.
Print Assumptions C20_error_response_shape.

(* One application object answering several requests: the response to a request
   is a function of that request alone -- whatever was answered before (e.g. the
   same URL as an HTML page) or comes after does not change it.  In the model
   this holds by construction (respond_seq keeps no state); the correspondence
   check runs request sequences on one Ombott object against it. *)
Theorem C20_response_function_of_request :
  forall (isp : N -> bool) (before after : list request) (q : request),
    length (respond_seq isp (before ++ q :: after)) = length (before ++ q :: after)
    /\ nth_error (respond_seq isp (before ++ q :: after)) (length before) = Some (respond_req isp q).
Proof. exact response_function_of_request. Qed.
Print Assumptions C20_response_function_of_request.

(* HEAD: same status line and Content-Type as the corresponding GET, empty body
   (both for framework errors; the last-resort page is handled the same way by
   drop_body in corr_C20). *)
Theorem C20_head_response_has_no_body :
  forall (isp : N -> bool) (q : request),
    match respond_req isp (with_head q false), respond_req isp (with_head q true) with
    | Resp st ct _, Resp st' ct' b' => st' = st /\ ct' = ct /\ b' = []
    | KeyErr, KeyErr => True
    | _, _ => False
    end.
Proof. exact head_response. Qed.
Print Assumptions C20_head_response_has_no_body.

(* OBSERVATION, NOT A VIOLATION OF C20 (C20 asks of the JSON body only that it be
   valid JSON): default_error_handler's JSON branch has no debug switch, so
   unlike the HTML page (C20_no_debug_leak) the JSON body carries repr(exception)
   and the traceback even with debug off.  Recorded so that the behaviour of the
   model is explicit; reported to the coordinator as out of scope. *)
Theorem C20_observation_json_branch_exposes_exception :
  exists (e : err) (x : exc) (tb : option str),
    default_error_handler (fun _ => true) (mkErr (e_status e) (e_body e) x tb) [] (Some accept_json) false
    <> default_error_handler (fun _ => true) e [] (Some accept_json) false.
Proof. exact json_branch_exposes_exception. Qed.
Print Assumptions C20_observation_json_branch_exposes_exception.

(* non-vacuity: a 404 for a url full of markup *)
Example C20_nonvacuous :
  let url := [104; 116; 116; 112; 58; 47; 47; 104; 47; 63; 60; 115; 99; 114; 105; 112; 116; 62; 38; 34; 39; 123; 48; 125]%N in
  match err_of_kind K404 ExcNone None with
  | Some e => markup_free (e_status e) = true /\ markup_free (e_body e) = true
              /\ exists page, render (fun _ => true) e url false = Some page /\ length page = 568
  | None => False
  end.
Proof. vm_compute. repeat split. eexists. split; reflexivity. Qed.

(* non-vacuity of the JSON theorems: a traceback with quotes, a control character, non-ASCII and an astral character *)
Example C20_json_nonvacuous :
  let tb := [34; 92; 10; 7; 233; 8232; 128512]%N in
  forallb is_scalar tb = true
  /\ parse_json_obj (error_json (fun _ => true) (mkErr [53; 48; 48]%N [60; 98; 62]%N (ExcMsg [69]%N [39; 60]%N) (Some tb)))
     = JOk [(k_body, Some [60; 98; 62]%N); (f_exception, Some [69; 40; 34; 39; 60; 34; 41]%N); (f_traceback, Some tb)].
Proof. vm_compute. split; reflexivity. Qed.
