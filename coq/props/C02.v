(* C02 — method dispatch: verb, HEAD->GET and ANY fallbacks, 405 with exact
   Allow, 404/405 split.  Only statements; proofs are in proofs/C02_proofs.v. *)
From Coq Require Import Sorting.Sorted.
From Verif Require Import lib.Base lib.Str gen.Gen model.RouteSpec model.Dispatch model.Router
     proofs.C02_proofs.

(* Once the path has selected a route with method table t, a request with
   method [verb] (any case spelling) goes to the handler registered for VERB,
   else — for HEAD only — to the GET handler, else to the ANY handler, else the
   answer is 405 carrying [allow t].  The candidate lists are read from
   ombott.py (Gen.cands_head / Gen.cands_other): editing them breaks this. *)
Theorem C02_dispatch_order : forall (t : mtable) (verb : str),
  let V := upper verb in
  dispatch_verb t verb =
    match mt_get t V with
    | Some e => DCall V e
    | None =>
      match (if str_eqb V s_HEAD then mt_get t s_GET else None) with
      | Some e => DCall s_GET e
      | None => match mt_get t s_ANY with
                | Some e => DCall s_ANY e
                | None => D405 (allow t)
                end
      end
    end.
Proof. exact dispatch_order_lemma. Qed.
Print Assumptions C02_dispatch_order.

(* the same for an arbitrary candidate list: the handler called is the one of
   the FIRST candidate that is registered *)
Theorem C02_dispatch_first_registered : forall (t : mtable) (cs : list str) (m : str) (e : mentry),
  dispatch_on t cs = DCall m e <->
  exists pre post, cs = pre ++ m :: post /\ (forall c, In c pre -> mt_get t c = None) /\ mt_get t m = Some e.
Proof. exact dispatch_first_lemma. Qed.
Print Assumptions C02_dispatch_first_registered.

(* 405 => no candidate is registered, and Allow is the ","-join of the
   strictly increasing (by code point) list of exactly the registered names;
   for every table produced by any edit history *)
Theorem C02_allow_exact : forall (ops : list mop) (cs : list str) (a : str),
  dispatch_on (mrun ops) cs = D405 a ->
  (forall c, In c cs -> mt_get (mrun ops) c = None) /\
  exists l, a = join s_comma l /\ StronglySorted slt l /\
            forall m, In m l <-> mt_has (mrun ops) m = true.
Proof. exact allow_exact_lemma. Qed.
Print Assumptions C02_allow_exact.

(* every method table of every router state reachable by any script of
   registrations / removals / hook edits IS such an edit history, so
   C02_allow_exact and C02_history apply to it *)
Theorem C02_reachable_tables_are_histories : forall (cs : list cmd) (rt : route),
  In rt (heap (exec_cmds router0 cs)) -> exists ops, r_methods rt = mrun ops.
Proof. exact reachable_tables_lemma. Qed.
Print Assumptions C02_reachable_tables_are_histories.

(* 404 exactly when the path lookup selects no route — never because of the
   method; 405 only on a route the path selected, with that route's Allow.
   (That the path lookup `get` selects a route iff some registered rule matches
   is C01.) *)
Theorem C02_404_iff_no_route : forall filt (R : router) (path : str) (cs : list str),
  (exists vs hs i, resolve filt R path cs = R404 vs hs i) <->
  (exists vs hs i, get filt true (tree R) (strip_sep path) = GFail vs hs i).
Proof. exact resolve_404_lemma. Qed.
Print Assumptions C02_404_iff_no_route.

Theorem C02_405_only_on_matched_route : forall filt (R : router) (path : str) (cs : list str) (a : str),
  resolve filt R path cs = R405 a ->
  exists d nm vs hs rt,
    get filt true (tree R) (strip_sep path) = GFound d nm vs hs /\
    nth_error (heap R) d = Some rt /\
    a = allow (r_methods rt) /\
    forall c, In c cs -> mt_get (r_methods rt) c = None.
Proof. exact resolve_405_lemma. Qed.
Print Assumptions C02_405_only_on_matched_route.

(* a call: the selected route's table dispatched the candidates, and the
   kwargs are the names of the rule THAT METHOD was registered under (F2)
   zipped with the extracted values *)
Theorem C02_call_only_on_matched_route : forall filt (R : router) path cs d m h kw hs,
  resolve filt R path cs = ROk d m h kw hs ->
  exists nm vs rt mn,
    get filt true (tree R) (strip_sep path) = GFound d nm vs hs /\
    nth_error (heap R) d = Some rt /\
    dispatch_on (r_methods rt) cs = DCall m (h, mn) /\
    kw = make_params (match mn with [] => nm | _ => mn end) vs.
Proof. exact resolve_ok_lemma. Qed.
Print Assumptions C02_call_only_on_matched_route.

(* registration and request are case-insensitive (ASCII) *)
Theorem C02_case_insensitive : forall (t : mtable) (ms ms' : list str) (e : mentry) (verb verb' : str),
  map upper ms = map upper ms' -> upper verb = upper verb' ->
  mstep t (MAdd ms e) = mstep t (MAdd ms' e) /\
  mstep t (MSet ms e) = mstep t (MSet ms' e) /\
  mstep t (MAdd ms e) = mstep t (MAdd (map upper ms) e) /\
  dispatch_verb t verb = dispatch_verb t verb' /\
  dispatch_verb t verb = dispatch_verb t (upper verb).
Proof. exact case_insensitive_lemma. Qed.
Print Assumptions C02_case_insensitive.

(* [mop] also contains the Route API called directly (route.add_method /
   route.set_method on the object found by router[{rule}]: MAddRaw / MSetRaw, no
   upper-casing) — audit round 4; C02_reachable_tables_are_histories covers it. *)
(* after ANY sequence of add / overwrite / rejected add / remove_method the
   table is the finite map [srun ops] (plain reading of the three operations:
   an add that meets a registered name changes nothing) and has no duplicate
   key *)
Theorem C02_history : forall (ops : list mop),
  (forall m, mt_get (mrun ops) m = srun ops m) /\ NoDup (map fst (mrun ops)).
Proof. exact history_lemma. Qed.
Print Assumptions C02_history.

(* non-vacuity: HEAD falls back to GET before ANY; PUT falls to ANY; after the
   removals 405 with Allow "ANY,GET" sorted; a mixed-case rejected add *)
Example C02_nonvacuous :
  let G := [103; 101; 116]%N in   (* "get" *)
  let t := mrun [MAdd [G] (1, []); MAdd [s_ANY] (2, []); MAdd [[71; 101; 84]%N] (3, [])] in
  dispatch_verb t [104; 101; 97; 100]%N = DCall s_GET (1, []) /\
  dispatch_verb t [80; 85; 84]%N = DCall s_ANY (2, []) /\
  dispatch_verb (mrun [MAdd [s_GET; s_ANY] (1, []); MRemove [s_ANY]]) [80; 85; 84]%N = D405 s_GET /\
  dispatch_verb (mrun [MAdd [s_GET; [90]%N; s_ANY] (1, []); MRemove [s_ANY]]) [80; 85; 84]%N
    = D405 [71; 69; 84; 44; 90]%N.
Proof. vm_compute. repeat split. Qed.
