(* C12 — malformed request bodies yield client errors, never server faults.
   Statements only; proofs in proofs/C12_*.v.  Model: model/BodyPipeline.v
   (process: the whole pipeline _body / _get_body_string / json / POST with
   BaseRequest._raise and DefaultConfig.errors_map from Gen.v, the streaming
   multipart parser Multipart.markup_chunks, the field layer Fields.v), faithful
   to /repo after the fixes F4-F9, F16. *)
From Verif Require Import lib.Base lib.Str lib.Utf8 gen.Gen.
From Verif Require Import model.Stream model.Body model.MultipartRef model.Multipart model.Fields model.BodyPipeline.
From Verif Require model.Chunked.
From Verif Require Import proofs.C12_pipeline proofs.C12_terminates proofs.C12_markup proofs.C12_delivered proofs.C12_wf proofs.C12_refine proofs.C12_any
  proofs.C07_pins proofs.C06_model_pins.

(* The regular expression re-implemented by BodyPipeline.boundary_match is the
   one in /repo today; the error map sends the three request-error classes to 4xx. *)
Theorem C12_pins :
  Gen.boundary_patt_src
  = [94;109;117;108;116;105;112;97;114;116;47;46;43;63;98;111;117;110;100;97;114;121;61;40;46;43;63;41;40;59;124;36;41]%N
  (* FieldStorage._patt, re-implemented by Fields.scan_key / scan_value / opt_matches, which the
     pipeline uses for every header line: an edited option regex (e.g. one that backtracks
     exponentially: the "never hangs" clause) breaks this obligation *)
  /\ Gen.field_opt_patt_src
    = [40;46;43;63;41;40;61;40;34;91;94;34;93;42;34;124;46;43;63;41;41;63;40;59;124;36;41]%N
  (* end_headers_patt of the streaming parser (re-implemented in Multipart.hsearch) *)
  /\ Gen.end_headers_patt_src
    = [40; 92; 114; 92; 110; 92; 114; 92; 110; 41; 124; 40; 92; 114; 40; 92; 110; 92; 114; 63; 41; 63; 41; 36]%N
  /\ (forall cls c, emap_get Gen.errors_map cls = Some c -> (400 <= c < 500)%Z)
  /\ (exists c, emap_get Gen.errors_map n_RequestError = Some c).
Proof.
  split; [exact boundary_patt_pinned|]. split; [exact field_opt_patt_pinned|]. split; [exact end_headers_patt_pinned|]. split; [exact errors_map_codes|].
  destruct errors_map_request_error as (c & H & _). now exists c.
Qed.
Print Assumptions C12_pins.

(* For EVERY json oracle, configuration (buffer size, body limit), CONTENT_TYPE
   string, framing (any Content-Length integer, chunked or not), input stream
   (any bytes, any fragmentation schedule) and accessed property (forms, files,
   POST, json, body), the pipeline ends in Ok or in a Client response; no
   ServerFault constructor (assert failure, negative seek, unmapped error class,
   unencodable boundary, loop out of fuel) is ever produced.
   Guards: CONTENT_TYPE holds only scalar values (PEP 3333: it is latin-1), and
   the CONTENT_LENGTH header, when present and non-empty, is something int()
   accepts (finding C12-content-length-not-int below: otherwise 500). *)
Theorem C12_no_server_fault :
  forall (jk : bytes -> option jkind) (cfg : config) (ctype : str) (fr : framing) (s : stream) (a : access),
    Forall scalar ctype ->
    content_length fr <> None ->
    forall w, process jk cfg ctype fr s a <> ServerFault w.
Proof.
  intros jk cfg ctype fr s a Hc Hcl. apply process_no_fault.
  - exact Hc.
  - exact Hcl.
  - intros cl. apply read_parts_terminates.
  - intros B parts. apply markup_chunks_ok.
Qed.
Print Assumptions C12_no_server_fault.

(* The same for a handler that reads two properties in a row on one request
   (process_seq: each property is a function of the request; the caches only
   memoise; a first access that fails ends the request). *)
Theorem C12_no_server_fault_two_accesses :
  forall jk cfg ctype fr s pre a,
    Forall scalar ctype -> content_length fr <> None ->
    forall w, process_seq jk cfg ctype fr s pre a <> ServerFault w.
Proof.
  intros jk cfg ctype fr s pre a Hc Hcl. apply process_seq_no_fault.
  - exact Hc.
  - exact Hcl.
  - intros cl. apply read_parts_terminates.
  - intros B parts. apply markup_chunks_ok.
Qed.
Print Assumptions C12_no_server_fault_two_accesses.

(* ... and every Client response is a 4xx *)
Theorem C12_client_codes_4xx :
  forall cls, exists c, raise_ cls = Client c /\ (400 <= c < 500)%Z.
Proof. exact raise_client. Qed.
Print Assumptions C12_client_codes_4xx.

(* Termination: the read loops (Content-Length and chunked) never run out of
   fuel — every iteration consumes at least one byte of the stream. *)
Theorem C12_terminates :
  forall (cfg : config) (cl : Z) (te : str) (s : stream), read_parts cfg cl te s <> ROutOfFuel.
Proof. exact read_parts_terminates. Qed.
Print Assumptions C12_terminates.

(* The section list of the streaming parser, for ANY boundary and ANY chunks
   (malformed included): alternates Data, Headers, Data, ... and no section
   starts at a negative offset — the asserts of iter_items cannot fail and no
   seek is negative. *)
Theorem C12_markup_shape :
  forall (B : bytes) (chunks : list bytes),
    altb Data (fst (markup_chunks B chunks)) = true /\ starts_nonneg (fst (markup_chunks B chunks)).
Proof. intros B chunks. split; [apply markup_chunks_alternates | apply markup_chunks_starts_nonneg]. Qed.
Print Assumptions C12_markup_shape.

(* The pipeline's readers (which keep the list of parts for the streaming parser)
   ARE the models of C04/C05: for ALL inputs they end like Chunked.body_read_env —
   the glue of Request._body over Body.body_read_cl / Chunked.body_read_chunked —
   and their parts concatenate to its body. *)
Theorem C12_readers_are_C04_C05 :
  forall (cfg : config) (cl : Z) (te : str) (s : stream),
    refines (Chunked.body_read_env s (c_memfile cfg) (c_maxbody cfg) cl te) (read_parts cfg cl te s).
Proof. exact read_parts_refines. Qed.
Print Assumptions C12_readers_are_C04_C05.

(* FINDING C12-content-length-not-int (not repaired: most WSGI servers validate
   Content-Length before the application is called).  BodyMixin.content_length is
   int(environ.get('CONTENT_LENGTH') or -1): a value int() rejects ("abc", "1e3",
   "12abc") raises ValueError inside _body, which is not a RequestError, and the
   request ends as 500 — for every body, content type and access that reads the body. *)
Theorem C12_content_length_not_int_refuted :
  exists (fr : framing),
    content_length fr = None /\
    forall jk cfg s, process jk cfg [] fr s ABody = ServerFault FContentLength.
Proof.
  exists (mkFraming (Some [97; 98; 99]%N) []). split; [vm_compute; reflexivity|].
  intros jk cfg s. reflexivity.
Qed.
Print Assumptions C12_content_length_not_int_refuted.

(* DELIVERED FIELDS ARE COMPLETE.  Whenever forms / files / POST succeed on a
   multipart body — ANY bytes, any framing, any chunking — every item of the three
   dictionaries is the complete content of a data section [ds, de) that the
   streaming parser reported after the preamble: an upload's window is exactly
   (ds, de), a text value is the UTF-8 decoding of exactly body[ds:de].
   (IText None: an upload with an empty file name, finding F10 — nothing delivered.) *)
Theorem C12_delivered_fields_complete :
  forall jk cfg ctype fr s a d,
    process jk cfg ctype fr s a = Ok (VMultipart d) ->
    exists b B cl parts,
      boundary_match ctype = Some b /\ utf8_encode b = Some B /\ contains_char N.eqb CR B = false /\
      content_length fr = Some cl /\ read_parts cfg cl (fr_te fr) s = RDone parts /\
      forall it, In it (all_items d) ->
                 delivered_ok (concat parts) (fst (markup_chunks B parts)) it.
Proof. exact delivered_fields_complete. Qed.
Print Assumptions C12_delivered_fields_complete.

(* ... and such a data section is closed by a delimiter: in the one-piece scanner
   every data section after the preamble ends exactly where CRLF--B starts, *)
Theorem C12_data_sections_closed :
  forall B body k ds de,
    In (k, ds, de) (tl (fst (ref B body))) -> k = Data ->
    exists q, de = Z.of_nat q /\ prefixb (token B) (skipn q body) = true.
Proof. exact ref_data_closed. Qed.
Print Assumptions C12_data_sections_closed.

(* and (C06: stream_eq_ref) on every prefix of a well-formed body, however it is
   cut into chunks, the streaming parser reports exactly those sections: a
   TRUNCATED well-formed body never yields a truncated field. *)
Theorem C12_truncated_never_delivered :
  forall B parts it,
    wf_prefix B (concat parts) ->
    delivered_ok (concat parts) (fst (markup_chunks B parts)) it ->
    closed_item B (concat parts) it.
Proof. exact delivered_closed_wf. Qed.
Print Assumptions C12_truncated_never_delivered.

(* ... AND ON ARBITRARY INPUT (C06_data_sections_closed_any_input, mpB1): whatever
   bytes are sent, under any framing and chunking, a delivered field is exactly
   the bytes from the start [ds] of its data section up to the FIRST occurrence of
   the delimiter CRLF--B at or after ds (which lies inside the body): a text value
   is the UTF-8 decoding of body[ds : ds+q], an upload's window is (ds, ds+q), with
   findb (token B) (skipn ds body) = Some q.  Never a truncated part. *)
Theorem C12_delivered_fields_complete_any_input :
  forall jk cfg ctype fr s a d,
    process jk cfg ctype fr s a = Ok (VMultipart d) ->
    exists b B cl parts,
      boundary_match ctype = Some b /\ utf8_encode b = Some B /\
      content_length fr = Some cl /\ read_parts cfg cl (fr_te fr) s = RDone parts /\
      forall it, In it (all_items d) -> closed_any B (concat parts) it.
Proof. exact delivered_fields_complete_any_input. Qed.
Print Assumptions C12_delivered_fields_complete_any_input.

(* non-vacuity: a body with a header line without colon is a client error, a
   well-formed one is delivered *)
Example C12_nonvacuous :
  let ct := [109;117;108;116;105;112;97;114;116;47;102;111;114;109;45;100;97;116;97;59;32;98;111;117;110;100;97;114;121;61;88]%N in
  let bad := [45;45;88;13;10;120;13;10;13;10;118;13;10;45;45;88;45;45;13;10]%N in
  let good := [45;45;88;13;10;67;111;110;116;101;110;116;45;68;105;115;112;111;115;105;116;105;111;110;58;32;102;111;114;109;45;100;97;116;97;59;32;110;97;109;101;61;34;97;34;13;10;13;10;118;13;10;45;45;88;45;45;13;10]%N in
  process (fun _ => None) (mkCfg 7 None) ct (mkFraming (Some [50;48]%N) []) (stream_init bad [2;0;5]) AForms = Client 400
  /\ match process (fun _ => None) (mkCfg 48 None) ct (mkFraming (Some [32;54;51;32]%N) []) (stream_init good [2;0;5]) AForms with
     | Ok (VMultipart d) => d_forms d = [([97]%N, Single (IText (Some [118]%N)))]
     | _ => False
     end.
Proof. vm_compute. split; reflexivity. Qed.
