(* C05 — chunked transfer decoding is exact and rejects every truncation.
   Statements only; proofs in proofs/C05_scan.v, proofs/C05_proofs.v, lib/PyIntHex.v.

   Vocabulary (model/Chunked.v):
     chunk            = (c_size : spelling of the size, c_ext : extension incl. ';', c_data : payload)
     chunk_ok c       = c_data c <> [] /\ hex_val (c_size c) = Some (length (c_data c)) /\ ext_ok (c_ext c)
                        (hex_val: non-empty string of hex digits, ANY case, ANY leading zeros;
                         ext_ok: empty, or ';' followed by bytes without CR LF)
     last_ok c        = no data, hex_val (c_size c) = Some 0, ext_ok (c_ext c)
     enc_line c       = c_size c ++ c_ext c ++ CRLF          line_len c = its length
     enc_chunk c      = enc_line c ++ c_data c ++ CRLF
     enc_chunked cs last tail = all chunks ++ enc_line last ++ tail     (tail: trailers, final CRLF, anything)
     body_read_chunked (stream_init data sc) buf maxb
                      = _body_read(read, buf, chunked=True, max_body_size=maxb) on a stream that delivers
                        [data] fragmented by the schedule [sc] (model/Stream.v). *)
From Verif Require Import lib.Base lib.Str lib.PyIntHex model.Stream model.Body model.Chunked model.BodyLimits gen.Gen
     proofs.C05_scan proofs.C05_proofs.

(* Exactness.  For every list of legal chunks, every legal last-chunk line, any
   bytes after it, every buffer that holds the longest size line (longer lines
   are rejected by design) and EVERY read fragmentation: the body is exactly the
   concatenation of the payloads, the spill flag depends on its size only, and
   the stream is left right after the last-chunk line (nothing of the trailer
   section is consumed). *)
Theorem C05_exact :
  forall (cs : list chunk) (last : chunk) (tail : list N) (buf : nat) (sc : list nat),
    Forall chunk_ok cs -> last_ok last ->
    Forall (fun c => line_len c <= buf) cs -> line_len last <= buf ->
    exists s',
      body_read_chunked (stream_init (enc_chunked cs last tail) sc) buf None
      = BDone (payload_of cs) (Nat.ltb buf (length (payload_of cs))) s'
      /\ rest s' = tail
      /\ pos s' = length (enc_chunked cs last tail) - length tail.
Proof. exact C05_exact_lemma. Qed.
Print Assumptions C05_exact.

(* Truncation.  Every strict prefix of (chunks ++ last-chunk line) — i.e. every
   encoding cut anywhere before the end of its terminating zero-size chunk line
   — is a parsing error, for EVERY buffer size and read fragmentation. *)
Theorem C05_truncation_rejected :
  forall (cs : list chunk) (last : chunk) (p : list N) (buf : nat) (sc : list nat),
    Forall chunk_ok cs -> last_ok last ->
    strict_prefix p (flat_map enc_chunk cs ++ enc_line last) ->
    exists s', body_read_chunked (stream_init p sc) buf None = BParseErr s'.
Proof. exact C05_truncation_lemma. Qed.
Print Assumptions C05_truncation_rejected.

(* Missing terminator.  If the data of some chunk is followed by anything that
   does not start with CR LF (any two other bytes, a single byte, nothing), the
   body is a parsing error, for every buffer size and read fragmentation. *)
Theorem C05_missing_crlf_rejected :
  forall (pre : list chunk) (c : chunk) (t : list N) (buf : nat) (sc : list nat),
    Forall chunk_ok pre -> chunk_ok c ->
    prefixb CRLF t = false ->
    exists s', body_read_chunked
                 (stream_init (flat_map enc_chunk pre ++ enc_line c ++ c_data c ++ t) sc) buf None
               = BParseErr s'.
Proof. exact C05_missing_crlf_lemma. Qed.
Print Assumptions C05_missing_crlf_rejected.

(* Totality.  For EVERY byte string, buffer size and read fragmentation the
   decoder terminates (the fuel length+1 suffices) with either a body or a
   parsing error — the model has an explicit constructor for every place the
   code can raise, and int(...,16) failing is one of them. *)
Theorem C05_total :
  forall (data : list N) (sc : list nat) (buf : nat),
    (exists body sp s', body_read_chunked (stream_init data sc) buf None = BDone body sp s')
    \/ (exists s', body_read_chunked (stream_init data sc) buf None = BParseErr s').
Proof. exact C05_total_lemma. Qed.
Print Assumptions C05_total.

Theorem C05_fuel_suffices :
  forall (data : list N) (sc : list nat) (buf : nat) (maxb : option nat),
    body_read_chunked (stream_init data sc) buf maxb <> BOutOfFuel.
Proof. exact C05_total_limit_lemma. Qed.
Print Assumptions C05_fuel_suffices.

(* The glue of Request._body: when the Transfer-Encoding header contains
   "chunked" (any case, anywhere in the value) the body is read by the chunked
   decoder WHATEVER Content-Length says (absent, 0, small, the raw length,
   larger) — so all the theorems above apply to such requests unchanged. *)
Theorem C05_chunked_overrides_content_length :
  forall (s : stream) (buf : nat) (maxb : option nat) (cl : Z) (te : list N),
    te_chunked te = true ->
    body_read_env s buf maxb cl te = body_read_chunked s buf maxb.
Proof. exact C05_chunked_overrides_cl_lemma. Qed.
Print Assumptions C05_chunked_overrides_content_length.

Example C05_te_chunked_nonvacuous :
  te_chunked [103; 122; 105; 112; 44; 32; 67; 104; 117; 78; 75; 101; 100]%N = true   (* "gzip, ChuNKed" *)
  /\ te_chunked [105; 100; 101; 110; 116; 105; 116; 121]%N = false                    (* "identity" *)
  /\ te_chunked [] = false.
Proof. vm_compute. repeat split. Qed.

(* ... also from the RAW header: whatever integer int(CONTENT_LENGTH) yields
   (content_length_raw: absent / empty = -1, any spelling int() accepts), a
   chunked transfer coding is read by the chunked decoder. *)
Theorem C05_chunked_overrides_raw_content_length :
  forall (s : stream) (buf : nat) (maxb : option nat) (raw : option (list N)) (te : list N) (cl : Z),
    te_chunked te = true -> content_length_raw raw = Some cl ->
    body_read_raw s buf maxb raw te = Some (body_read_chunked s buf maxb).
Proof. exact C05_chunked_overrides_raw_cl_lemma. Qed.
Print Assumptions C05_chunked_overrides_raw_content_length.

(* FINDING (not repaired; the same defect as C12-content-length-not-int): the
   hypothesis above is needed — a Content-Length that int() rejects makes
   BodyMixin.content_length raise ValueError before the chunked decoder is even
   chosen, so a chunked request carrying "Content-Length: abc" is a 500. *)
Theorem C05_content_length_not_int_refuted :
  exists (raw te : list N),
    te_chunked te = true /\
    forall s buf maxb, body_read_raw s buf maxb (Some raw) te = None.
Proof. exact C05_cl_not_int_lemma. Qed.
Print Assumptions C05_content_length_not_int_refuted.

(* Object reuse: in a sequence of requests served by one application (one
   Request object, shared HTTPError instances in errors_map) every response is
   the function corr_C05_one of its own request, whatever came before or after. *)
Theorem C05_response_function_of_request :
  forall (pre post : list (list Z)) (x : list Z),
    nth (length pre) (run_seq (pre ++ x :: post)) [] = corr_C05_one x.
Proof. exact C05_seq_lemma. Qed.
Print Assumptions C05_response_function_of_request.

(* Application-supplied errors_map (any map, through the constructor or setup()):
   BaseRequest._raise looks up the exact class of the error, then the family
   base RequestError.  So every truncated chunked body is answered with the
   status mapped for BodyParsingError, or — when only the base class is mapped —
   with the status of RequestError: a client error either way, never the bare
   exception.  (wsgi_body = Request.body through _body and _raise.) *)
Theorem C05_truncation_mapped_by_family :
  forall (m : list (list N * (Z * list N))) (cs : list chunk) (last : chunk) (p : list N) (buf : nat)
         (sc : list nat) (clraw : option (list N)) (te : list N) (cl code : Z),
    te_chunked te = true -> content_length_raw clraw = Some cl ->
    Forall chunk_ok cs -> last_ok last ->
    strict_prefix p (flat_map enc_chunk cs ++ enc_line last) ->
    (emap_get m cls_BodyParsingError = Some code
     \/ (emap_get m cls_BodyParsingError = None /\ emap_get m cls_RequestError = Some code)) ->
    exists s', wsgi_body m (stream_init p sc) buf None clraw te = WStatus code s'.
Proof. exact C05_truncation_mapped_lemma. Qed.
Print Assumptions C05_truncation_mapped_by_family.

(* Hex round trip: int(b.strip(), 16) reads every spelling of n (k leading
   zeros, any per-digit case choice) back as n; and every plain hexadecimal
   numeral is read with its value. *)
Theorem C05_hex_round_trip :
  forall (k : nat) (up : list bool) (n : N),
    py_int_hex (hex_spell k up n) = Some (Z.of_N n) /\ hex_val (hex_spell k up n) = Some n.
Proof. exact C05_hex_round_trip_lemma. Qed.
Print Assumptions C05_hex_round_trip.

(* Record of the repaired defect F5: the variant that subtracts the requested
   size and fetches the terminator with one read(2) accepts a truncated
   encoding as the complete body "abc" when the first payload read is short,
   and rejects a legal encoding whose terminator arrives in two reads. *)
Theorem C05_F5_requested_size_variant_refuted :
  (chunk_ok f5_chunk /\ last_ok f5_last /\
   strict_prefix f5_truncated (flat_map enc_chunk [f5_chunk] ++ enc_line f5_last) /\
   f5_loop 20 (stream_init f5_truncated [0; 0; 0; 2]) 8 [] = Some (Some [97; 98; 99]%N))
  /\ f5_loop 20 (stream_init (enc_chunked [f5_chunk] f5_last CRLF) [0; 0; 0; 20; 0]) 8 [] = Some None.
Proof. exact (conj F5_variant_accepts_truncated F5_variant_rejects_legal). Qed.
Print Assumptions C05_F5_requested_size_variant_refuted.

(* non-vacuity: two chunks (upper-case size with leading zeros, an extension
   holding ';', CR and a lone LF), trailers, 1- and 2-byte reads, buffer 12 *)
Definition ex_c1 : chunk := mkChunk [48; 48; 51]%N [59; 97; 61; 13; 59; 10]%N [120; 121; 122]%N.
Definition ex_c2 : chunk := mkChunk [65]%N [] [1; 2; 3; 4; 5; 6; 7; 8; 9; 10]%N.
Definition ex_last : chunk := mkChunk [48; 48]%N [59; 113]%N [].

Example C05_nonvacuous_hyps :
  Forall chunk_ok [ex_c1; ex_c2] /\ last_ok ex_last /\
  Forall (fun c => line_len c <= 12) [ex_c1; ex_c2] /\ line_len ex_last <= 12.
Proof.
  repeat split; try discriminate; repeat constructor; try discriminate; simpl; lia.
Qed.

Example C05_nonvacuous :
  match body_read_chunked (stream_init (enc_chunked [ex_c1; ex_c2] ex_last [88; 13; 10]%N) [0; 1; 0; 1; 0; 1; 0; 1; 0; 1; 0; 1; 0; 1]) 12 None with
  | BDone b sp s => b = [120; 121; 122; 1; 2; 3; 4; 5; 6; 7; 8; 9; 10]%N /\ sp = true /\ rest s = [88; 13; 10]%N
  | _ => False
  end.
Proof. vm_compute. repeat split. Qed.

Example C05_nonvacuous_truncated :
  match body_read_chunked (stream_init (flat_map enc_chunk [ex_c1; ex_c2]) [0; 3]) 12 None with
  | BParseErr _ => True
  | _ => False
  end.
Proof. vm_compute. exact I. Qed.

(* the parsing error is answered 400 by the errors_map of the current source
   (gen/Gen.v, regenerated from /repo on every run; request.py:_raise) *)
Example C05_parse_error_is_400 :
  raise_status Gen.errors_map cls_BodyParsingError cls_RequestError
  = Some 400%Z.
Proof. reflexivity. Qed.

(* Outside the legal grammar, for the record (no theorem above claims anything
   about these; the correspondence corpus checks that the code agrees):
   int(..., 16) also accepts a sign, a 0x prefix, single underscores and
   surrounding blanks, and a NEGATIVE size behaves as an empty chunk. *)
Example C05_observed_lax_size_lines :
  (* "+3 CRLF abc CRLF 0 CRLF" *)
  (match body_read_chunked (stream_init [43; 51; 13; 10; 97; 98; 99; 13; 10; 48; 13; 10]%N []) 8 None with
   | BDone b _ _ => b = [97; 98; 99]%N | _ => False end)
  /\ (* "0x_3 CRLF abc CRLF 0 CRLF" *)
  (match body_read_chunked (stream_init [48; 120; 95; 51; 13; 10; 97; 98; 99; 13; 10; 48; 13; 10]%N []) 8 None with
   | BDone b _ _ => b = [97; 98; 99]%N | _ => False end)
  /\ (* "-3 CRLF CRLF 0 CRLF" *)
  (match body_read_chunked (stream_init [45; 51; 13; 10; 13; 10; 48; 13; 10]%N []) 8 None with
   | BDone b _ _ => b = [] | _ => False end).
Proof. vm_compute. repeat split. Qed.
