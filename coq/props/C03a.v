(* C03a — sub-check of C03: the router (C01/C02, cluster routerC) composed with
   the WSGI layer (C03) into one application model, model/App.v.

   [serve_app filt A e] = one request through Ombott.__call__ of the application
   A (router state, before/after hooks, handler table, route-hook table, error
   handlers) with environ e: the routing outcome, which model/Wsgi.v takes as an
   input, is computed here by routerC's [Router.to_route] on
   request.path = '/' + PATH_INFO.lstrip('/') and the upper-cased method, and
   turned into what Ombott.handler does with it.  [filt] = the compiled wildcard
   filters, universally quantified as in C01.  Only statements; proofs in
   proofs/C03a_proofs.v; routerC's theorems are used, not re-proved. *)
From Coq Require Import String.
From Verif Require Import lib.Base lib.Str lib.Utf8 lib.Html model.RouteSpec model.Dispatch.
From Verif Require model.Router model.Wsgi.
From Verif Require Import model.App proofs.C03_proofs proofs.C03_wf proofs.C03a_proofs.
From Verif Require proofs.C01_router.
From Verif Require gen.Gen.
Import Wsgi.

(* The application model IS the C03 model run on the program that routing
   selects: every theorem of props/C03.v holds of serve_app by instantiation
   (p := program_of filt A e, env := cenv_of e, eh := ap_eh A).  The instances
   used most are spelled out. *)
Theorem App_is_C03_model :
  forall filt A e,
    serve_app filt A e = wsgi (cenv_of e) (ap_eh A) (program_of filt A e)
    /\ trace_app filt A e = Some (all_events (serve_app filt A e))
    /\ count is_start (all_events (serve_app filt A e)) = (if passed (serve_app filt A e) then 0 else 1)
    /\ count is_close (all_events (serve_app filt A e)) <= 1
    /\ (Forall scalar (en_path e) -> forall ev, serve_app filt A e <> WsEscaped ev)
    /\ (forall ev w st b, serve_app filt A e = WsOk ev w st b ->
          str_eqb (en_method e) s_HEAD = true -> w = WList []).
Proof.
  intros filt A e. split; [reflexivity|]. split; [apply trace_all_events|].
  split; [apply one_start_response|]. split; [apply close_at_most_once|]. split.
  - intros Hs. apply never_escapes. left. exact Hs.
  - intros ev w st b H Hh. exact (no_body_head _ _ _ _ _ _ _ H Hh).
Qed.
Print Assumptions App_is_C03_model.

(* C02's Allow theorem lifted to the wire.  When the path selects a route and
   the verb is not registered on it (routing answers 405 a), hooks return and
   the application has no error handler for 405: a = [allow] of the matched
   route's method table (the sorted, comma-joined registered names; none of the
   candidates VERB / GET-for-HEAD / ANY is registered), no route hook and no
   handler runs, and start_response gets "405 Method Not Allowed" with exactly
   one Allow header, whose value is a (UTF-8 bytes as Latin-1; a itself when it
   is ASCII) — or the catch-all answers (exc_info = true: e.g. the error page
   cannot be encoded). *)
Theorem App_405_allow_on_the_wire :
  forall filt A e a,
    Router.to_route filt (ap_router A) (Router.req_path (en_path e)) (en_method e) = Router.R405 a ->
    all_ret (ap_before A) = true -> all_ret (ap_after A) = true -> ap_eh A 405%Z = None ->
    (exists d nm vs hs rt,
        Router.get filt true (Router.tree (ap_router A)) (Router.strip_sep (Router.req_path (en_path e)))
          = Router.GFound d nm vs hs
        /\ nth_error (Router.heap (ap_router A)) d = Some rt
        /\ a = allow (Router.r_methods rt)
        /\ forall c, In c (cands (upper (en_method e))) -> mt_get (Router.r_methods rt) c = None)
    /\ (exists evH st, handle (program_of filt A e) = (evH, st, OHttp true (err405 a)) /\ count mid_event evH = 0)
    /\ forall line hl x, In (EvStart line hl x) (all_events (serve_app filt A e)) ->
         (x = true /\ line = l_catchall)
         \/ (x = false /\ line = l405
             /\ exists v, transcode a = Some v /\ forall v', In (n_allow, v') hl <-> v' = v).
Proof. exact app_405. Qed.
Print Assumptions App_405_allow_on_the_wire.

(* C01 lifted to the wire.  For every router state built by any script of
   registrations (and method removals), hooks that return, no error handlers
   for 404/405 and no PARTIAL hook on the way: if the rule-by-rule spec finds no
   rule for the request path, no route hook and no handler runs and the status
   on the wire is "404 Not Found" (the framework's HTTPError(404, 'Not Found'),
   text from the source) or the catch-all's; conversely a regular 404 status
   with no route hook / handler call means the spec finds no rule. *)
Theorem App_404_iff_no_rule_matches :
  forall filt cs A e,
    Forall C01_router.add_cmd cs -> ap_router A = Router.exec_cmds Router.router0 cs ->
    all_ret (ap_before A) = true -> all_ret (ap_after A) = true ->
    ap_eh A 404%Z = None -> ap_eh A 405%Z = None ->
    (forall vs hs i, route_request filt A e = Router.R404 vs hs i ->
                     Router.fired_partial (Router.req_path (en_path e)) hs = None) ->
    let sp := spec filt (C01_router.rules_of (ap_router A)) (Router.strip_sep (Router.req_path (en_path e))) in
    (sp = None ->
       (exists evH st, handle (program_of filt A e) = (evH, st, OHttp true err404) /\ count mid_event evH = 0)
       /\ forall line hl x, In (EvStart line hl x) (all_events (serve_app filt A e)) ->
            (x = true /\ line = l_catchall) \/ (x = false /\ line = l404))
    /\ (forall hl, In (EvStart l404 hl false) (all_events (serve_app filt A e)) ->
                   count mid_event (fst (fst (handle (program_of filt A e)))) = 0 -> sp = None)
    /\ In (lit "resolve", (404%Z, r_btext err404)) Gen.framework_errors.
Proof.
  intros filt cs A e H1 H2 H3 H4 H5 H6 H7 sp.
  destruct (app_404 filt cs A e H1 H2 H3 H4 H5 H6 H7) as [P Q].
  split; [exact P|split; [exact Q|exact err404_text_from_source]].
Qed.
Print Assumptions App_404_iff_no_rule_matches.

(* The handler that runs is the one registered for the first registered candidate
   method on the rule the spec selects, and it is called with exactly the kwargs
   the spec extracted: the named wildcards of the rule that method was registered
   under, zipped with the spec's values; the SIMPLE route hooks collected on the
   way are called first, each with its path prefix.  (405 otherwise.) *)
Theorem App_handler_called_with_spec_kwargs :
  forall filt cs A e,
    Forall C01_router.add_cmd cs -> ap_router A = Router.exec_cmds Router.router0 cs ->
    let rp := Router.req_path (en_path e) in
    match spec filt (C01_router.rules_of (ap_router A)) (Router.strip_sep rp) with
    | None => exists vs hs i, route_request filt A e = Router.R404 vs hs i
    | Some (q, d, vs) =>
        exists rt hs,
          nth_error (Router.heap (ap_router A)) d = Some rt
          /\ q = pat_of (Router.r_pattern rt) (Router.r_filters rt)
          /\ match dispatch_verb (Router.r_methods rt) (en_method e) with
             | DCall m (h, mn) =>
                 let kw := Router.make_params (match mn with [] => Router.r_names rt | _ :: _ => mn end) vs in
                 route_request filt A e = Router.ROk d m h kw hs
                 /\ program_of filt A e
                    = mkProg (ap_before A) (ap_after A)
                             (ROk (map (fun ph => ap_hook A (snd ph) (fst ph)) (Router.fired_simple rp hs))
                                  (ap_handler A h kw))
             | D405 a =>
                 route_request filt A e = Router.R405 a /\ a = allow (Router.r_methods rt)
                 /\ program_of filt A e = mkProg (ap_before A) (ap_after A) (R405 a)
             end
    end.
Proof. exact app_spec_kwargs. Qed.
Print Assumptions App_handler_called_with_spec_kwargs.

(* non-vacuity: the rules /u/<name> [GET] and /u/<id>/edit [POST, PUT]; an echo handler.
   GET /u/bob reaches handler 1 with name=bob; DELETE /u/bob is 405 with Allow: GET;
   GET /u/7/edit is 405 with Allow: POST,PUT; GET /nope is the framework's 404. *)
Definition demo_router : Router.router :=
  Router.exec_cmds Router.router0
    [Router.CAdd 0 (lit "u/" ++ [13%N]) [lit "name"] [None] [lit "GET"] 1 None false;
     Router.CAdd 1 (lit "u/" ++ [13%N] ++ lit "/edit") [lit "id"] [None] [lit "POST"; lit "PUT"] 2 None false].
Definition demo_application : app :=
  mkApplication demo_router [] [] (handler_of [(1, FEcho); (2, FEcho)]) (hook_of []) (partial_of []) (fun _ => None).
Definition nofilt : fid -> str -> option (value * nat) := fun _ _ => None.
Definition start_of (r : wsgi_res) : option (str * list (str * str)) :=
  match r with
  | WsOk ev _ _ _ => match filter is_start ev with [EvStart l hl _] => Some (l, hl) | _ => None end
  | _ => None
  end.

Example App_nonvacuous :
  let req := fun p m => mkEnviron (lit p) (lit m) false false [] in
  (exists cl, start_of (serve_app nofilt demo_application (req "/u/bob"%string "GET"%string))
              = Some (lit "200 OK", [(lit "Content-Length", cl); (lit "Content-Type", lit "text/html; charset=UTF-8")]))
  /\ route_request nofilt demo_application (req "/u/bob"%string "GET"%string)
     = Router.ROk 0 (lit "GET") 1 [(lit "name", lit "bob")] []
  /\ (exists cl, start_of (serve_app nofilt demo_application (req "/u/bob"%string "delete"%string))
                 = Some (lit "405 Method Not Allowed",
                         [(lit "Allow", lit "GET"); (lit "Content-Length", cl);
                          (lit "Content-Type", lit "text/html; charset=UTF-8")]))
  /\ (exists cl, start_of (serve_app nofilt demo_application (req "//u/7/edit/"%string "GET"%string))
                 = Some (lit "405 Method Not Allowed",
                         [(lit "Allow", lit "POST,PUT"); (lit "Content-Length", cl);
                          (lit "Content-Type", lit "text/html; charset=UTF-8")]))
  /\ (exists cl, start_of (serve_app nofilt demo_application (req "/nope"%string "GET"%string))
                 = Some (lit "404 Not Found", [(lit "Content-Length", cl);
                                               (lit "Content-Type", lit "text/html; charset=UTF-8")])).
Proof. vm_compute. repeat split; eexists; reflexivity. Qed.

(* config.domain_map: routing, the route hooks and the handler see PATH_INFO with the mapped
   application name prefixed — the application model on the prefixed environ. *)
Theorem App_domain_map_routes_prefixed_path :
  forall filt A e n,
    en_path (with_app_name (Some n) e) = 47%N :: n ++ en_path e
    /\ route_request filt A (with_app_name (Some n) e)
       = Router.to_route filt (ap_router A) (Router.req_path (47%N :: n ++ en_path e)) (en_method e)
    /\ with_app_name None e = e.
Proof. intros. repeat split. Qed.
Print Assumptions App_domain_map_routes_prefixed_path.

(* before_request hooks that rewrite request['PATH_INFO'] / request['REQUEST_METHOD']: routing (hence the route
   hooks, the handler and its kwargs, 404/405) and the HEAD test see the environ as the hooks that ran left it —
   [serve_app_hooked] is [serve_app] on that environ, so every theorem above applies to it; hooks that edit
   nothing change nothing. *)
Theorem App_routing_after_before_hooks :
  forall filt A e,
    serve_app_hooked filt A e = serve_app filt A (environ_after_before A e)
    /\ (forall p m v, environ_after_before (mkApplication (ap_router A) [mkH [MEnv false p; MEnv true m] v] (ap_after A)
                                                          (ap_handler A) (ap_hook A) (ap_partial A) (ap_eh A)) e
                      = mkEnviron p m (en_fw e) (en_json e) (en_url e))
    /\ ((forall h, In h (ran_prefix (ap_before A)) -> forall m, In m (h_muts h) -> env_edit e m = e) ->
        environ_after_before A e = e).
Proof.
  intros filt A e. split; [reflexivity|]. split; [intros; destruct v; reflexivity|].
  intros H. unfold environ_after_before.
  assert (G : forall ms, (forall m, In m ms -> env_edit e m = e) -> fold_left env_edit ms e = e).
  { induction ms as [|m t IH]; intros Hm; [reflexivity|]. simpl. rewrite (Hm m (or_introl eq_refl)).
    apply IH. intros m' Hin. apply Hm. now right. }
  apply G. intros m Hin. apply in_flat_map in Hin. destruct Hin as [h [Hh Hm]]. exact (H h Hh m Hm).
Qed.
Print Assumptions App_routing_after_before_hooks.
