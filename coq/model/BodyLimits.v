(* BodyLimits.v — model of the size limits around the request body:
     BodyMixin._body            (body_mixin.py:237)  framing choice + error mapping
     BaseRequest._raise         (request.py:39)      exact-class lookup, then except_class
     DefaultConfig.errors_map   (ombott.py:34)       taken from gen/Gen.v
     BodyMixin._get_body_string (body_mixin.py:262)  urlencoded / JSON text cap
     FieldStorage.read / iter_items (multipart.py:424, 477)  budget arithmetic only
   on top of model/Body.v (Content-Length) and model/Chunked.v (chunked).
   No proofs in this file.  Owned by cluster bodyA. *)
From Verif Require Import lib.Base lib.Str lib.Utf8 model.Stream model.Body model.Chunked gen.Gen.
From Verif Require Import model.MultipartRef model.Fields.

(* the error mapping (class names, emap_get, raise_status: BaseRequest._raise) lives in model/Chunked.v *)

(* ---- Request._body ---- *)

(* _body_read: chunked wins over content_length (body_mixin.py:84) *)
Definition body_read (s : stream) (buf : nat) (maxb : option nat) (cl : Z) (chunked : bool) : bres :=
  if chunked then body_read_chunked s buf maxb else body_read_cl s buf maxb cl.

Inductive resp :=
| RBody (body : list N) (spilled : bool) (s : stream)
| RStatus (code : Z) (s : stream)        (* HTTPError from errors_map *)
| REscape (s : stream)                   (* unmapped exception: becomes a 500 *)
| RFuel.

Definition mapped (m : list (list N * (Z * list N))) (cls : list N) (s : stream) : resp :=
  match raise_status m cls cls_RequestError with
  | Some c => RStatus c s
  | None => REscape s
  end.

(* body_mixin.py:237-259  try: body = _body_read(...) except RequestError as err: self._raise(err, RequestError) *)
Definition request_body_with (m : list (list N * (Z * list N)))
           (s : stream) (buf : nat) (maxb : option nat) (cl : Z) (chunked : bool) : resp :=
  match body_read s buf maxb cl chunked with
  | BDone b sp s' => RBody b sp s'
  | BTooLarge s' => mapped m cls_BodySizeError s'
  | BParseErr s' => mapped m cls_BodyParsingError s'
  | BOutOfFuel => RFuel
  end.

Definition request_body := request_body_with Gen.errors_map.

(* ---- _get_body_string ---- *)

(* BytesIO/file read(n): everything for n < 0 *)
Definition file_read (body : list N) (n : Z) : list N :=
  if (n <? 0)%Z then body else firstn (Z.to_nat n) body.

Inductive gbs :=
| GData (d : list N)
| GTooLarge.                               (* self._raise(BodySizeError(), RequestError) *)

(* body_mixin.py:262-283
     max_content_length = config.max_memfile_size
     content_length = -1 if self.chunked else self.content_length      (the caller form_text_with passes it)
     if content_length > max_content_length: raise 413
     if content_length < 0: content_length = max_content_length + 1
     data = read(content_length)
     if len(data) > max_content_length: raise 413 *)
Definition get_body_string (body : list N) (cl maxm : Z) : gbs :=
  if (cl >? maxm)%Z then GTooLarge
  else
    let cl' := if (cl <? 0)%Z then (maxm + 1)%Z else cl in
    let data := file_read body cl' in
    if (Z.of_nat (length data) >? maxm)%Z then GTooLarge else GData data.

Inductive tresp :=
| TText (d : list N) (s : stream)
| TStatus (code : Z) (s : stream)
| TEscape (s : stream)
| TFuel.

(* the text of an urlencoded / JSON body: self._body, then _get_body_string;
   max_memfile_size is both the spool threshold / read buffer and the text cap *)
Definition form_text_with (m : list (list N * (Z * list N)))
           (s : stream) (buf : nat) (maxb : option nat) (cl : Z) (chunked : bool) : tresp :=
  match request_body_with m s buf maxb cl chunked with
  | RBody b _ s' =>
    (* fix F37 (ca2ec78): content_length = -1 if self.chunked else self.content_length — a chunked body
       ignores a Content-Length sent next to it, as _body already did *)
    match get_body_string b (if chunked then (-1)%Z else cl) (Z.of_nat buf) with
    | GData d => TText d s'
    | GTooLarge => match raise_status m cls_BodySizeError cls_RequestError with
                   | Some c => TStatus c s'
                   | None => TEscape s'
                   end
    end
  | RStatus c s' => TStatus c s'
  | REscape s' => TEscape s'
  | RFuel => TFuel
  end.

Definition form_text := form_text_with Gen.errors_map.

(* ---- multipart in-memory budget (arithmetic of FieldStorage.read / iter_items only) ----
   an item = one part of the multipart body as the markup describes it:
   (bytes of its header block, bytes of its data section, has a filename) *)
Definition mp_item := (Z * Z * bool)%type.

Inductive budget_res :=
| BudgetOk (left : Z)                 (* every part read; what remains of max_read *)
| BudgetExceeded (index : nat).       (* BodySizeError while reading part [index] *)

(* multipart.py:424-460 (read) and 505-507 (iter_items: max_read -= has_read)
     has_read = header size ; if has_read > max_read: raise
     file part: data is not read (BytesIOProxy)
     text part: if sz: has_read += sz ; if has_read > max_read: raise *)
Fixpoint mp_budget (items : list mp_item) (max_read : Z) (i : nat) : budget_res :=
  match items with
  | [] => BudgetOk max_read
  | (h, d, is_file) :: r =>
    if (h >? max_read)%Z then BudgetExceeded i
    else if is_file then mp_budget r (max_read - h)%Z (S i)
    else if (d =? 0)%Z then mp_budget r (max_read - h)%Z (S i)
    else if (h + d >? max_read)%Z then BudgetExceeded i
    else mp_budget r (max_read - (h + d))%Z (S i)
  end.

(* ---- the budget view of the real field layer (model/Fields.v, cluster mpB2) ----
   [part_view body hsec dsec]: the triple of one part as FieldStorage.read sees it
   — header bytes = e - s of the Headers section, data bytes of the Data section,
   is_file = a filename option is present after header parsing — provided the
   part can fail for no other reason than its size (header block at a
   non-negative offset, decodable, parsed to a named field; a non-empty text
   value at a non-negative offset and decodable). *)
Definition part_view (body : bytes) (hsec dsec : Z * Z) : option mp_item :=
  let (hs, he) := hsec in
  let (ds, de) := dsec in
  let sz := (he - hs)%Z in
  let dsz := (de - ds)%Z in
  if (hs <? 0)%Z then None
  else
    match utf8_dec (read_at body hs sz) with
    | None => None
    | Some raw =>
      match read_headers (splitlines raw) None None None [] with
      | Some (Some _, Some _, _, _) => Some (sz, dsz, true)
      | Some (Some _, None, _, _) =>
        if (dsz =? 0)%Z then Some (sz, dsz, false)
        else if (ds <? 0)%Z then None
        else match utf8_dec (read_at body ds dsz) with
             | None => None
             | Some _ => Some (sz, dsz, false)
             end
      | _ => None
      end
    end.

(* the triples of a markup list (Headers, Data)* ; None: not that shape, or some part has no view *)
Fixpoint triples_of (body : bytes) (m : list section) : option (list mp_item) :=
  match m with
  | [] => Some []
  | (hk, hs, he) :: m' =>
    match hk with
    | Data => None
    | Headers =>
      match m' with
      | [] => None
      | (dk, ds, de) :: m'' =>
        match dk with
        | Headers => None
        | Data =>
          match part_view body (hs, he) (ds, de), triples_of body m'' with
          | Some it, Some r => Some (it :: r)
          | _, _ => None
          end
        end
      end
    end
  end.

(* FieldStorage.iter_items on the sections the one-piece scanner reports for
   (boundary, body); the index of the refused part is read off mp_budget on the
   model's own triples (proofs/C13_multipart.v: they agree) *)
Definition mp_run (B body : bytes) (mem : Z) : list Z :=
  let m := ref_obs B body in
  match snd m with
  | Some _ => [4%Z]
  | None =>
    match iter_items body (fst m) mem with
    | IOk fs => [0%Z; Z.of_nat (length fs)]
    | IErr ESize =>
      let code := match raise_status Gen.errors_map cls_BodySizeError cls_RequestError with
                  | Some c => c | None => (-1)%Z end in
      match triples_of body (tl (fst m)) with
      | Some items => match mp_budget items mem 0 with
                      | BudgetExceeded i => [1%Z; Z.of_nat i; code]
                      | BudgetOk _ => [7%Z]
                      end
      | None => [1%Z; (-1)%Z; code]
      end
    | IErr EParse => [2%Z]
    | IErr ENegSeek => [3%Z]
    | IAssert => [3%Z]
    end
  end.

(* ---- correspondence interface ---- *)

Definition enc_resp (r : resp) : list Z :=
  match r with
  | RBody b sp s => 0%Z :: enc_bool sp ++ enc_str b ++ enc_reqs s
  | RStatus c s => 1%Z :: c :: enc_reqs s
  | REscape s => 2%Z :: enc_reqs s
  | RFuel => [9%Z]
  end.

Definition enc_tresp (r : tresp) : list Z :=
  match r with
  | TText d s => 0%Z :: enc_str d ++ enc_reqs s
  | TStatus c s => 1%Z :: c :: enc_reqs s
  | TEscape s => 2%Z :: enc_reqs s
  | TFuel => [9%Z]
  end.

Definition dec_item (l : list Z) : option (mp_item * list Z) :=
  match l with
  | h :: d :: f :: r => Some ((h, d, negb (Z.eqb f 0)), r)
  | _ => None
  end.

(* input: 0|1 ; cl ; chunked ; buf ; has_max ; max ; data ; sched     (0: Request.body, 1: text of a form body;
                                                                          errors_map of the current source)
          4|5 ; ... the same with an EMPTY errors_map: a Request built on a config without errors_map
                (RequestConfig default) lets the bare exceptions escape
          2 ; max_read ; boundary ; body                                (multipart in-memory budget)
          3 ; sub-inputs, each length-prefixed                          (a sequence of requests) *)
Definition corr_C13_one (inp : list Z) : list Z :=
  match inp with
  | 2%Z :: mr :: r =>
    match dec_str r with
    | Some (B, r1) =>
      match dec_str r1 with
      | Some (body, _) => mp_run B body mr
      | None => bad_input
      end
    | None => bad_input
    end
  | mode :: cl :: ch :: buf :: hm :: mx :: r0 =>
    (* ch = 0 | 1: the chunked flag itself (_body_read called directly);
       ch = 2: the Transfer-Encoding header value follows, BodyMixin.chunked decides (Chunked.te_chunked) *)
    match (if Z.eqb ch 2 then dec_str r0 else Some ([], r0)) with
    | None => bad_input
    | Some (te, r) =>
    match dec_str r with
    | Some (data, r1) =>
      match dec_list dec_nat_item r1 with
      | Some (sc, _) =>
        let maxb := if Z.eqb hm 0 then None else Some (Z.to_nat mx) in
        let s := stream_init data sc in
        let chunked := if Z.eqb ch 2 then te_chunked te else negb (Z.eqb ch 0) in
        let m := if Z.ltb mode 4 then Gen.errors_map else [] in
        if Z.eqb mode 0 || Z.eqb mode 4 then enc_resp (request_body_with m s (Z.to_nat buf) maxb cl chunked)
        else enc_tresp (form_text_with m s (Z.to_nat buf) maxb cl chunked)
      | None => bad_input
      end
    | None => bad_input
    end
    end
  | _ => bad_input
  end.

(* a sequence of requests: every response is a function of its own request (and its application's config) only *)
Definition run_seq13 (subs : list (list Z)) : list (list Z) := map corr_C13_one subs.

Definition corr_C13 (inp : list Z) : list Z :=
  match inp with
  | 3%Z :: r => flat_map (fun o => Z.of_nat (length o) :: o) (run_seq13 (dec_subs (length r) r))
  | _ => corr_C13_one inp
  end.
