(* Headers.v — model of the response-header path (C14):
     ombott/common_helpers.py : _hval, HeaderDict (__setitem__, append, setdefault, update,
                                __delitem__, clear), HeaderProperty.__set__
     ombott/response.py       : BaseResponse.__init__, status setter, headerlist, set_cookie
                                (plain, no options), HTTPResponse.apply
   Constants come from gen/Gen.v (regenerated from /repo on every run).
   float rendering and the Expires writer (http_date) are external: their results
   are part of the operation (AFloat repr, OExpires w).  No proofs in this file. *)
From Coq Require Import String Ascii.
From Verif Require Import lib.Base lib.Str lib.Utf8 gen.Gen model.Cookie.
Local Open Scope N_scope.

(* ------------------------------------------------------------------ *)
(* values offered to the setters                                       *)
(* ------------------------------------------------------------------ *)
Inductive atom :=
| ANone
| AStr (s : str)
| AInt (z : Z)
| AFloat (repr : str)          (* str(float), computed by Python *)
| ABool (b : bool)
| ABytes
| AOther.                      (* tuple, object(), a list inside a list, ... *)

Inductive value :=
| VAtom (a : atom)
| VList (l : list atom).       (* a Python list *)

(* isinstance(value, T) for the type names that may appear in _hval's tuple *)
Definition isinstance_b (a : atom) (tn : str) : bool :=
  match a with
  | AStr _ => str_eqb tn (L "str")
  | AInt _ => str_eqb tn (L "int")
  | AFloat _ => str_eqb tn (L "float")
  | ABool _ => str_eqb tn (L "bool") || str_eqb tn (L "int")      (* bool is a subclass of int *)
  | ABytes => str_eqb tn (L "bytes")
  | _ => false
  end.

Fixpoint uint_chars (u : Decimal.uint) : str :=
  match u with
  | Decimal.Nil => []
  | Decimal.D0 u => 48 :: uint_chars u | Decimal.D1 u => 49 :: uint_chars u
  | Decimal.D2 u => 50 :: uint_chars u | Decimal.D3 u => 51 :: uint_chars u
  | Decimal.D4 u => 52 :: uint_chars u | Decimal.D5 u => 53 :: uint_chars u
  | Decimal.D6 u => 54 :: uint_chars u | Decimal.D7 u => 55 :: uint_chars u
  | Decimal.D8 u => 56 :: uint_chars u | Decimal.D9 u => 57 :: uint_chars u
  end.

(* str(int) (below the 4300-digit limit of CPython 3.12) *)
Definition dec_of_Z (z : Z) : str :=
  match z with
  | Z0 => [48]
  | Zpos p => uint_chars (Pos.to_uint p)
  | Zneg p => 45 :: uint_chars (Pos.to_uint p)
  end.

(* str(value) for the accepted types *)
Definition py_str (a : atom) : str :=
  match a with
  | ANone => L "None"
  | AStr s => s
  | AInt z => dec_of_Z z
  | AFloat r => r
  | ABool true => L "True"
  | ABool false => L "False"
  | _ => []
  end.

Inductive hres := HTypeError | HValueError | HOk (s : str).

Definition has_forbidden (s : str) : bool :=
  existsb (fun c => memN c s) Gen.hval_forbidden.

(* common_helpers.py:231 _hval *)
Definition hval (v : value) : hres :=
  match v with
  | VList _ => HTypeError
  | VAtom a =>
    if match a with ANone => true | _ => existsb (isinstance_b a) Gen.hval_types end then
      let s := py_str a in
      if has_forbidden s then HValueError else HOk s
    else HTypeError
  end.

(* ------------------------------------------------------------------ *)
(* the store: response._headers, a dict name -> value | list            *)
(* ------------------------------------------------------------------ *)
Definition store := list (str * value).

Fixpoint sset (k : str) (v : value) (d : store) : store :=
  match d with
  | [] => [(k, v)]
  | (k', v') :: r => if str_eqb k k' then (k, v) :: r else (k', v') :: sset k v r
  end.

Fixpoint sget (k : str) (d : store) : option value :=
  match d with
  | [] => None
  | (k', v') :: r => if str_eqb k k' then Some v' else sget k r
  end.

Fixpoint sdel (k : str) (d : store) : store :=
  match d with
  | [] => []
  | (k', v') :: r => if str_eqb k k' then r else (k', v') :: sdel k r
  end.

Inductive err := ETypeError | EValueError | EKeyError | ECookieError | EWriter.

Definition herr (h : hres) : err := match h with HTypeError => ETypeError | _ => EValueError end.

(* HeaderDict.__setitem__ (common_helpers.py:268) *)
Definition h_setitem (d : store) (k : str) (v : value) : store + err :=
  match hval v with
  | HOk s => inl (sset k (VAtom (AStr s)) d)
  | h => inr (herr h)
  end.

(* HeaderDict.append (common_helpers.py:279) *)
Definition h_append (d : store) (k : str) (v : value) : store + err :=
  match hval v with
  | HOk s =>
    match sget k d with
    | None | Some (VAtom ANone) => inl (sset k (VAtom (AStr s)) d)      (* d.get(key) is None *)
    | Some (VList l) => inl (sset k (VList (l ++ [AStr s])) d)            (* v.append(value) *)
    | Some (VAtom a) => inl (sset k (VList [a; AStr s]) d)                (* d[key] = [v, value] *)
    end
  | h => inr (herr h)
  end.

(* HeaderDict.setdefault (common_helpers.py:276): a list is stored unchecked *)
Definition h_setdefault (d : store) (k : str) (v : value) : store + err :=
  let put x := match sget k d with Some _ => d | None => sset k x d end in
  match v with
  | VList _ => inl (put v)
  | _ => match hval v with
         | HOk s => inl (put (VAtom (AStr s)))
         | h => inr (herr h)
         end
  end.

(* HeaderDict.update (common_helpers.py:298): unchecked *)
Fixpoint h_update (d : store) (items : list (str * value)) : store :=
  match items with
  | [] => d
  | (k, v) :: r => h_update (sset k v d) r
  end.

Fixpoint append_all (d : store) (items : list (str * value)) : store * option err :=
  match items with
  | [] => (d, None)
  | (k, v) :: r => match h_append d k v with
                   | inl d' => append_all d' r
                   | inr e => (d, Some e)
                   end
  end.

(* ------------------------------------------------------------------ *)
(* the response object                                                 *)
(* ------------------------------------------------------------------ *)
(* the cookie jar (_cookies): name -> (value, coded value, morsel attributes).
   An attribute is kept as (lower-case key, the fragment Morsel.OutputString renders
   for it, e.g. Path=/p or Secure, or the empty text when it renders nothing); the rendering
   itself is http.cookies' and external to the model (the operation carries it). *)
Definition cattrs := list (str * str).
Definition cjar := list (str * (str * str * cattrs)).

Fixpoint cjar_put (name s coded : str) (j : cjar) : cjar :=
  match j with
  | [] => [(name, (s, coded, []))]
  | (k, (s0, c0, a0)) :: r =>
    if str_eqb name k then (k, (s, coded, a0)) :: r            (* Morsel.set keeps the attributes *)
    else (k, (s0, c0, a0)) :: cjar_put name s coded r
  end.

Fixpoint cjar_attr (name key frag : str) (j : cjar) : cjar :=
  match j with
  | [] => []
  | (k, (s0, c0, a0)) :: r =>
    if str_eqb name k then (k, (s0, c0, assoc_set key frag a0)) :: r
    else (k, (s0, c0, a0)) :: cjar_attr name key frag r
  end.

Record rstate := mkR {
  st_code : Z;            (* _status_code; 0 stands for None *)
  st_store : store;       (* _headers *)
  st_jar : cjar           (* _cookies *)
}.

(* response.py:134 status setter, integer argument *)
Definition status_ok (code : Z) : bool := (100 <=? code)%Z && (code <=? 999)%Z.

(* response.py:76 BaseResponse.__init__(body, status, headers, **more_headers):
   the state as the constructor leaves it, and the exception if it raised *)
Definition init_run (status : Z) (hdrs more : list (str * value)) : rstate * option err :=
  let code := if (status =? 0)%Z then Gen.default_status else status in     (* status or default_status *)
  if negb (status_ok code) then (mkR 0 [] [], Some EValueError)
  else
    match append_all [] hdrs with
    | (d, Some e) => (mkR code d [], Some e)
    | (d, None) =>
      match append_all d more with
      | (d', oe) => (mkR code d' [], oe)
      end
    end.

(* one keyword option of set_cookie, after max_age/expires conversion *)
Record copt := mkO {
  o_key : str;                (* the key with '_' replaced by '-' *)
  o_val : option value;       (* the value after timedelta / http_date conversion; None = the conversion raised *)
  o_frag : str                (* what Morsel.OutputString renders for it (external) *)
}.

Definition serr_err (e : serr) : err :=
  match e with SECookieError => ECookieError | SETypeError => ETypeError | _ => EValueError end.

(* the value part of set_cookie(name, value) (no secret): Cookie.v *)
Definition cookie_value_set (j : cjar) (name value : str) : cjar + err :=
  match set_cookie unit (fun _ _ => []) (fun _ _ => []) [] name (CStr value) None with
  | inl ((_, (s, coded)) :: _) => inl (cjar_put name s coded j)
  | inl [] => inl j
  | inr e => inr (serr_err e)
  end.

(* response.py:233 the option loop; [checked] = the loop passes every value through
   _hval before storing it (fix F35; the harness reads from the source whether it does) *)
Fixpoint apply_opts (checked : bool) (name : str) (j : cjar) (opts : list copt) : cjar * option err :=
  match opts with
  | [] => (j, None)
  | o :: r =>
    match o_val o with
    | None => (j, Some EWriter)
    | Some v =>
      match (if checked then hval v else HOk []) with
      | HOk _ =>
        if is_reserved (o_key o)                               (* Morsel.__setitem__ *)
        then apply_opts checked name (cjar_attr name (lower (o_key o)) (o_frag o) j) r
        else (j, Some ECookieError)
      | h => (j, Some (herr h))
      end
    end
  end.

(* response.py:187 set_cookie(name, value, **options) *)
Definition set_cookie_opts (checked : bool) (j : cjar) (name value : str) (opts : list copt)
  : cjar * option err :=
  match cookie_value_set j name value with
  | inr e => (j, Some e)
  | inl j1 => apply_opts checked name j1 opts
  end.

Fixpoint set_cookies (j : cjar) (cs : list (str * str)) : cjar * option err :=
  match cs with
  | [] => (j, None)
  | (n, v) :: r =>
    match cookie_value_set j n v with
    | inl j' => set_cookies j' r
    | inr e => (j, Some e)
    end
  end.

Inductive op :=
| OSet (k : str) (v : value)                     (* response.headers[k] = v *)
| OAppend (k : str) (v : value)                  (* response.headers.append(k, v) *)
| OSetDefault (k : str) (v : value)              (* response.headers.setdefault(k, v) *)
| OUpdate (items : list (str * value))           (* response.headers.update({...}) — unchecked *)
| ODel (k : str)                                 (* del response.headers[k] *)
| OClear                                         (* response.headers.clear() *)
| OProp (p : bool) (v : value)                   (* response.content_type (false) / content_length (true) = v *)
| OExpires (w : option value)                    (* response.expires = x ; w = http_date(x), None = it raised *)
| OInit (status : Z) (hdrs more : list (str * value))         (* response.__init__(status=, headers=, **more) *)
| OApply (status : Z) (hdrs more : list (str * value)) (cookies : list (str * str))
                                                 (* HTTPResponse / HTTPError(...) [+ set_cookie] .apply(response) *)
| OSetCookie (name value : str) (checked : bool) (opts : list copt)
                                                 (* response.set_cookie(name, value, **options) / delete_cookie *)
| OStatus (code : Z)                             (* response.status = code (or a status line parsing to code) *)
| OPop (k : str) (with_default : bool)           (* response.headers.pop(k[, None]) *)
| OPopItem                                       (* response.headers.popitem() *)
| OClearNames (names : list str)                 (* response.headers.clear(name, ...) *)
| ODelProp (p : nat)                             (* del response.content_type / content_length / expires *)
| OStatusBad.                                    (* response.status = a string the setter refuses *)

Definition with_store (s : rstate) (r : store + err) : rstate * option err :=
  match r with
  | inl d => (mkR (st_code s) d (st_jar s), None)
  | inr e => (s, Some e)
  end.

Definition prop_name (p : nat) : str :=
  match p with O => L "Content-Type" | S O => L "Content-Length" | _ => L "Expires" end.

Definition del_key (s : rstate) (k : str) : rstate * option err :=
  match sget k (st_store s) with
  | Some _ => (mkR (st_code s) (sdel k (st_store s)) (st_jar s), None)
  | None => (s, Some EKeyError)
  end.

Fixpoint clear_names (d : store) (names : list str) : store :=
  match names with
  | [] => d
  | n :: r => clear_names (sdel n d) r             (* if n in self: del self[n] *)
  end.

Definition step (s : rstate) (o : op) : rstate * option err :=
  match o with
  | OSet k v => with_store s (h_setitem (st_store s) k v)
  | OAppend k v => with_store s (h_append (st_store s) k v)
  | OSetDefault k v => with_store s (h_setdefault (st_store s) k v)
  | OUpdate items => (mkR (st_code s) (h_update (st_store s) items) (st_jar s), None)
  | ODel k => del_key s k
  | OClear => (mkR (st_code s) [] (st_jar s), None)
  | OProp p v => with_store s (h_setitem (st_store s)
                                 (if p then L "Content-Length" else L "Content-Type") v)
  | OExpires (Some w) => with_store s (h_setitem (st_store s) (L "Expires") w)
  | OExpires None => (s, Some EWriter)
  | OInit status hdrs more => init_run status hdrs more
  | OApply status hdrs more cookies =>
    match init_run status hdrs more with
    | (src, Some e) => (s, Some e)                          (* the constructor raised: nothing to apply *)
    | (src, None) =>
      match set_cookies [] cookies with
      | (_, Some e) => (s, Some e)
      | (j, None) =>
        (* response.py:274 apply: status, _headers.clear(); update(self._headers); cookies if any *)
        (mkR (st_code src) (st_store src) (match j with [] => st_jar s | _ => j end), None)
      end
    end
  | OSetCookie n v checked opts =>
    let (j, e) := set_cookie_opts checked (st_jar s) n v opts in
    (mkR (st_code s) (st_store s) j, e)                      (* an exception leaves what was stored before it *)
  | OStatus code => if status_ok code then (mkR code (st_store s) (st_jar s), None)
                    else (s, Some EValueError)
  | OPop k true => (mkR (st_code s) (sdel k (st_store s)) (st_jar s), None)
  | OPop k false => del_key s k
  | OPopItem => match rev (st_store s) with
                | [] => (s, Some EKeyError)
                | _ :: r => (mkR (st_code s) (rev r) (st_jar s), None)
                end
  | OClearNames names =>                                         (* no name at all: everything is cleared *)
    (mkR (st_code s) (match names with [] => [] | _ => clear_names (st_store s) names end) (st_jar s), None)
  | ODelProp p => del_key s (prop_name p)
  | OStatusBad => (s, Some EValueError)
  end.

Definition init_state : rstate := mkR Gen.default_status [] [].      (* Response() *)

Fixpoint run (s : rstate) (ops : list op) : rstate :=
  match ops with
  | [] => s
  | o :: r => run (fst (step s o)) r
  end.

(* ---- a response and its copy (response.py:94 BaseResponse.copy) ----
   copy = cls(status=self.status, headers=self.headers.copy().dict): every stored
   value goes through append/_hval again (a multi-valued header makes copy() raise
   TypeError); the cookies are re-parsed from their own output in sorted key order
   (Cookie.v: mjar_copy; names starting with '$' and option values outside the
   cookie-token alphabet are not modelled here). *)
Fixpoint cjar_insert (e : str * (str * str * cattrs)) (j : cjar) : cjar :=
  match j with
  | [] => [e]
  | e' :: r => if str_ltb (fst e') (fst e) then e' :: cjar_insert e r else e :: j
  end.
Definition cjar_sort (j : cjar) : cjar := fold_right cjar_insert [] j.

Definition copy_of (s : rstate) : rstate + err :=
  match init_run (st_code s) (st_store s) [] with
  | (c, None) => inl (mkR (st_code c) (st_store c) (cjar_sort (st_jar s)))
  | (_, Some e) => inr e
  end.

Inductive pop :=
| POn (on_copy : bool) (o : op)        (* the operation on the original / on the copy *)
| PCopy                                (* copy = response.copy(HTTPResponse) *)
| PApplyCopy.                          (* copy.apply(response): redirect() raises the copy, Ombott._cast applies it *)

Definition pstate := (rstate * option rstate)%type.

(* new state, exception, skipped (operation on a copy that does not exist yet) *)
Definition pstep (st : pstate) (p : pop) : pstate * option err * bool :=
  let '(r, c) := st in
  match p with
  | POn false o => let (r', e) := step r o in ((r', c), e, false)
  | POn true o => match c with
                  | None => (st, None, true)
                  | Some cs => let (c', e) := step cs o in ((r, Some c'), e, false)
                  end
  | PCopy => match copy_of r with
             | inl cs => ((r, Some cs), None, false)
             | inr e => (st, Some e, false)
             end
  | PApplyCopy =>
    match c with
    | None => (st, None, true)
    | Some cs =>                              (* response.py:274 apply: status, headers replaced; cookies if any *)
      ((mkR (st_code cs) (st_store cs) (match st_jar cs with [] => st_jar r | j => j end), c), None, false)
    end
  end.

Fixpoint prun (st : pstate) (ps : list pop) : pstate :=
  match ps with
  | [] => st
  | p :: r => prun (fst (fst (pstep st p))) r
  end.

(* ------------------------------------------------------------------ *)
(* response.py:149 headerlist                                          *)
(* ------------------------------------------------------------------ *)
Inductive hlres :=
| HLOk (l : list (str * str))
| HLAttrError               (* a stored value without .encode (None, int, bytes, ...) *)
| HLEncodeError.            (* UnicodeEncodeError: a lone surrogate *)

(* str.title() restricted to ASCII letters (non-ASCII characters are treated as
   uncased; see TRUSTED in tools/props/C14.py) *)
Fixpoint title_go (prev_cased : bool) (s : str) : str :=
  match s with
  | [] => []
  | c :: r => if is_alpha c
              then (if prev_cased then ascii_lower c else ascii_upper c) :: title_go true r
              else c :: title_go false r
  end.
Definition title (s : str) : str := title_go false s.

Fixpoint lookup_bad (code : Z) (t : list (Z * list str)) : list str :=
  match t with
  | [] => []
  | (c, l) :: r => if (c =? code)%Z then l else lookup_bad code r
  end.

(* [cs] = the name is compared as stored (the code before fix F17); otherwise h[0].title() *)
Definition is_bad (cs : bool) (bad : list str) (name : str) : bool :=
  if cs then mem_str name bad else mem_str (title name) bad.

Inductive tres := TOk (s : str) | TAttr | TEnc.
Definition emit_atom (a : atom) : tres :=
  match a with
  | AStr s => match transcode s with Some t => TOk t | None => TEnc end
  | _ => TAttr
  end.

(* the list comprehension of headerlist: the first value that cannot be
   transcoded decides the exception *)
Fixpoint emit_atoms (name : str) (l : list atom) : hlres :=
  match l with
  | [] => HLOk []
  | a :: r => match emit_atom a with
              | TOk t => match emit_atoms name r with
                         | HLOk rest => HLOk ((name, t) :: rest)
                         | e => e
                         end
              | TAttr => HLAttrError
              | TEnc => HLEncodeError
              end
  end.

Definition atoms_of (v : value) : list atom := match v with VList l => l | VAtom a => [a] end.

Fixpoint emit_store (d : store) : hlres :=
  match d with
  | [] => HLOk []
  | (name, v) :: r =>
    match emit_atoms name (atoms_of v) with
    | HLOk here => match emit_store r with
                   | HLOk rest => HLOk (here ++ rest)
                   | e => e
                   end
    | e => e
    end
  end.

(* Morsel.OutputString: key=coded, then the attributes in sorted key order *)
Fixpoint attrs_insert (e : str * str) (a : cattrs) : cattrs :=
  match a with
  | [] => [e]
  | e' :: r => if str_ltb (fst e') (fst e) then e' :: attrs_insert e r else e :: a
  end.
Definition attrs_sort (a : cattrs) : cattrs := fold_right attrs_insert [] a.
Definition frag_text (e : str * str) : str :=
  match snd e with [] => [] | f => 59 :: 32 :: f end.
Definition cookie_output (name coded : str) (a : cattrs) : str :=
  output_string name coded ++ flat_map frag_text (attrs_sort a).

Fixpoint emit_cjar (j : cjar) : option (list str) :=
  match j with
  | [] => Some []
  | (name, (_, coded, a)) :: r =>
    match transcode (cookie_output name coded a), emit_cjar r with
    | Some h, Some t => Some (h :: t)
    | _, _ => None
    end
  end.

Definition has_key (k : str) (d : store) : bool := match sget k d with Some _ => true | None => false end.

Definition visible (cs : bool) (s : rstate) : store :=
  let bad := lookup_bad (st_code s) Gen.bad_headers in
  match bad with
  | [] => st_store s
  | _ => filter (fun h => negb (is_bad cs bad (fst h))) (st_store s)
  end.

Definition headerlist_cs (cs : bool) (s : rstate) : hlres :=
  let bad := lookup_bad (st_code s) Gen.bad_headers in
  let headers := visible cs s in
  let need_ctype := match bad with
                    | [] => negb (has_key (L "Content-Type") (st_store s))
                    | _ => false
                    end in
  match emit_store headers with
  | HLOk out =>
    let out := if need_ctype then out ++ [(L "Content-Type", Gen.default_content_type)] else out in
    match emit_cjar (st_jar s) with
    | Some cs => HLOk (out ++ List.map (fun c => (L "Set-Cookie", c)) cs)
    | None => HLEncodeError
    end
  | e => e
  end.

Definition headerlist : rstate -> hlres := headerlist_cs Gen.headerlist_blacklist_case_sensitive.

(* ------------------------------------------------------------------ *)
(* correspondence interface                                            *)
(* ------------------------------------------------------------------ *)
Definition dec_atom (l : list Z) : option (atom * list Z) :=
  match l with
  | 0%Z :: r => Some (ANone, r)
  | 1%Z :: r => match dec_str r with Some (s, r') => Some (AStr s, r') | None => None end
  | 2%Z :: z :: r => Some (AInt z, r)
  | 3%Z :: r => match dec_str r with Some (s, r') => Some (AFloat s, r') | None => None end
  | 4%Z :: z :: r => Some (ABool (negb (Z.eqb z 0)), r)
  | 5%Z :: r => Some (ABytes, r)
  | 6%Z :: r => Some (AOther, r)
  | _ => None
  end.

Definition dec_value (l : list Z) : option (value * list Z) :=
  match l with
  | 7%Z :: r => match dec_list dec_atom r with Some (x, r') => Some (VList x, r') | None => None end
  | _ => match dec_atom l with Some (a, r') => Some (VAtom a, r') | None => None end
  end.

Definition dec_kv (l : list Z) : option ((str * value) * list Z) :=
  match dec_str l with
  | Some (k, r) => match dec_value r with Some (v, r') => Some ((k, v), r') | None => None end
  | None => None
  end.

Definition dec_ss (l : list Z) : option ((str * str) * list Z) :=
  match dec_str l with
  | Some (k, r) => match dec_str r with Some (v, r') => Some ((k, v), r') | None => None end
  | None => None
  end.

(* key ; 0 | 1 value ; fragment *)
Definition dec_copt (l : list Z) : option (copt * list Z) :=
  match dec_str l with
  | Some (k, 0%Z :: r) => match dec_str r with Some (f, r') => Some (mkO k None f, r') | None => None end
  | Some (k, _ :: r) =>
    match dec_value r with
    | Some (v, r1) => match dec_str r1 with Some (f, r') => Some (mkO k (Some v) f, r') | None => None end
    | None => None
    end
  | _ => None
  end.

Definition dec_op (l : list Z) : option (op * list Z) :=
  match l with
  | 0%Z :: r => match dec_kv r with Some ((k, v), r') => Some (OSet k v, r') | None => None end
  | 1%Z :: r => match dec_kv r with Some ((k, v), r') => Some (OAppend k v, r') | None => None end
  | 2%Z :: r => match dec_kv r with Some ((k, v), r') => Some (OSetDefault k v, r') | None => None end
  | 3%Z :: r => match dec_list dec_kv r with Some (x, r') => Some (OUpdate x, r') | None => None end
  | 4%Z :: r => match dec_str r with Some (k, r') => Some (ODel k, r') | None => None end
  | 5%Z :: r => Some (OClear, r)
  | 6%Z :: p :: r => match dec_value r with
                     | Some (v, r') => Some (OProp (negb (Z.eqb p 0)) v, r')
                     | None => None
                     end
  | 7%Z :: 0%Z :: r => Some (OExpires None, r)
  | 7%Z :: _ :: r => match dec_value r with Some (v, r') => Some (OExpires (Some v), r') | None => None end
  | 8%Z :: st :: r =>
    match dec_list dec_kv r with
    | Some (h, r1) => match dec_list dec_kv r1 with
                      | Some (m, r2) => Some (OInit st h m, r2)
                      | None => None
                      end
    | None => None
    end
  | 9%Z :: st :: r =>
    match dec_list dec_kv r with
    | Some (h, r1) =>
      match dec_list dec_kv r1 with
      | Some (m, r2) => match dec_list dec_ss r2 with
                        | Some (cs, r3) => Some (OApply st h m cs, r3)
                        | None => None
                        end
      | None => None
      end
    | None => None
    end
  | 10%Z :: chk :: r =>
    match dec_ss r with
    | Some ((k, v), r1) => match dec_list dec_copt r1 with
                           | Some (os, r2) => Some (OSetCookie k v (negb (Z.eqb chk 0)) os, r2)
                           | None => None
                           end
    | None => None
    end
  | 11%Z :: c :: r => Some (OStatus c, r)
  | 12%Z :: d :: r => match dec_str r with Some (k, r') => Some (OPop k (negb (Z.eqb d 0)), r') | None => None end
  | 13%Z :: r => Some (OPopItem, r)
  | 14%Z :: r => match dec_list dec_str r with Some (ns, r') => Some (OClearNames ns, r') | None => None end
  | 15%Z :: p :: r => Some (ODelProp (Z.to_nat p), r)
  | 16%Z :: r => Some (OStatusBad, r)
  | _ => None
  end.

Definition dec_pop (l : list Z) : option (pop * list Z) :=
  match l with
  | 0%Z :: oc :: r => match dec_op r with
                      | Some (o, r') => Some (POn (negb (Z.eqb oc 0)) o, r')
                      | None => None
                      end
  | 1%Z :: r => Some (PCopy, r)
  | 2%Z :: r => Some (PApplyCopy, r)
  | _ => None
  end.

Definition enc_err (e : option err) : Z :=
  match e with
  | None => 0
  | Some ETypeError => 1 | Some EValueError => 2 | Some EKeyError => 3
  | Some ECookieError => 4 | Some EWriter => 5
  end%Z.

Definition enc_hl (h : hlres) : list Z :=
  match h with
  | HLOk l => 0%Z :: enc_list (fun '(k, v) => enc_str k ++ enc_str v) l
  | HLAttrError => [1%Z]
  | HLEncodeError => [2%Z]
  end.

Definition enc_atom (a : atom) : list Z :=
  match a with
  | ANone => [0%Z]
  | AStr s => 1%Z :: enc_str s
  | AInt z => [2%Z; z]
  | AFloat s => 3%Z :: enc_str s
  | ABool b => 4%Z :: enc_bool b
  | ABytes => [5%Z]
  | AOther => [6%Z]
  end.

Definition enc_value (v : value) : list Z :=
  match v with
  | VAtom a => enc_atom a
  | VList l => 7%Z :: enc_list enc_atom l
  end.

(* what is observed of one response: status code, headers.items(), headerlist *)
Definition enc_rstate (s : rstate) : list Z :=
  st_code s :: enc_list (fun '(k, v) => enc_str k ++ enc_value v) (st_store s) ++ enc_hl (headerlist s).

Definition enc_pstate (st : pstate) : list Z :=
  enc_rstate (fst st) ++ match snd st with None => [0%Z] | Some c => 1%Z :: enc_rstate c end.

(* after every operation: the exception (0 = none, 7 = skipped) and both responses *)
Fixpoint run_obs (st : pstate) (ps : list pop) : list Z :=
  match ps with
  | [] => []
  | p :: r => let '(st', e, skipped) := pstep st p in
              (if skipped then 7%Z else enc_err e) :: enc_pstate st' ++ run_obs st' r
  end.

Definition corr_C14 (inp : list Z) : list Z :=
  match dec_list dec_pop inp with
  | Some (ps, _) => enc_pstate (init_state, None) ++ run_obs (init_state, None) ps
  | None => bad_input
  end.
