(* ErrPage.v -- model of the framework's own error responses:
     ombott/error_render.py: render            (HTML page from error.html)
     ombott/ombott.py: Ombott.default_error_handler (HTML or JSON), the HTTPError
       objects the framework itself creates (_handle, handler, _cast, errors_map),
       and the last-resort page in Ombott.wsgi.
   The template is Gen.error_template (error.html as render() consumes it), the
   ombott escape chain is Gen.html_escape_chain, status lines, JSON content type
   and the last-resort status line are Gen constants.  The remaining literal
   texts of this file are proved equal to the translator's constants in
   proofs/C20_pins.v (C20_texts_pinned).  No proofs in this file. *)
From Coq Require Import String.
From Verif Require Import lib.Base lib.Str lib.Html lib.PyRepr.
From Verif Require gen.Gen.

Local Notation "$ s" := (lit s%string) (at level 0, only parsing).

(* ---------------- pinned texts ---------------- *)

(* response.py: _HTTP_STATUS_LINES[code] (http.client.responses) for the codes the framework
   uses, as the translator evaluated them *)
Definition status_lines : list (Z * str) := Gen.status_lines.

(* the literal texts below are proved equal to what the translator read from the source in
   proofs/C20_pins.v (theorem C20_texts_pinned) *)
Definition body_404 : str := Eval compute in $"Not Found".                       (* radirouter.py:316 *)
Definition body_405 : str := Eval compute in $"Method not allowed.".             (* radirouter.py:323 *)
Definition body_400_path : str := Eval compute in $"Invalid path string. Expected UTF-8". (* ombott.py:266 *)
Definition body_500_crash : str := Eval compute in $"Internal Server Error".     (* ombott.py:292 *)
Definition body_500_unhandled : str := Eval compute in $"Unhandled exception".   (* ombott.py:357 *)
Definition body_500_type_prefix : str := Eval compute in $"Unsupported response type: ". (* ombott.py:367 *)
Definition body_500_loops : str := Eval compute in $"too many iterations".       (* ombott.py:308 *)
Definition ctype_json : str := Gen.json_error_content_type.                       (* ombott.py:229 *)
Definition accept_json : str := Eval compute in $"application/json".             (* props_mixin.py: is_json_requested *)
Definition text_None : str := Eval compute in $"None".
Definition text_null : str := Eval compute in $"null".
(* ombott.py:404-415 *)
Definition crit_head : str := Eval compute in $"<h1>Critical error while processing request: ".
Definition crit_head_end : str := Eval compute in $"</h1>".
Definition crit_err_open : str := Eval compute in (lit "<h2>Error:</h2>" ++ [10%N] ++ lit "<pre>" ++ [10%N]).
Definition crit_tb_open : str := Eval compute in
  ([10%N] ++ lit "</pre>" ++ [10%N] ++ lit "<h2>Traceback:</h2>" ++ [10%N] ++ lit "<pre>" ++ [10%N]).
Definition crit_close : str := Eval compute in ([10%N] ++ lit "</pre>" ++ [10%N]).
Definition crit_status : str := Gen.critical_status_line.
Definition crit_ctype : str := Eval compute in $"text/html; charset=UTF-8".
Definition crit_default_path : str := Eval compute in $"/".
(* template field names as error.html spells them *)
Definition f_status : str := Eval compute in $"e.status".
Definition f_body : str := Eval compute in $"e.body".
Definition f_url : str := Eval compute in $"url".
Definition f_exception : str := Eval compute in $"exception".
Definition f_traceback : str := Eval compute in $"traceback".
Definition k_body : str := Eval compute in $"body".

(* ---------------- the error object ---------------- *)

(* the exception attached to an HTTPError, as far as repr() needs it *)
Inductive exc :=
| ExcNone                          (* exception=None *)
| ExcMsg (cls : str) (msg : str)   (* an exception with the single str argument msg *)
| ExcRaw (r : str).                (* anything else: its repr text is given *)

(* HTTPError as the renderers see it: status line, body, exception, traceback *)
Record err := mkErr { e_status : str; e_body : str; e_exc : exc; e_tb : option str }.

(* the framework's own errors *)
Inductive kind :=
| K404                       (* handler: raise HTTPError(404, 'Not Found') *)
| K405                       (* handler: raise HTTPError(405, 'Method not allowed.', Allow=..) *)
| K400_path                  (* _handle: PATH_INFO is not UTF-8 *)
| KMap (i : nat)             (* DefaultConfig.errors_map entry number i (body errors) *)
| K500_crash                 (* _handle: the handler raised *)
| K500_unhandled             (* _cast: iterating the result raised *)
| K500_type (tyrepr : str)   (* _cast: first item of unsupported type; tyrepr = str(type(first)) *)
| K500_loops.                (* _cast: more than 1000 rounds *)

Fixpoint assocZ {A} (k : Z) (l : list (Z * A)) : option A :=
  match l with
  | [] => None
  | (k', v) :: r => if Z.eqb k k' then Some v else assocZ k r
  end.

(* HTTPError(code, body, exception, traceback): status setter with an int *)
Definition http_error (code : Z) (body : str) (x : exc) (tb : option str) : option err :=
  match assocZ code status_lines with
  | Some line => Some (mkErr line body x tb)
  | None => None        (* a code this model does not know *)
  end.

Definition err_of_kind (k : kind) (x : exc) (tb : option str) : option err :=
  match k with
  | K404 => http_error 404 body_404 ExcNone None
  | K405 => http_error 405 body_405 ExcNone None
  | K400_path => http_error 400 body_400_path ExcNone None
  | KMap i => match nth_error Gen.errors_map i with
              | Some (_, (code, body)) => http_error code body ExcNone None
              | None => None
              end
  | K500_crash => http_error 500 body_500_crash x tb
  | K500_unhandled => http_error 500 body_500_unhandled x tb
  | K500_type ty => http_error 500 (body_500_type_prefix ++ ty) ExcNone None
  | K500_loops => http_error 500 body_500_loops ExcNone None
  end.

(* ---------------- JSON: json.dumps of a str with ensure_ascii ---------------- *)

(* json/encoder.py: ESCAPE_ASCII matches the backslash, the double quote and everything outside
   space..tilde; ESCAPE_DCT gives the two-character escapes; the rest is \uXXXX, with a surrogate
   pair above U+FFFF *)
Definition json_u (n : N) : str := (92 :: 117 :: hex_fixed 4 n)%N.

Definition json_char (c : N) : str :=
  if N.eqb c 34 then [92; 34]%N
  else if N.eqb c 92 then [92; 92]%N
  else if N.eqb c 10 then [92; 110]%N
  else if N.eqb c 13 then [92; 114]%N
  else if N.eqb c 9 then [92; 116]%N
  else if N.eqb c 8 then [92; 98]%N
  else if N.eqb c 12 then [92; 102]%N
  else if (c <? 32)%N || (126 <? c)%N then
    if (c <=? 65535)%N then json_u c
    else let v := (c - 65536)%N in json_u (55296 + v / 1024) ++ json_u (56320 + v mod 1024)
  else [c].

Definition json_str (s : str) : str := (34%N :: flat_map json_char s) ++ [34%N].

Definition json_opt_str (o : option str) : str :=
  match o with None => text_null | Some s => json_str s end.

(* json.dumps of a dict with str keys: {"k": v, "k": v}, separators ', ' and ': ' *)
Definition json_obj (members : list (str * str)) : str :=
  (123%N :: join [44; 32]%N (map (fun kv => json_str (fst kv) ++ [58; 32]%N ++ snd kv) members)) ++ [125%N].

(* ---------------- a small JSON reader (objects whose values are strings or null) ------------
   This is the SPEC side of C20_json_valid: the grammar of RFC 8259 restricted
   to that fragment, string literals in full (escapes, \uXXXX, surrogate pairs
   joined as json.loads does: only two adjacent \u escapes are joined). *)

Inductive jitem := JLit (c : N) | JEsc (u : N).

Definition unhex (c : N) : option N :=
  if (48 <=? c)%N && (c <=? 57)%N then Some (c - 48)%N
  else if (97 <=? c)%N && (c <=? 102)%N then Some (c - 87)%N
  else if (65 <=? c)%N && (c <=? 70)%N then Some (c - 55)%N
  else None.

Definition unhex4 (a b c d : N) : option N :=
  match unhex a, unhex b, unhex c, unhex d with
  | Some x, Some y, Some z, Some w => Some (((x * 16 + y) * 16 + z) * 16 + w)%N
  | _, _, _, _ => None
  end.

Definition simple_escape (e : N) : option N :=
  if N.eqb e 34 then Some 34%N else if N.eqb e 92 then Some 92%N else if N.eqb e 47 then Some 47%N
  else if N.eqb e 98 then Some 8%N else if N.eqb e 102 then Some 12%N else if N.eqb e 110 then Some 10%N
  else if N.eqb e 114 then Some 13%N else if N.eqb e 116 then Some 9%N else None.

Definition cons_item (i : jitem) (r : option (list jitem * str)) : option (list jitem * str) :=
  match r with Some (l, t) => Some (i :: l, t) | None => None end.

(* after the opening quote: the items up to the closing quote, and what follows it *)
Fixpoint scan_string (s : str) : option (list jitem * str) :=
  match s with
  | [] => None
  | c :: r =>
    if N.eqb c 34 then Some ([], r)
    else if N.eqb c 92 then
      match r with
      | [] => None
      | e :: r1 =>
        if N.eqb e 117 then
          match r1 with
          | a :: b :: c' :: d :: r2 =>
            match unhex4 a b c' d with
            | Some u => cons_item (JEsc u) (scan_string r2)
            | None => None
            end
          | _ => None
          end
        else match simple_escape e with
             | Some x => cons_item (JLit x) (scan_string r1)
             | None => None
             end
      end
    else if (c <? 32)%N then None          (* strict: no raw control characters *)
    else cons_item (JLit c) (scan_string r)
  end.

Definition is_high (u : N) : bool := (55296 <=? u)%N && (u <=? 56319)%N.
Definition is_low (u : N) : bool := (56320 <=? u)%N && (u <=? 57343)%N.

Fixpoint join_items (l : list jitem) : str :=
  match l with
  | [] => []
  | JLit c :: r => c :: join_items r
  | JEsc u :: r =>
    if is_high u then
      match r with
      | JEsc v :: r' =>
        if is_low v then (65536 + (u - 55296) * 1024 + (v - 56320))%N :: join_items r'
        else u :: join_items r
      | _ => u :: join_items r
      end
    else u :: join_items r
  end.

Definition is_ws (c : N) : bool := N.eqb c 32 || N.eqb c 9 || N.eqb c 10 || N.eqb c 13.
Definition skip_ws (s : str) : str := lstrip_set is_ws s.

(* a string literal at the head of s (after white space) *)
Definition read_string (s : str) : option (str * str) :=
  match skip_ws s with
  | q :: r => if N.eqb q 34 then
                match scan_string r with Some (items, t) => Some (join_items items, t) | None => None end
              else None
  | [] => None
  end.

(* value: string or null *)
Definition read_value (s : str) : option (option str * str) :=
  match skip_ws s with
  | q :: r =>
    if N.eqb q 34 then
      match scan_string r with Some (items, t) => Some (Some (join_items items), t) | None => None end
    else if prefixb text_null (q :: r) then Some (None, skipn 4 (q :: r))
    else None
  | [] => None
  end.

Inductive jres := JOk (members : list (str * option str)) | JBad | JFuel.

(* members after the opening brace (at least one), up to and including the closing brace *)
Fixpoint read_members (fuel : nat) (s : str) (acc : list (str * option str)) : jres :=
  match fuel with
  | O => JFuel
  | S f =>
    match read_string s with
    | None => JBad
    | Some (k, s1) =>
      match skip_ws s1 with
      | c :: s2 =>
        if N.eqb c 58 then
          match read_value s2 with
          | None => JBad
          | Some (v, s3) =>
            match skip_ws s3 with
            | d :: s4 =>
              if N.eqb d 44 then read_members f s4 (acc ++ [(k, v)])
              else if N.eqb d 125 then
                match skip_ws s4 with [] => JOk (acc ++ [(k, v)]) | _ => JBad end
              else JBad
            | [] => JBad
            end
          end
        else JBad
      | [] => JBad
      end
    end
  end.

Definition parse_json_obj (s : str) : jres :=
  match skip_ws s with
  | c :: r =>
    if N.eqb c 123 then
      match skip_ws r with
      | d :: r' => if N.eqb d 125 then (match skip_ws r' with [] => JOk [] | _ => JBad end)
                   else read_members (S (length s)) r []
      | [] => JBad
      end
    else JBad
  | [] => JBad
  end.

(* ---------------- the renderers ---------------- *)

Section Model.
Variable isprintable : N -> bool.

(* repr(res.exception) *)
Definition repr_exc (x : exc) : str :=
  match x with
  | ExcNone => text_None
  | ExcMsg cls msg => cls ++ [40%N] ++ py_repr isprintable msg ++ [41%N]
  | ExcRaw r => r
  end.

(* format(None) -> 'None' *)
Definition fmt_opt (o : option str) : str := match o with None => text_None | Some s => s end.

(* str.format over the template: the template is static, substituted text is
   copied, never interpreted again.  An unknown field is the KeyError /
   AttributeError str.format would raise. *)
Fixpoint fill (t : list Gen.tseg) (ctx : str -> option str) : option str :=
  match t with
  | [] => Some []
  | Gen.TLit s :: r => option_map (app s) (fill r ctx)
  | Gen.TField n :: r =>
    match ctx n, fill r ctx with
    | Some v, Some w => Some (v ++ w)
    | _, _ => None
    end
  end.

Definition ctx_of (e : err) (url_text ex tb : str) (name : str) : option str :=
  if str_eqb name f_status then Some (e_status e)
  else if str_eqb name f_body then Some (e_body e)
  else if str_eqb name f_url then Some url_text
  else if str_eqb name f_exception then Some ex
  else if str_eqb name f_traceback then Some tb
  else None.

(* error_render.py:8 render(err_resp, url, debug) *)
Definition url_text (url : str) : str :=
  if Gen.ctx_url_is_repr_of_escaped then py_repr isprintable (html_escape_std url)   (* :9, :23 *)
  else url.                          (* the translator no longer recognises the escaping *)

Definition render (e : err) (url : str) (debug : bool) : option str :=
  let show := debug || negb Gen.ctx_hides_when_not_debug in
  let ex := if show then repr_exc (e_exc e) else Gen.ctx_forbidden_text in       (* :10-17 *)
  let tb := if show then fmt_opt (e_tb e) else Gen.ctx_forbidden_text in
  fill Gen.error_template (ctx_of e (url_text url) ex tb).                       (* :31-41 *)

(* ombott.py:224 json.dumps(dict(body=..., exception=repr(..), traceback=...)) *)
Definition error_json (e : err) : str :=
  json_obj [(k_body, json_str (e_body e));
            (f_exception, json_str (repr_exc (e_exc e)));
            (f_traceback, json_opt_str (e_tb e))].

(* props_mixin.py: is_json_requested: accept and accept.startswith('application/json') *)
Definition is_json_requested (accept : option str) : bool :=
  match accept with
  | Some (c :: a) => startswith (c :: a) accept_json
  | _ => false
  end.

(* ombott.py:222 default_error_handler -> (Content-Type, body text) *)
Definition default_error_handler (e : err) (url : str) (accept : option str) (debug : bool)
  : option (str * str) :=
  if is_json_requested accept then Some (ctype_json, error_json e)
  else option_map (fun b => (Gen.default_content_type, b)) (render e url debug).

(* ombott.py:404 the last-resort page *)
Definition critical_page (path_info : option str) (debug : bool) (x : exc) (tb : str) : str :=
  crit_head ++ html_escape_ombott (match path_info with Some p => p | None => crit_default_path end)
  ++ crit_head_end
  ++ (if debug then crit_err_open ++ html_escape_ombott (repr_exc x) ++ crit_tb_open
                    ++ html_escape_ombott tb ++ crit_close
      else []).

Inductive response :=
| Resp (status ctype body : str)
| KeyErr.          (* str.format met a field the model does not know: would end in the last-resort page *)

(* a framework error through _cast and default_error_handler *)
Definition respond_error (k : kind) (x : exc) (tb : option str) (url : str) (accept : option str)
           (debug : bool) : response :=
  match err_of_kind k x tb with
  | None => KeyErr
  | Some e =>
    match default_error_handler e url accept debug with
    | Some (ct, b) => Resp (e_status e) ct b
    | None => KeyErr
    end
  end.

Definition respond_critical (path_info : option str) (debug : bool) (x : exc) (tb : str) : response :=
  Resp crit_status crit_ctype (critical_page path_info debug x tb).

(* one request as far as the framework's error responses depend on it *)
Record request := mkReq {
  q_kind : kind; q_exc : exc; q_tb : option str; q_url : str; q_accept : option str; q_debug : bool;
  q_head : bool (* REQUEST_METHOD == 'HEAD' *) }.

(* ombott.py wsgi: a HEAD request gets status and headers of the error, and no body
   (out = [] on the normal path, return [] on the last-resort path) *)
Definition drop_body (head : bool) (r : response) : response :=
  match r with
  | Resp st ct b => Resp st ct (if head then [] else b)
  | KeyErr => KeyErr
  end.

Definition respond_req (q : request) : response :=
  drop_body (q_head q) (respond_error (q_kind q) (q_exc q) (q_tb q) (q_url q) (q_accept q) (q_debug q)).

(* several requests answered one after the other by ONE application object: the
   error handlers keep nothing from one request to the next *)
Definition respond_seq (qs : list request) : list response := map respond_req qs.

End Model.

(* ---------------- correspondence interface ---------------- *)

Definition dec_opt_str (l : list Z) : option (option str * list Z) :=
  match l with
  | 0%Z :: r => Some (None, r)
  | 1%Z :: r => match dec_str r with Some (s, r') => Some (Some s, r') | None => None end
  | _ => None
  end.

Definition dec_exc (l : list Z) : option (exc * list Z) :=
  match l with
  | 0%Z :: r => Some (ExcNone, r)
  | 1%Z :: r => match dec_str r with
                | Some (c, r1) => match dec_str r1 with Some (m, r2) => Some (ExcMsg c m, r2) | None => None end
                | None => None
                end
  | 2%Z :: r => match dec_str r with Some (s, r') => Some (ExcRaw s, r') | None => None end
  | _ => None
  end.

Definition dec_kind (l : list Z) : option (kind * list Z) :=
  match l with
  | 0%Z :: r => Some (K404, r)
  | 1%Z :: r => Some (K405, r)
  | 2%Z :: r => Some (K400_path, r)
  | 3%Z :: i :: r => Some (KMap (Z.to_nat i), r)
  | 4%Z :: r => Some (K500_crash, r)
  | 5%Z :: r => Some (K500_unhandled, r)
  | 6%Z :: r => match dec_str r with Some (t, r') => Some (K500_type t, r') | None => None end
  | 7%Z :: r => Some (K500_loops, r)
  | _ => None
  end.

Definition enc_response (r : response) : list Z :=
  match r with
  | Resp st ct b => 0%Z :: enc_str st ++ enc_str ct ++ enc_str b
  | KeyErr => [1%Z]
  end.

Definition enc_opt_str (o : option str) : list Z := enc_option enc_str o.

Definition enc_jres (r : jres) : list Z :=
  match r with
  | JOk ms => 0%Z :: enc_list (fun kv => enc_str (fst kv) ++ enc_opt_str (snd kv)) ms
  | JBad => [1%Z]
  | JFuel => [9%Z]
  end.

Definition dec_request (r : list Z) : option (request * list Z) :=
  match dec_kind r with
  | Some (k, r1) =>
    match dec_exc r1 with
    | Some (x, r2) =>
      match dec_opt_str r2 with
      | Some (tb, r3) =>
        match dec_str r3 with
        | Some (url, r4) =>
          match dec_opt_str r4 with
          | Some (acc, dbg :: hd :: r5) => Some (mkReq k x tb url acc (negb (Z.eqb dbg 0)) (negb (Z.eqb hd 0)), r5)
          | _ => None
          end
        | None => None
        end
      | None => None
      end
    | None => None
    end
  | None => None
  end.

(* the Unicode table, restricted to what the case needs: the harness lists the
   code points >= 128 occurring in the case that str.isprintable rejects *)
Definition table_of (nonprintable : list N) (c : N) : bool := negb (existsb (N.eqb c) nonprintable).

(* input: tag :: nonprintable code points (len-prefixed) :: payload
     tag 0: kind ; exc ; traceback (opt) ; url ; accept (opt) ; debug ; head -> response of a framework error
     tag 1: path_info (opt) ; debug ; exc ; traceback ; head               -> last-resort page
     tag 2: s -> html.escape(s)          tag 3: s -> common_helpers.html_escape(s)
     tag 4: s -> repr(s)                 tag 5: s -> json.dumps(s)
     tag 6: text -> parse_json_obj
     tag 7: n ; n requests as in tag 0 -> the n responses of one application object *)
Definition corr_C20 (inp : list Z) : list Z :=
  match inp with
  | tag :: r0 =>
    match dec_str r0 with
    | None => bad_input
    | Some (np, r) =>
      let isp := table_of np in
      if Z.eqb tag 0 then
        match dec_request r with
        | Some (q, _) => enc_response (respond_req isp q)
        | None => bad_input
        end
      else if Z.eqb tag 7 then
        match dec_list dec_request r with
        | Some (qs, _) => enc_list enc_response (respond_seq isp qs)
        | None => bad_input
        end
      else if Z.eqb tag 1 then
        match dec_opt_str r with
        | Some (p, dbg :: r1) =>
          match dec_exc r1 with
          | Some (x, r2) =>
            match dec_str r2 with
            | Some (tb, r3) =>
              let head := match r3 with h :: _ => negb (Z.eqb h 0) | [] => false end in
              enc_response (drop_body head (respond_critical isp p (negb (Z.eqb dbg 0)) x tb))
            | None => bad_input
            end
          | None => bad_input
          end
        | _ => bad_input
        end
      else
        match dec_str r with
        | None => bad_input
        | Some (s, _) =>
          if Z.eqb tag 2 then enc_str (html_escape_std s)
          else if Z.eqb tag 3 then enc_str (html_escape_ombott s)
          else if Z.eqb tag 4 then enc_str (py_repr isp s)
          else if Z.eqb tag 5 then enc_str (json_str s)
          else if Z.eqb tag 6 then enc_jres (parse_json_obj s)
          else bad_input
        end
    end
  | [] => bad_input
  end.
