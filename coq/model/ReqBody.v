(* ReqBody.v — model of the Request-level glue around _body_read
   (ombott/request_pkg/body_mixin.py: BodyMixin._body / body / content_length,
   ombott/request_pkg/request.py: copy / __setitem__ / _on_env_changed):

     * request.body  -> self._body (cached in environ['ombott.request.body'],
       environ['wsgi.input'] replaced by the buffered copy), then seek(0);
     * request.copy() -> a new Request over a shallow copy of the environ: it
       shares the input stream object and the cached body object;
     * request[key] = value -> _on_env_changed drops the caches that depend on
       the key: the buffered body only for key = 'wsgi.input'.

   A world is the family of request objects that descend from one request by
   copy(), together with the input streams they refer to.  The buffered body is
   represented by its content: every access rewinds it, and nothing writes to
   it after _body_read returned, so its read position and identity are not
   observable through request.body.  No proofs in this file. *)
From Verif Require Import lib.Base lib.Str model.Stream model.Body.

Record req := mkReq {
  r_input : nat;                 (* which stream environ['wsgi.input'] refers to (until buffered) *)
  r_cache : option (list N);     (* environ['ombott.request.body'] : content of the buffered body *)
  r_cl    : Z;                   (* int(environ.get('CONTENT_LENGTH') or -1) *)
  r_failed : bool                (* environ['ombott.request.body_error'] is set: an earlier read failed (F43) *)
}.

Record world := mkWorld { w_streams : list stream; w_reqs : list req }.

Inductive op :=
| OBody (r : nat) (k : option nat)                     (* request.body.read(k) ; None = read() *)
| OCopy (r : nat)                                      (* request.copy() : the copy gets the next index *)
| OSetCL (r : nat) (v : Z)                             (* request['CONTENT_LENGTH'] = str(v) *)
| OSetOther (r : nat)                                  (* request['CONTENT_TYPE' | 'HTTP_*' | 'QUERY_STRING' | ...] = ... *)
| OSetInput (r : nat) (data : list N) (sc : list nat)  (* request['wsgi.input'] = a new stream *)
| OHandOn (r : nat) (k : option nat).                  (* the next consumer of the environ: after request.body
     (which rewinds the buffered copy) the environ, without the 'ombott.*' cache keys, is handed to a second
     Request — what a dispatcher passes to an application mounted behind this one — which at once reads its body
     with read(k).  It finds the buffered copy under 'wsgi.input'.  The new request object gets the next index. *)

Inductive out :=
| OutBytes (b : list N)
| OutNew (r : nat)            (* index of the copy *)
| OutUnit
| OutErr                      (* the body was refused (BodySizeError -> 413), now or at an earlier access *)
| OutBadReq                   (* no such request object: a harness error *)
| OutNotBuffered              (* OHandOn on a request whose body is not buffered (yet, or refused): nothing is done *)
| OutFuel.

Definition take_opt (k : option nat) (l : list N) : list N :=
  match k with None => l | Some n => firstn n l end.

Fixpoint set_nth {A} (i : nat) (x : A) (l : list A) : list A :=
  match l, i with
  | [], _ => []
  | _ :: t, O => x :: t
  | h :: t, S j => h :: set_nth j x t
  end.

Definition dummy_stream : stream := stream_init [] [].

Section Step.
Variable buf : nat.             (* config.max_memfile_size, shared by the family *)
Variable maxb : option nat.     (* config.max_body_size *)

Definition step (w : world) (o : op) : world * out :=
  match o with
  | OBody r k =>
    match nth_error (w_reqs w) r with
    | None => (w, OutBadReq)
    | Some rq =>
      if r_failed rq then (w, OutErr)                     (* the first failure is final: no stream is touched *)
      else
      match r_cache rq with
      | Some c => (w, OutBytes (take_opt k c))            (* cached: rewound, read *)
      | None =>
        match body_read_cl (nth (r_input rq) (w_streams w) dummy_stream) buf maxb (r_cl rq) with
        | BDone body _ s' =>
          (mkWorld (set_nth (r_input rq) s' (w_streams w))
                   (set_nth r (mkReq (r_input rq) (Some body) (r_cl rq) false) (w_reqs w)),
           OutBytes (take_opt k body))
        | BTooLarge s' =>
          (mkWorld (set_nth (r_input rq) s' (w_streams w))
                   (set_nth r (mkReq (r_input rq) None (r_cl rq) true) (w_reqs w)),
           OutErr)
        | _ => (w, OutFuel)
        end
      end
    end
  | OCopy r =>
    match nth_error (w_reqs w) r with
    | None => (w, OutBadReq)
    | Some rq => (mkWorld (w_streams w) (w_reqs w ++ [rq]), OutNew (length (w_reqs w)))
    end
  | OSetCL r v =>
    match nth_error (w_reqs w) r with
    | None => (w, OutBadReq)
    | Some rq => (mkWorld (w_streams w) (set_nth r (mkReq (r_input rq) (r_cache rq) v (r_failed rq)) (w_reqs w)), OutUnit)
    end
  | OSetOther r =>
    match nth_error (w_reqs w) r with
    | None => (w, OutBadReq)
    | Some _ => (w, OutUnit)
    end
  | OSetInput r data sc =>
    match nth_error (w_reqs w) r with
    | None => (w, OutBadReq)
    | Some rq =>
      (mkWorld (w_streams w ++ [stream_init data sc])
               (set_nth r (mkReq (length (w_streams w)) None (r_cl rq) false) (w_reqs w)), OutUnit)
    end
  | OHandOn r k =>
    match nth_error (w_reqs w) r with
    | None => (w, OutBadReq)
    | Some rq =>
      if r_failed rq then (w, OutNotBuffered)
      else
      match r_cache rq with
      | None => (w, OutNotBuffered)
      | Some c =>
        (* environ['wsgi.input'] IS the buffered copy, rewound: a stream over c that hands over whatever is asked *)
        match body_read_cl (stream_init c []) buf maxb (r_cl rq) with
        | BDone body _ s' =>
          (mkWorld (w_streams w ++ [s'])
                   (w_reqs w ++ [mkReq (length (w_streams w)) (Some body) (r_cl rq) false]),
           OutBytes (take_opt k body))
        | BTooLarge s' =>
          (mkWorld (w_streams w ++ [s'])
                   (w_reqs w ++ [mkReq (length (w_streams w)) None (r_cl rq) true]),
           OutErr)
        | _ => (w, OutFuel)
        end
      end
    end
  end.

Fixpoint run (w : world) (ops : list op) : world * list out :=
  match ops with
  | [] => (w, [])
  | o :: r => let (w1, x) := step w o in let (w2, xs) := run w1 r in (w2, x :: xs)
  end.

End Step.

(* one request over one server stream *)
Definition world_init (data : list N) (sc : list nat) (cl : Z) : world :=
  mkWorld [stream_init data sc] [mkReq 0 None cl false].

(* ---- correspondence interface (mode 1 of corr_C04_all) ----
   input : cl ; buf ; has_max ; max ; data ; sched ; ops   with op =
           0 r hask k | 1 r | 2 r v | 3 r | 4 r data sched | 5 r hask k
   output: one entry per op (0 bytes | 1 index | 2 | 3 | 4 refused | 5 not buffered | 9), then for every stream its final
           position and its logged requests *)
Definition dec_op (l : list Z) : option (op * list Z) :=
  match l with
  | 0%Z :: r :: hk :: k :: t => Some (OBody (Z.to_nat r) (if Z.eqb hk 0 then None else Some (Z.to_nat k)), t)
  | 1%Z :: r :: t => Some (OCopy (Z.to_nat r), t)
  | 2%Z :: r :: v :: t => Some (OSetCL (Z.to_nat r) v, t)
  | 3%Z :: r :: t => Some (OSetOther (Z.to_nat r), t)
  | 5%Z :: r :: hk :: k :: t => Some (OHandOn (Z.to_nat r) (if Z.eqb hk 0 then None else Some (Z.to_nat k)), t)
  | 4%Z :: r :: t =>
    match dec_str t with
    | Some (d, t1) =>
      match dec_list dec_nat_item t1 with
      | Some (sc, t2) => Some (OSetInput (Z.to_nat r) d sc, t2)
      | None => None
      end
    | None => None
    end
  | _ => None
  end.

Definition enc_out (o : out) : list Z :=
  match o with
  | OutBytes b => 0%Z :: enc_str b
  | OutNew r => [1%Z; Z.of_nat r]
  | OutUnit => [2%Z]
  | OutBadReq => [3%Z]
  | OutErr => [4%Z]
  | OutNotBuffered => [5%Z]
  | OutFuel => [9%Z]
  end.

Definition corr_C04_ops (inp : list Z) : list Z :=
  match inp with
  | cl :: buf :: hm :: mx :: r =>
    match dec_str r with
    | Some (data, r1) =>
      match dec_list dec_nat_item r1 with
      | Some (sc, r2) =>
        match dec_list dec_op r2 with
        | Some (ops, _) =>
          let maxb := if Z.eqb hm 0 then None else Some (Z.to_nat mx) in
          let (w, outs) := run (Z.to_nat buf) maxb (world_init data sc cl) ops in
          enc_list enc_out outs ++ enc_list enc_reqs (w_streams w)
        | None => bad_input
        end
      | None => bad_input
      end
    | None => bad_input
    end
  | _ => bad_input
  end.

(* one entry point for the C04 driver: the first integer selects the mode *)
Definition corr_C04_all (inp : list Z) : list Z :=
  match inp with
  | 0%Z :: r => corr_C04 r
  | 1%Z :: r => corr_C04_ops r
  | _ => bad_input
  end.

(* ---- the invalidation table of BaseRequest._on_env_changed (extracted into Gen.env_changed_table) ----
   which cached views `request[key] = value` drops: the first entry whose test accepts the key *)
Definition entry_matches (e : (str * bool) * list str) (key : str) : bool :=
  let '((k, is_prefix_test), _) := e in
  if is_prefix_test then Str.prefixb k key else str_eqb key k.

Fixpoint views_dropped (table : list ((str * bool) * list str)) (key : str) : list str :=
  match table with
  | [] => []
  | e :: t => if entry_matches e key then snd e else views_dropped t key
  end.

Definition s_body_view : str := [98; 111; 100; 121]%N.          (* 'body' *)
Definition s_wsgi_input : str := [119; 115; 103; 105; 46; 105; 110; 112; 117; 116]%N.   (* 'wsgi.input' *)

(* does assigning environ[key] drop the buffered body ? *)
Definition drops_body (table : list ((str * bool) * list str)) (key : str) : bool :=
  existsb (str_eqb s_body_view) (views_dropped table key).
