(* ParseRule.v — model of Route.parse_rule (ombott/router/radirouter.py:176) on
   top of the rule parser model (RuleParser.v): rule text -> (pattern, names,
   filter specifications, pattern_out).  A filter is identified by the key
   FilterFactory.make_filter caches it under: f'{filter}({args})' (None when the
   wildcard has no filter).  No proofs in this file. *)
From Verif Require Import lib.Base lib.Str lib.PyIntDec model.RuleParser.

Definition ch_cr : N := 13.                                   (* '\r' : the wildcard marker *)
Definition s_anon : str := [97; 110; 111; 110; 45]%N.         (* "anon-" *)
Definition s_None : str := [78; 111; 110; 101]%N.             (* str(None) *)

(* the cache key of make_filter(filter, args): f'{filter}({args})' *)
Definition filter_key (flt : str) (args : option str) : str :=
  flt ++ [ch_lpar] ++ (match args with Some a => a | None => s_None end) ++ [ch_rpar].

Record parsed := mkParsed {
  p_pattern : str;                 (* wildcards replaced by '\r' (+ filter selector) *)
  p_params : list str;             (* one name per wildcard, anonymous ones as anon-N *)
  p_filters : list (option str);   (* filter key per wildcard *)
  p_pattern_out : str }.

Definition is_empty {A} (o : option (list A)) : bool :=
  match o with None | Some [] => true | _ => false end.

(* the loop body of parse_rule *)
Fixpoint fold_items (l : list item) (anon : nat) (acc : parsed) : parsed :=
  match l with
  | [] => acc
  | it :: r =>
    let sel := match i_sel it with Some s => s | None => [] end in   (* filter_selector or '' *)
    if is_empty (i_part it) then
      (* `if not part`: a wildcard *)
      let '(name, anon') :=
          if is_empty (i_param it)
          then (s_anon ++ dec_of_Z (Z.of_nat anon), S anon)
          else (match i_param it with Some p => p | None => [] end, anon) in
      let fk := if is_empty (i_filter it) then None     (* make_filter: `if not filter: return None, None` *)
                else match i_filter it with
                     | Some f => Some (filter_key f (i_args it))
                     | None => None
                     end in
      fold_items r anon'
        (mkParsed (p_pattern acc ++ ch_cr :: sel) (p_params acc ++ [name])
                  (p_filters acc ++ [fk]) (p_pattern_out acc ++ [ch_cr]))
    else
      let part := match i_part it with Some p => p | None => [] end in
      fold_items r anon
        (mkParsed (p_pattern acc ++ part ++ sel) (p_params acc) (p_filters acc)
                  (p_pattern_out acc ++ part))
  end.

Inductive prerr := PRAssert | PRParse (e : perr).

(* Route.parse_rule(rule): `assert rule[0] == '/'`, then the parser on rule[1:] *)
Definition parse_rule (wordc : N -> bool) (rule : str) : prerr + parsed :=
  match rule with
  | c :: rest =>
    if N.eqb c ch_slash then
      match parse wordc rest with
      | inr items => inr (fold_items items 0 (mkParsed [] [] [] []))
      | inl e => inl (PRParse e)
      end
    else inl PRAssert
  | [] => inl PRAssert          (* IndexError on rule[0]: also a developer error *)
  end.

(* ---- correspondence interface (sub-check C01p, mode 1) ----
   input : 1 ; wordc table ; rule
   output: 0 :: pattern ; params ; filter keys (option) ; pattern_out | 1 syntax | 2 type | 3 assert *)
Definition enc_parsed (p : parsed) : list Z :=
  enc_str (p_pattern p) ++ enc_list enc_str (p_params p)
  ++ enc_list (enc_option enc_str) (p_filters p) ++ enc_str (p_pattern_out p).

Definition corr_parse_rule (inp : list Z) : list Z :=
  match dec_str inp with
  | Some (table, r) =>
    match dec_str r with
    | Some (rule, _) =>
      match parse_rule (fun c => existsb (N.eqb c) table) rule with
      | inr p => 0%Z :: enc_parsed p
      | inl (PRParse ESyntax) => [1%Z]
      | inl (PRParse ETypeError) => [2%Z]
      | inl PRAssert => [3%Z]
      | inl (PRParse EFuel) => [9%Z]
      end
    | None => bad_input
    end
  | None => bad_input
  end.

(* one entry point for the C01p driver: first integer selects the mode *)
Definition corr_C01p_all (inp : list Z) : list Z :=
  match inp with
  | 0%Z :: r => corr_C01p r
  | 1%Z :: r => corr_parse_rule r
  | _ => bad_input
  end.
