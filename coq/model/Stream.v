(* Stream.v — model of the server's input stream (wsgi.input.read).
   A stream is the bytes it will still deliver plus a fragmentation schedule:
   read n returns min(n, S k, remaining) bytes where k is the next schedule
   entry (absent: a full read), hence b'' only at end of data (a real socket
   read returns b'' only at EOF).  Every request is logged together with the
   stream position at which it was issued. *)
From Verif Require Import lib.Base.

Record stream := mkStream {
  rest  : list N;           (* bytes not yet delivered *)
  sched : list nat;         (* k : the read delivers at most S k bytes *)
  pos   : nat;              (* bytes delivered so far *)
  reqs  : list (nat * nat)  (* (requested size, position) — newest first *)
}.

Definition stream_init (data : list N) (sc : list nat) : stream :=
  mkStream data sc 0 [].

Definition read_len (s : stream) (n : nat) : nat :=
  match sched s with
  | [] => n
  | k :: _ => Nat.min n (S k)
  end.

Definition read (s : stream) (n : nat) : list N * stream :=
  let k := read_len s n in
  let part := firstn k (rest s) in
  (part, mkStream (skipn k (rest s)) (tl (sched s)) (pos s + length part) ((n, pos s) :: reqs s)).
