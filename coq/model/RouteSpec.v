(* RouteSpec.v — the plain rule-by-rule semantics of route matching (C01, C19).
   No tree, no backtracking: a rule is a list of segments, a path is matched
   left to right.  This file is the SPEC side of C01 (model/Router.v is the
   radix tree that is proved equal to it) and is imported by C19.
   Small and stable on purpose.  No proofs in this file. *)
From Verif Require Import lib.Base lib.Str gen.Gen.

(* A filter is identified by the compiled handler object that
   FilterFactory.make_filter caches per "name(args)" key
   (filter_factory.py:43-49); the harness numbers those objects. *)
Definition fid := nat.

(* A parameter value as the handler receives it.  A str value is its code
   points; a converted value (int/float filter) is encoded by the harness as a
   code point >= 0x110000 followed by its decimal text, so it can never collide
   with path text.  The theorems treat values as opaque. *)
Definition value := str.

(* One rule = list of segments (radirouter.py:176 Route.parse_rule: a static
   part, or a wildcard with an optional filter). *)
Inductive seg :=
| Lit (s : str)
| Wild (f : option fid).

Definition pat := list seg.

Definition ofid_eqb (a b : option fid) : bool :=
  match a, b with
  | None, None => true
  | Some x, Some y => Nat.eqb x y
  | _, _ => false
  end.

(* ---- the code's representation of a rule: pattern string with the param
   token (CR) at every wildcard + the list of filters, one per token
   (radirouter.py:188 `part = '\r'`) ---- *)

Fixpoint pat_of_aux (acc : str) (pattern : str) (flts : list (option fid)) : pat :=
  let flush := match acc with [] => [] | _ => [Lit (rev acc)] end in
  match pattern with
  | [] => flush
  | c :: r =>
    if N.eqb c Gen.param_token then
      match flts with
      | f :: fs => flush ++ Wild f :: pat_of_aux [] r fs
      | [] => flush ++ Wild None :: pat_of_aux [] r []      (* ill-formed: fewer filters than tokens *)
      end
    else pat_of_aux (c :: acc) r flts
  end.

(* normal form: no empty Lit, no two adjacent Lit *)
Definition pat_of (pattern : str) (flts : list (option fid)) : pat := pat_of_aux [] pattern flts.

Fixpoint pattern_of (p : pat) : str :=
  match p with
  | [] => []
  | Lit s :: r => s ++ pattern_of r
  | Wild _ :: r => Gen.param_token :: pattern_of r
  end.

Fixpoint filters_of (p : pat) : list (option fid) :=
  match p with
  | [] => []
  | Lit _ :: r => filters_of r
  | Wild f :: r => f :: filters_of r
  end.

(* number of characters before the next path separator (radidict.py:412-416) *)
Fixpoint seg_len (path : str) : nat :=
  match path with
  | [] => 0
  | c :: r => if N.eqb c Gen.path_sep then 0 else S (seg_len r)
  end.

Section Spec.

(* filt k s = what the compiled filter k answers on the remaining path s:
   None = no match, Some (v, n) = converted value and number of characters
   consumed (filter_factory.py:55-76).  Python's `re` and the converters are
   not modelled: every theorem is quantified over all filt. *)
Variable filt : fid -> str -> option (value * nat).

(* one wildcard at the cursor (radidict.py:405-421).  A wildcard is only tried
   while the cursor is before the end of the path (the `while i < L` guard); a
   plain wildcard takes everything up to the next separator, possibly nothing;
   a filtered one takes what its regex matched once at the cursor. *)
Definition wild_step (f : option fid) (path : str) : option (value * str) :=
  match path with
  | [] => None
  | _ :: _ =>
    match f with
    | None => let n := seg_len path in Some (firstn n path, skipn n path)
    | Some k => match filt k path with
                | Some (v, n) => Some (v, skipn n path)
                | None => None
                end
    end
  end.

(* the obvious left-to-right matcher of ONE rule against the whole path *)
Fixpoint match1 (p : pat) (path : str) : option (list value) :=
  match p with
  | [] => match path with [] => Some [] | _ :: _ => None end
  | Lit s :: p' =>
    if prefixb s path then match1 p' (skipn (length s) path) else None
  | Wild f :: p' =>
    match wild_step f path with
    | None => None
    | Some (v, rest) =>
      match match1 p' rest with
      | None => None
      | Some vs => Some (v :: vs)
      end
    end
  end.

(* ---- priority between two rules that both match ---- *)

(* a pattern character by character, a wildcard counting as one position *)
Inductive pc := PC (c : N) | PW (f : option fid).

Definition flat_seg (s : seg) : list pc :=
  match s with Lit t => map PC t | Wild f => [PW f] end.

Definition flat (p : pat) : list pc := flat_map flat_seg p.

Definition pc_eqb (a b : pc) : bool :=
  match a, b with
  | PC c, PC d => N.eqb c d
  | PW f, PW g => ofid_eqb f g
  | _, _ => false
  end.

(* at the first position where the two patterns differ, the first has literal
   text and the second a wildcard *)
Fixpoint betterb (a b : list pc) : bool :=
  match a, b with
  | PC _ :: _, PW _ :: _ => true
  | x :: a', y :: b' => pc_eqb x y && betterb a' b'
  | _, _ => false
  end.

Definition better (p q : pat) : Prop := betterb (flat p) (flat q) = true.

Fixpoint same_flat (a b : list pc) : bool :=
  match a, b with
  | [], [] => true
  | x :: a', y :: b' => pc_eqb x y && same_flat a' b'
  | _, _ => false
  end.

(* ---- the rule-by-rule semantics of a rule set ---- *)
Section Rules.
Context {R : Type}.            (* what a rule is registered with (route id, names …) *)

Definition hit : Type := (pat * R * list value)%type.

Definition hits (rules : list (pat * R)) (path : str) : list hit :=
  flat_map (fun pr => match match1 (fst pr) path with
                      | Some vs => [(fst pr, snd pr, vs)]
                      | None => []
                      end) rules.

(* the hit that is better than every other hit *)
Fixpoint pick (hs : list hit) : option hit :=
  match hs with
  | [] => None
  | h :: hs' =>
    match pick hs' with
    | None => Some h
    | Some b => if betterb (flat (fst (fst b))) (flat (fst (fst h))) then Some b else Some h
    end
  end.

(* None = "not found" *)
Definition spec (rules : list (pat * R)) (path : str) : option hit := pick (hits rules path).

(* relational reading of the same thing, used to state that pick's answer does
   not depend on the order of the rules *)
Definition is_best (rules : list (pat * R)) (path : str) (h : hit) : Prop :=
  In h (hits rules path) /\
  forall h', In h' (hits rules path) ->
    flat (fst (fst h')) = flat (fst (fst h)) \/ better (fst (fst h)) (fst (fst h')).

End Rules.
End Spec.
