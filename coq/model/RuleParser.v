(* RuleParser.v — model of ombott/router/parser.py (Parser._iter_parse,
   Parser._parse_param) and ombott/router/sym_stream.py (SymStream,
   find_pos_after_close_paren).  The stream is represented by the remaining
   text (SymStream.s[pos:]); every regular expression the parser uses is
   re-implemented as a scanner (their texts are listed next to each scanner).
   `\w` is Unicode-aware in Python, so what it matches enters as a parameter
   [wordc].  No proofs in this file. *)
From Verif Require Import lib.Base lib.Str.

Definition ch_colon : N := 58.   (* ':' *)
Definition ch_lt : N := 60.      (* '<' *)
Definition ch_gt : N := 62.      (* '>' *)
Definition ch_lbrace : N := 123. (* '{' *)
Definition ch_rbrace : N := 125. (* '}' *)
Definition ch_dot : N := 46.     (* '.' *)
Definition ch_lpar : N := 40.    (* '(' *)
Definition ch_rpar : N := 41.    (* ')' *)
Definition ch_lbrk : N := 91.    (* '[' *)
Definition ch_rbrk : N := 93.    (* ']' *)
Definition ch_slash : N := 47.   (* '/' *)
Definition ch_bslash : N := 92.  (* '\\' *)
Definition ch_nl : N := 10.      (* '\n' — the only character '.' does not match *)

Definition path_name : str := [112; 97; 116; 104]%N.   (* "path" *)

(* Parser.param_delimiters + ':'  =  "{<:" *)
Definition is_param_token (c : N) : bool :=
  N.eqb c ch_lbrace || N.eqb c ch_lt || N.eqb c ch_colon.

(* [a-zA-Z_] *)
Definition name_start (c : N) : bool :=
  ((65 <=? c) && (c <=? 90) || (97 <=? c) && (c <=? 122) || (c =? 95))%N.

Inductive perr := ESyntax | ETypeError | EFuel.

(* (part, param, filter, filter_args, filter_selector) — Parser._iter_parse's tuples *)
Record item := mkItem {
  i_part : option str; i_param : option str; i_filter : option str;
  i_args : option str; i_sel : option str }.

Section Parser.
Variable wordc : N -> bool.     (* what re's \w matches *)

(* longest prefix of characters satisfying p : (run, rest) *)
Fixpoint span (p : N -> bool) (s : str) : str * str :=
  match s with
  | [] => ([], [])
  | c :: r => if p c then let (a, b) := span p r in (c :: a, b) else ([], s)
  end.

(* S.eat('[a-zA-Z_]\w*') : None when it does not match at the cursor *)
Definition eat_name (s : str) : option (str * str) :=
  match s with
  | c :: r => if name_start c then let (a, b) := span wordc r in Some (c :: a, b) else None
  | [] => None
  end.

(* S.eat('[^...]+') for a negated class: at least one character *)
Definition eat_not (bad : N -> bool) (s : str) : option (str * str) :=
  match span (fun c => negb (bad c)) s with
  | ([], _) => None
  | (a, b) => Some (a, b)
  end.

(* S.expect(R, group=1), R = ( [a-zA-Z_]\w* )? ( (?=/) | $ ), with S.current not None.
   Greedy name, then backtracking over shorter names can never help (a shorter
   name is followed by a word character, which is neither '/' nor the end), so:
   name followed by '/' or end -> Some name; anything else (including the empty
   name, whose group is None) -> syntax error. *)
Definition expect_colon_name (s : str) : option (str * str) :=
  match eat_name s with
  | Some (nm, r) =>
      match r with
      | [] => Some (nm, r)
      | [c] => if N.eqb c ch_slash || N.eqb c ch_nl then Some (nm, r) else None   (* `$` also matches before a final newline *)
      | c :: _ => if N.eqb c ch_slash then Some (nm, r) else None
      end
  | None => None
  end.

(* find_pos_after_close_paren(s, pos, L) on the remaining text: s = '(' :: body.
   Returns (inside-including-parens, rest).  `i += 2` on a backslash. *)
Fixpoint paren_scan (fuel : nat) (s : str) (level : nat) (acc : str) : option (str * str) :=
  match fuel with
  | O => None
  | S f =>
    match s with
    | [] => None
    | c :: r =>
      if N.eqb c ch_bslash then
        match r with
        | [] => None                          (* i jumps past L: not done *)
        | d :: r' => paren_scan f r' level (d :: c :: acc)
        end
      else if N.eqb c ch_rpar then
        match level with
        | O => Some (rev (c :: acc), r)
        | S l => paren_scan f r l (c :: acc)
        end
      else if N.eqb c ch_lpar then paren_scan f r (S level) (c :: acc)
      else paren_scan f r level (c :: acc)
    end
  end.

(* S.expect_parenthesized()[1:-1] with S.current == '(' *)
Definition expect_parens (s : str) : option (str * str) :=
  match s with
  | c :: r =>
    match paren_scan (S (length r)) r 0 [c] with
    | Some (whole, rest) => Some (removelast (tl whole), rest)
    | None => None
    end
  | [] => None
  end.

(* S.expect(r'\[(.+?)\]', 1) with S.current == '[': group = at least one
   non-newline character, lazily, up to the first ']' after it. *)
Fixpoint sel_scan (s : str) (acc : str) : option (str * str) :=
  match s with
  | [] => None
  | c :: r =>
    if N.eqb c ch_rbrk then Some (rev acc, r)
    else if N.eqb c ch_nl then None
    else sel_scan r (c :: acc)
  end.

Definition expect_selector (s : str) : option (str * str) :=
  match s with
  | _ :: c :: r =>                      (* '[' then the first group character *)
    if N.eqb c ch_nl then None else sel_scan r [c]
  | _ => None
  end.

Definition cur (s : str) : option N := hd_error s.
Definition cur_is (s : str) (c : N) : bool :=
  match s with x :: _ => N.eqb x c | [] => false end.

(* Parser._parse_param with S.current in "{<:" ; s = first :: r *)
Definition parse_param (first : N) (r : str)
  : perr + ((option str * option str * option str * option str) * str) :=
  if N.eqb first ch_colon then
    match r with
    | [] => inr ((None, None, None, None), [])
    | _ => match expect_colon_name r with
           | Some (nm, r') => inr ((Some nm, None, None, None), r')
           | None => inl ESyntax
           end
    end
  else
    let dclose := if N.eqb first ch_lt then ch_gt else ch_rbrace in
    let (bottle, r0) := if cur_is r ch_colon then (true, tl r) else (false, r) in
    match eat_name r0 with
    | None => inl ESyntax
    | Some (name, r1) =>
      let filter0 := if bottle then Some name else None in
      (* the if / elif chain on S.current *)
      let step : perr + (option str * option str * str) :=   (* param, filter, rest *)
        if cur_is r1 dclose then
          inr (match filter0 with None => Some name | Some _ => None end, filter0, r1)
        else if cur_is r1 ch_dot then
          match eat_name (tl r1) with
          | Some (f, r2) => inr (Some name, Some f, r2)
          | None => inl ESyntax
          end
        else if cur_is r1 ch_colon then
          match filter0 with
          | Some _ => inr (None, filter0, r1)
          | None => match eat_name (tl r1) with
                    | Some (f, r2) => inr (Some name, Some f, r2)
                    | None => inl ESyntax
                    end
          end
        else if cur_is r1 ch_lpar then
          inr (None, match filter0 with None => Some name | Some _ => filter0 end, r1)
        else inl ESyntax in
      match step with
      | inl e => inl e
      | inr (param, filter, r2) =>
        let after : perr + (option str * option str * str) :=   (* args, selector, rest *)
          match filter with
          | None => inr (None, None, r2)
          | Some _ =>
            match r2 with
            | [] => inl ETypeError              (* `None not in ':(>'` *)
            | c :: r2' =>
              if negb (N.eqb c ch_colon || N.eqb c ch_lpar || N.eqb c dclose) then inl ESyntax
              else if N.eqb c dclose then inr (None, None, r2)
              else if N.eqb c ch_lpar then
                match expect_parens r2 with
                | None => inl ESyntax
                | Some (args, r3) =>
                  if cur_is r3 ch_lbrk then
                    match expect_selector r3 with
                    | Some (sel, r4) => inr (Some args, Some sel, r4)
                    | None => inl ESyntax
                    end
                  else inr (Some args, None, r3)
                end
              else (* ':' bottle style: S.next(); S.eat('[^dclose]+') *)
                match eat_not (fun x => N.eqb x dclose) r2' with
                | Some (args, r3) => inr (Some args, None, r3)
                | None => inr (None, None, r2')
                end
            end
          end in
        match after with
        | inl e => inl e
        | inr (args, sel, r3) =>
          if cur_is r3 dclose then inr ((param, filter, args, sel), tl r3)   (* S.expect(dclose) *)
          else inl ESyntax
        end
      end
    end.

Definition opt_str_eqb (o : option str) (s : str) : bool :=
  match o with Some x => str_eqb x s | None => false end.

(* Parser._iter_parse *)
Fixpoint iter_parse (fuel : nat) (s : str) : perr + list item :=
  match fuel with
  | O => inl EFuel
  | S f =>
    match s with
    | [] => inr []
    | c :: r =>
      if is_param_token c then
        match parse_param c r with
        | inl e => inl e
        | inr ((param, filter, args, sel), rest) =>
          let args' :=
            if opt_str_eqb filter path_name
            then Some (match span (fun x => negb (is_param_token x)) rest with
                       | ([], _) => rest            (* no match: token_pos = len(tail) *)
                       | (a, _) => a
                       end)
            else args in
          match iter_parse f rest with
          | inl e => inl e
          | inr l => inr (mkItem None param filter args' sel :: l)
          end
        end
      else
        let (part, rest) := span (fun x => negb (is_param_token x)) s in
        match iter_parse f rest with
        | inl e => inl e
        | inr l => inr (mkItem (Some part) None None None None :: l)
        end
    end
  end.

Definition parse (rule : str) : perr + list item := iter_parse (S (length rule)) rule.

End Parser.

(* ---- correspondence interface ----
   input : wordc table (len-prefixed list of code points that \w matches) ; rule (len-prefixed)
   output: 0 :: items  |  1 (syntax error) | 2 (TypeError) | 9 (fuel) *)
Definition enc_item (it : item) : list Z :=
  enc_option enc_str (i_part it) ++ enc_option enc_str (i_param it) ++ enc_option enc_str (i_filter it)
  ++ enc_option enc_str (i_args it) ++ enc_option enc_str (i_sel it).

Definition corr_C01p (inp : list Z) : list Z :=
  match dec_str inp with
  | Some (table, r) =>
    match dec_str r with
    | Some (rule, _) =>
      match parse (fun c => existsb (N.eqb c) table) rule with
      | inr items => 0%Z :: enc_list enc_item items
      | inl ESyntax => [1%Z]
      | inl ETypeError => [2%Z]
      | inl EFuel => [9%Z]
      end
    | None => bad_input
    end
  | None => bad_input
  end.
