(* MultipartRef.v — the ONE-PIECE reference scanner for multipart/form-data
   bodies (the spec of C06, reused by C07/C12).  Uses only [findb] (first
   occurrence, lib/Str.v) on the whole body; no streaming state, no carry.

   [ref B body] is what ombott/request_pkg/multipart.py (with fixes F6, F7)
   computes when the WHOLE body is given to MultipartMarkup(B).parse in one
   call: the list [MultipartMarkup.markups] and where the scan stopped.
   Conventions (checked against the real code):
     * a section is (kind, start, end), absolute offsets into the body,
       half-open [start, end), exactly the entries of [.markups];
     * the first entry is always a Data section starting at 0: the preamble
       before the first delimiter.  A body that starts with "--B" yields
       (Data, 0, 0) (the code computes -2 and clips it to 0, multipart.py:223-228);
       a body that starts with CR yields (Data, 0, q) where q is the offset of the
       first CRLF--B (so "CRLF--B..." also yields (Data,0,0));
     * then alternately (Headers, hs, he) — he = offset of the first CRLFCRLF at
       or after hs — and (Data, he+4, q) — q = offset of the next CRLF--B;
     * after a delimiter, "--" stops the scan (FStopped, epilogue ignored),
       CRLF starts a header block.

   wf_prefix (defined below as the executable [wf_prefixb]): the bodies for
   which C06 claims split independence — every prefix of
        [CRLF] --B ( CRLF hdrs CRLFCRLF data )* CRLF--B-- epilogue
   with [data] free of CRLF--B, any epilogue, and [hdrs] any bytes in which
   "CR LF CR" is always followed by LF and "CR LF LF" does not occur (in
   particular: one or more lines free of CR and LF joined by CRLF).  Exactly:
     - CR does not occur in B;
     - the body is empty, or starts with CR or '-', and (CRLF ++ body, resp.
       body) is a prefix of CRLF--B or has CRLF--B as a prefix (no preamble
       other than one CRLF);
     - what follows every delimiter is one of: nothing, CR, '-', "--"…, CRLF…;
     - every header region (from its start to the end of its CRLFCRLF, or to
       the end of the body when unterminated) satisfies [hdr_clean].
   Outside wf_prefix the streaming parser is NOT split independent (e.g. "CR LF
   LF" at a chunk end is taken for CRLF by the header-end regex's `$`; a junk
   byte after a delimiter is an error only when it is the last byte of a
   chunk); those inputs are in C12's scope.  No proofs in this file. *)
From Verif Require Import lib.Base lib.Str.

Definition bytes := list N.

Definition CR : N := 13.
Definition LF : N := 10.
Definition HY : N := 45.
Definition CRLF : bytes := [CR; LF].
Definition H4 : bytes := [CR; LF; CR; LF].          (* CRLFx2 *)

(* BodyMarkuper.__init__: boundary = b'--' + B ; token = CRLF + boundary *)
Definition dash_boundary (B : bytes) : bytes := HY :: HY :: B.
Definition token (B : bytes) : bytes := CR :: LF :: dash_boundary B.

Inductive kind := Headers | Data.
Definition section := (kind * Z * Z)%type.

(* exception classes of multipart.py that can end up in MultipartMarkup.error *)
Inductive mp_error :=
| EInvalidBoundary      (* InvalidBoundaryError *)
| EMalformedHeaders     (* MalformedHeadersError *)
| EUnexpectedBodyEnd    (* UnexpectedBodyEndError *)
| EAssertion            (* AssertionError (never raised; kept so that every assert is explicit) *)
| EOutOfFuel.           (* model artefact: a fuelled loop ran out (never happens) *)

(* where a one-piece scan of the body ends *)
Inductive final :=
| FStart                 (* first delimiter not (completely) seen; also the empty body *)
| FDelim (a : nat)       (* a delimiter ended at offset a; neither CRLF nor "--" follows (yet) *)
| FHeaders (hs : nat)    (* header block from hs, its CRLFCRLF not seen *)
| FData (ds : nat)       (* data section from ds, the next CRLF--B not seen *)
| FStopped               (* closing delimiter seen *)
| FError (e : mp_error)
| FOutOfFuel.            (* never returned by [ref] (fuel = S (length body)) *)

Definition sec (k : kind) (s e : nat) : section := (k, Z.of_nat s, Z.of_nat e).

Definition cons_secs (l : list section) (r : list section * final) : list section * final :=
  (l ++ fst r, snd r).

(* scan from offset a, just after a delimiter *)
Fixpoint scan_delim (fuel : nat) (tok body : bytes) (a : nat) : list section * final :=
  match fuel with
  | O => ([], FOutOfFuel)
  | S f =>
    match skipn a body with
    | [] => ([], FDelim a)
    | [c] => if N.eqb c CR || N.eqb c HY then ([], FDelim a) else ([], FError EMalformedHeaders)
    | c1 :: c2 :: _ =>
      if N.eqb c1 CR && N.eqb c2 LF then
        let hs := a + 2 in
        match findb H4 (skipn hs body) with
        | None => ([], FHeaders hs)
        | Some e =>
          let he := hs + e in
          let ds := he + 4 in
          match findb tok (skipn ds body) with
          | None => ([sec Headers hs he], FData ds)
          | Some q =>
            cons_secs [sec Headers hs he; sec Data ds (ds + q)]
                      (scan_delim f tok body (ds + q + length tok))
          end
        end
      else if N.eqb c1 HY && N.eqb c2 HY then ([], FStopped)
      else ([], FDelim a)          (* two other bytes: the code returns None, no error *)
    end
  end.

(* the virtual CRLF in front of a body that starts with a hyphen *)
Definition virt (body : bytes) : bytes :=
  match body with
  | c :: _ => if N.eqb c HY then CRLF else []
  | [] => []
  end.

Definition ref (B body : bytes) : list section * final :=
  let tok := token B in
  match body with
  | [] => ([], FStart)
  | c :: _ =>
    if N.eqb c CR || N.eqb c HY then
      let v := virt body in
      match findb tok (v ++ body) with
      | None => ([], FStart)
      | Some q =>
        cons_secs [sec Data 0 (q - length v)]
                  (scan_delim (S (length body)) tok body (q + length tok - length v))
      end
    else ([], FError EInvalidBoundary)
  end.

(* the observable part: MultipartMarkup.markups and the class of .error *)
Definition final_error (f : final) : option mp_error :=
  match f with FError e => Some e | FOutOfFuel => Some EOutOfFuel | _ => None end.

Definition ref_obs (B body : bytes) : list section * option mp_error :=
  let r := ref B body in (fst r, final_error (snd r)).

(* ---- wf_prefix ---- *)

(* in X, "CR LF LF" does not occur and "CR LF CR" is followed by LF or by the end *)
Fixpoint hdr_clean (X : bytes) : bool :=
  match X with
  | [] => true
  | c :: X' =>
    (if N.eqb c CR then
       match X' with
       | c1 :: c2 :: r =>
         if N.eqb c1 LF then
           if N.eqb c2 LF then false
           else if N.eqb c2 CR then match r with [] => true | c3 :: _ => N.eqb c3 LF end
           else true
         else true
       | _ => true
       end
     else true) && hdr_clean X'
  end.

Fixpoint wf_delim (fuel : nat) (tok body : bytes) (a : nat) : bool :=
  match fuel with
  | O => false
  | S f =>
    match skipn a body with
    | [] => true
    | [c] => N.eqb c CR || N.eqb c HY
    | c1 :: c2 :: _ =>
      if N.eqb c1 CR && N.eqb c2 LF then
        let hs := a + 2 in
        match findb H4 (skipn hs body) with
        | None => hdr_clean (skipn hs body)
        | Some e =>
          hdr_clean (firstn (e + 4) (skipn hs body)) &&
          match findb tok (skipn (hs + e + 4) body) with
          | None => true
          | Some q => wf_delim f tok body (hs + e + 4 + q + length tok)
          end
        end
      else N.eqb c1 HY && N.eqb c2 HY
    end
  end.

Definition wf_prefixb (B body : bytes) : bool :=
  negb (contains_char N.eqb CR B) &&
  match body with
  | [] => true
  | c :: _ =>
    (N.eqb c CR || N.eqb c HY) &&
    let D := virt body ++ body in
    let tok := token B in
    if prefixb tok D then wf_delim (S (length body)) tok body (length tok - length (virt body))
    else prefixb D tok
  end.

Definition wf_prefix (B body : bytes) : Prop := wf_prefixb B body = true.
