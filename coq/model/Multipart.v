(* Multipart.v — executable model of the streaming multipart markup of
   ombott/request_pkg/multipart.py (with the fixes F6 and F7 applied):
   MatchTail, HeadersEaeter, BodyMarkuper, MultipartMarkup.parse.
   Follows the code branch for branch; line numbers refer to multipart.py.
   Every place where the Python can raise is an explicit error result
   (the `assert slen <= self.len` of match_tail, multipart.py:43, is discharged
   at its two call sites: slen is literally tlen, resp. len(part) < tlen).
   No proofs in this file. *)
From Verif Require Import lib.Base lib.Str model.MultipartRef.

(* ---------------------------------------------------------------- MatchTail *)

(* MatchTail.__init__ (31-36): idx[c] = the 1-based positions of c in token, increasing;
   the stored head token[:i] is recomputed as [firstn i tok]. *)
Fixpoint idxs_from (c : N) (t : bytes) (i : nat) : list nat :=
  match t with
  | [] => []
  | x :: t' => (if N.eqb x c then [i] else []) ++ idxs_from c t' (S i)
  end.
Definition idxs (tok : bytes) (c : N) : list nat := idxs_from c tok 1.

(* match_tail (38-49): for i, thead in idxs *)
Fixpoint mt_loop (tok s : bytes) (start end_ : nat) (is : list nat) : option nat :=
  match is with
  | [] => None
  | i :: r =>
    let slen := end_ - start in
    if slen <? i then None                                   (* search_pos < 0: return *)
    else if str_eqb (slice s (start + (slen - i)) end_) (firstn i tok) then Some i
    else mt_loop tok s start end_ r
  end.

Definition match_tail (tok s : bytes) (start end_ : nat) : option nat :=
  match nth_error s (end_ - 1) with
  | None => None                                             (* not reachable: 1 <= end <= len(s) *)
  | Some c =>
    match idxs tok c with
    | [] => None                                             (* idxs is None *)
    | is => mt_loop tok s start end_ is
    end
  end.

(* ---------------------------------------------------------------- results of the eaters *)

Inductive eres :=
| EFound (pos : Z)      (* section end (may be negative) *)
| ENone                 (* return None: chunk exhausted *)
| EStop                 (* StopMarkupException *)
| EErr (e : mp_error)
| EFuel.

(* ---------------------------------------------------------------- BodyMarkuper._eat_data (262-314) *)

(* the tail of the chunk, lines 290-314; returns the eater result and the new self.trest *)
Definition tail_part (tok chunk : bytes) (start : nat) (trest : option bytes) : eres * option bytes :=
  let tlen := length tok in
  let part := skipn start chunk in
  match part with
  | [] => (ENone, trest)                                     (* if part: *)
  | _ =>
    let plen := length part in
    let after_trest :=     (* inl pos: return ; inr (trest, part is not None) *)
      match trest with
      | Some r =>
        if plen <? length r then
          if prefixb part r then inr (Some (skipn plen r), false) else inr (None, true)
        else if prefixb r part then inl (Z.of_nat start + Z.of_nat (length r) - Z.of_nat tlen)%Z
        else inr (None, true)
      | None => inr (None, true)
      end in
    match after_trest with
    | inl d => (EFound d, None)
    | inr (tr, false) => (ENone, tr)
    | inr (tr, true) =>
      match match_tail tok part 0 plen with
      | Some m => (ENone, Some (skipn m tok))
      | None => (ENone, tr)
      end
    end
  end.

(* the block loop, lines 268-288 *)
Fixpoint eat_loop (fuel : nat) (tok chunk : bytes) (start : nat) (trest : option bytes)
  : eres * option bytes :=
  match fuel with
  | O => (EFuel, trest)
  | S f =>
    let tlen := length tok in
    let end_ := start + tlen in
    if length chunk <? end_ then tail_part tok chunk start trest
    else
      let hit := match trest with
                 | Some r => str_eqb (slice chunk start (start + length r)) r
                 | None => false
                 end in
      if hit then
        (EFound (Z.of_nat start + Z.of_nat (match trest with Some r => length r | None => 0 end)
                 - Z.of_nat tlen)%Z, None)
      else
        match match_tail tok chunk start end_ with
        | Some m => if m =? tlen then (EFound (Z.of_nat start), None)
                    else eat_loop f tok chunk (start + tlen) (Some (skipn m tok))
        | None => eat_loop f tok chunk (start + tlen) None
        end
  end.

Definition eat_data (tok chunk : bytes) (base : nat) (trest : option bytes) : eres * option bytes :=
  eat_loop (S (length chunk)) tok chunk base trest.

(* BodyMarkuper._eat_start_boundary (237-260); boundary = token[2:] *)
Definition eat_start_boundary (tok chunk : bytes) (base : nat) (trest : option bytes)
  : eres * option bytes :=
  let boundary := skipn 2 tok in
  match trest with
  | None =>
    match slice chunk base (base + 1) with
    | [] => (ENone, None)
    | c :: _ =>
      if N.eqb c CR then eat_data tok chunk base None
      else if prefixb boundary chunk then ((EFound (Z.of_nat base - 2))%Z, None)   (* chunk.startswith *)
      else if negb (N.eqb c HY) then (EErr EInvalidBoundary, None)                  (* != boundary[:1] *)
      else eat_data tok chunk base (Some boundary)
    end
  | Some _ => eat_data tok chunk base trest
  end.

(* ---------------------------------------------------------------- HeadersEaeter *)

Inductive hmeth := HFirst | HLf | HLastHyphen | HHeaders.

Record hst := mkH {
  eat_meth : hmeth;            (* self.eat_meth *)
  hexp : option bytes;         (* self.headers_end_expected *)
  hstopped : bool              (* self.stopped *)
}.

(* end_headers_patt = re.compile(br'(\r\n\r\n)|(\r(\n\r?)?)$')   (multipart.py:63)
   The source text is pinned in proofs/C06_model_pins.v against Gen.end_headers_patt_src.
   search(chunk, base): leftmost position where alternative 1, else alternative 2,
   matches.  `$` (no MULTILINE) matches at the end of the string and before a
   final LF.  Alternative 2 is tried greedily: CR LF CR, then CR LF, then CR. *)
Definition eol (x : bytes) : bool :=
  match x with [] => true | [c] => N.eqb c LF | _ => false end.

Definition alt2 (s' : bytes) : option nat :=      (* s' = the bytes after the CR; length of group(2) *)
  let try3 := match s' with c1 :: c2 :: r2 => N.eqb c1 LF && N.eqb c2 CR && eol r2 | _ => false end in
  let try2 := match s' with c1 :: r1 => N.eqb c1 LF && eol r1 | _ => false end in
  let try1 := eol s' in
  if try3 then Some 3 else if try2 then Some 2 else if try1 then Some 1 else None.

Inductive hmatch := MEnd (i : nat) | MPart (len : nat) | MNo.

Fixpoint hsearch (s : bytes) (i : nat) : hmatch :=       (* s = chunk[i:] *)
  match s with
  | [] => MNo
  | c :: s' =>
    if N.eqb c CR then
      if prefixb [LF; CR; LF] s' then MEnd i
      else match alt2 s' with Some l => MPart l | None => hsearch s' (S i) end
    else hsearch s' (S i)
  end.

(* _eat_headers (127-165): result and the new headers_end_expected *)
Definition eat_headers (chunk : bytes) (base : nat) (expected : option bytes) : eres * option bytes :=
  let regex :=
    match hsearch (skipn base chunk) base with
    | MNo => (ENone, None)
    | MEnd i => (EFound (Z.of_nat i), None)
    | MPart l => (ENone, Some (skipn l H4))
    end in
  match expected with
  | Some ex =>
    let elen := length ex in
    let cs := slice chunk base elen in                     (* chunk[base:expected_len]  (sic) *)
    if str_eqb cs ex then (EFound (Z.of_nat base + Z.of_nat elen - 4)%Z, None)
    else
      let cl := length cs in
      if cl =? 0 then (ENone, expected)
      else if (cl <? elen) && prefixb cs ex then (ENone, Some (skipn cl ex))
      else if str_eqb ex [LF] then (EErr EMalformedHeaders, None)
      else if elen <? 2 then (EErr EAssertion, None)
      else regex
  | None => regex
  end.

(* _eat_first_crlf_or_last_hyphens (110-125) *)
Definition eat_first (h : hst) (chunk : bytes) (base : nat) : hst * eres :=
  match slice chunk base (base + 2) with
  | [] => (h, ENone)
  | [c] =>
    if N.eqb c CR then (mkH HLf (hexp h) (hstopped h), ENone)
    else if N.eqb c HY then (mkH HLastHyphen (hexp h) (hstopped h), ENone)
    else (h, EErr EMalformedHeaders)                        (* eat_meth is None *)
  | c1 :: c2 :: _ =>
    if N.eqb c1 CR && N.eqb c2 LF then (h, EFound (Z.of_nat base + 2)%Z)
    else if N.eqb c1 HY && N.eqb c2 HY then (mkH (eat_meth h) (hexp h) true, EFound (Z.of_nat base + 2)%Z)
    else (h, ENone)
  end.

(* _eat_last_hyphen (92-99), with F6: one byte is sliced *)
Definition eat_last_hyphen (h : hst) (chunk : bytes) (base : nat) : hst * eres :=
  match slice chunk base (base + 1) with
  | [] => (h, ENone)
  | c :: _ =>
    if N.eqb c HY then (mkH (eat_meth h) (hexp h) true, EFound (Z.of_nat base + 1)%Z)
    else (h, EErr EUnexpectedBodyEnd)
  end.

(* _eat_lf (101-108) *)
Definition eat_lf (h : hst) (chunk : bytes) (base : nat) : hst * eres :=
  match slice chunk base (base + 1) with
  | [] => (h, ENone)
  | c :: _ =>
    if N.eqb c LF then (h, EFound (Z.of_nat base + 1)%Z)
    else (h, EErr EMalformedHeaders)
  end.

(* eat (76-90) once eat_meth is _eat_headers *)
Definition eat_in_headers (h : hst) (chunk : bytes) (base : nat) : hst * eres :=
  let '(r, ex) := eat_headers chunk base (hexp h) in
  match r with
  | EFound pos => (mkH HFirst ex (hstopped h), EFound pos)   (* reset eater *)
  | _ => (mkH HHeaders ex (hstopped h), r)
  end.

(* eat (76-90): the recursion has depth at most two *)
Definition eat (h : hst) (chunk : bytes) (base : nat) : hst * eres :=
  match eat_meth h with
  | HHeaders => eat_in_headers h chunk base
  | m =>
    let '(h1, r) := match m with
                    | HFirst => eat_first h chunk base
                    | HLf => eat_lf h chunk base
                    | _ => eat_last_hyphen h chunk base
                    end in
    match r with
    | EFound pos =>
      if hstopped h1 then (h1, EStop)
      else eat_in_headers (mkH HHeaders (hexp h1) (hstopped h1)) chunk (Z.to_nat pos)
    | _ => (h1, r)
    end
  end.

(* ---------------------------------------------------------------- BodyMarkuper.iter_markup + MultipartMarkup.parse *)

Inductive cur := CStart | CData | CHdr.      (* self.cur_meth *)

Record st := mkSt {
  s_tok : bytes;               (* token = CRLF + b'--' + boundary (constant) *)
  cur_meth : cur;
  trest : option bytes;        (* self.trest (trest_len = its length) *)
  heater : hst;                (* self.headers_eater *)
  stopped : bool;              (* BodyMarkuper.stopped *)
  abspos : Z;
  sec_start : Z;               (* abs_start_section *)
  out : list section;          (* MultipartMarkup.markups *)
  error : option mp_error      (* class of MultipartMarkup.error *)
}.

Definition init (B : bytes) : st :=
  mkSt (token B) CStart None (mkH HFirst None false) false 0 0 []
       (if contains_char N.eqb CR B then Some EInvalidBoundary else None).   (* 170-171 *)

(* the while loop of iter_markup (196-231); start_next_sec and the local
   cur_meth / abs_start_section are carried as arguments *)
Fixpoint im_loop (fuel : nat) (s : st) (chunk : bytes) (c : cur) (abs_start : Z) (base : nat) : st :=
  match fuel with
  | O => mkSt (s_tok s) c (trest s) (heater s) (stopped s) (abspos s) abs_start (out s) (Some EOutOfFuel)
  | S f =>
    let tok := s_tok s in
    let tlen := Z.of_nat (length tok) in
    let '(r, tr, h) :=
      match c with
      | CHdr => let '(h', r) := eat (heater s) chunk base in (r, trest s, h')
      | CData => let '(r, tr) := eat_data tok chunk base (trest s) in (r, tr, heater s)
      | CStart => let '(r, tr) := eat_start_boundary tok chunk base (trest s) in (r, tr, heater s)
      end in
    match r with
    | EStop => mkSt tok (cur_meth s) tr h true (abspos s) (sec_start s) (out s) (error s)   (* 199-201 *)
    | EErr e => mkSt tok (cur_meth s) tr h (stopped s) (abspos s) (sec_start s) (out s) (Some e)
    | EFuel => mkSt tok (cur_meth s) tr h (stopped s) (abspos s) (sec_start s) (out s) (Some EOutOfFuel)
    | ENone =>                                                                    (* 203-204, 233-235 *)
      mkSt tok c tr h (stopped s) (abspos s + Z.of_nat (length chunk)) abs_start (out s) (error s)
    | EFound end_section =>
      match c with
      | CHdr =>
        let s2 := mkSt tok (cur_meth s) tr h (stopped s) (abspos s) (sec_start s)
                       (out s ++ [(Headers, abs_start, abspos s + end_section)%Z]) (error s) in
        let start_next := (end_section + 4)%Z in
        im_loop f s2 chunk CData (abspos s + start_next + 0)%Z (Z.to_nat start_next)
      | CData =>
        let s2 := mkSt tok (cur_meth s) tr h (stopped s) (abspos s) (sec_start s)
                       (out s ++ [(Data, abs_start, abspos s + end_section)%Z]) (error s) in
        let start_next := (end_section + tlen)%Z in
        im_loop f s2 chunk CHdr (abspos s + start_next + 2)%Z (Z.to_nat start_next)
      | CStart =>
        let start_next := (end_section + tlen)%Z in
        let abs_end := (abspos s + end_section)%Z in
        if (abs_end <? 0)%Z && negb (abs_end =? -2)%Z then                        (* assert, 227 *)
          mkSt tok (cur_meth s) tr h (stopped s) (abspos s) (sec_start s) (out s) (Some EAssertion)
        else
          let end' := if (abs_end <? 0)%Z then (- abspos s)%Z else end_section in
          let s2 := mkSt tok (cur_meth s) tr h (stopped s) (abspos s) (sec_start s)
                         (out s ++ [(Data, abs_start, abspos s + end')%Z]) (error s) in
          im_loop f s2 chunk CHdr (abspos s + start_next + 2)%Z (Z.to_nat start_next)
      end
    end
  end.

(* MultipartMarkup.parse (325-331) around BodyMarkuper.iter_markup (187-235, with F7) *)
Definition feed (s : st) (chunk : bytes) : st :=
  match error s with
  | Some _ => s                                   (* if self.error is not None: return *)
  | None =>
    if stopped s then s                           (* F7: if self.stopped: return *)
    else im_loop (S (S (length chunk))) s chunk (cur_meth s) (sec_start s) 0
  end.

Definition obs (s : st) : list section * option mp_error := (out s, error s).

Definition markup_chunks (B : bytes) (chunks : list bytes) : list section * option mp_error :=
  obs (fold_left feed chunks (init B)).

(* ---------------------------------------------------------------- correspondence interface *)

Definition enc_kind (k : kind) : Z := match k with Headers => 0%Z | Data => 1%Z end.
Definition enc_err (e : option mp_error) : Z :=
  match e with
  | None => 0%Z
  | Some EInvalidBoundary => 1%Z
  | Some EMalformedHeaders => 2%Z
  | Some EUnexpectedBodyEnd => 3%Z
  | Some EAssertion => 4%Z
  | Some EOutOfFuel => 5%Z
  end.

Definition enc_obs (o : list section * option mp_error) : list Z :=
  enc_list (fun '(k, a, b) => [enc_kind k; a; b]) (fst o) ++ [enc_err (snd o)].

(* input: boundary (len-prefixed) ; number of chunks ; chunks (len-prefixed each)
   output: the streaming observation, then the one-piece reference on the concatenation
   and wf_prefixb (so that the harness also validates [ref] and [wf_prefixb]) *)
Definition corr_C06_chunks (inp : list Z) : list Z :=
  match dec_str inp with
  | Some (B, r) =>
    match dec_list dec_str r with
    | Some (chunks, _) =>
      enc_obs (markup_chunks B chunks)
      ++ enc_obs (if contains_char N.eqb CR B then ([], Some EInvalidBoundary)
                  else ref_obs B (concat chunks))
      ++ enc_bool (wf_prefixb B (concat chunks))
    | None => bad_input
    end
  | None => bad_input
  end.
