(* Static.v — model of the path handling of ombott/static_stream.py:static_file
   (lines 72-84) and of the CPython 3.12 posixpath functions it calls
   (Lib/posixpath.py: join l.71, normpath l.377 = Modules/posixmodule.c
   _path_normpath, abspath l.416).  The current directory is a parameter.
   No proofs in this file. *)
From Verif Require Import lib.Base lib.Str.
Local Open Scope N_scope.

Definition SEP : N := 47.      (* '/'  = os.sep *)
Definition BSL : N := 92.      (* '\\' *)
Definition s_dot : str := [46].
Definition s_dotdot : str := [46; 46].

Definition is_nil {A} (l : list A) : bool := match l with [] => true | _ => false end.

(* posixpath.isabs / b.startswith(sep) *)
Definition isabs (p : str) : bool := match p with c :: _ => c =? SEP | [] => false end.

(* path.endswith(sep) *)
Fixpoint ends_sep (p : str) : bool :=
  match p with
  | [] => false
  | [c] => c =? SEP
  | _ :: r => ends_sep r
  end.

(* posixpath.join(a, b)   (posixpath.py:82-88, one component) *)
Definition path_join (a b : str) : str :=
  if isabs b then b
  else if is_nil a || ends_sep a then a ++ b
  else a ++ SEP :: b.

(* posixpath.splitroot: one or exactly two leading slashes are kept, three or
   more collapse to one *)
Definition initial_slashes (p : str) : nat :=
  match p with
  | c1 :: r1 =>
    if c1 =? SEP then
      match r1 with
      | c2 :: r2 =>
        if c2 =? SEP then
          match r2 with
          | c3 :: _ => if c3 =? SEP then 1%nat else 2%nat
          | [] => 2%nat
          end
        else 1%nat
      | [] => 1%nat
      end
    else 0%nat
  | [] => 0%nat
  end.

(* posixpath.py:395-402, one iteration of the component loop; the stack
   [st] = new_comps reversed (last element first) *)
Definition norm_step (isl : nat) (st : list str) (comp : str) : list str :=
  if is_nil comp || str_eqb comp s_dot then st                       (* l.396 continue *)
  else if negb (str_eqb comp s_dotdot)
          || (Nat.eqb isl 0 && is_nil st)
          || (match st with t :: _ => str_eqb t s_dotdot | [] => false end)
       then comp :: st                                               (* l.400 append *)
       else match st with _ :: st' => st' | [] => [] end.            (* l.402 pop (if any) *)

Definition norm_comps (isl : nat) (comps : list str) : list str :=
  rev (fold_left (norm_step isl) comps []).

Definition normpath (p : str) : str :=
  if is_nil p then s_dot                                              (* l.390 *)
  else
    let isl := initial_slashes p in
    let comps := norm_comps isl (split_all N.eqb SEP p) in
    let out := repeat SEP isl ++ join [SEP] comps in                  (* l.404 *)
    if is_nil out then s_dot else out.                                (* l.405 *)

(* posixpath.abspath with os.getcwd() = cwd *)
Definition abspath (cwd p : str) : str :=
  normpath (if isabs p then p else path_join cwd p).

(* filename.strip('/\\') *)
Definition is_slash (c : N) : bool := (c =? SEP) || (c =? BSL).
Definition strip_slashes (s : str) : str := strip_set is_slash s.

(* static_stream.py:74  root = os_path.abspath(root) + os.sep *)
Definition sf_root (cwd root : str) : str := abspath cwd root ++ [SEP].

(* static_stream.py:75  filename = abspath(join(root, filename.strip('/\\'))) *)
Definition sf_filename (cwd root name : str) : str :=
  abspath cwd (path_join (sf_root cwd root) (strip_slashes name)).

(* static_stream.py:79 *)
Definition passes_check (cwd root name : str) : bool :=
  startswith (sf_filename cwd root name) (sf_root cwd root).

Inductive gate :=
| G403Denied                (* l.80  HTTPError(403, "Access denied.") *)
| G404                      (* l.82 *)
| G403Perm                  (* l.84 *)
| GServe (target : str).    (* the checks passed; [target] is what l.87-111 work on *)

Section Gate.
(* os.path.exists / os.path.isfile / os.access(.., R_OK): filesystem oracles *)
Variables fs_exists fs_isfile fs_access : str -> bool.

Definition sf_gate (cwd root name : str) : gate :=
  let f := sf_filename cwd root name in
  if negb (passes_check cwd root name) then G403Denied
  else if negb (fs_exists f) || negb (fs_isfile f) then G404
  else if negb (fs_access f) then G403Perm
  else GServe f.
End Gate.

(* paths handed to open() during the call: only l.111, only for a request that
   is neither answered 304 (l.107-109 return first) nor a HEAD *)
Definition sf_opened (g : gate) (head notmod : bool) : list str :=
  match g with
  | GServe t => if head || notmod then [] else [t]
  | _ => []
  end.

(* path components (used by the theorems): the non-empty pieces between '/' *)
Definition components (p : str) : list str :=
  filter (fun c => negb (is_nil c)) (split_all N.eqb SEP p).

(* ---- correspondence interface ----
   input : cwd ; root ; name (length-prefixed) ; exists ; isfile ; access ; head ; notmod
   output: sf_root ; sf_filename ; gate tag (0 denied,1 404,2 perm,3 serve) ; opened list *)
Definition corr_C16 (inp : list Z) : list Z :=
  match dec_str inp with
  | Some (cwd, r1) =>
    match dec_str r1 with
    | Some (root, r2) =>
      match dec_str r2 with
      | Some (name, [ex; isf; acc; hd; nm]) =>
        let b z := negb (Z.eqb z 0) in
        let g := sf_gate (fun _ => b ex) (fun _ => b isf) (fun _ => b acc) cwd root name in
        enc_str (sf_root cwd root) ++ enc_str (sf_filename cwd root name)
        ++ [match g with G403Denied => 0 | G404 => 1 | G403Perm => 2 | GServe _ => 3 end%Z]
        ++ enc_list enc_str (sf_opened g (b hd) (b nm))
      | _ => bad_input
      end
    | None => bad_input
    end
  | None => bad_input
  end.
