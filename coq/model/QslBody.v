(* QslBody.v — Request.forms for an urlencoded body, END TO END: the body is
   read off wsgi.input by Request._body under either framing (model/Body.v,
   model/Chunked.v), capped by _get_body_string (model/BodyLimits.v, bodyA),
   decoded as latin1 and parsed by parse_qsl (model/Qsl.v).
   body_mixin.py:181   parse_qsl(touni(self._get_body_string(), 'latin1'), setitem=post.__setitem__)
   No proofs in this file.  Owned by cluster qslH (imports, does not edit, the
   framing models). *)
From Verif Require Import lib.Base lib.Str lib.Utf8 lib.Pct
     model.Stream model.Body model.Chunked model.BodyLimits model.Qsl gen.Gen.

Inductive fres :=
| FForms (d : fdict) (s : stream)      (* Request.forms returned *)
| FStatus (code : Z) (s : stream)      (* HTTPError from errors_map (413 / 400) *)
| FEscape (s : stream)                 (* unmapped exception *)
| FFuel.

(* buf = max_memfile_size (read buffer, spool threshold and text cap), maxb = max_body_size *)
Definition forms_through (s : stream) (buf : nat) (maxb : option nat) (cl : Z) (chunked : bool) : fres :=
  match form_text s buf maxb cl chunked with
  | TText d s' =>
    match forms_urlencoded d with
    | QDone f => FForms f s'
    | QOutOfFuel => FFuel
    end
  | TStatus c s' => FStatus c s'
  | TEscape s' => FEscape s'
  | TFuel => FFuel
  end.

Definition enc_fres (r : fres) : list Z :=
  match r with
  | FForms d s => 0%Z :: enc_fdict d ++ [Z.of_nat (pos s)]
  | FStatus c s => 1%Z :: c :: [Z.of_nat (pos s)]
  | FEscape s => 2%Z :: [Z.of_nat (pos s)]
  | FFuel => [9%Z]
  end.

(* kind 5 ; cl ; chunked ; buf ; has_max ; max ; data ; sched  -> forms through the framing
   every other kind: model/Qsl.v corr_C18_base *)
Definition corr_C18 (inp : list Z) : list Z :=
  match inp with
  | 5%Z :: cl :: ch :: buf :: hm :: mx :: r =>
    match dec_str r with
    | Some (data, r1) =>
      match dec_list dec_nat_item r1 with
      | Some (sc, _) =>
        let maxb := if Z.eqb hm 0 then None else Some (Z.to_nat mx) in
        enc_fres (forms_through (stream_init data sc) (Z.to_nat buf) maxb cl (negb (Z.eqb ch 0)))
      | None => bad_input
      end
    | None => bad_input
    end
  | _ => corr_C18_base inp
  end.
