(* TsProps.v — model of the thread-local attribute stores behind the shared
   request / response objects of an application:

     ombott/common_helpers.py:73-103   ts_props (init_wrapper, make_prop)   [with fix F13]
     ombott/common_helpers.py:228-243  HeaderDict (_ts = threading.local(), .dict property)
     ombott/response.py:70-92          BaseResponse.__new__ / __init__
     ombott/response.py:128-143        status setter
     ombott/request_pkg/request.py:31-34, 76-84, 115-133   BaseRequest.__init__, copy, __getattr__, __setattr__
     ombott/ombott.py:277-318          Ombott._handle (request.__init__(environ); response.__init__())

   Reading guide.
   * An object is (class, number).  A thread is a number.  An attribute is the
     index of the name in the decorator's argument list:
       Request : 0 environ, 1 _env_get
       Response: 0 _status_line, 1 _status_code, 2 _headers, 3 _cookies, 4 body
   * The threading.local() an instance keeps in its slot `_ts_props` is created
     once (first __init__) and never stored anywhere else, so it is identified
     with the instance that owns it: [slot w o = true] says "o._ts_props holds a
     store", and [cell w o t a] is attribute a of that store as seen by thread
     t (threading.local semantics: an attribute set by t exists for t only).
   * [closure] is the variable `local_store` of the decorator BEFORE fix F13
     (one per decorated class, rebound by every __init__).  The fixed accessors
     do not have it; the field is kept so that the unfixed accessor can be
     stated over the same world ([sel_closure], used only by the recorded
     defect in proofs/C10_proofs.v).  Nothing in [sel_instance] reads it.
   * Dicts created while a thread works (the environ, `_headers = {}`) live in
     that thread's private heap; a reference [VRef d] means "dict number d of
     the executing thread".  The model therefore cannot express a dict that
     travels from one thread to another: the only shared mutable locations it
     knows are the cells, the HeaderDict pointers and the slots below.
   * Every op is one attribute access on a shared object (or a private dict
     operation); that each of them is atomic is the runtime's business (GIL,
     getattr/setattr on threading.local, C-level dict) and is NOT modelled.
   No proofs in this file. *)
From Verif Require Import lib.Base.

Inductive cls := CReq | CResp.
Definition cls_eqb (a b : cls) : bool :=
  match a, b with CReq, CReq => true | CResp, CResp => true | _, _ => false end.

Definition obj := (cls * nat)%type.
Definition obj_eqb (a b : obj) : bool := cls_eqb (fst a) (fst b) && Nat.eqb (snd a) (snd b).
Definition tid := nat.
Definition attr := nat.
Definition key := nat.

(* number of names given to @ts_props: request.py:136, response.py:254-258 *)
Definition nprops (c : cls) : nat := match c with CReq => 2 | CResp => 5 end.
Definition a_environ : attr := 0.
Definition a_env_get : attr := 1.
Definition a_status_line : attr := 0.
Definition a_status_code : attr := 1.
Definition a_headers : attr := 2.
Definition a_cookies : attr := 3.
Definition a_body : attr := 4.

Inductive val :=
| VNone
| VInt (z : Z)
| VStr (s : str)
| VRef (d : nat)        (* dict number d of the executing thread *)
| VMeth (d : nat)       (* the bound method d.get (request.py:130) *)
| VObj (o : obj).       (* a request / response object itself *)

Definition dict := list (key * val).

Inductive result :=
| RUnit
| RVal (v : val)
| RAttrErr              (* AttributeError *)
| RKeyErr               (* KeyError *)
| RBad                  (* TypeError, or an op the model does not describe *)
| RItems (l : dict).

Inductive op :=
| OPro (o : obj)                         (* init_wrapper up to the call of cls_init: common_helpers.py:77-83 *)
| OGet (o : obj) (a : attr)              (* fget: common_helpers.py:87 *)
| OSet (o : obj) (a : attr) (v : val)    (* fset: :90 *)
| ODel (o : obj) (a : attr)              (* fdel: :93 *)
| OHNew (o : obj)                        (* HeaderDict.__init__ (:237-239), called from BaseResponse.__new__ only *)
| OHGet (o : obj)                        (* o.headers.dict  (:232) *)
| OHSet (o : obj) (v : val)              (* o.headers.dict = v (:233) *)
| ODNew                                  (* {} *)
| ODCopy (d : nat)                       (* d.copy() *)
| ODGet (d : nat) (k : key)              (* d[k] *)
| ODSet (d : nat) (k : key) (v : val)    (* d[k] = v *)
| ODClear (d : nat)
| ODItems (d : nat)                      (* list(d.items()) *)
| OOut (r : result).                     (* what the thread hands back to its caller; no effect *)

Record world := mkW {
  slot : obj -> bool;
  closure : cls -> option obj;
  cell : obj -> tid -> attr -> option val;
  hcon : obj -> bool;                       (* o.headers holds a HeaderDict *)
  hdict : obj -> tid -> option val;         (* o.headers._ts.dict as seen by thread t *)
  heap : tid -> list dict
}.

Definition w_empty : world :=
  mkW (fun _ => false) (fun _ => None) (fun _ _ _ => None) (fun _ => false) (fun _ _ => None) (fun _ => []).

(* ---- field updates ---- *)
Definition set_slot (o : obj) (w : world) : world :=
  mkW (fun o' => if obj_eqb o o' then true else slot w o') (closure w) (cell w) (hcon w) (hdict w) (heap w).
Definition set_closure (c : cls) (o : obj) (w : world) : world :=
  mkW (slot w) (fun c' => if cls_eqb c c' then Some o else closure w c') (cell w) (hcon w) (hdict w) (heap w).
Definition set_cells (o : obj) (f : tid -> attr -> option val) (w : world) : world :=
  mkW (slot w) (closure w) (fun o' => if obj_eqb o o' then f else cell w o') (hcon w) (hdict w) (heap w).
Definition set_cell (o : obj) (t : tid) (a : attr) (x : option val) (w : world) : world :=
  set_cells o (fun t' a' => if Nat.eqb t t' && Nat.eqb a a' then x else cell w o t' a') w.
Definition set_hd (o : obj) (f : tid -> option val) (w : world) : world :=
  mkW (slot w) (closure w) (cell w) (fun o' => if obj_eqb o o' then true else hcon w o')
      (fun o' => if obj_eqb o o' then f else hdict w o') (heap w).
Definition set_heap (t : tid) (h : list dict) (w : world) : world :=
  mkW (slot w) (closure w) (cell w) (hcon w) (hdict w) (fun t' => if Nat.eqb t t' then h else heap w t').

(* ---- dict primitives (insertion-ordered, Python dict semantics) ---- *)
Fixpoint d_get (l : dict) (k : key) : option val :=
  match l with
  | [] => None
  | (k', v) :: r => if Nat.eqb k k' then Some v else d_get r k
  end.
Fixpoint d_set (l : dict) (k : key) (v : val) : dict :=
  match l with
  | [] => [(k, v)]
  | (k', v') :: r => if Nat.eqb k k' then (k', v) :: r else (k', v') :: d_set r k v
  end.
Fixpoint list_upd {A} (l : list A) (n : nat) (x : A) : list A :=
  match l, n with
  | [], _ => []
  | _ :: r, O => x :: r
  | y :: r, S n' => y :: list_upd r n' x
  end.

(* ---- which store an accessor of instance o uses ---- *)
(* fixed (F13): getattr(s, store_name)  — the instance's own store; when the
   slot is unset Request.__getattr__ turns the slot name into None
   (request.py:117) and Response raises AttributeError: no store either way *)
Definition sel_instance (w : world) (o : obj) : option obj := if slot w o then Some o else None.
(* before F13: the closure variable of the class *)
Definition sel_closure (w : world) (o : obj) : option obj := closure w (fst o).

(* reading a name that the store does not have for this thread: the getter
   raises AttributeError; for a Request, Python then calls
   BaseRequest.__getattr__, which returns None for every name in __slots__
   (request.py:115-118); a Response has no __getattr__ *)
Definition unset_result (c : cls) : result :=
  match c with CReq => RVal VNone | CResp => RAttrErr end.

Definition exec (sel : world -> obj -> option obj) (t : tid) (p : op) (w : world) : world * result :=
  match p with
  | OPro o =>
    (* local_store = getattr(self, store_name, None)
       if local_store is None: local_store = threading.local(); setattr(self, store_name, local_store)
       [setattr(local_store, k, None) for k in props]
       (before F13 also: nonlocal local_store — the closure now names this store) *)
    let w1 := if slot w o then w else set_cells o (fun _ _ => None) (set_slot o w) in
    let w2 := set_closure (fst o) o w1 in
    (set_cells o (fun t' a' => if Nat.eqb t t' && Nat.ltb a' (nprops (fst o)) then Some VNone
                               else cell w2 o t' a') w2, RUnit)
  | OGet o a =>
    if negb (Nat.ltb a (nprops (fst o))) then (w, RBad) else
    match sel w o with
    | None => (w, unset_result (fst o))
    | Some s => match cell w s t a with
                | Some v => (w, RVal v)
                | None => (w, unset_result (fst o))
                end
    end
  | OSet o a v =>
    if negb (Nat.ltb a (nprops (fst o))) then (w, RBad) else
    match sel w o with
    | None => (w, RAttrErr)            (* setattr(None, k, v) / slot unset *)
    | Some s => (set_cell s t a (Some v) w, RUnit)
    end
  | ODel o a =>
    if negb (Nat.ltb a (nprops (fst o))) then (w, RBad) else
    match sel w o with
    | None => (w, RAttrErr)
    | Some s => match cell w s t a with
                | Some _ => (set_cell s t a None w, RUnit)
                | None => (w, RAttrErr)
                end
    end
  | OHNew o =>
    (* self._ts = threading.local(); self._ts.dict = dict(): a NEW local, so
       every other thread loses its entry — only ever run on an object that is
       being constructed *)
    match fst o with
    | CReq => (w, RBad)
    | CResp =>
      let d := length (heap w t) in
      (set_hd o (fun t' => if Nat.eqb t t' then Some (VRef d) else None)
              (set_heap t (heap w t ++ [[]]) w), RUnit)
    end
  | OHGet o =>
    match fst o with
    | CReq => (w, RBad)
    | CResp => if hcon w o then
                 match hdict w o t with Some v => (w, RVal v) | None => (w, RAttrErr) end
               else (w, RAttrErr)
    end
  | OHSet o v =>
    match fst o with
    | CReq => (w, RBad)
    | CResp => if hcon w o then
                 (set_hd o (fun t' => if Nat.eqb t t' then Some v else hdict w o t') w, RUnit)
               else (w, RAttrErr)
    end
  | ODNew => (set_heap t (heap w t ++ [[]]) w, RVal (VRef (length (heap w t))))
  | ODCopy d =>
    match nth_error (heap w t) d with
    | Some l => (set_heap t (heap w t ++ [l]) w, RVal (VRef (length (heap w t))))
    | None => (w, RBad)
    end
  | ODGet d k =>
    match nth_error (heap w t) d with
    | Some l => match d_get l k with Some v => (w, RVal v) | None => (w, RKeyErr) end
    | None => (w, RBad)
    end
  | ODSet d k v =>
    match nth_error (heap w t) d with
    | Some l => (set_heap t (list_upd (heap w t) d (d_set l k v)) w, RUnit)
    | None => (w, RBad)
    end
  | ODClear d =>
    match nth_error (heap w t) d with
    | Some _ => (set_heap t (list_upd (heap w t) d []) w, RUnit)
    | None => (w, RBad)
    end
  | ODItems d =>
    match nth_error (heap w t) d with
    | Some l => (w, RItems l)
    | None => (w, RBad)
    end
  | OOut _ => (w, RUnit)
  end.

(* ---- threads and the scheduler ---- *)

(* a thread is a resumption: what it does next may depend on everything it has read *)
Inductive prog := Done | Do (p : op) (k : result -> prog).
Definition pool := tid -> prog.
Definition event := (tid * op * result)%type.

Definition upd_pool (t : tid) (p : prog) (pl : pool) : pool :=
  fun t' => if Nat.eqb t t' then p else pl t'.

(* one schedule entry = one op of that thread (a finished thread skips its turn) *)
Fixpoint run (sel : world -> obj -> option obj) (sched : list tid) (pl : pool) (w : world)
  : list event * (pool * world) :=
  match sched with
  | [] => ([], (pl, w))
  | t :: s =>
    match pl t with
    | Done => run sel s pl w
    | Do p k =>
      let (w', r) := exec sel t p w in
      let (tr, fin) := run sel s (upd_pool t (k r) pl) w' in
      ((t, p, r) :: tr, fin)
    end
  end.

(* the model of the code as it is (after F13) *)
Definition step := exec sel_instance.
Definition run_fixed := run sel_instance.

(* ---- the class __init__ bodies and the other multi-op actions, in
        continuation-passing style: [m k] does its ops and gives its outcome to k;
        an exception ends the action at once with the error as outcome ---- *)

Definition frag := (result -> prog) -> prog.

Definition do_set (o : obj) (a : attr) (v : val) (next : prog) (k : result -> prog) : prog :=
  Do (OSet o a v) (fun r => match r with RUnit => next | _ => k r end).

Definition s_200_OK : str := [50; 48; 48; 32; 79; 75]%N.
Definition k_path : key := 0.
Definition k_query : key := 1.
Definition k_self : key := 2.       (* 'ombott.request' *)

(* Response.__init__() with the default arguments (ombott.py:290), response.py:76-83:
     <prologue>
     self._status_line = None; self._status_code = None; self._cookies = None
     self._headers = {}
     self.headers.dict = self._headers
     self.body = ''
     self.status = 200   -> _status_code = 200; _status_line = '200 OK'  (response.py:141-142) *)
Definition init_resp (n : nat) : frag := fun k =>
  let o := (CResp, n) in
  Do (OPro o) (fun _ =>
  do_set o a_status_line VNone (
  do_set o a_status_code VNone (
  do_set o a_cookies VNone (
  Do ODNew (fun rd => match rd with
    | RVal d =>
      do_set o a_headers d (
      Do (OGet o a_headers) (fun rh => match rh with
        | RVal h =>
          Do (OHSet o h) (fun rs => match rs with
            | RUnit =>
              do_set o a_body (VStr []) (
              do_set o a_status_code (VInt 200) (
              do_set o a_status_line (VStr s_200_OK) (k RUnit) k) k) k
            | _ => k rs end)
        | _ => k rh end)) k
    | _ => k rd end)) k) k) k).

(* request.environ = v  (BaseRequest.__setattr__, request.py:126-131):
     object.__setattr__(self, 'environ', v); object.__setattr__(self, '_env_get', v.get) *)
Definition set_environ (o : obj) (v : val) : frag := fun k =>
  do_set o a_environ v
    (match v with
     | VRef d => do_set o a_env_get (VMeth d) (k RUnit) k
     | _ => k RAttrErr               (* None / int / str has no .get *)
     end) k.

(* Request.__init__(environ) for a dict environ (request.py:31-34):
     <prologue>; self.environ = environ; self.environ['ombott.request'] = self *)
Definition init_req (n : nat) (env : val) : frag := fun k =>
  let o := (CReq, n) in
  Do (OPro o) (fun _ =>
  set_environ o env (fun r => match r with
    | RUnit =>
      Do (OGet o a_environ) (fun re => match re with
        | RVal (VRef d) => Do (ODSet d k_self (VObj o)) k
        | RVal _ => k RBad
        | _ => k re end)
    | _ => k r end)).

(* a fresh dict (the server's environ, or `{}` when environ is None) *)
Definition with_fresh (f : val -> frag) : frag := fun k =>
  Do ODNew (fun r => match r with RVal d => f d k | _ => k r end).

(* Request.copy(): self.__class__(self.environ.copy(), config=self.config)  (request.py:76-84) *)
Definition copy_req (n m : nat) : frag := fun k =>
  Do (OGet (CReq, n) a_environ) (fun r => match r with
    | RVal (VRef d) =>
      Do (ODCopy d) (fun rc => match rc with
        | RVal d2 => init_req m d2 k
        | _ => k rc end)
    | RVal _ => k RAttrErr            (* None.copy *)
    | _ => k r end).

(* Response(): BaseResponse.__new__ (response.py:70-73) then __init__ *)
Definition new_resp (n : nat) : frag := fun k =>
  Do (OHNew (CResp, n)) (fun _ => init_resp n k).

(* ---- one request of an application whose shared objects are (CReq, rq) and
        (CResp, rs), as Ombott.wsgi/_handle/_cast run it on the serving thread
        for a handler that returns text (ombott.py:277-318, 321-346, 404-426):

          environ                                   (created by the server for this request)
          request.__init__(environ); response.__init__()
          hooks, routing, the route callback         (any ops; [handler])
          _cast: resp_headers.setdefault('Content-Length', len(out))
          wsgi:  response._status_code, response._status_line, response.headerlist
          -> the (status line, header items, cookies) the thread hands to start_response *)
Definition k_content_length : key := 3.

Definition lifecycle (rq rs : nat) (path : val) (handler : frag) (clen : val) : prog :=
  let fin (r : result) := Do (OOut r) (fun _ => Done) in
  with_fresh (fun env k =>
    Do (ODSet (match env with VRef d => d | _ => 0 end) k_path path) (fun _ =>
    init_req rq env k)) (fun r1 => match r1 with
  | RUnit =>
    init_resp rs (fun r2 => match r2 with
    | RUnit =>
      handler (fun _ =>
      Do (OHGet (CResp, rs)) (fun rh => match rh with
        | RVal (VRef d) =>
          Do (ODSet d k_content_length clen) (fun _ =>
          Do (OGet (CResp, rs) a_status_code) (fun rc =>
          Do (OGet (CResp, rs) a_status_line) (fun rl =>
          Do (OOut rc) (fun _ => Do (OOut rl) (fun _ =>
          Do (OGet (CResp, rs) a_headers) (fun rhh => match rhh with
            | RVal (VRef d') =>
              Do (ODItems d') (fun ri =>
              Do (OOut ri) (fun _ =>
              Do (OGet (CResp, rs) a_cookies) fin))
            | _ => fin rhh end))))))
        | _ => fin rh end))
    | _ => fin r2 end)
  | _ => fin r1 end).

(* ---- correspondence interface: a list of (thread, command); each command is
        one action on a real object, run on a real thread holding the baton ---- *)

Inductive cval := CVNone | CVInt (z : Z) | CVStr (s : str) | CVFresh.

Inductive cmd :=
| CInitReq (n : nat) (path : cval)     (* Request({'PATH_INFO': path}) / o.__init__({...}) *)
| CInitReq0 (n : nat)                  (* Request() / o.__init__()  (environ None -> {}) *)
| CNewResp (n : nat)                   (* Response() *)
| CInitResp (n : nat)                  (* o.__init__() *)
| CGet (c : cls) (n : nat) (a : attr)
| CSet (c : cls) (n : nat) (a : attr) (v : cval)
| CDel (c : cls) (n : nat) (a : attr)
| CHGet (n : nat)                      (* o.headers.dict *)
| CHSetFresh (n : nat)                 (* o.headers.dict = {} *)
| CHSetHeaders (n : nat)               (* o.headers.dict = o._headers *)
| CHdrSet (n : nat) (k : key) (v : cval)   (* o.headers[k] = v *)
| CHdrItems (n : nat)                  (* list(o.headers.items()) *)
| CAttrItems (c : cls) (n : nat) (a : attr)  (* list(o.<a>.items()) *)
| CEnvGet (n : nat) (k : key)          (* o.environ[k] *)
| CReqGet (n : nat) (k : key)          (* o.get(k) *)
| CEnvSet (n : nat) (k : key) (v : cval)   (* o.environ[k] = v *)
| CCopy (n m : nat)                    (* objs[m] = objs[n].copy() *)
(* the two below replay accesses recorded on the stores themselves while real
   requests are served (sched.py: StoreProxy): setattr(o._ts_props, a, v) on
   the calling thread, and o.headers._ts.dict = v *)
| CRawSet (c : cls) (n : nat) (a : attr) (v : cval)
| CRawHSet (n : nat) (v : cval).

Definition with_cval (v : cval) (f : val -> frag) : frag :=
  match v with
  | CVNone => f VNone
  | CVInt z => f (VInt z)
  | CVStr s => f (VStr s)
  | CVFresh => with_fresh f
  end.

Definition cmd_frag (c : cmd) : frag :=
  match c with
  | CInitReq n path =>
    with_fresh (fun env k =>
      with_cval path (fun pv k' =>
        Do (ODSet (match env with VRef d => d | _ => 0 end) k_path pv) (fun _ => k' RUnit))
        (fun _ => init_req n env k))
  | CInitReq0 n => with_fresh (init_req n)
  | CNewResp n => new_resp n
  | CInitResp n => init_resp n
  | CGet c n a => fun k => Do (OGet (c, n) a) k
  | CSet c n a v =>
    with_cval v (fun x =>
      match c, a with
      | CReq, O => set_environ (c, n) x
      | _, _ => fun k => Do (OSet (c, n) a x) k
      end)
  | CDel c n a => fun k => Do (ODel (c, n) a) k
  | CHGet n => fun k => Do (OHGet (CResp, n)) k
  | CHSetFresh n => with_fresh (fun d k => Do (OHSet (CResp, n) d) k)
  | CHSetHeaders n => fun k =>
    Do (OGet (CResp, n) a_headers) (fun r => match r with
      | RVal h => Do (OHSet (CResp, n) h) k
      | _ => k r end)
  | CHdrSet n ky v =>
    with_cval v (fun x k =>
      Do (OHGet (CResp, n)) (fun r => match r with
        | RVal (VRef d) => Do (ODSet d ky x) k
        | RVal _ => k RBad
        | _ => k r end))
  | CHdrItems n => fun k =>
    Do (OHGet (CResp, n)) (fun r => match r with
      | RVal (VRef d) => Do (ODItems d) k
      | RVal _ => k RAttrErr
      | _ => k r end)
  | CAttrItems c n a => fun k =>
    Do (OGet (c, n) a) (fun r => match r with
      | RVal (VRef d) => Do (ODItems d) k
      | RVal _ => k RAttrErr
      | _ => k r end)
  | CEnvGet n ky => fun k =>
    Do (OGet (CReq, n) a_environ) (fun r => match r with
      | RVal (VRef d) => Do (ODGet d ky) k
      | RVal _ => k RBad
      | _ => k r end)
  | CReqGet n ky => fun k =>
    Do (OGet (CReq, n) a_env_get) (fun r => match r with
      | RVal (VMeth d) =>
        Do (ODGet d ky) (fun r' => match r' with RKeyErr => k (RVal VNone) | _ => k r' end)
      | RVal _ => k RBad
      | _ => k r end)
  | CEnvSet n ky v =>
    with_cval v (fun x k =>
      Do (OGet (CReq, n) a_environ) (fun r => match r with
        | RVal (VRef d) => Do (ODSet d ky x) k
        | RVal _ => k RBad
        | _ => k r end))
  | CCopy n m => copy_req n m
  | CRawSet c n a v => with_cval v (fun x k => Do (OSet (c, n) a x) k)
  | CRawHSet n v => with_cval v (fun x k => Do (OHSet (CResp, n) x) k)
  end.

Definition cmd_prog (c : cmd) : prog := cmd_frag c (fun r => Do (OOut r) (fun _ => Done)).

(* run one command to its end on thread t: the thread is scheduled [cmd_fuel] times *)
Definition cmd_fuel : nat := 40.

Definition last_out (tr : list event) : option result :=
  match rev tr with
  | (_, OOut r, _) :: _ => Some r
  | _ => None
  end.

Fixpoint run_cmds (sel : world -> obj -> option obj) (cs : list (tid * cmd)) (w : world)
  : list (option result) :=
  match cs with
  | [] => []
  | (t, c) :: rest =>
    let pl := upd_pool t (cmd_prog c) (fun _ => Done) in
    let '(tr, (pl', w')) := run sel (repeat t cmd_fuel) pl w in
    match pl' t with
    | Done => last_out tr :: run_cmds sel rest w'
    | Do _ _ => [None]                  (* out of fuel *)
    end
  end.

(* ---- integer codec ---- *)
Definition enc_val (v : val) : list Z :=
  match v with
  | VNone => [0%Z]
  | VInt z => [1%Z; z]
  | VStr s => 2%Z :: enc_str s
  | VRef d => [3%Z; Z.of_nat d]
  | VMeth d => [4%Z; Z.of_nat d]
  | VObj o => [5%Z; (match fst o with CReq => 0 | CResp => 1 end)%Z; Z.of_nat (snd o)]
  end.

Definition enc_result (r : option result) : list Z :=
  match r with
  | None => [9%Z]
  | Some RUnit => [0%Z]
  | Some (RVal v) => 1%Z :: enc_val v
  | Some RAttrErr => [2%Z]
  | Some RKeyErr => [3%Z]
  | Some RBad => [4%Z]
  | Some (RItems l) => 5%Z :: enc_list (fun kv => Z.of_nat (fst kv) :: enc_val (snd kv)) l
  end.

Definition dec_cls (z : Z) : cls := if Z.eqb z 0 then CReq else CResp.

Definition dec_cval (l : list Z) : option (cval * list Z) :=
  match l with
  | 0%Z :: r => Some (CVNone, r)
  | 1%Z :: z :: r => Some (CVInt z, r)
  | 2%Z :: r => match dec_str r with Some (s, r') => Some (CVStr s, r') | None => None end
  | 3%Z :: r => Some (CVFresh, r)
  | _ => None
  end.

Definition dec_tcmd (l : list Z) : option ((tid * cmd) * list Z) :=
  match l with
  | t :: tag :: r =>
    let t := Z.to_nat t in
    let zn := Z.to_nat in
    match tag, r with
    | 0%Z, n :: r1 => match dec_cval r1 with Some (v, r2) => Some ((t, CInitReq (zn n) v), r2) | None => None end
    | 1%Z, n :: r1 => Some ((t, CInitReq0 (zn n)), r1)
    | 2%Z, n :: r1 => Some ((t, CNewResp (zn n)), r1)
    | 3%Z, n :: r1 => Some ((t, CInitResp (zn n)), r1)
    | 4%Z, c :: n :: a :: r1 => Some ((t, CGet (dec_cls c) (zn n) (zn a)), r1)
    | 5%Z, c :: n :: a :: r1 =>
      match dec_cval r1 with Some (v, r2) => Some ((t, CSet (dec_cls c) (zn n) (zn a) v), r2) | None => None end
    | 6%Z, c :: n :: a :: r1 => Some ((t, CDel (dec_cls c) (zn n) (zn a)), r1)
    | 7%Z, n :: r1 => Some ((t, CHGet (zn n)), r1)
    | 8%Z, n :: r1 => Some ((t, CHSetFresh (zn n)), r1)
    | 9%Z, n :: r1 => Some ((t, CHSetHeaders (zn n)), r1)
    | 10%Z, n :: k :: r1 =>
      match dec_cval r1 with Some (v, r2) => Some ((t, CHdrSet (zn n) (zn k) v), r2) | None => None end
    | 11%Z, n :: r1 => Some ((t, CHdrItems (zn n)), r1)
    | 12%Z, c :: n :: a :: r1 => Some ((t, CAttrItems (dec_cls c) (zn n) (zn a)), r1)
    | 13%Z, n :: k :: r1 => Some ((t, CEnvGet (zn n) (zn k)), r1)
    | 14%Z, n :: k :: r1 => Some ((t, CReqGet (zn n) (zn k)), r1)
    | 15%Z, n :: k :: r1 =>
      match dec_cval r1 with Some (v, r2) => Some ((t, CEnvSet (zn n) (zn k) v), r2) | None => None end
    | 16%Z, n :: m :: r1 => Some ((t, CCopy (zn n) (zn m)), r1)
    | 17%Z, c :: n :: a :: r1 =>
      match dec_cval r1 with Some (v, r2) => Some ((t, CRawSet (dec_cls c) (zn n) (zn a) v), r2) | None => None end
    | 18%Z, n :: r1 =>
      match dec_cval r1 with Some (v, r2) => Some ((t, CRawHSet (zn n) v), r2) | None => None end
    | _, _ => None
    end
  | _ => None
  end.

(* input: the commands, length-prefixed; output: one encoded outcome per command *)
Definition corr_ts (inp : list Z) : list Z :=
  match dec_list dec_tcmd inp with
  | Some (cs, _) => enc_list enc_result (run_cmds sel_instance cs w_empty)
  | None => bad_input
  end.

Definition corr_C10 := corr_ts.
Definition corr_C08 := corr_ts.
