(* App.v — the application as a whole: routerC's router (model/Router.v,
   model/Dispatch.v) composed with the WSGI layer (model/Wsgi.v).

   In Wsgi.v the outcome of routing is an input of the request program.  Here it
   is computed: Ombott._handle calls self.to_route(request.path, request.method)
   (ombott.py:275), where request.path = '/' + PATH_INFO.lstrip('/') and
   request.method = REQUEST_METHOD.upper() (props_mixin.py:36-44), and
   Ombott.handler (ombott.py:235) turns the answer of RadiRouter.resolve into
   the HTTPError(404 | 405, ..., Allow=...) it raises, the SIMPLE route hooks it
   calls with path[:1 + pos], the PARTIAL hook of a 404, and the call
   route( ** kwargs) of the selected handler.  No proofs in this file. *)
From Coq Require Import String Ascii.
From Verif Require Import lib.Base lib.Str lib.Utf8 lib.Html model.RouteSpec model.Dispatch.
From Verif Require model.Router model.Wsgi.
From Verif Require gen.Gen.
Import Wsgi.

(* what the server hands over, as far as the framework reads it *)
Record environ := mkEnviron {
  en_path : str;        (* PATH_INFO, after _handle decoded it *)
  en_method : str;      (* REQUEST_METHOD as received *)
  en_fw : bool;         (* 'wsgi.file_wrapper' in environ *)
  en_json : bool;       (* request.is_json_requested *)
  en_url : str          (* repr(html.escape(request.url)) *)
}.

(* the application object.  Handlers and route hooks are identified by the ids the
   router stores (Dispatch.hid); what they do is a program of the C03 grammar, as
   a function of the arguments the framework calls them with *)
Record app := mkApplication {
  ap_router : Router.router;
  ap_before : list hprog;                                  (* before_request hooks, registration order *)
  ap_after : list hprog;                                   (* after_request hooks, registration order *)
  ap_handler : hid -> list (str * value) -> hprog;         (* route( ** kwargs) *)
  ap_hook : hid -> str -> hprog;                           (* SIMPLE route hook: hook(path[:1 + pos]) *)
  ap_partial : hid -> str -> list value -> hprog;          (* PARTIAL hook: hook(path[:1 + pos], param_values) *)
  ap_eh : Z -> option (resp -> ehres)
}.

(* wsgi() tests environ['REQUEST_METHOD'] == 'HEAD' on the value as received (ombott.py:399),
   routing upper-cases it *)
Definition cenv_of (e : environ) : cenv :=
  mkEnv (str_eqb (en_method e) Dispatch.s_HEAD) (en_fw e) (en_json e) (en_url e) (en_path e).

(* Ombott.handler on the answer of to_route (ombott.py:235-256) *)
Definition routing_of (A : app) (rp : str) (r : Router.rres) : routing :=
  match r with
  | Router.R404 vs hs _ =>
      match Router.fired_partial rp hs with
      | Some (prefix, h) => R404 (Some (ap_partial A h prefix vs))
      | None => R404 None
      end
  | Router.R405 a => R405 a
  | Router.ROk _ _ h kw hs =>
      ROk (map (fun ph => ap_hook A (snd ph) (fst ph)) (Router.fired_simple rp hs)) (ap_handler A h kw)
  | Router.RCorrupt =>
      (* a route id without Route object: not reachable from router0 by any script (routerC's invariant);
         in the code it would be an exception inside the try of _handle *)
      RRaise []
  end.

Section Serve.
(* the compiled wildcard filters (Python re + converters), as in routerC's theorems *)
Variable filt : fid -> str -> option (value * nat).

Definition route_request (A : app) (e : environ) : Router.rres :=
  Router.to_route filt (ap_router A) (Router.req_path (en_path e)) (en_method e).

Definition program_of (A : app) (e : environ) : program :=
  mkProg (ap_before A) (ap_after A)
         (routing_of A (Router.req_path (en_path e)) (route_request A e)).

(* one request through Ombott.__call__ *)
Definition serve_app (A : app) (e : environ) : wsgi_res :=
  wsgi (cenv_of e) (ap_eh A) (program_of A e).

Definition trace_app (A : app) (e : environ) : option (list event) :=
  trace (cenv_of e) (ap_eh A) (program_of A e).
End Serve.

(* config.domain_map (ombott.py:386-391): the application name that the map gives for the request's host
   (X-Forwarded-Host, else Host) is prefixed to PATH_INFO before anything else looks at the path.
   [name] = domain_map(host), None when the map is not configured or answers nothing.  (An ASCII name:
   the prefix is added to the undecoded PATH_INFO; environ[config.app_name_header] only feeds request.url.) *)
Definition with_app_name (name : option str) (e : environ) : environ :=
  match name with
  | Some n => mkEnviron (47%N :: n ++ en_path e) (en_method e) (en_fw e) (en_json e) (en_url e)
  | None => e
  end.

(* before_request hooks may rewrite the environ (request['PATH_INFO'] = ..., request['REQUEST_METHOD'] = ...):
   _handle reads request.path / request.method AFTER emit('before_request') (ombott.py:283-284), so routing,
   the route hooks, the handler's kwargs and the HEAD test of wsgi() see the rewritten values.  The hooks
   that run are decided by their results alone ([ran_prefix]); a failing hook's own edits come before its failure. *)
Definition env_edit (e : environ) (m : mut) : environ :=
  match m with
  | MEnv false v => mkEnviron v (en_method e) (en_fw e) (en_json e) (en_url e)
  | MEnv true v => mkEnviron (en_path e) v (en_fw e) (en_json e) (en_url e)
  | _ => e
  end.

Definition environ_after_before (A : app) (e : environ) : environ :=
  fold_left env_edit (flat_map h_muts (ran_prefix (ap_before A))) e.

Definition serve_app_hooked (filt : fid -> str -> option (value * nat)) (A : app) (e : environ) : wsgi_res :=
  serve_app filt A (environ_after_before A e).

(* ------------------------------------------------------------------ *)
(* correspondence interface                                            *)
(* ------------------------------------------------------------------ *)

(* what a generated handler / hook does: a fixed program, or an echo of its arguments *)
Inductive fspec := FProg (h : hprog) | FEcho.

Definition dots (s : list N) : str :=
  join (lit ".") (map (fun c => dec_str_of_nat (N.to_nat c)) s).

(* ';'-separated name=value list; every text as '.'-joined decimal code points *)
Definition render_kw (kw : list (str * value)) : str :=
  flat_map (fun nv => dots (fst nv) ++ lit "=" ++ dots (snd nv) ++ lit ";") kw.

Definition lookup_spec (t : list (nat * fspec)) (h : nat) : fspec :=
  match find (fun p => Nat.eqb (fst p) h) t with
  | Some (_, s) => s
  | None => FProg (mkH [] (HRet OFalsy))
  end.

Definition handler_of (t : list (nat * fspec)) (h : hid) (kw : list (str * value)) : hprog :=
  match lookup_spec t h with
  | FProg p => p
  | FEcho => mkH [] (HRet (OStr (lit "kw:" ++ render_kw kw)))
  end.

Definition hook_of (t : list (nat * fspec)) (h : hid) (prefix : str) : hprog :=
  match lookup_spec t h with
  | FProg p => p
  | FEcho => mkH [MAddHeader (lit "X-Hook") (dec_str_of_nat h ++ lit ":" ++ dots prefix)] (HRet OFalsy)
  end.

Definition partial_of (t : list (nat * fspec)) (h : hid) (prefix : str) (vs : list value) : hprog :=
  match lookup_spec t h with
  | FProg p => p
  | FEcho => mkH [] (HRet (OStr (lit "partial:" ++ dots prefix ++ lit "|"
                                 ++ flat_map (fun v => dots v ++ lit ";") vs)))
  end.

Definition dec_fspec (fuel : nat) (l : list Z) : option ((nat * fspec) * list Z) :=
  match l with
  | h :: 0%Z :: r => Some ((Z.to_nat h, FEcho), r)
  | h :: _ :: r => match dec_hprog fuel r with
                   | Some (p, r') => Some ((Z.to_nat h, FProg p), r')
                   | None => None
                   end
  | _ => None
  end.

(* input: script of router commands (routerC's encoding, probes not used) ;
          domain_map(host) as an optional string ;
          path ; method ; fw ; json ; url ; filter table for the effective path ;
          eh table ; before ; after ; handler specs ; hook specs
   output: as corr_C03 (kind 0) *)
Definition corr_C03a (inp : list Z) : list Z :=
  let fuel := length inp in
  match dec_list Router.dec_cmd inp with Some (cs, r00) =>
  match Router.dec_ostr r00 with Some (appname, r0) =>
  match dec_str r0 with Some (path, r1) =>
  match dec_str r1 with Some (meth, r2) =>
  match r2 with fw :: js :: r3 =>
  match dec_str r3 with Some (url, r4) =>
  match dec_list (dec_list Router.dec_cell) r4 with Some (tab, r5) =>
  match dec_list (fun l => match l with
                           | c :: r => match dec_ehspec fuel r with
                                       | Some (s, r') => Some ((c, s), r')
                                       | None => None
                                       end
                           | [] => None
                           end) r5 with Some (tbl, r6) =>
  match dec_list (dec_hprog fuel) r6 with Some (bef, r7) =>
  match dec_list (dec_hprog fuel) r7 with Some (aft, r8) =>
  match dec_list (dec_fspec fuel) r8 with Some (hspecs, r9) =>
  match dec_list (dec_fspec fuel) r9 with Some (kspecs, _) =>
    let R := Router.exec_cmds Router.router0 cs in
    let A := mkApplication R bef aft (handler_of hspecs) (hook_of kspecs) (partial_of kspecs) (eh_of_table tbl) in
    let e := environ_after_before A
               (with_app_name appname (mkEnviron path meth (negb (Z.eqb fw 0)) (negb (Z.eqb js 0)) url)) in
    let filt := Router.filt_of_table tab (length (Router.strip_sep (Router.req_path (en_path e)))) in
    enc_wsgi (cenv_of e) (ap_eh A) (program_of filt A e)
  | None => bad_input end | None => bad_input end | None => bad_input end | None => bad_input end
  | None => bad_input end | None => bad_input end | None => bad_input end
  | _ => bad_input end
    | None => bad_input end | None => bad_input end | None => bad_input end | None => bad_input end.
