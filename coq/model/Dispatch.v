(* Dispatch.v — model of a route's method table and of method dispatch (C02):
   radirouter.py Route._methods / set_method / add_method / remove_method /
   __getitem__, RadiRouter.add (upper-casing), RadiRouter.resolve (405 branch)
   and ombott.py Ombott.to_route (candidate list).  No proofs in this file. *)
From Verif Require Import lib.Base lib.Str gen.Gen.

Definition hid := nat.     (* identity of a handler function *)

(* RouteMethod (radirouter.py:8): handler + the wildcard names of the rule the
   method was registered under (fix F2). `meta` is not observed. *)
Definition mentry := (hid * list str)%type.

(* Route._methods: an insertion-ordered dict METHOD -> RouteMethod *)
Definition mtable := list (str * mentry).

Fixpoint mt_get (t : mtable) (m : str) : option mentry :=
  match t with
  | [] => None
  | (k, e) :: t' => if str_eqb k m then Some e else mt_get t' m
  end.

Definition mt_has (t : mtable) (m : str) : bool :=
  match mt_get t m with Some _ => true | None => false end.

(* self._methods[meth] = RouteMethod(...) : replace in place, else append *)
Fixpoint mt_set (t : mtable) (m : str) (e : mentry) : mtable :=
  match t with
  | [] => [(m, e)]
  | (k, e0) :: t' => if str_eqb k m then (k, e) :: t' else (k, e0) :: mt_set t' m e
  end.

(* Route._set_methods (radirouter.py:113) *)
Definition mt_set_all (t : mtable) (ms : list str) (e : mentry) : mtable :=
  fold_left (fun acc m => mt_set acc m e) ms t.

(* Route._raise_if_registered (radirouter.py:122): set(_methods) & set(method) *)
Definition mt_registered (t : mtable) (ms : list str) : bool :=
  existsb (fun m => mt_has t m) ms.

(* Route.add_method (radirouter.py:136): the check runs before any write;
   None = RouteMethodError *)
Definition mt_add (t : mtable) (ms : list str) (e : mentry) : option mtable :=
  if mt_registered t ms then None else Some (mt_set_all t ms e).

(* Route.remove_method (radirouter.py:142): pop(m, None) for each *)
Definition mt_remove (t : mtable) (ms : list str) : mtable :=
  filter (fun ke => negb (existsb (fun m => str_eqb (fst ke) m) ms)) t.

(* RadiRouter.add (radirouter.py:239): methods = [_.upper() for _ in methods]
   (ASCII method names only; a non-ASCII method name is outside the model) *)
Definition norm_methods (ms : list str) : list str := map upper ms.

(* ---- request side ---- *)

Definition s_HEAD : str := [72; 69; 65; 68]%N.

(* Ombott.to_route (ombott.py:121): [verb, 'GET', 'ANY'] for HEAD else
   [verb, 'ANY'] — the two lists come from the source via Gen.v *)
Definition cands (verb : str) : list str :=
  map (fun o => match o with None => verb | Some s => s end)
      (if str_eqb verb s_HEAD then Gen.cands_head else Gen.cands_other).

(* Route.__getitem__ (radirouter.py:151): first candidate that is registered *)
Fixpoint first_cand (t : mtable) (cs : list str) : option (str * mentry) :=
  match cs with
  | [] => None
  | c :: cs' => match mt_get t c with
                | Some e => Some (c, e)
                | None => first_cand t cs'
                end
  end.

(* Python's str comparison: lexicographic by code point *)
Fixpoint str_ltb (a b : str) : bool :=
  match a, b with
  | [], [] => false
  | [], _ :: _ => true
  | _ :: _, [] => false
  | x :: a', y :: b' => if N.ltb x y then true else if N.eqb x y then str_ltb a' b' else false
  end.

Fixpoint sorted_insert (x : str) (l : list str) : list str :=
  match l with
  | [] => [x]
  | y :: l' => if str_ltb y x then y :: sorted_insert x l' else x :: l
  end.

Definition sort_strs (l : list str) : list str := fold_right sorted_insert [] l.

Definition s_comma : str := [44%N].

(* RadiRouter.resolve (radirouter.py:322): ",".join(sorted(route.methods)) *)
Definition allow (t : mtable) : str := join s_comma (sort_strs (map fst t)).

Inductive dres :=
| DCall (m : str) (e : mentry)      (* handler of method m is called *)
| D405 (allow_hdr : str).

(* resolve's method part once the path has selected a route *)
Definition dispatch_on (t : mtable) (cs : list str) : dres :=
  match first_cand t cs with
  | Some (m, e) => DCall m e
  | None => D405 (allow t)
  end.

(* Request.method upper-cases REQUEST_METHOD (props_mixin.py:44) *)
Definition dispatch_verb (t : mtable) (verb : str) : dres :=
  dispatch_on t (cands (upper verb)).

(* ---- histories of method-table edits on one route (C02_history) ---- *)
Inductive mop :=
| MAdd (ms : list str) (e : mentry)        (* router.add(..., overwrite=False) on this route *)
| MSet (ms : list str) (e : mentry)        (* overwrite=True *)
| MRemove (ms : list str)                  (* route.remove_method *)
| MAddRaw (ms : list str) (e : mentry)     (* route.add_method(...) called directly: no upper-casing *)
| MSetRaw (ms : list str) (e : mentry).    (* route.set_method(...) called directly *)

Definition mstep (t : mtable) (o : mop) : mtable :=
  match o with
  | MAdd ms e => match mt_add t (norm_methods ms) e with Some t' => t' | None => t end
  | MSet ms e => mt_set_all t (norm_methods ms) e
  | MRemove ms => mt_remove t ms
  | MAddRaw ms e => match mt_add t ms e with Some t' => t' | None => t end
  | MSetRaw ms e => mt_set_all t ms e
  end.

Definition mrun (ops : list mop) : mtable := fold_left mstep ops [].
