(* Router.v — model of ombott/router/radidict.py (RadiDict) and
   ombott/router/radirouter.py (Route, RadiRouter) plus Ombott.to_route/handler
   (ombott.py:121, 235).  Faithful to the tree WITH fixes F1 F2 F14 F15 F33.

   Deliberate departures from the code's shape (licensed by the correspondence
   check, see DESIGN 2.1):
   * a node is a recursive value; IDX (the string of the children's first key
     characters) is not stored but read off the children — the code keeps the
     two in step in _mount/_split/remove/_try_merge;
   * `get`'s explicit look_back stack is recursion (depth-first, literal child
     before the wildcard child);
   * _match + the in-place edit that follows it (_set, remove) are one
     recursive function that rebuilds the spine;
   * Route objects live in a heap indexed by a route id, because three indexes
     and the tree alias them.
   No proofs in this file. *)
From Verif Require Import lib.Base lib.Str gen.Gen model.RouteSpec model.Dispatch.

Definition rid := nat.                                   (* identity of a Route object *)
Definition hookpair := (option hid * option hid)%type.   (* [SIMPLE, PARTIAL] (radirouter.py:201) *)

(* radidict.py:62 _make_node: KEY, PARAMS, FILTER, HOOKS, DATA, children.
   WEIGHT is unused by the code, IS_EXCLUSIVE is always False under RadiRouter. *)
Inductive node :=
  Node (key : str) (data : option rid) (names : list str) (flt : option fid)
       (hooks : option hookpair) (kids : list node).

Definition nkey n := match n with Node k _ _ _ _ _ => k end.
Definition ndata n := match n with Node _ d _ _ _ _ => d end.
Definition nnames n := match n with Node _ _ nm _ _ _ => nm end.
Definition nflt n := match n with Node _ _ _ f _ _ => f end.
Definition nhooks n := match n with Node _ _ _ _ h _ => h end.
Definition nkids n := match n with Node _ _ _ _ _ ks => ks end.

Definition TOKEN : N := Gen.param_token.
Definition SEP : N := Gen.path_sep.
Definition tok : str := [TOKEN].

(* IDX[k] == c *)
Definition head_is (n : node) (c : N) : bool :=
  match nkey n with x :: _ => N.eqb x c | [] => false end.

Definition root0 : node := Node [SEP] None [] None None [].   (* radidict.py:56 *)

(* ------------------------------------------------------------------ *)
(* RadiDict.get (radidict.py:372), allow_partial=True                   *)
(* ------------------------------------------------------------------ *)

Definition hooklist := list (nat * hookpair).

Inductive gres :=
| GFound (d : rid) (nm : list str) (vals : list value) (hs : hooklist)
| GFail (vals : list value) (hs : hooklist) (i : nat).
     (* GFail = (None, {param_values, hooks, partial = route[:i]}) : the search
        state at the failure that ended the search *)

Definition g_hook (h : option hookpair) (i : nat) (r : gres) : gres :=
  match h with
  | None => r
  | Some hp => match r with
               | GFound d nm vs hs => GFound d nm vs ((i, hp) :: hs)
               | GFail vs hs j => GFail vs ((i, hp) :: hs) j
               end
  end.

Definition g_val (v : value) (r : gres) : gres :=
  match r with
  | GFound d nm vs hs => GFound d nm (v :: vs) hs
  | GFail vs hs j => GFail (v :: vs) hs j
  end.

Section Get.
Variable filt : fid -> str -> option (value * nat).
(* guard = the F1 repair `c == c0 and c != TOKEN` (radidict.py:401).  The code
   has it; guard=false is only used to state what the repair removed. *)
Variable guard : bool.

(* radidict.py:407-417: value and number of characters taken by a wildcard *)
Definition wild_take (f : option fid) (path : str) : option (value * nat) :=
  match f with
  | Some k => filt k path
  | None => let n := seg_len path in Some (firstn n path, n)
  end.

(* the two inner loops of get, parameterised by the recursive search [rec] *)
Section Loops.
Variable rec : node -> str -> nat -> gres.

(* the wildcard step on child k (radidict.py:405-436) *)
Definition wild_res (k : node) (path : str) (i : nat) : gres :=
  match wild_take (nflt k) path with
  | Some (v, m) => g_val v (g_hook (nhooks k) (i + m) (rec k (skipn m path) (i + m)))
  | None => GFail [] [] i
  end.

(* the wildcard child = last child, if its IDX char is the token; None = there is none *)
Fixpoint wild_of (path : str) (i : nat) (ks : list node) : option gres :=
  match ks with
  | [] => None
  | k :: ks' =>
    match ks' with
    | _ :: _ => wild_of path i ks'
    | [] => if head_is k TOKEN then Some (wild_res k path i) else None
    end
  end.

(* descending into literal child k (radidict.py:445-454) *)
Definition lit_res (k : node) (path : str) (i : nat) : gres :=
  if prefixb (nkey k) path then
    let i' := i + length (nkey k) in
    g_hook (nhooks k) i' (rec k (skipn (length (nkey k)) path) i')
  else GFail [] [] i.

(* literal child: first child whose IDX char equals the path char
   (radidict.py:398-402); on failure the saved look_back entry retries the
   wildcard child (radidict.py:441-444, 469).
   [w tt] = the wildcard attempt at this node, evaluated only when needed *)
Fixpoint lit_of (c0 : N) (path : str) (i : nat) (w : unit -> option gres) (ks : list node) : gres :=
  match ks with
  | [] =>                                   (* not found: c = idx[-1] *)
    match w tt with
    | Some r => r
    | None => GFail [] [] i
    end
  | k :: ks' =>
    if head_is k c0 && (negb guard || negb (N.eqb c0 TOKEN)) then
      match lit_res k path i with
      | GFound d nm vs hs => GFound d nm vs hs
      | GFail vs hs j =>                    (* look_back.pop() *)
        match w tt with
        | Some r' => r'
        | None => GFail vs hs j
        end
      end
    else lit_of c0 path i w ks'
  end.
End Loops.

(* search below node n; [path] = route[i:], results relative to this node *)
Fixpoint get_at (n : node) (path : str) (i : nat) {struct n} : gres :=
  match n with
  | Node _ data nm _ _ kids =>
    match path with
    | [] =>                                     (* while-else, radidict.py:456 *)
      match data with
      | Some d => GFound d nm [] []
      | None => GFail [] [] i
      end
    | c0 :: _ => lit_of get_at c0 path i (fun _ => wild_of get_at path i kids) kids
    end
  end.

Definition get (root : node) (path : str) : gres :=
  g_hook (nhooks root) 0 (get_at root path 0).

End Get.

(* ------------------------------------------------------------------ *)
(* RadiDict._match (radidict.py:256), read-only use                     *)
(* ------------------------------------------------------------------ *)

Inductive mism := MWhole | MPartial | MFilter | MIndex.   (* MIndex = IndexError on param_filters[param_idx] *)

Inductive mres :=
| MExact (n : node)
| MMis (m : mism).

Definition find_kid (c : N) (ks : list node) : option node :=
  find (fun k => head_is k c) ks.

(* `param_filters and pnode[FILTER] != param_filters[param_idx]` (radidict.py:289) *)
Definition filter_check (flts : list (option fid)) (pidx : nat) (k : node) : option mism :=
  match flts with
  | [] => None
  | _ :: _ => match nth_error flts pidx with
              | None => Some MIndex
              | Some f => if ofid_eqb (nflt k) f then None else Some MFilter
              end
  end.

Section MatchLoop.
Variable rec : node -> str -> nat -> mres.
Variable flts : list (option fid).

(* the child whose IDX char equals the route char (radidict.py:277-300) *)
Definition tm_kid (k : node) (route : str) (pidx : nat) : mres :=
  if prefixb (nkey k) route then
    if str_eqb (nkey k) tok then
      match filter_check flts pidx k with
      | Some m => MMis m
      | None => rec k (skipn 1 route) (S pidx)
      end
    else rec k (skipn (length (nkey k)) route) pidx
  else MMis MPartial.

Fixpoint tm_go (c0 : N) (route : str) (pidx : nat) (ks : list node) : mres :=
  match ks with
  | [] => MMis MWhole
  | k :: ks' => if head_is k c0 then tm_kid k route pidx else tm_go c0 route pidx ks'
  end.
End MatchLoop.

Fixpoint tmatch (n : node) (route : str) (flts : list (option fid)) (pidx : nat) {struct n} : mres :=
  match n with
  | Node _ _ _ _ _ kids =>
    match route with
    | [] => MExact n
    | c0 :: _ => tm_go (fun k r p => tmatch k r flts p) flts c0 route pidx kids
    end
  end.

(* ------------------------------------------------------------------ *)
(* RadiDict._set / _split / _make_route / _mount (add, add_hooks)       *)
(* ------------------------------------------------------------------ *)

Inductive item := IData (d : rid) | IHooks (h : hookpair).

Inductive serr :=
| EFilter          (* 'tokens filter mismatch' *)
| ERegistered      (* 'handler is already registered here' *)
| EMount           (* _mount: token already here *)
| ESplit           (* _split: 'something went wrong' *)
| EIndex.          (* IndexError: fewer filters than tokens *)

Inductive sres := SOk (n : node) | SErr (e : serr).

(* the route cut into literal runs and tokens (the loop of _make_route,
   radidict.py:152-178); None = the token *)
Fixpoint pieces_aux (acc : str) (route : str) : list (option str) :=
  let flush := match acc with [] => [] | _ => [Some (rev acc)] end in
  match route with
  | [] => flush
  | c :: r => if N.eqb c TOKEN then flush ++ None :: pieces_aux [] r
              else pieces_aux (c :: acc) r
  end.
Definition pieces (route : str) : list (option str) := pieces_aux [] route.

Definition leaf_of (key : str) (f : option fid) (it : item) (nm : list str) : node :=
  match it with
  | IData d => Node key (Some d) nm f None []
  | IHooks h => Node key None nm f (Some h) []
  end.

Inductive cres := CNone | CErr | CNode (n : node).

(* the chain of fresh nodes _make_route creates; the last one receives
   DATA/HOOKS/PARAMS (radidict.py:180-182) *)
Fixpoint chain (ps : list (option str)) (flts : list (option fid)) (it : item) (nm : list str) : cres :=
  match ps with
  | [] => CNone
  | Some s :: ps' =>
    match chain ps' flts it nm with
    | CNone => CNode (leaf_of s None it nm)
    | CErr => CErr
    | CNode c => CNode (Node s None [] None None [c])
    end
  | None :: ps' =>
    match flts with
    | [] => CErr
    | f :: fs =>
      match chain ps' fs it nm with
      | CNone => CNode (leaf_of tok f it nm)
      | CErr => CErr
      | CNode c => CNode (Node tok None [] f None [c])
      end
    end
  end.

Definition last_is_tok (ks : list node) : bool :=
  match rev ks with k :: _ => head_is k TOKEN | [] => false end.

(* _mount (radidict.py:78): a token child goes last, a literal child first *)
Definition mount (ks : list node) (child : node) : option (list node) :=
  if str_eqb (nkey child) tok then
    if last_is_tok ks then None else Some (ks ++ [child])
  else Some (child :: ks).

(* _make_route under a node whose children are ks *)
Definition make_route (ks : list node) (route : str) (flts : list (option fid))
           (it : item) (nm : list str) : list node + serr :=
  match chain (pieces route) flts it nm with
  | CNone => inl ks                   (* unreachable: route is non-empty *)
  | CErr => inr EIndex
  | CNode c => match mount ks c with
               | Some ks' => inl ks'
               | None => inr EMount
               end
  end.

(* exact node reached (radidict.py:231-241), overwrite=False *)
Definition apply_item (n : node) (it : item) (nm : list str) : sres :=
  match n with
  | Node k d nm0 f h ks =>
    match it with
    | IData d' => match d with
                  | Some _ => SErr ERegistered
                  | None => SOk (Node k (Some d') nm f h ks)
                  end
    | IHooks h' => match h with
                   | Some _ => SErr ERegistered
                   | None => SOk (Node k d nm0 f (Some h') ks)
                   end
    end
  end.

Fixpoint cpl (a b : str) : nat :=
  match a, b with
  | x :: a', y :: b' => if N.eqb x y then S (cpl a' b') else 0
  | _, _ => 0
  end.

Fixpoint upto_tok (s : str) : str :=
  match s with
  | [] => []
  | c :: r => if N.eqb c TOKEN then [] else c :: upto_tok r
  end.

Definition set_key (n : node) (k : str) : node :=
  match n with Node _ d nm f h ks => Node k d nm f h ks end.

(* the child k that _match stepped into (its IDX char equals the route char);
   ks' = its right siblings; rec = the same edit one level down *)
Section SetLoop.
Variable rec : node -> str -> nat -> sres.
Variables (flts : list (option fid)) (it : item) (nm : list str).

Definition set_kid (k : node) (route : str) (pidx : nat) : node + serr :=
  if prefixb (nkey k) route then
    let sub :=
      if str_eqb (nkey k) tok then
        match filter_check flts pidx k with
        | Some MFilter => SErr EFilter
        | Some _ => SErr EIndex
        | None => rec k (skipn 1 route) (S pidx)
        end
      else rec k (skipn (length (nkey k)) route) pidx in
    match sub with
    | SOk k' => inl k'
    | SErr e => inr e
    end
  else
    (* PARTIAL (radidict.py:224-229) + _split (radidict.py:108) *)
    let si := cpl (nkey k) (upto_tok route) in
    let key_rest := skipn si (nkey k) in
    match key_rest with
    | [] => inr ESplit
    | _ :: _ =>
      let old := set_key k key_rest in
      let rest := skipn si route in
      match rest with
      | [] =>
        match apply_item (Node (firstn si (nkey k)) None [] None None [old]) it nm with
        | SOk p => inl p
        | SErr e => inr e
        end
      | _ :: _ =>
        match make_route [old] rest (skipn pidx flts) it nm with
        | inl pk => inl (Node (firstn si (nkey k)) None [] None None pk)
        | inr e => inr e
        end
      end
    end.

(* None = no child under c0 (WHOLE at this node) *)
Fixpoint set_go (c0 : N) (route : str) (pidx : nat) (ks : list node) : option (list node + serr) :=
  match ks with
  | [] => None
  | k :: ks' =>
    if head_is k c0 then
      match set_kid k route pidx with
      | inl k' => Some (inl (k' :: ks'))
      | inr e => Some (inr e)
      end
    else
      match set_go c0 route pidx ks' with
      | None => None
      | Some (inl ks'') => Some (inl (k :: ks''))
      | Some (inr e) => Some (inr e)
      end
  end.
End SetLoop.

Fixpoint set_at (n : node) (route : str) (flts : list (option fid)) (pidx : nat)
         (it : item) (nm : list str) {struct n} : sres :=
  match n with
  | Node key d nm0 f h kids =>
    match route with
    | [] => apply_item n it nm
    | c0 :: _ =>
      match set_go (fun k r p => set_at k r flts p it nm) flts it nm c0 route pidx kids with
      | Some (inl kids') => SOk (Node key d nm0 f h kids')
      | Some (inr e) => SErr e
      | None =>
        match make_route kids route (skipn pidx flts) it nm with
        | inl kids' => SOk (Node key d nm0 f h kids')
        | inr e => SErr e
        end
      end
    end
  end.

(* ------------------------------------------------------------------ *)
(* RadiDict.remove / _try_merge (radidict.py:325, 127)                  *)
(* ------------------------------------------------------------------ *)

Definition prunable (n : node) : bool :=             (* not (DATA or IDX or HOOKS), F14 *)
  match n with
  | Node _ None _ _ None [] => true
  | _ => false
  end.

Definition try_merge (is_root : bool) (p : node) : node :=
  match p with
  | Node key d nm f h kids =>
    match kids with
    | [c] =>
      if is_root then p else
      match d, h with
      | None, None =>
        if str_eqb key tok || head_is c TOKEN then p
        else set_key c (key ++ nkey c)
      | _, _ => p
      end
    | _ => p
    end
  end.

Inductive rmres :=
| RmNone                 (* mismatch: nothing changed *)
| RmKeep (n : node)      (* edited; pruning stops here *)
| RmPrune (n : node).    (* edited and now empty: the parent deletes it *)

(* the node that _match returned; cut = is_wildcard branch (children dropped) *)
Definition rm_target (cut hooks_only : bool) (n : node) : rmres :=
  match n with
  | Node k d nm f h ks =>
    let ks1 := if cut then [] else ks in
    let finish (h' : option hookpair) :=
        let n3 := Node k None [] f h' ks1 in
        if prunable n3 then RmPrune n3 else RmKeep n3 in
    if hooks_only then
      match d with
      | Some _ => RmKeep (Node k d nm f None ks1)
      | None => finish None
      end
    else finish h
  end.

Fixpoint del_head (c : N) (ks : list node) : list node :=
  match ks with
  | [] => []
  | k :: ks' => if head_is k c then ks' else k :: del_head c ks'
  end.

Section RmLoop.
Variable rec : node -> str -> rmres.
Variables wild hooks_only : bool.

(* the child _match stepped into: descend, or (prefix removal, PARTIAL with the
   key extending the pattern, radidict.py:338-344) it is the target itself *)
Definition rm_kid (k : node) (route : str) : rmres :=
  if prefixb (nkey k) route then rec k (skipn (length (nkey k)) route)
  else if wild && prefixb route (nkey k) then rm_target true hooks_only k
  else RmNone.

(* result for the child under c0 + the children with that child replaced *)
Fixpoint rm_go (c0 : N) (route : str) (ks : list node) : option (rmres * (node -> list node)) :=
  match ks with
  | [] => None
  | k :: ks' =>
    if head_is k c0 then Some (rm_kid k route, fun k' => k' :: ks')
    else
      match rm_go c0 route ks' with
      | None => None
      | Some (r, rebuild) => Some (r, fun k' => k :: rebuild k')
      end
  end.
End RmLoop.

Fixpoint rm_at (is_root wild hooks_only : bool) (n : node) (route : str) {struct n} : rmres :=
  match n with
  | Node key d nm f h kids =>
    match route with
    | [] => rm_target wild hooks_only n
    | c0 :: _ =>
      match rm_go (fun k r => rm_at false wild hooks_only k r) wild hooks_only c0 route kids with
      | None => RmNone
      | Some (RmNone, _) => RmNone
      | Some (RmKeep k', rebuild) => RmKeep (Node key d nm f h (rebuild k'))
      | Some (RmPrune k', _) =>
        let p := try_merge is_root
                   (Node key d nm f h
                         (match nkey k' with c :: _ => del_head c kids | [] => kids end)) in
        if prunable p then RmPrune p else RmKeep p
      end
    end
  end.

Inductive rderr := RdWildHooks.    (* 'Can`t remove hooks by wildcard' *)

Definition STAR : N := 42%N.

Definition ends_star (s : str) : bool :=
  match rev s with c :: _ => N.eqb c STAR | [] => false end.

(* RadiDict.remove; None = RadiDictError raised before any change.
   exact = fix F33: a Route object (found by name) is removed exactly even if
   its pattern ends with '*' *)
Definition rd_remove (root : node) (pattern : str) (hooks_only exact : bool) : option node :=
  let wild := ends_star pattern && negb exact in
  let p := if wild then removelast pattern else pattern in
  if wild && hooks_only then None
  else match rm_at true wild hooks_only root p with
       | RmNone => Some root
       | RmKeep r => Some r
       | RmPrune r => Some r
       end.

(* ------------------------------------------------------------------ *)
(* Route, RadiRouter                                                    *)
(* ------------------------------------------------------------------ *)

Record route := mkRoute {
  r_rule : nat;                       (* which rule text created it (observation only) *)
  r_pattern : str;
  r_names : list str;                 (* Route.params *)
  r_filters : list (option fid);
  r_methods : mtable
}.

Record router := mkRouter {
  tree : node;
  heap : list route;                  (* Route objects, rid = position *)
  routes : list (str * rid);          (* RadiRouter.routes: pattern -> Route *)
  named : list (str * rid);           (* RadiRouter.named_routes *)
  hooks_idx : list (str * hookpair)   (* RadiRouter.hooks *)
}.

Definition router0 : router := mkRouter root0 [] [] [] [].

Fixpoint al_get {B} (l : list (str * B)) (k : str) : option B :=
  match l with
  | [] => None
  | (k0, v) :: l' => if str_eqb k0 k then Some v else al_get l' k
  end.

Fixpoint al_set {B} (l : list (str * B)) (k : str) (v : B) : list (str * B) :=
  match l with
  | [] => [(k, v)]
  | (k0, v0) :: l' => if str_eqb k0 k then (k0, v) :: l' else (k0, v0) :: al_set l' k v
  end.

Definition al_del {B} (l : list (str * B)) (k : str) : list (str * B) :=
  filter (fun kv => negb (str_eqb (fst kv) k)) l.

Fixpoint heap_set (h : list route) (i : nat) (r : route) : list route :=
  match h, i with
  | [], _ => []
  | _ :: h', O => r :: h'
  | x :: h', S i' => x :: heap_set h' i' r
  end.

Definition set_methods (r : route) (t : mtable) : route :=
  mkRoute (r_rule r) (r_pattern r) (r_names r) (r_filters r) t.

(* RadiRouter._match(pattern, filters) -> node[DATA] (radirouter.py:352) *)
Definition rt_match (R : router) (pattern : str) (flts : list (option fid)) : option rid :=
  match tmatch (tree R) pattern flts 0 with
  | MExact n => ndata n
  | MMis _ => None
  end.

Definition rt_match_hooks (R : router) (pattern : str) : option hookpair :=
  match tmatch (tree R) pattern [] 0 with
  | MExact n => nhooks n
  | MMis _ => None
  end.

Inductive aerr :=
| AKeyError (e : serr)     (* RadiDictKeyError from radidict.add *)
| AMethod                  (* RouteMethodError: a method is already registered *)
| AName                    (* RouteBuildError: name already used *)
| ACorrupt.                (* dangling route id: cannot happen *)

(* RadiRouter._add (radirouter.py:375).  The state is returned also on error,
   because a registration rejected for its name has already inserted the route
   and its methods. *)
Definition rt_add (R : router) (rule : nat) (pattern : str) (nm : list str)
           (flts : list (option fid)) (methods : list str) (h : hid)
           (name : option str) (overwrite : bool) : router * option aerr :=
  let ms := norm_methods methods in
  (* route_ = self._match(...) ; else radidict.add + routes[pattern] = route *)
  let found :=
    match rt_match R pattern flts with
    | Some d => inl (R, d)
    | None =>
      let d := length (heap R) in
      match set_at (tree R) pattern flts 0 (IData d) nm with
      | SErr e => inr e
      | SOk t' => inl (mkRouter t' (heap R ++ [mkRoute rule pattern nm flts []])
                                (al_set (routes R) pattern d) (named R) (hooks_idx R), d)
      end
    end in
  match found with
  | inr e => (R, Some (AKeyError e))
  | inl (R1, d) =>
    match nth_error (heap R1) d with
    | None => (R1, Some ACorrupt)
    | Some rt =>
      let e := (h, nm) in
      let mt := if overwrite then Some (mt_set_all (r_methods rt) ms e)
                else mt_add (r_methods rt) ms e in
      match mt with
      | None => (R1, Some AMethod)
      | Some t' =>
        let R2 := mkRouter (tree R1) (heap_set (heap R1) d (set_methods rt t'))
                           (routes R1) (named R1) (hooks_idx R1) in
        match name with
        | None => (R2, None)
        | Some [] => (R2, None)                      (* `if name:` *)
        | Some nme =>
          match al_get (named R2) nme with
          | Some d0 =>
            if negb overwrite && negb (Nat.eqb d0 d) then (R2, Some AName)
            else (mkRouter (tree R2) (heap R2) (routes R2) (al_set (named R2) nme d) (hooks_idx R2), None)
          | None =>
            (mkRouter (tree R2) (heap R2) (routes R2) (al_set (named R2) nme d) (hooks_idx R2), None)
          end
        end
      end
    end
  end.

Definition pattern_of_rid (R : router) (d : rid) : option str :=
  match nth_error (heap R) d with Some rt => Some (r_pattern rt) | None => None end.

(* RadiRouter._remove_named_routers (radirouter.py:396) *)
Definition drop_names (R : router) (pred : str -> bool) (nmd : list (str * rid)) : list (str * rid) :=
  filter (fun kv => match pattern_of_rid R (snd kv) with
                    | Some p => negb (pred p)
                    | None => true
                    end) nmd.

Inductive rerr := RKeyError | RWildHooks.

(* RadiRouter.remove(rule) with the rule already turned into its pattern
   (radirouter.py:266, route is a str) *)
Definition rt_remove_pattern (R : router) (pattern : str) : router * option rerr :=
  match rd_remove (tree R) pattern false false with
  | None => (R, Some RWildHooks)
  | Some t' =>
    if ends_star pattern then
      let pre := removelast pattern in
      let hit := fun p => prefixb pre p in
      (mkRouter t' (heap R) (filter (fun kv => negb (hit (fst kv))) (routes R))
                (drop_names R (fun p => hit p && match al_get (routes R) p with Some _ => true | None => false end)
                            (named R))
                (hooks_idx R), None)
    else
      (mkRouter t' (heap R) (al_del (routes R) pattern)
                (drop_names R (fun p => str_eqb p pattern) (named R)) (hooks_idx R), None)
  end.

(* RadiRouter.remove(name=...) *)
Definition rt_remove_name (R : router) (nme : str) : router * option rerr :=
  match al_get (named R) nme with
  | None => (R, Some RKeyError)                           (* named_routes.pop(name) *)
  | Some d =>
    let named1 := al_del (named R) nme in
    match pattern_of_rid R d with
    | None => (R, Some RKeyError)
    | Some pattern =>
      match rd_remove (tree R) pattern false true with
      | None => (mkRouter (tree R) (heap R) (routes R) named1 (hooks_idx R), Some RWildHooks)
      | Some t' =>
        match al_get (routes R) pattern with
        | None =>                                         (* del self.routes[...] raises *)
          (mkRouter t' (heap R) (routes R) named1 (hooks_idx R), Some RKeyError)
        | Some _ =>
          (mkRouter t' (heap R) (al_del (routes R) pattern)
                    (drop_names R (fun p => str_eqb p pattern) named1)      (* F15 *)
                    (hooks_idx R), None)
        end
      end
    end
  end.

(* RadiRouter.remove(route_obj) with the Route found by router[{rule}]: as by name, no name is popped first *)
Definition rt_remove_obj (R : router) (pattern0 : str) (flts : list (option fid)) : router * option rerr :=
  match rt_match R pattern0 flts with
  | None => (R, None)
  | Some d =>
    match pattern_of_rid R d with
    | None => (R, Some RKeyError)
    | Some pattern =>
      match rd_remove (tree R) pattern false true with
      | None => (R, Some RWildHooks)
      | Some t' =>
        match al_get (routes R) pattern with
        | None => (mkRouter t' (heap R) (routes R) (named R) (hooks_idx R), Some RKeyError)
        | Some _ =>
          (mkRouter t' (heap R) (al_del (routes R) pattern)
                    (drop_names R (fun p => str_eqb p pattern) (named R)) (hooks_idx R), None)
        end
      end
    end
  end.

(* route.add_method / route.set_method called directly on the Route found by
   router[{rule}] (radirouter.py:117, 136): no upper-casing, no parameter names *)
Definition rt_route_method (R : router) (pattern : str) (flts : list (option fid)) (ms : list str)
           (h : hid) (overwrite : bool) : router * option aerr :=
  match rt_match R pattern flts with
  | None => (R, None)
  | Some d =>
    match nth_error (heap R) d with
    | None => (R, Some ACorrupt)
    | Some rt =>
      match (if overwrite then Some (mt_set_all (r_methods rt) ms (h, [])) else mt_add (r_methods rt) ms (h, [])) with
      | None => (R, Some AMethod)
      | Some t' => (mkRouter (tree R) (heap_set (heap R) d (set_methods rt t')) (routes R) (named R) (hooks_idx R), None)
      end
    end
  end.

(* RadiDict._routes_iter (radidict.py:490): every node below the start node that
   holds data (or, with yield_hooks, a hook), with the key string from the root *)
Fixpoint iter_at (yh : bool) (n : node) (acc : str) : list (str * (option rid * option hookpair)) :=
  match n with
  | Node _ d _ _ h ks =>
    flat_map (fun k => iter_at yh k (acc ++ nkey k)) ks
    ++ (if (match d with Some _ => true | None => false end)
           || (yh && match h with Some _ => true | None => false end)
        then [(acc, (d, h))] else [])
  end.

Section FindSub.
Variable rec : node -> str -> str -> option (node * str).
Fixpoint fs_go (c0 : N) (route acc : str) (ks : list node) : option (node * str) :=
  match ks with
  | [] => None
  | k :: ks' =>
    if head_is k c0 then
      if prefixb (nkey k) route then rec k (skipn (length (nkey k)) route) (acc ++ nkey k)
      else if prefixb route (nkey k) then Some (k, acc ++ nkey k)      (* PARTIAL, key.startswith(rest) *)
      else None
    else fs_go c0 route acc ks'
  end.
End FindSub.

(* the start node of _routes_iter(startswith=...) *)
Fixpoint find_sub_node (n : node) (route acc : str) {struct n} : option (node * str) :=
  match n with
  | Node _ _ _ _ _ kids =>
    match route with
    | [] => Some (n, acc)
    | c0 :: _ => fs_go find_sub_node c0 route acc kids
    end
  end.

Definition routes_iter (root : node) (startswith : str) (yh : bool) : list (str * (option rid * option hookpair)) :=
  match find_sub_node root startswith [] with
  | Some (n, acc) => iter_at yh n acc
  | None => []
  end.

(* RadiRouter.hook_installer (radirouter.py:326); htype 0 = SIMPLE, 1 = PARTIAL *)
Definition install (hp : hookpair) (h : hid) (partial : bool) : hookpair :=
  if partial then (fst hp, Some h) else (Some h, snd hp).

(* in-place update of the hook list object shared by the node and the index *)
Section UpdLoop.
Variable rec : node -> str -> node.
Fixpoint upd_go (c0 : N) (route : str) (ks : list node) : list node :=
  match ks with
  | [] => []
  | k :: ks' =>
    if head_is k c0 then
      (if prefixb (nkey k) route then rec k (skipn (length (nkey k)) route) else k) :: ks'
    else k :: upd_go c0 route ks'
  end.
End UpdLoop.

Fixpoint upd_hooks_at (n : node) (route : str) (hp : hookpair) {struct n} : node :=
  match n with
  | Node key d nm f h kids =>
    match route with
    | [] => Node key d nm f (Some hp) kids
    | c0 :: _ => Node key d nm f h (upd_go (fun k r => upd_hooks_at k r hp) c0 route kids)
    end
  end.

(* RadiRouter.add_hook (radirouter.py:334) *)
Definition rt_add_hook (R : router) (pattern : str) (nm : list str) (flts : list (option fid))
           (h : hid) (partial : bool) : router * option aerr :=
  match rt_match_hooks R pattern with
  | Some hp =>
    let hp' := install hp h partial in
    (mkRouter (upd_hooks_at (tree R) pattern hp') (heap R) (routes R) (named R)
              (match al_get (hooks_idx R) pattern with
               | Some _ => al_set (hooks_idx R) pattern hp'
               | None => hooks_idx R
               end), None)
  | None =>
    let hp' := install (None, None) h partial in
    match set_at (tree R) pattern flts 0 (IHooks hp') nm with
    | SErr e => (R, Some (AKeyError e))
    | SOk t' => (mkRouter t' (heap R) (routes R) (named R) (al_set (hooks_idx R) pattern hp'), None)
    end
  end.

(* RadiRouter.remove_hook (radirouter.py:348) *)
Definition rt_remove_hook (R : router) (pattern : str) : router * option rerr :=
  match rd_remove (tree R) pattern true false with
  | None => (R, Some RWildHooks)
  | Some t' => (mkRouter t' (heap R) (routes R) (named R) (al_del (hooks_idx R) pattern), None)
  end.

(* route.remove_method(...) on the route found by router[{rule}] *)
Definition rt_remove_method (R : router) (pattern : str) (flts : list (option fid))
           (ms : list str) : router :=
  match rt_match R pattern flts with
  | None => R
  | Some d =>
    match nth_error (heap R) d with
    | None => R
    | Some rt => mkRouter (tree R) (heap_set (heap R) d (set_methods rt (mt_remove (r_methods rt) ms)))
                          (routes R) (named R) (hooks_idx R)
    end
  end.

(* ------------------------------------------------------------------ *)
(* RadiRouter.resolve + Ombott.to_route / handler                       *)
(* ------------------------------------------------------------------ *)

Definition s_anon : str := [97; 110; 111; 110; 45]%N.      (* Route.anon_prefix 'anon-' *)

(* Route.make_params_dict (radirouter.py:173): zip, anonymous ones dropped *)
Fixpoint make_params (nm : list str) (vs : list value) : list (str * value) :=
  match nm, vs with
  | n :: nm', v :: vs' =>
    if prefixb s_anon n then make_params nm' vs' else (n, v) :: make_params nm' vs'
  | _, _ => []
  end.

Inductive rres :=
| R404 (vals : list value) (hs : hooklist) (i : nat)
| R405 (allow_hdr : str)
| ROk (d : rid) (m : str) (h : hid) (kw : list (str * value)) (hs : hooklist)
| RCorrupt.

Section Resolve.
Variable filt : fid -> str -> option (value * nat).

Definition strip_sep (path : str) : str := strip_set (fun c => N.eqb c SEP) path.

(* RadiRouter.resolve(path, methods) (radirouter.py:298), methods non-empty *)
Definition resolve (R : router) (path : str) (cs : list str) : rres :=
  match get filt true (tree R) (strip_sep path) with
  | GFail vs hs i => R404 vs hs i
  | GFound d nm vs hs =>
    match nth_error (heap R) d with
    | None => RCorrupt
    | Some rt =>
      match dispatch_on (r_methods rt) cs with
      | DCall m (h, mnames) =>
        ROk d m h (make_params (match mnames with [] => nm | _ => mnames end) vs) hs   (* F2 *)
      | D405 a => R405 a
      end
    end
  end.

(* Ombott.to_route (ombott.py:121) on request.method (upper-cased) *)
Definition to_route (R : router) (path : str) (verb : str) : rres :=
  resolve R path (cands (upper verb)).

End Resolve.

(* what Ombott.handler does with the result (ombott.py:235): the SIMPLE hooks
   called, in order, with the position that cuts their path prefix; on 404 the
   PARTIAL hook of the last collected entry *)
(* Request.path (props_mixin.py:39): '/' + PATH_INFO.lstrip('/') *)
Definition req_path (path : str) : str := SEP :: lstrip_set (fun c => N.eqb c SEP) path.

(* hook(path[:1 + route_pos]) for every collected entry with a SIMPLE hook *)
Definition fired_simple (rp : str) (hs : hooklist) : list (str * hid) :=
  flat_map (fun ph => match fst (snd ph) with
                      | Some h => [(firstn (1 + fst ph) rp, h)]
                      | None => []
                      end) hs.

(* hooks_collected[-1], its PARTIAL hook (ombott.py:243) *)
Definition fired_partial (rp : str) (hs : hooklist) : option (str * hid) :=
  match rev hs with
  | (p, (_, Some h)) :: _ => Some (firstn (1 + p) rp, h)
  | _ => None
  end.

(* ------------------------------------------------------------------ *)
(* correspondence interface: a script of commands -> observations       *)
(* ------------------------------------------------------------------ *)

Inductive cmd :=
| CAdd (rule : nat) (pattern : str) (nm : list str) (flts : list (option fid))
       (methods : list str) (h : hid) (name : option str) (overwrite : bool)
| CRemovePattern (pattern : str)
| CRemoveName (name : str)
| CAddHook (pattern : str) (nm : list str) (flts : list (option fid)) (h : hid) (partial : bool)
| CRemoveHook (pattern : str)
| CRemoveMethod (pattern : str) (flts : list (option fid)) (ms : list str)
| CRemoveObj (pattern : str) (flts : list (option fid))
| CRouteMethod (pattern : str) (flts : list (option fid)) (ms : list str) (h : hid) (overwrite : bool)
| PResolveRoute (path : str) (tab : list (list (option (value * nat))))
| PCallRoute (pattern : str) (flts : list (option fid)) (verb : str)
| PGetHook (pattern : str)
| PIter (startswith : str) (yh : bool)
| PDispatch (path : str) (verb : str) (tab : list (list (option (value * nat))))
| PByName (name : str)
| PByRule (pattern : str) (flts : list (option fid))
| PListing.

(* the real compiled filters sampled on every suffix of the (stripped) probe path *)
Definition filt_of_table (tab : list (list (option (value * nat)))) (L : nat)
  : fid -> str -> option (value * nat) :=
  fun f s => match nth_error tab f with
             | Some row => match nth_error row (L - length s) with
                           | Some o => o
                           | None => None
                           end
             | None => None
             end.

Definition enc_nat (n : nat) : list Z := [Z.of_nat n].
Definition enc_pair_nat (p : nat * nat) : list Z := [Z.of_nat (fst p); Z.of_nat (snd p)].
Definition enc_ohid (o : option hid) : list Z := enc_option enc_nat o.
Definition enc_hooklist (hs : hooklist) : list Z :=
  enc_list (fun ph => Z.of_nat (fst ph) :: enc_ohid (fst (snd ph)) ++ enc_ohid (snd (snd ph))) hs.

Definition enc_mtable (t : mtable) : list Z :=
  enc_list (fun ke => enc_str (fst ke) ++ [Z.of_nat (fst (snd ke))] ++ enc_list enc_str (snd (snd ke))) t.

Definition enc_route_obs (R : router) (d : rid) : list Z :=
  match nth_error (heap R) d with
  | None => [(-1)%Z]
  | Some rt =>
    Z.of_nat (r_rule rt) :: enc_str (r_pattern rt)
      ++ enc_bool (match al_get (routes R) (r_pattern rt) with
                   | Some d' => Nat.eqb d d'
                   | None => false
                   end)
      ++ enc_mtable (r_methods rt)
  end.

Definition enc_fired (ph : str * hid) : list Z := enc_str (fst ph) ++ [Z.of_nat (snd ph)].

Definition enc_rres (R : router) (rp : str) (r : rres) : list Z :=
  match r with
  | R404 vs hs _ =>
    0%Z :: enc_hooklist hs ++
    match fired_partial rp hs with
    | Some ph => 1%Z :: enc_fired ph ++ enc_list enc_str vs
    | None => [0%Z]
    end
  | R405 a => 1%Z :: enc_str a
  | ROk d m h kw hs =>
    2%Z :: match nth_error (heap R) d with Some rt => Z.of_nat (r_rule rt) | None => (-1)%Z end
        :: enc_str m ++ [Z.of_nat h]
        ++ enc_list (fun nv => enc_str (fst nv) ++ enc_str (snd nv)) kw
        ++ enc_hooklist hs
        ++ enc_list enc_fired (fired_simple rp hs)
  | RCorrupt => [9%Z]
  end.

Definition enc_aerr (e : option aerr) : list Z :=
  match e with
  | None => [0%Z]
  | Some (AKeyError EFilter) => [1%Z]
  | Some (AKeyError ERegistered) => [2%Z]
  | Some (AKeyError EMount) => [3%Z]
  | Some (AKeyError ESplit) => [3%Z]
  | Some (AKeyError EIndex) => [4%Z]
  | Some AMethod => [5%Z]
  | Some AName => [6%Z]
  | Some ACorrupt => [9%Z]
  end.

Definition enc_rerr (e : option rerr) : list Z :=
  match e with
  | None => [0%Z]
  | Some RKeyError => [7%Z]
  | Some RWildHooks => [8%Z]
  end.

Definition run_cmd (R : router) (c : cmd) : router * list Z :=
  match c with
  | CAdd rule p nm fl ms h name ow =>
    let (R', e) := rt_add R rule p nm fl ms h name ow in (R', enc_aerr e)
  | CRemovePattern p => let (R', e) := rt_remove_pattern R p in (R', enc_rerr e)
  | CRemoveName n => let (R', e) := rt_remove_name R n in (R', enc_rerr e)
  | CAddHook p nm fl h pt => let (R', e) := rt_add_hook R p nm fl h pt in (R', enc_aerr e)
  | CRemoveHook p => let (R', e) := rt_remove_hook R p in (R', enc_rerr e)
  | CRemoveMethod p fl ms => (rt_remove_method R p fl ms, [0%Z])
  | CRemoveObj p fl => let (R', e) := rt_remove_obj R p fl in (R', enc_rerr e)
  | CRouteMethod p fl ms h ow => let (R', e) := rt_route_method R p fl ms h ow in (R', enc_aerr e)
  | PResolveRoute path tab =>
    (R, match get (filt_of_table tab (length (strip_sep path))) true (tree R) (strip_sep path) with
        | GFound d _ _ _ => 1%Z :: enc_route_obs R d
        | GFail _ _ _ => [0%Z]
        end)
  | PCallRoute p fl verb =>
    (R, match rt_match R p fl with
        | None => [2%Z]
        | Some d => match nth_error (heap R) d with
                    | None => [9%Z]
                    | Some rt => match mt_get (r_methods rt) verb with
                                 | Some (h, _) => [1%Z; Z.of_nat h]
                                 | None => [0%Z]
                                 end
                    end
        end)
  | PGetHook p =>
    (R, match al_get (hooks_idx R) p with
        | Some hp => 1%Z :: enc_ohid (fst hp) ++ enc_ohid (snd hp)
        | None => [0%Z]
        end)
  | PIter sw yh =>
    (R, enc_list (fun x => enc_str (fst x)
                          ++ match fst (snd x) with
                             | Some d => match nth_error (heap R) d with
                                         | Some rt => [1%Z; Z.of_nat (r_rule rt)]
                                         | None => [1%Z; (-1)%Z]
                                         end
                             | None => [0%Z]
                             end
                          ++ match snd (snd x) with
                             | Some hp => 1%Z :: enc_ohid (fst hp) ++ enc_ohid (snd hp)
                             | None => [0%Z]
                             end) (routes_iter (tree R) sw yh))
  | PDispatch path verb tab =>
    (R, enc_rres R (req_path path) (to_route (filt_of_table tab (length (strip_sep path))) R path verb))
  | PByName n =>
    (R, match al_get (named R) n with
        | Some d => 1%Z :: enc_route_obs R d
        | None => [0%Z]
        end)
  | PByRule p fl =>
    (R, match rt_match R p fl with
        | Some d => 1%Z :: enc_route_obs R d
        | None => [0%Z]
        end)
  | PListing =>
    (R, enc_list (fun kv => enc_str (fst kv) ++ enc_route_obs R (snd kv)) (routes R)
        ++ enc_list (fun kv => enc_str (fst kv) ++ enc_route_obs R (snd kv)) (named R)
        ++ enc_list (fun kv => enc_str (fst kv) ++ enc_ohid (fst (snd kv)) ++ enc_ohid (snd (snd kv)))
                    (hooks_idx R))
  end.

Fixpoint run_cmds (R : router) (cs : list cmd) : list Z :=
  match cs with
  | [] => []
  | c :: cs' => let (R', o) := run_cmd R c in o ++ run_cmds R' cs'
  end.

(* the router state after a script (the probes do not change it) *)
Definition exec_cmds (R : router) (cs : list cmd) : router :=
  fold_left (fun R c => fst (run_cmd R c)) cs R.

(* ---- decoding ---- *)
Definition dec_bool (l : list Z) : option (bool * list Z) :=
  match l with [] => None | z :: r => Some (negb (Z.eqb z 0), r) end.

Definition dec_ofid (l : list Z) : option (option fid * list Z) :=
  match l with
  | [] => None
  | z :: r => Some (if Z.eqb z 0 then None else Some (Z.to_nat z - 1), r)
  end.

Definition dec_ostr (l : list Z) : option (option str * list Z) :=
  match l with
  | [] => None
  | z :: r => if Z.eqb z 0 then Some (None, r)
              else match dec_str r with
                   | Some (s, r') => Some (Some s, r')
                   | None => None
                   end
  end.

Definition dec_cell (l : list Z) : option (option (value * nat) * list Z) :=
  match l with
  | [] => None
  | z :: r => if Z.eqb z 0 then Some (None, r)
              else match dec_str r with
                   | Some (v, r1) => match dec_nat r1 with
                                     | Some (n, r2) => Some (Some (v, n), r2)
                                     | None => None
                                     end
                   | None => None
                   end
  end.

Definition bind {A B} (o : option (A * list Z)) (f : A -> list Z -> option B) : option B :=
  match o with Some (a, r) => f a r | None => None end.

Definition dec_cmd (l : list Z) : option (cmd * list Z) :=
  match l with
  | [] => None
  | tag :: r =>
    match Z.to_nat tag with
    | 0 =>
      bind (dec_nat r) (fun rule r => bind (dec_str r) (fun p r =>
      bind (dec_list dec_str r) (fun nm r => bind (dec_list dec_ofid r) (fun fl r =>
      bind (dec_list dec_str r) (fun ms r => bind (dec_nat r) (fun h r =>
      bind (dec_ostr r) (fun name r => bind (dec_bool r) (fun ow r =>
      Some (CAdd rule p nm fl ms h name ow, r)))))))))
    | 1 => bind (dec_str r) (fun p r => Some (CRemovePattern p, r))
    | 2 => bind (dec_str r) (fun n r => Some (CRemoveName n, r))
    | 3 =>
      bind (dec_str r) (fun p r => bind (dec_list dec_str r) (fun nm r =>
      bind (dec_list dec_ofid r) (fun fl r => bind (dec_nat r) (fun h r =>
      bind (dec_bool r) (fun pt r => Some (CAddHook p nm fl h pt, r))))))
    | 4 => bind (dec_str r) (fun p r => Some (CRemoveHook p, r))
    | 5 =>
      bind (dec_str r) (fun p r => bind (dec_list dec_ofid r) (fun fl r =>
      bind (dec_list dec_str r) (fun ms r => Some (CRemoveMethod p fl ms, r))))
    | 6 => bind (dec_str r) (fun p r => bind (dec_list dec_ofid r) (fun fl r => Some (CRemoveObj p fl, r)))
    | 7 =>
      bind (dec_str r) (fun p r => bind (dec_list dec_ofid r) (fun fl r =>
      bind (dec_list dec_str r) (fun ms r => bind (dec_nat r) (fun h r =>
      bind (dec_bool r) (fun ow r => Some (CRouteMethod p fl ms h ow, r))))))
    | 14 =>
      bind (dec_str r) (fun path r =>
      bind (dec_list (dec_list dec_cell) r) (fun tab r => Some (PResolveRoute path tab, r)))
    | 15 =>
      bind (dec_str r) (fun p r => bind (dec_list dec_ofid r) (fun fl r =>
      bind (dec_str r) (fun verb r => Some (PCallRoute p fl verb, r))))
    | 16 => bind (dec_str r) (fun p r => Some (PGetHook p, r))
    | 17 => bind (dec_str r) (fun sw r => bind (dec_bool r) (fun yh r => Some (PIter sw yh, r)))
    | 10 =>
      bind (dec_str r) (fun path r => bind (dec_str r) (fun verb r =>
      bind (dec_list (dec_list dec_cell) r) (fun tab r => Some (PDispatch path verb tab, r))))
    | 11 => bind (dec_str r) (fun n r => Some (PByName n, r))
    | 12 => bind (dec_str r) (fun p r => bind (dec_list dec_ofid r) (fun fl r => Some (PByRule p fl, r)))
    | 13 => Some (PListing, r)
    | _ => None
    end
  end.

Definition corr_router (inp : list Z) : list Z :=
  match dec_list dec_cmd inp with
  | Some (cs, _) => run_cmds router0 cs
  | None => bad_input
  end.

Definition corr_C01 := corr_router.
Definition corr_C02 := corr_router.
Definition corr_C11 := corr_router.
