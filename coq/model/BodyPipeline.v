(* BodyPipeline.v — the whole request-body pipeline as one total function (C12):

     process : json oracle -> config -> CONTENT_TYPE -> framing -> stream -> access
               -> Ok value | Client code | ServerFault what

   following ombott/request_pkg/body_mixin.py (BodyMixin._body, _get_body_string,
   json, POST/forms/files) and request.py (BaseRequest._raise with
   DefaultConfig.errors_map taken from gen/Gen.v), as they are after the fixes
   F8, F9, F16 (and F4-F7).  Components: the read loops of Body.v / Chunked.v
   (re-stated here with the list of PARTS they yield, because every part is fed
   to the streaming multipart parser, Multipart.markup_chunks; proofs/C12_refine.v
   proves, for ALL inputs, that they yield the outcome and the body of
   Chunked.body_read_env — i.e. of Body.body_read_cl / Chunked.body_read_chunked —
   so there is no second, independent model of _iter_body / _iter_chunked),
   Fields.v for the field layer.  The framing metadata enters as the raw header
   values: CONTENT_LENGTH through int() (PyIntParse.py_int_dec; ValueError is a
   ServerFault constructor: finding C12-content-length-not-int) and
   HTTP_TRANSFER_ENCODING through Chunked.te_chunked.

   Every Python operation of this code path that can raise is either routed to
   [raise_] (the code catches it and calls self._raise) or is a [ServerFault]
   constructor.  json.loads is not modelled: [jk b] says whether it raises
   (None; assumed: only ValueError or RecursionError, both caught after F16) or
   what kind of value it returns.  parse_qsl (urlencoded forms) is total (C18)
   and its result is not represented.  No proofs in this file. *)
From Verif Require Import lib.Base lib.Str lib.Utf8 lib.PyIntHex lib.PyIntParse gen.Gen.
From Verif Require Import model.Stream model.Body.
From Verif Require model.Chunked.
From Verif Require Import model.MultipartRef model.Multipart model.Fields.
Local Open Scope N_scope.

(* ------------------------------------------------------------------ *)
(* MULTIPART_BOUNDARY_PATT = '^multipart/.+?boundary=(.+?)(;|$)' used with .match
   on the raw CONTENT_TYPE (body_mixin.py:18, 244; text pinned in
   proofs/C12_pipeline.v).  `.` does not match LF; `$` matches at the end and
   before a final LF.  Hand derivation (validated against `re` on 1 464 843
   strings built from {x ; LF boundary= =} after multipart/, Multipart/, multipart):
   the string starts with multipart/ ; the lazy `.+?` takes s[10:i], i >= 11, free of
   LF; at the FIRST such i where boundary= follows and a group can be formed, the
   group is s[j:e], j = i+9, for the first e >= j+1 with s[j:e] free of LF and
   (e = |s| or s[e] = ';' or (e = |s|-1 and s[e] = LF)). *)
Definition s_multipart_slash : str := [109;117;108;116;105;112;97;114;116;47].
Definition s_boundary_eq : str := [98;111;117;110;100;97;114;121;61].
Definition LFc : N := 10.

(* the group, from r = s[j:] : first character must exist and not be LF *)
Fixpoint bgroup_rest (r : str) : option str :=       (* r = s[e:] with e >= j+1 *)
  match r with
  | [] => Some []                                     (* e = |s| *)
  | c :: r' =>
    if N.eqb c SEMI then Some []
    else if N.eqb c LFc then match r' with [] => Some [] | _ => None end
    else option_map (cons c) (bgroup_rest r')
  end.

Definition bgroup (r : str) : option str :=
  match r with
  | [] => None
  | c :: r' => if N.eqb c LFc then None else option_map (cons c) (bgroup_rest r')
  end.

(* r = s[i:] for i >= 11, s[10:i] free of LF *)
Fixpoint bscan (r : str) : option str :=
  let here := if prefixb s_boundary_eq r then bgroup (skipn 9 r) else None in
  match here with
  | Some g => Some g
  | None =>
    match r with
    | [] => None
    | c :: r' => if N.eqb c LFc then None else bscan r'
    end
  end.

Definition boundary_match (ctype : str) : option str :=
  if prefixb s_multipart_slash ctype then
    match skipn 10 ctype with
    | [] => None
    | c :: r => if N.eqb c LFc then None else bscan r
    end
  else None.

(* ------------------------------------------------------------------ *)
(* the read loops with the parts they yield *)
Inductive rres :=
| RDone (parts : list bytes)
| RTooLarge              (* BodySizeError() in _body_read *)
| RParse                 (* BodyParsingError() in _iter_chunked *)
| ROutOfFuel.

(* Body.cl_loop with parts *)
Fixpoint cl_parts (fuel : nat) (s : stream) (buf : nat) (maxb : option nat)
         (rest_len : nat) (parts : list bytes) (size : nat) : rres :=
  match fuel with
  | O => ROutOfFuel
  | S f =>
    if Nat.eqb rest_len 0 then RDone parts
    else
      let (part, s') := read s (Nat.min rest_len buf) in
      match part with
      | [] => RDone parts
      | _ =>
        let size' := (size + length part)%nat in
        if over maxb size' then RTooLarge
        else cl_parts f s' buf maxb (rest_len - length part) (parts ++ [part]) size'
      end
  end.

Inductive ppres := PPCont (s : stream) (parts : list bytes) (size : nat) | PPStop (r : rres).

(* Chunked.ch_payload with parts *)
Fixpoint ch_payload_p (fuel : nat) (s : stream) (buf : nat) (maxb : option nat)
         (rest_len : Z) (parts : list bytes) (size : nat) : ppres :=
  match fuel with
  | O => PPStop ROutOfFuel
  | S f =>
    if (rest_len <=? 0)%Z then PPCont s parts size
    else
      let (part, s') := read s (Z.to_nat (Z.min rest_len (Z.of_nat buf))) in
      match part with
      | [] => PPStop RParse
      | _ =>
        let size' := (size + length part)%nat in
        if over maxb size' then PPStop RTooLarge
        else ch_payload_p f s' buf maxb (rest_len - Z.of_nat (length part))%Z (parts ++ [part]) size'
      end
  end.

(* Chunked.ch_loop with parts *)
Fixpoint ch_parts (fuel : nat) (s : stream) (buf : nat) (maxb : option nat)
         (parts : list bytes) (size : nat) : rres :=
  match fuel with
  | O => ROutOfFuel
  | S f =>
    match Chunked.scan_line buf s false false [] with
    | (None, _) => RParse
    | (Some digits, s1) =>
      match py_int_hex digits with
      | None => RParse
      | Some rest_len =>
        if (rest_len =? 0)%Z then RDone parts
        else
          match ch_payload_p (S (length (rest s1))) s1 buf maxb rest_len parts size with
          | PPStop r => r
          | PPCont s2 parts2 size2 =>
            let (c1, s3) := read s2 1 in
            if Chunked.is_byte c1 13 then
              let (c2, s4) := read s3 1 in
              if Chunked.is_byte c2 10 then ch_parts f s4 buf maxb parts2 size2
              else RParse
            else RParse
          end
      end
    end
  end.

Record config := mkCfg { c_memfile : nat; c_maxbody : option nat }.

(* the framing metadata of the request, as the raw environ values:
   CONTENT_LENGTH (None = absent) and HTTP_TRANSFER_ENCODING (absent = []) *)
Record framing := mkFraming { fr_cl_raw : option str; fr_te : str }.

(* BodyMixin.content_length (body_mixin.py:112): int(environ.get('CONTENT_LENGTH') or -1);
   None = int() raises ValueError *)
Definition content_length (fr : framing) : option Z :=
  match fr_cl_raw fr with
  | None => Some (-1)%Z
  | Some [] => Some (-1)%Z
  | Some x => py_int_dec x
  end.

(* _body_read (body_mixin.py:81) under the glue of _body: chunked wins over Content-Length *)
Definition read_parts (cfg : config) (cl : Z) (te : str) (s : stream) : rres :=
  if Chunked.te_chunked te then ch_parts (S (length (rest s))) s (c_memfile cfg) (c_maxbody cfg) [] 0
  else cl_parts (S (length (rest s))) s (c_memfile cfg) (c_maxbody cfg) (Z.to_nat cl) [] 0.

(* ------------------------------------------------------------------ *)
Inductive fault :=
| FAssertion                     (* an assert of iter_items *)
| FNegSeek                       (* seek to a negative offset *)
| FUnmapped (cls : str)          (* _raise found no entry: the bare RequestError escapes *)
| FEncode                        (* str.encode() of the boundary: lone surrogate in CONTENT_TYPE *)
| FContentLength                 (* int(CONTENT_LENGTH) raises ValueError (body_mixin.py:112) *)
| FOutOfFuel.                    (* a loop of the model ran out of fuel: would be a hang *)

Inductive jkind := JObject | JNull | JOther.     (* json.loads returned a dict / None / anything else *)

Inductive value :=
| VBody (b : bytes)
| VJson (k : option jkind)       (* None: the property returned None without parsing *)
| VUrlForms                      (* parse_qsl result, not represented (C18) *)
| VJsonForms (k : option jkind)
| VMultipart (d : post_dicts).

Inductive outcome :=
| Ok (v : value)
| Client (code : Z)
| ServerFault (what : fault).

Inductive access := AForms | AFiles | APost | AJson | ABody.

(* class names *)
Definition n_RequestError : str := [82;101;113;117;101;115;116;69;114;114;111;114].
Definition n_BodySizeError : str := [66;111;100;121;83;105;122;101;69;114;114;111;114].
Definition n_BodyParsingError : str := [66;111;100;121;80;97;114;115;105;110;103;69;114;114;111;114].
Definition n_InvalidBoundaryError : str :=
  [73;110;118;97;108;105;100;66;111;117;110;100;97;114;121;69;114;114;111;114].
Definition n_MalformedHeadersError : str :=
  [77;97;108;102;111;114;109;101;100;72;101;97;100;101;114;115;69;114;114;111;114].
Definition n_UnexpectedBodyEndError : str :=
  [85;110;101;120;112;101;99;116;101;100;66;111;100;121;69;110;100;69;114;114;111;114].
Definition n_AssertionError : str := [65;115;115;101;114;116;105;111;110;69;114;114;111;114].

Definition mp_error_name (e : mp_error) : str :=
  match e with
  | EInvalidBoundary => n_InvalidBoundaryError
  | EMalformedHeaders => n_MalformedHeadersError
  | EUnexpectedBodyEnd => n_UnexpectedBodyEndError
  | EAssertion => n_AssertionError
  | EOutOfFuel => n_AssertionError
  end.

Fixpoint emap_get (m : list (list N * (Z * list N))) (cls : str) : option Z :=
  match m with
  | [] => None
  | (k, (code, _)) :: r => if str_eqb k cls then Some code else emap_get r cls
  end.

(* BaseRequest._raise(err, RequestError) (request.py:39): exact class, then the
   except class; no entry: the error itself is raised and escapes as 500 *)
Definition raise_in (m : list (list N * (Z * list N))) (cls : str) : outcome :=
  match emap_get m cls with
  | Some code => Client code
  | None => match emap_get m n_RequestError with
            | Some code => Client code
            | None => ServerFault (FUnmapped cls)
            end
  end.

Definition raise_ (cls : str) : outcome := raise_in Gen.errors_map cls.

Definition s_app_json : str := [97;112;112;108;105;99;97;116;105;111;110;47;106;115;111;110].

Section Pipeline.
(* json.loads on the body string: None = it raises (ValueError / RecursionError) *)
Variable jk : bytes -> option jkind.

Variable cfg : config.
Variable ctype_raw : str.        (* environ['CONTENT_TYPE'] *)
Variable fr : framing.
Variable s : stream.

(* BodyMixin._body (body_mixin.py:252): the buffered body and the markup object *)
Definition body_stage : (bytes * option (list section * option mp_error)) + outcome :=
  let mp := boundary_match ctype_raw in
  let bnd :=                                   (* MultipartMarkup(mp.group(1)) : boundary.encode() *)
    match mp with
    | None => inl None
    | Some b => match utf8_encode b with
                | None => inr (ServerFault FEncode)
                | Some B => if contains_char N.eqb CR B then inr (raise_ n_InvalidBoundaryError)
                            else inl (Some B)
                end
    end in
  match bnd with
  | inr o => inr o
  | inl B =>
    match content_length fr with                 (* content_length=self.content_length *)
    | None => inr (ServerFault FContentLength)   (* ValueError: not caught by `except RequestError` *)
    | Some cl =>
      match read_parts cfg cl (fr_te fr) s with
      | RTooLarge => inr (raise_ n_BodySizeError)
      | RParse => inr (raise_ n_BodyParsingError)
      | ROutOfFuel => inr (ServerFault FOutOfFuel)
      | RDone parts => inl (concat parts, option_map (fun B => markup_chunks B parts) B)
      end
    end
  end.

(* BodyMixin._get_body_string (body_mixin.py:274) *)
Definition get_body_string : bytes + outcome :=
  match body_stage with
  | inr o => inr o
  | inl (body, _) =>
    let mx := Z.of_nat (c_memfile cfg) in
    match content_length fr with                 (* cached: _body already evaluated it *)
    | None => inr (ServerFault FContentLength)
    | Some cl0 =>
      (* F37: content_length = -1 if self.chunked else self.content_length — a chunked
         body is delimited by its framing, a Content-Length sent next to it is ignored *)
      let cl := if Chunked.te_chunked (fr_te fr) then (-1)%Z else cl0 in
      if (mx <? cl)%Z then inr (raise_ n_BodySizeError)
      else
        let n := if (cl <? 0)%Z then (mx + 1)%Z else cl in
        let data := firstn (Z.to_nat n) body in
        if (mx <? Z.of_nat (length data))%Z then inr (raise_ n_BodySizeError)
        else inl data
    end
  end.

Definition content_type : str := lower ctype_raw.     (* exact for the ASCII comparisons below *)

(* BodyMixin.json (body_mixin.py:152, after F16) *)
Definition json_prop : outcome :=
  let ct0 := strip (hd [] (split_all N.eqb SEMI content_type)) in
  if str_eqb ct0 s_app_json then
    match get_body_string with
    | inr o => o
    | inl b =>
      match b with
      | [] => Ok (VJson None)
      | _ => match jk b with
             | None => raise_ n_BodyParsingError
             | Some k => Ok (VJson (Some k))
             end
      end
    end
  else Ok (VJson None).

(* BodyMixin.POST (body_mixin.py:165, after F9 and F16) *)
Definition post_prop : outcome :=
  if negb (prefixb s_multipart_slash content_type) then
    if prefixb s_app_json content_type then
      match json_prop with
      | Ok (VJson None) => Ok (VJsonForms None)
      | Ok (VJson (Some JNull)) => Ok (VJsonForms (Some JNull))
      | Ok (VJson (Some JObject)) => Ok (VJsonForms (Some JObject))
      | Ok (VJson (Some JOther)) => raise_ n_BodyParsingError
      | o => o
      end
    else
      match get_body_string with
      | inr o => o
      | inl _ => Ok VUrlForms
      end
  else
    match body_stage with
    | inr o => o
    | inl (_, None) => raise_ n_BodyParsingError              (* markup is None *)
    | inl (body, Some m) =>
      match snd m with
      | Some e => raise_ (mp_error_name e)                    (* markup.error *)
      | None =>
        match iter_items body (fst m) (Z.of_nat (c_memfile cfg)) with
        | IOk fs => Ok (VMultipart (collect_fields fs))
        | IErr ESize => raise_ n_BodySizeError
        | IErr EParse => raise_ n_BodyParsingError
        | IErr ENegSeek => ServerFault FNegSeek
        | IAssert => ServerFault FAssertion
        end
      end
    end.

Definition body_prop : outcome :=
  match body_stage with
  | inr o => o
  | inl (body, _) => Ok (VBody body)
  end.

Definition process (a : access) : outcome :=
  match a with
  | AForms | AFiles | APost => post_prop
  | AJson => json_prop
  | ABody => body_prop
  end.

(* a handler that reads one property and then another on the same request: every
   property is a function of the request (caches only memoise), so the second
   access sees what it would see alone — unless the first one already ended the
   request with an error response *)
Definition process_seq (pre : option access) (a : access) : outcome :=
  match pre with
  | None => process a
  | Some a0 => match process a0 with
               | Ok _ => process a
               | o => o
               end
  end.

End Pipeline.

(* ------------------------------------------------------------------ *)
(* correspondence interface *)
Definition enc_jk (k : option jkind) : Z :=
  match k with None => 0 | Some JNull => 0 | Some JObject => 1 | Some JOther => 2 end%Z.

Definition enc_fault (f : fault) : Z :=
  match f with FAssertion => 1 | FNegSeek => 2 | FUnmapped _ => 3 | FEncode => 4 | FOutOfFuel => 5
             | FContentLength => 6 end%Z.

Definition enc_outcome (o : outcome) : list Z :=
  match o with
  | Ok (VBody b) => [0; 0]%Z ++ enc_str b
  | Ok (VJson k) => [0; 1; enc_jk k]%Z
  | Ok VUrlForms => [0; 2]%Z
  | Ok (VJsonForms k) => [0; 3; enc_jk k]%Z
  | Ok (VMultipart _) => [0; 4]%Z                  (* dictionaries: see enc_result *)
  | Client c => [1; c]%Z
  | ServerFault f => [2; enc_fault f]%Z
  end.

(* the json oracle of one case: kind of json.loads(payload[:i]) for every i,
   0 = raises, 1 = dict, 2 = None, 3 = other *)
Definition jk_of_table (tab : list Z) (b : bytes) : option jkind :=
  match nth (length b) tab 0%Z with
  | 1%Z => Some JObject
  | 2%Z => Some JNull
  | 3%Z => Some JOther
  | _ => None
  end.

Definition dec_access (z : Z) : access :=
  match z with 0%Z => AForms | 1%Z => AFiles | 2%Z => APost | 3%Z => AJson | _ => ABody end.

(* the multipart dictionaries are encoded against the buffered body *)
Definition enc_result (cfg : config) (ctype : str) (fr : framing) (s : stream) (o : outcome) : list Z :=
  match o with
  | Ok (VMultipart d) =>
    let body := match content_length fr with
                | Some cl => match read_parts cfg cl (fr_te fr) s with RDone parts => concat parts | _ => [] end
                | None => []
                end in
    [0; 4]%Z ++ enc_fdict body 0 (d_post d) ++ enc_fdict body 0 (d_forms d) ++ enc_fdict body 0 (d_files d)
  | _ => enc_outcome o
  end.

Definition dec_nat_item (l : list Z) : option (nat * list Z) := dec_nat l.
Definition dec_Z_item (l : list Z) : option (Z * list Z) := dec_Z l.

(* input: memfile ; has_max ; max ; has_cl ; 8*pre+access (pre = 5: none) ; cl_raw ; te ; ctype ; data ; sched ; jtab *)
Definition corr_C12 (inp : list Z) : list Z :=
  match inp with
  | mem :: hm :: mx :: hcl :: acc :: r0 =>
    match dec_str r0 with
    | None => bad_input
    | Some (clraw, r00) =>
    match dec_str r00 with
    | None => bad_input
    | Some (te, r) =>
    match dec_str r with
    | Some (ctype, r1) =>
      match dec_str r1 with
      | Some (data, r2) =>
        match dec_list dec_nat_item r2 with
        | Some (sc, r3) =>
          match dec_list dec_Z_item r3 with
          | Some (tab, _) =>
            let cfg := mkCfg (Z.to_nat mem) (if Z.eqb hm 0 then None else Some (Z.to_nat mx)) in
            let fr := mkFraming (if Z.eqb hcl 0 then None else Some clraw) te in
            let st := stream_init data sc in
            let pre := if Z.eqb (acc / 8) 5 then None else Some (dec_access (acc / 8)) in
            enc_result cfg ctype fr st (process_seq (jk_of_table tab) cfg ctype fr st pre (dec_access (acc mod 8)))
          | None => bad_input
          end
        | None => bad_input
        end
      | None => bad_input
      end
    | None => bad_input
    end
    end
    end
  | _ => bad_input
  end.
